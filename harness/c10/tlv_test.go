// C10, tlv half (compiled and run inside the /repo/tlv module, so the working tree is
// what is checked).
//
// Property clause: "A TLV stream is accepted exactly when it is canonical (strictly
// increasing types, minimal BigSize encodings, lengths within bounds) and
// decode-then-encode reproduces the input."
//
// Everything below is an exhaustive enumeration of a finite space of byte strings on
// the real tlv.Stream / tlv.ReadVarInt code, judged by an independent reference
// parser written from BOLT 1 (refParse, refBigSize): the implementation must accept
// exactly the inputs the reference calls canonical, must hand back exactly the
// reference's (type,value) list, and re-encoding that list must give the input bytes.
//
//	space A  all streams of <= 3 records over types {0,1,2,253,2^16,2^32,2^64-1} x lengths
//	         {0,1,2} x every BigSize form (minimal and each longer form) of the type and of
//	         the length, in every order (duplicates, decreasing)
//	space B  <= 2 records, declared length from a structural set up to 2^64-1 versus
//	         0..3 value bytes actually present (+ allocation bound on the p2p entry points)
//	space C  every truncation of every space-A stream of <= 2 records
//	space D  one known record of every primitive decoder x declared length 0..9 x all
//	         values over a small alphabet (fixed ints, bool, truncated ints, BigSize, bytes)
//	space E  the MaxRecordSize boundary 65534..65537 on the p2p and non-p2p entry points
//	space V  ReadVarInt/WriteVarInt on every 1- and 3-byte form, the 5- and 9-byte forms at
//	         all boundaries (all 2^32 5-byte forms in the thorough tier), every truncation
package c10tlv

import (
	"bytes"
	"encoding/hex"
	"encoding/json"
	"fmt"
	"io"
	"os"
	"os/exec"
	"runtime"
	"sort"
	"strings"
	"sync"
	"testing"

	"github.com/lightningnetwork/lnd/tlv"
	"github.com/lightningnetwork/lnd/tlv/verifmc/bytemut"
	"github.com/lightningnetwork/lnd/tlv/verifmc/evid"
)

// ---------------------------------------------------------------------------------
// reference model (BOLT 1), independent of the tlv package

type refRec struct {
	typ uint64
	val []byte
}

// refParse decides canonicity of a complete stream. reason == "" iff canonical.
// maxLen > 0 is the p2p record-size rule.
func refParse(b []byte, maxLen uint64) (recs []refRec, reason string) {
	off := 0
	var prev uint64
	for off < len(b) {
		t, n, min := bytemut.ReadBigSize(b[off:])
		if n == 0 {
			return nil, "type-truncated"
		}
		if !min {
			return nil, "type-not-minimal"
		}
		if len(recs) > 0 && t <= prev {
			if t == prev {
				return nil, "type-duplicate"
			}
			return nil, "type-decreasing"
		}
		if off+n == len(b) {
			return nil, "length-missing"
		}
		l, n2, min2 := bytemut.ReadBigSize(b[off+n:])
		if n2 == 0 {
			return nil, "length-truncated"
		}
		if !min2 {
			return nil, "length-not-minimal"
		}
		if maxLen > 0 && l > maxLen {
			return nil, "record-too-large"
		}
		vo := off + n + n2
		if l > uint64(len(b)-vo) {
			switch {
			case l >= 1<<63:
				return nil, "value-truncated(len>=2^63)"
			case l > 1<<48:
				return nil, "value-truncated(len>2^48)"
			case l >= 1<<32:
				return nil, "value-truncated(len>=2^32)"
			}
			return nil, "value-truncated"
		}
		recs = append(recs, refRec{typ: t, val: b[vo : vo+int(l)]})
		prev = t
		off = vo + int(l)
	}
	return recs, ""
}

// ---------------------------------------------------------------------------------
// harness state

type tlvCheck struct {
	run *evid.Run

	mu        sync.Mutex
	evals     int64
	outcomes  map[string]int64
	accepted  map[string]struct{} // distinct accepted inputs (hex-free: raw string)
	cells     map[string]struct{} // distinct (space, entry, reject reason, #records) cells
	samples   *evid.Samples
	allocMax  uint64
	replaying bool
	childViol func(violRec) // set in the isolated child: violations go to the parent
	capsHit   []string
}

type local struct {
	evals    int64
	outcomes map[string]int64
	accepted map[string]struct{}
	cells    map[string]struct{}

	// re-used decode streams: one without known records, one with a var-bytes
	// record registered for every type of knownTypes (values in kvals).
	ustream, kstream *tlv.Stream
	kvals            [][]byte
	rejects          map[cellKey]int64
}

func newLocal() *local {
	l := &local{outcomes: map[string]int64{}, accepted: map[string]struct{}{}, cells: map[string]struct{}{}, rejects: map[cellKey]int64{}}
	l.ustream = tlv.MustNewStream()
	l.kvals = make([][]byte, len(knownTypes))
	rs := make([]tlv.Record, len(knownTypes))
	for i, t := range knownTypes {
		rs[i] = tlv.MakePrimitiveRecord(tlv.Type(t), &l.kvals[i])
	}
	l.kstream = tlv.MustNewStream(rs...)
	return l
}

var sentinel = []byte{0xEE}

type cellKey struct {
	space      string
	entry, cfg int
	reason     string
	nrecs      int
}

func (l *local) reject(space string, entry, cfg int, reason string, b []byte) {
	l.rejects[cellKey{space, entry, cfg, reason, countRecs(b)}]++
}

func (c *tlvCheck) merge(l *local) {
	c.mu.Lock()
	defer c.mu.Unlock()
	c.evals += l.evals
	for k, v := range l.outcomes {
		c.outcomes[k] += v
	}
	for k := range l.accepted {
		c.accepted[k] = struct{}{}
	}
	for k := range l.cells {
		c.cells[k] = struct{}{}
	}
	for k, v := range l.rejects {
		c.outcomes["reject:"+k.reason] += v
		c.cells[fmt.Sprintf("%s/%s/cfg%d/%s/%d", k.space, entries[k.entry].name, k.cfg, k.reason, k.nrecs)] = struct{}{}
	}
}

func (c *tlvCheck) info(format string, a ...any) {
	if c.replaying {
		fmt.Printf("INFO "+format+"\n", a...)
	}
}

type replayCase struct {
	Half   string `json:"half"`
	Space  string `json:"space"`
	Stream string `json:"stream,omitempty"` // hex
	Prim   string `json:"prim,omitempty"`   // space D primitive
	Varint string `json:"varint,omitempty"` // hex, space V
	Write  string `json:"write,omitempty"`  // decimal value, space V WriteVarInt
}

func (c *tlvCheck) violation(sig, what string, rc replayCase) {
	rc.Half = "tlv"
	if c.childViol != nil {
		c.childViol(violRec{sig, what, rc})
		return
	}
	c.run.Violation(sig, what, rc)
	c.info("VIOLATION-CLASS %s: %s", sig, what)
}

// call runs f and converts a panic into an error string.
func call(f func() error) (err error, panicked string) {
	defer func() {
		if r := recover(); r != nil {
			panicked = fmt.Sprint(r)
			if i := strings.IndexByte(panicked, '\n'); i > 0 {
				panicked = panicked[:i]
			}
		}
	}()
	return f(), ""
}

var knownTypes = []uint64{0, 1, 2, 253, 1 << 16, 1 << 32, 1<<64 - 1}

// entry points: name, p2p?, returns parsed types?
var entries = []struct {
	name   string
	p2p    bool
	parsed bool
}{
	{"Decode", false, false},
	{"DecodeP2P", true, false},
	{"DecodeWithParsedTypes", false, true},
	{"DecodeWithParsedTypesP2P", true, true},
}

func decodeWith(s *tlv.Stream, entry int, b []byte) (tlv.TypeMap, error, string) {
	var tm tlv.TypeMap
	err, p := call(func() error {
		r := bytes.NewReader(b)
		var err error
		switch entry {
		case 0:
			err = s.Decode(r)
		case 1:
			err = s.DecodeP2P(r)
		case 2:
			tm, err = s.DecodeWithParsedTypes(r)
		case 3:
			tm, err = s.DecodeWithParsedTypesP2P(r)
		}
		return err
	})
	return tm, err, p
}

func countRecs(b []byte) int {
	// number of complete record headers, for cell accounting only
	n, off := 0, 0
	for off < len(b) && n < 9 {
		_, a, _ := bytemut.ReadBigSize(b[off:])
		if a == 0 {
			break
		}
		l, a2, _ := bytemut.ReadBigSize(b[off+a:])
		if a2 == 0 {
			break
		}
		n++
		if l > uint64(len(b)) {
			break
		}
		off += a + a2 + int(l)
	}
	return n
}

// checkStream is the oracle for spaces A, B, C, E: the stream is decoded through
// every entry point, once with no known records (everything is an unknown record)
// and once with var-bytes records registered for all knownTypes.
func (c *tlvCheck) checkStream(space string, b []byte, lc *local, entryMask int) {
	for ei, e := range entries {
		if entryMask&(1<<ei) == 0 {
			continue
		}
		var maxLen uint64
		if e.p2p {
			maxLen = tlv.MaxRecordSize
		}
		recs, reason := refParse(b, maxLen)

		for cfg := 0; cfg < 2; cfg++ {
			cfgName := "unknown"
			stream := lc.ustream
			vals := lc.kvals
			if cfg == 1 {
				cfgName = "known"
				stream = lc.kstream
				for i := range vals {
					vals[i] = sentinel
				}
			}
			lc.evals++
			tm, err, pan := decodeWith(stream, ei, b)
			if err != nil && reason != "" && pan == "" && !c.replaying {
				// fast path: both reject
				lc.reject(space, ei, cfg, reason, b)
				continue
			}
			rc := replayCase{Space: space, Stream: hex.EncodeToString(b)}
			pre := "tlv:" + e.name + ":" + cfgName + ":"
			c.info("%s(%s records) on %x -> err=%v panic=%q; reference: canonical=%v %s", e.name, cfgName, b, err, pan, reason == "", reason)
			if pan != "" {
				lc.outcomes["VIOL-panic"]++
				c.violation(pre+"panic:"+reasonOr(reason, "canonical"),
					fmt.Sprintf("%s panicked (%s) on stream %x", e.name, pan, b), rc)
				continue
			}
			if (err == nil) != (reason == "") {
				if err == nil {
					lc.outcomes["VIOL-accepted-noncanonical"]++
					c.violation(pre+"accepted-noncanonical:"+reason,
						fmt.Sprintf("%s accepted the non-canonical stream %x (reference: %s)", e.name, b, reason), rc)
				} else {
					lc.outcomes["VIOL-rejected-canonical"]++
					c.violation(pre+"rejected-canonical",
						fmt.Sprintf("%s rejected the canonical stream %x: %v", e.name, b, err), rc)
				}
				continue
			}
			if err != nil {
				lc.reject(space, ei, cfg, reason, b)
				continue
			}
			lc.outcomes["accept"]++
			if len(b) <= 64 {
				lc.accepted[string(b)] = struct{}{}
			} else {
				lc.accepted[fmt.Sprintf("%d:%x", len(b), b[:24])] = struct{}{}
			}
			// accepted: values handed back must be the reference's, and re-encoding
			// them must reproduce the input.
			var enc []tlv.Record
			if cfg == 0 {
				if e.parsed {
					if len(tm) != len(recs) {
						c.violation(pre+"typemap-size", fmt.Sprintf("%s on %x returned %d types, reference has %d records", e.name, b, len(tm), len(recs)), rc)
						continue
					}
					m := map[uint64][]byte{}
					bad := false
					for _, r := range recs {
						v, ok := tm[tlv.Type(r.typ)]
						if !ok || !bytes.Equal(v, r.val) {
							bad = true
						}
						m[r.typ] = v
					}
					if bad {
						c.violation(pre+"typemap-value", fmt.Sprintf("%s on %x returned %v, reference records %v", e.name, b, tm, recs), rc)
						continue
					}
					enc = tlv.MapToRecords(m)
				}
			} else {
				bad := false
				for i, t := range knownTypes {
					want := sentinel // untouched
					for _, r := range recs {
						if r.typ == t {
							want = r.val
						}
					}
					if !bytes.Equal(vals[i], want) {
						bad = true
					}
				}
				if e.parsed && len(tm) != len(recs) {
					bad = true
				}
				if bad {
					c.violation(pre+"decoded-value", fmt.Sprintf("%s on %x decoded %x, reference records %v", e.name, b, vals, recs), rc)
					continue
				}
				for _, r := range recs {
					for i, t := range knownTypes {
						if t == r.typ {
							enc = append(enc, tlv.MakePrimitiveRecord(tlv.Type(t), &vals[i]))
						}
					}
				}
				if len(enc) != len(recs) {
					enc = nil // a type outside knownTypes was present (space E); skip
				}
			}
			if enc != nil || (cfg == 0 && e.parsed) {
				var out bytes.Buffer
				err, pan := call(func() error {
					s, err := tlv.NewStream(enc...)
					if err != nil {
						return err
					}
					return s.Encode(&out)
				})
				c.info("re-encode -> %x err=%v panic=%q", out.Bytes(), err, pan)
				if err != nil || pan != "" || !bytes.Equal(out.Bytes(), b) {
					lc.outcomes["VIOL-reencode"]++
					c.violation(pre+"reencode-differs", fmt.Sprintf("decode-then-encode of canonical stream %x gave %x (err=%v panic=%q)", b, out.Bytes(), err, pan), rc)
				}
			}
		}
	}
}

func reasonOr(r, d string) string {
	if r == "" {
		return d
	}
	return r
}

// ---------------------------------------------------------------------------------
// space A / C

type recEnc struct {
	bytes []byte // type form + length form (value appended per position)
	l     int
}

func recordEncodings(types []uint64) []recEnc {
	var out []recEnc
	for _, t := range types {
		for _, tf := range []int{1, 3, 5, 9} {
			tb := bytemut.BigSizeForm(t, tf)
			if tb == nil {
				continue
			}
			for l := 0; l <= 2; l++ {
				for _, lf := range []int{1, 3, 5, 9} {
					lb := bytemut.BigSizeForm(uint64(l), lf)
					out = append(out, recEnc{bytes: append(append([]byte{}, tb...), lb...), l: l})
				}
			}
		}
	}
	return out
}

func appendRec(dst []byte, r recEnc, idx int) []byte {
	dst = append(dst, r.bytes...)
	for j := 0; j < r.l; j++ {
		dst = append(dst, byte(0x11*(idx+1)+j))
	}
	return dst
}

func (c *tlvCheck) spaceA(maxRecs int, workers int) (streams int64) {
	// Three-record streams: the quick tier runs Decode and DecodeWithParsedTypesP2P
	// (which between them cover both values of the p2p flag and of the parsed-types
	// flag of the one shared decode loop); the thorough tier runs all four.
	mask3 := 0b1001
	if c.run.Thorough() {
		mask3 = 0xf
	}
	encs := recordEncodings(knownTypes)
	n := len(encs)
	// the empty stream
	lc0 := newLocal()
	c.checkStream("A", nil, lc0, 0xf)
	c.merge(lc0)
	var wg sync.WaitGroup
	var total int64
	var tmu sync.Mutex
	next := make(chan int, n)
	rot := c.run.Seed() % n
	if rot < 0 {
		rot = 0
	}
	for i := 0; i < n; i++ {
		next <- (i + rot) % n
	}
	close(next)
	for w := 0; w < workers; w++ {
		wg.Add(1)
		go func() {
			defer wg.Done()
			defer c.recoverGo("space A")
			lc := newLocal()
			var cnt int64
			buf := make([]byte, 0, 64)
			for i := range next {
				b1 := appendRec(buf[:0], encs[i], 0)
				c.checkStream("A", b1, lc, 0xf)
				c.truncs(b1, lc)
				cnt++
				if maxRecs < 2 {
					continue
				}
				for j := 0; j < n; j++ {
					b2 := appendRec(b1, encs[j], 1)
					c.checkStream("A", b2, lc, 0xf)
					c.truncs(b2, lc)
					cnt++
					if maxRecs < 3 {
						continue
					}
					for k := 0; k < n; k++ {
						b3 := appendRec(b2, encs[k], 2)
						c.checkStream("A", b3, lc, mask3)
						cnt++
					}
				}
			}
			c.merge(lc)
			tmu.Lock()
			total += cnt
			tmu.Unlock()
		}()
	}
	wg.Wait()
	return total + 1
}

// truncs is space C: every proper prefix of b.
func (c *tlvCheck) truncs(b []byte, lc *local) {
	for l := 1; l < len(b); l++ {
		c.checkStream("C", b[:l], lc, 0xf)
	}
}

// ---------------------------------------------------------------------------------
// space B / E: declared length vs bytes present, allocation on the p2p path.

const allocBoundP2P = 4 * 65536 // bytes per decode on a p2p entry point (c = 4)

func (c *tlvCheck) measuredDecode(space string, b []byte, lc *local) {
	// single-threaded section: TotalAlloc delta around each p2p decode.
	var ms runtime.MemStats
	for _, ei := range []int{1, 3} {
		for cfg := 0; cfg < 2; cfg++ {
			var stream *tlv.Stream
			vals := make([][]byte, len(knownTypes))
			if cfg == 0 {
				stream = tlv.MustNewStream()
			} else {
				rs := make([]tlv.Record, len(knownTypes))
				for i, t := range knownTypes {
					rs[i] = tlv.MakePrimitiveRecord(tlv.Type(t), &vals[i])
				}
				stream = tlv.MustNewStream(rs...)
			}
			runtime.ReadMemStats(&ms)
			before := ms.TotalAlloc
			_, err, pan := decodeWith(stream, ei, b)
			runtime.ReadMemStats(&ms)
			d := ms.TotalAlloc - before
			lc.evals++
			if d > c.allocMax {
				c.allocMax = d
			}
			c.info("%s cfg=%d on %d-byte input allocated %d bytes (bound %d) err=%v panic=%q", entries[ei].name, cfg, len(b), d, allocBoundP2P, err, pan)
			if d > allocBoundP2P {
				lc.outcomes["VIOL-alloc"]++
				c.violation("tlv:"+entries[ei].name+":alloc-bound",
					fmt.Sprintf("%s allocated %d bytes (> %d) decoding a %d-byte stream %x…", entries[ei].name, d, allocBoundP2P, len(b), b[:min(len(b), 24)]),
					replayCase{Space: space, Stream: hex.EncodeToString(b)})
			}
		}
	}
}

var claimLens = []uint64{0, 1, 2, 3, 0xfc, 0xfd, 0xffff, 0x10000, 1<<32 - 1, 1 << 32, 1 << 48, 1<<48 + 1, 1<<63 - 1, 1 << 63, 1<<64 - 1}

// beCase is one input of space B or E. Both spaces run in a child process (see
// runIsolated): a decoder that honours an absurd length claim dies with a fatal
// "out of memory", which no recover() can catch; the parent then attributes the
// death to the case the child was working on and reports it as a violation.
type beCase struct {
	space    string
	b        []byte
	measured bool // also run the allocation accounting on the p2p entry points
}

func beCases() []beCase {
	var recs [][]byte
	for _, t := range knownTypes {
		for _, l := range claimLens {
			for present := 0; present <= 3; present++ {
				b := append(bytemut.BigSize(t), bytemut.BigSize(l)...)
				for j := 0; j < present; j++ {
					b = append(b, byte(0x31+j))
				}
				recs = append(recs, b)
			}
		}
	}
	var out []beCase
	for _, r1 := range recs {
		out = append(out, beCase{"B", r1, true})
	}
	// two records: every ordered pair (the bytes of the second record are what a
	// dishonest first record would swallow).
	for _, r1 := range recs {
		for _, r2 := range recs {
			out = append(out, beCase{"B", append(append([]byte{}, r1...), r2...), false})
		}
	}
	for _, t := range []uint64{1, 3, 1 << 32} {
		for _, l := range []int{65534, 65535, 65536, 65537} {
			b := append(bytemut.BigSize(t), bytemut.BigSize(uint64(l))...)
			v := make([]byte, l)
			for i := range v {
				v[i] = byte(i*7 + 1)
			}
			b = append(b, v...)
			out = append(out, beCase{"E", b, true}, beCase{"E", b[:len(b)-1], false})
		}
	}
	return out
}

// maxClaim is the largest record length announced by the record headers of b
// (walking records while their values are completely present).
func maxClaim(b []byte) uint64 {
	var m uint64
	off := 0
	for off < len(b) {
		_, n, _ := bytemut.ReadBigSize(b[off:])
		if n == 0 {
			break
		}
		l, n2, _ := bytemut.ReadBigSize(b[off+n:])
		if n2 == 0 {
			break
		}
		if l > m {
			m = l
		}
		vo := off + n + n2
		if l > uint64(len(b)-vo) {
			break
		}
		off = vo + int(l)
	}
	return m
}

// entryMaskFor: the non-p2p entry points are documented as unbounded ("only checked
// when the p2p bool is true"): a claim in [2^24, 2^48] makes them allocate (and clear)
// that much by design (a fatal out-of-memory near the top of the range), so those
// inputs go to the p2p entry points only. Claims > 2^48 (= the runtime's maxAlloc on
// 64-bit) can never be allocated - the runtime refuses them with a recoverable panic,
// or the int64 conversion wraps - and stay in.
func entryMaskFor(b []byte) int {
	if m := maxClaim(b); m >= 1<<24 && m <= 1<<48 {
		return 0b1010
	}
	return 0xf
}

func (c *tlvCheck) runCase(k beCase, lc *local) {
	mask := entryMaskFor(k.b)
	if mask != 0xf {
		lc.outcomes["nonp2p-skipped-unbounded-by-design"]++
	}
	c.checkStream(k.space, k.b, lc, mask)
	if k.measured {
		c.measuredDecode(k.space, k.b, lc)
	}
}

type violRec struct {
	Sig    string     `json:"sig"`
	What   string     `json:"what"`
	Replay replayCase `json:"replay"`
}

type childResult struct {
	Done     bool             `json:"done"`
	Evals    int64            `json:"evals"`
	Outcomes map[string]int64 `json:"outcomes"`
	Accepted []string         `json:"accepted"` // hex
	Cells    []string         `json:"cells"`
	AllocMax uint64           `json:"alloc_max"`
}

// childMain is the body of the isolated child: cases [start, ...) or one explicit
// stream. Violations are appended to the result file as they are found (one JSON
// line each) so that a later fatal crash cannot lose them.
func (c *tlvCheck) childMain() {
	resPath := os.Getenv("VERIF_C10_TLV_RESULT")
	res, err := os.OpenFile(resPath, os.O_CREATE|os.O_WRONLY|os.O_APPEND, 0o644)
	if err != nil {
		fmt.Println("child: ", err)
		os.Exit(3)
	}
	prog, err := os.OpenFile(os.Getenv("VERIF_C10_TLV_PROGRESS"), os.O_CREATE|os.O_WRONLY, 0o644)
	if err != nil {
		fmt.Println("child: ", err)
		os.Exit(3)
	}
	c.childViol = func(v violRec) {
		j, _ := json.Marshal(map[string]any{"violation": v})
		res.Write(append(j, '\n'))
	}
	lc := newLocal()
	if hs := os.Getenv("VERIF_C10_TLV_STREAM"); hs != "" {
		b, _ := hex.DecodeString(hs)
		c.runCase(beCase{os.Getenv("VERIF_C10_TLV_SPACE"), b, true}, lc)
	} else {
		var start int
		fmt.Sscan(os.Getenv("VERIF_C10_TLV_CHILD"), &start)
		cases := beCases()
		var cell [8]byte
		for i := start; i < len(cases); i++ {
			for j := 0; j < 8; j++ {
				cell[j] = byte(uint64(i) >> (8 * j))
			}
			prog.WriteAt(cell[:], 0)
			c.runCase(cases[i], lc)
		}
	}
	c.merge(lc)
	out := childResult{Done: true, Evals: c.evals, Outcomes: c.outcomes, AllocMax: c.allocMax}
	for k := range c.accepted {
		out.Accepted = append(out.Accepted, hex.EncodeToString([]byte(k)))
	}
	for k := range c.cells {
		out.Cells = append(out.Cells, k)
	}
	j, _ := json.Marshal(map[string]any{"result": out})
	res.Write(append(j, '\n'))
	res.Close()
	os.Exit(0)
}

// runIsolated runs spaces B and E (or one explicit stream when stream != nil) in
// child processes and merges their results. It returns the number of cases.
func (c *tlvCheck) runIsolated(t *testing.T, space string, stream []byte) int64 {
	self := os.Getenv("VERIF_SELF")
	if self == "" {
		self, _ = os.Executable()
	}
	dir := os.Getenv("VERIF_SCRATCH")
	if dir == "" {
		dir = os.TempDir()
	}
	cases := beCases()
	start, crashes := 0, 0
	for {
		resPath := fmt.Sprintf("%s/c10tlv_child_%d.res", dir, start)
		progPath := fmt.Sprintf("%s/c10tlv_child_%d.prog", dir, start)
		os.Remove(resPath)
		os.Remove(progPath)
		cmd := exec.Command(self, "-test.run", "TestC10TLV$", "-test.timeout", "2h")
		cmd.Env = append(os.Environ(), fmt.Sprintf("VERIF_C10_TLV_CHILD=%d", start),
			"VERIF_C10_TLV_RESULT="+resPath, "VERIF_C10_TLV_PROGRESS="+progPath, "GOMAXPROCS=2")
		if stream != nil {
			cmd.Env = append(cmd.Env, "VERIF_C10_TLV_STREAM="+hex.EncodeToString(stream), "VERIF_C10_TLV_SPACE="+space)
		}
		outb, runErr := cmd.CombinedOutput()
		if c.replaying {
			for _, ln := range strings.Split(string(outb), "\n") {
				if strings.HasPrefix(ln, "INFO ") {
					fmt.Println(ln)
				}
			}
		}
		done := false
		if raw, err := os.ReadFile(resPath); err == nil {
			for _, ln := range bytes.Split(raw, []byte{'\n'}) {
				var rec struct {
					Violation *violRec     `json:"violation"`
					Result    *childResult `json:"result"`
				}
				if len(ln) == 0 || json.Unmarshal(ln, &rec) != nil {
					continue
				}
				if rec.Violation != nil {
					c.violation(rec.Violation.Sig, rec.Violation.What, rec.Violation.Replay)
				}
				if r := rec.Result; r != nil {
					done = r.Done
					c.mu.Lock()
					c.evals += r.Evals
					for k, v := range r.Outcomes {
						c.outcomes[k] += v
					}
					for _, h := range r.Accepted {
						k, _ := hex.DecodeString(h)
						c.accepted[string(k)] = struct{}{}
					}
					for _, k := range r.Cells {
						c.cells[k] = struct{}{}
					}
					if r.AllocMax > c.allocMax {
						c.allocMax = r.AllocMax
					}
					c.mu.Unlock()
				}
			}
		}
		os.Remove(resPath)
		if done {
			os.Remove(progPath)
			break
		}
		// the child died: attribute the death to the case it was working on.
		crashes++
		first := firstFatalLine(string(outb))
		var at []byte
		if stream != nil {
			at = stream
		} else {
			idx := start
			if raw, err := os.ReadFile(progPath); err == nil && len(raw) >= 8 {
				idx = 0
				for j := 7; j >= 0; j-- {
					idx = idx<<8 | int(raw[j])
				}
			}
			if idx >= len(cases) {
				t.Fatalf("isolated child failed outside any case (%v): %s", runErr, first)
			}
			at, space = cases[idx].b, cases[idx].space
			start = idx + 1
		}
		os.Remove(progPath)
		c.outcomes["VIOL-fatal-crash"]++
		c.violation("tlv:fatal-crash:"+reasonOr(secondOf(refParse(at, 0)), "canonical"),
			fmt.Sprintf("decoding the %d-byte stream %x… killed the process (%s): an unrecoverable runtime failure, not an error return", len(at), at[:min(len(at), 24)], first),
			replayCase{Space: space, Stream: hex.EncodeToString(at)})
		if stream != nil || crashes >= 12 {
			if crashes >= 12 {
				c.capsHit = append(c.capsHit, "tlv space B/E abandoned after 12 fatal crashes of the isolated child")
			}
			break
		}
	}
	return int64(len(cases))
}

func secondOf(_ []refRec, s string) string { return s }

func firstFatalLine(out string) string {
	for _, ln := range strings.Split(out, "\n") {
		if strings.HasPrefix(ln, "fatal error:") || strings.HasPrefix(ln, "runtime:") || strings.HasPrefix(ln, "panic:") {
			return ln
		}
	}
	if len(out) > 200 {
		out = out[:200]
	}
	return strings.TrimSpace(out)
}

// ---------------------------------------------------------------------------------
// space D: primitive decoders

type prim struct {
	name string
	// mk registers the record on type 1 and returns the stream plus a function that
	// re-encodes the decoded value as a one-record stream.
	mk func() (*tlv.Stream, func() *tlv.Stream)
	// ok is the reference predicate on the value bytes (BOLT 1 fundamental types).
	ok func(v []byte) bool
}

func be(v []byte) uint64 {
	var x uint64
	for _, b := range v {
		x = x<<8 | uint64(b)
	}
	return x
}

func prims() []prim {
	fixed := func(n int) func([]byte) bool { return func(v []byte) bool { return len(v) == n } }
	trunc := func(n int) func([]byte) bool {
		return func(v []byte) bool { return len(v) <= n && (len(v) == 0 || v[0] != 0) }
	}
	return []prim{
		{"uint8", func() (*tlv.Stream, func() *tlv.Stream) {
			var x uint8
			return tlv.MustNewStream(tlv.MakePrimitiveRecord(1, &x)), func() *tlv.Stream { return tlv.MustNewStream(tlv.MakePrimitiveRecord(1, &x)) }
		}, fixed(1)},
		{"uint16", func() (*tlv.Stream, func() *tlv.Stream) {
			var x uint16
			return tlv.MustNewStream(tlv.MakePrimitiveRecord(1, &x)), func() *tlv.Stream { return tlv.MustNewStream(tlv.MakePrimitiveRecord(1, &x)) }
		}, fixed(2)},
		{"uint32", func() (*tlv.Stream, func() *tlv.Stream) {
			var x uint32
			return tlv.MustNewStream(tlv.MakePrimitiveRecord(1, &x)), func() *tlv.Stream { return tlv.MustNewStream(tlv.MakePrimitiveRecord(1, &x)) }
		}, fixed(4)},
		{"uint64", func() (*tlv.Stream, func() *tlv.Stream) {
			var x uint64
			return tlv.MustNewStream(tlv.MakePrimitiveRecord(1, &x)), func() *tlv.Stream { return tlv.MustNewStream(tlv.MakePrimitiveRecord(1, &x)) }
		}, fixed(8)},
		{"bool", func() (*tlv.Stream, func() *tlv.Stream) {
			var x bool
			return tlv.MustNewStream(tlv.MakePrimitiveRecord(1, &x)), func() *tlv.Stream { return tlv.MustNewStream(tlv.MakePrimitiveRecord(1, &x)) }
		}, func(v []byte) bool { return len(v) == 1 && v[0] <= 1 }},
		{"bytes", func() (*tlv.Stream, func() *tlv.Stream) {
			var x []byte
			return tlv.MustNewStream(tlv.MakePrimitiveRecord(1, &x)), func() *tlv.Stream { return tlv.MustNewStream(tlv.MakePrimitiveRecord(1, &x)) }
		}, func(v []byte) bool { return true }},
		{"tuint16", func() (*tlv.Stream, func() *tlv.Stream) {
			var x uint16
			sz := func() uint64 { return tlv.SizeTUint16(x) }
			return tlv.MustNewStream(tlv.MakeDynamicRecord(1, &x, sz, tlv.ETUint16, tlv.DTUint16)), func() *tlv.Stream {
				return tlv.MustNewStream(tlv.MakeDynamicRecord(1, &x, sz, tlv.ETUint16, tlv.DTUint16))
			}
		}, trunc(2)},
		{"tuint32", func() (*tlv.Stream, func() *tlv.Stream) {
			var x uint32
			sz := func() uint64 { return tlv.SizeTUint32(x) }
			return tlv.MustNewStream(tlv.MakeDynamicRecord(1, &x, sz, tlv.ETUint32, tlv.DTUint32)), func() *tlv.Stream {
				return tlv.MustNewStream(tlv.MakeDynamicRecord(1, &x, sz, tlv.ETUint32, tlv.DTUint32))
			}
		}, trunc(4)},
		{"tuint64", func() (*tlv.Stream, func() *tlv.Stream) {
			var x uint64
			sz := func() uint64 { return tlv.SizeTUint64(x) }
			return tlv.MustNewStream(tlv.MakeDynamicRecord(1, &x, sz, tlv.ETUint64, tlv.DTUint64)), func() *tlv.Stream {
				return tlv.MustNewStream(tlv.MakeDynamicRecord(1, &x, sz, tlv.ETUint64, tlv.DTUint64))
			}
		}, trunc(8)},
		{"bigsize64", func() (*tlv.Stream, func() *tlv.Stream) {
			var x uint64
			return tlv.MustNewStream(tlv.MakeBigSizeRecord(1, &x)), func() *tlv.Stream { return tlv.MustNewStream(tlv.MakeBigSizeRecord(1, &x)) }
		}, func(v []byte) bool {
			_, n, min := bytemut.ReadBigSize(v)
			return n == len(v) && n > 0 && min
		}},
		{"bigsize32", func() (*tlv.Stream, func() *tlv.Stream) {
			var x uint32
			return tlv.MustNewStream(tlv.MakeBigSizeRecord(1, &x)), func() *tlv.Stream { return tlv.MustNewStream(tlv.MakeBigSizeRecord(1, &x)) }
		}, func(v []byte) bool {
			val, n, min := bytemut.ReadBigSize(v)
			return n == len(v) && n > 0 && min && val <= 0xffffffff
		}},
	}
}

// checkPrim: stream = [type 1][len(v)][v] (+ optionally a trailing record type 3 len 0,
// which must not be disturbed).
func (c *tlvCheck) checkPrim(p prim, v []byte, trailer bool, lc *local) {
	b := append([]byte{1, byte(len(v))}, v...)
	if trailer {
		b = append(b, 3, 0)
	}
	want := p.ok(v)
	for ei := range entries[:2] {
		var s *tlv.Stream
		var re func() *tlv.Stream
		if _, pan := call(func() error { s, re = p.mk(); return nil }); pan != "" {
			c.violation("tlv:prim-"+p.name+":constructor-panic", fmt.Sprintf("building a %s record stream panicked: %s", p.name, pan), replayCase{Space: "D", Prim: p.name, Stream: hex.EncodeToString(b)})
			return
		}
		lc.evals++
		_, err, pan := decodeWith(s, ei, b)
		rc := replayCase{Space: "D", Prim: p.name, Stream: hex.EncodeToString(b)}
		pre := "tlv:" + entries[ei].name + ":prim-" + p.name + ":"
		c.info("%s with a %s record on %x -> err=%v panic=%q; reference accepts=%v", entries[ei].name, p.name, b, err, pan, want)
		switch {
		case pan != "":
			c.violation(pre+"panic", fmt.Sprintf("%s panicked (%s) on %x", p.name, pan, b), rc)
		case err == nil && !want:
			lc.outcomes["VIOL-prim-accepted"]++
			c.violation(pre+"accepted-invalid-value", fmt.Sprintf("a %s record with value bytes %x (stream %x) was accepted; BOLT 1 says it is not a valid %s", p.name, v, b, p.name), rc)
		case err != nil && want:
			lc.outcomes["VIOL-prim-rejected"]++
			c.violation(pre+"rejected-valid-value", fmt.Sprintf("a %s record with value bytes %x (stream %x) was rejected: %v", p.name, v, b, err), rc)
		case err != nil:
			lc.outcomes["prim-reject"]++
			lc.cells[fmt.Sprintf("D/%s/%s/reject/len%d", entries[ei].name, p.name, len(v))] = struct{}{}
		default:
			lc.outcomes["prim-accept"]++
			lc.accepted["D"+p.name+string(b)] = struct{}{}
			var out bytes.Buffer
			err, pan := call(func() error { return re().Encode(&out) })
			exp := b
			if trailer {
				exp = b[:len(b)-2]
			}
			c.info("re-encode -> %x err=%v panic=%q", out.Bytes(), err, pan)
			if err != nil || pan != "" || !bytes.Equal(out.Bytes(), exp) {
				lc.outcomes["VIOL-prim-reencode"]++
				c.violation(pre+"reencode-differs", fmt.Sprintf("%s record %x decoded and re-encoded as %x (err=%v panic=%q)", p.name, exp, out.Bytes(), err, pan), rc)
			}
		}
	}
}

func (c *tlvCheck) spaceD(alphabet []byte, workers int) int64 {
	ps := prims()
	var wg sync.WaitGroup
	var total int64
	var mu sync.Mutex
	for _, p := range ps {
		wg.Add(1)
		go func(p prim) {
			defer wg.Done()
			defer c.recoverGo("space D " + p.name)
			lc := newLocal()
			var n int64
			for l := 0; l <= 9; l++ {
				idx := make([]int, l)
				v := make([]byte, l)
				for {
					for i := range v {
						v[i] = alphabet[idx[i]]
					}
					c.checkPrim(p, v, false, lc)
					c.checkPrim(p, v, true, lc)
					n += 2
					i := l - 1
					for i >= 0 {
						idx[i]++
						if idx[i] < len(alphabet) {
							break
						}
						idx[i] = 0
						i--
					}
					if i < 0 {
						break
					}
				}
			}
			c.merge(lc)
			mu.Lock()
			total += n
			mu.Unlock()
		}(p)
	}
	wg.Wait()
	return total
}

// ---------------------------------------------------------------------------------
// space V: ReadVarInt / WriteVarInt

func (c *tlvCheck) checkVarint(b []byte, lc *local) {
	lc.evals++
	var buf [8]byte
	var got uint64
	r := bytes.NewReader(b)
	err, pan := call(func() error {
		var err error
		got, err = tlv.ReadVarInt(r, &buf)
		return err
	})
	v, n, minimal := bytemut.ReadBigSize(b)
	want := n > 0 && minimal
	rc := replayCase{Space: "V", Varint: hex.EncodeToString(b)}
	c.info("ReadVarInt(%x) -> %d err=%v panic=%q; reference: value=%d size=%d minimal=%v", b, got, err, pan, v, n, minimal)
	switch {
	case pan != "":
		c.violation("tlv:ReadVarInt:panic", fmt.Sprintf("ReadVarInt panicked (%s) on %x", pan, b), rc)
	case err == nil && !want:
		lc.outcomes["VIOL-varint-accepted"]++
		why := "truncated"
		if n > 0 {
			why = fmt.Sprintf("non-minimal-%dbyte-form", n)
		}
		c.violation("tlv:ReadVarInt:accepted:"+why, fmt.Sprintf("ReadVarInt accepted %x as %d (%s)", b, got, why), rc)
	case err != nil && want:
		lc.outcomes["VIOL-varint-rejected"]++
		c.violation(fmt.Sprintf("tlv:ReadVarInt:rejected-minimal-%dbyte-form", n), fmt.Sprintf("ReadVarInt rejected the minimal encoding %x of %d: %v", b, v, err), rc)
	case err != nil:
		lc.outcomes["varint-reject"]++
		if len(b) == 0 && err != io.EOF {
			// Stream.decode relies on io.EOF at a record boundary; anything else
			// would make every stream fail, which spaces A-E would report. Counted only.
			lc.outcomes["varint-empty-not-EOF"]++
		}
	default:
		lc.outcomes["varint-accept"]++
		if got != v || r.Len() != len(b)-n {
			c.violation(fmt.Sprintf("tlv:ReadVarInt:wrong-value-%dbyte-form", n), fmt.Sprintf("ReadVarInt(%x) = %d consuming %d bytes; reference %d consuming %d", b, got, len(b)-r.Len(), v, n), rc)
		}
	}
}

func (c *tlvCheck) checkWrite(v uint64, lc *local) {
	lc.evals++
	var buf [8]byte
	var out bytes.Buffer
	err, pan := call(func() error { return tlv.WriteVarInt(&out, v, &buf) })
	want := bytemut.BigSize(v)
	c.info("WriteVarInt(%d) -> %x err=%v panic=%q; reference %x; VarIntSize=%d", v, out.Bytes(), err, pan, want, tlv.VarIntSize(v))
	if err != nil || pan != "" || !bytes.Equal(out.Bytes(), want) || tlv.VarIntSize(v) != uint64(len(want)) {
		c.violation(fmt.Sprintf("tlv:WriteVarInt:not-minimal-%dbyte-form", len(want)),
			fmt.Sprintf("WriteVarInt(%d) = %x (err=%v panic=%q, VarIntSize=%d); BOLT 1 minimal encoding is %x", v, out.Bytes(), err, pan, tlv.VarIntSize(v), want),
			replayCase{Space: "V", Write: fmt.Sprint(v)})
		return
	}
	lc.outcomes["varint-write-ok"]++
}

func boundaryValues() []uint64 {
	set := map[uint64]struct{}{}
	add := func(v uint64) { set[v] = struct{}{} }
	for v := uint64(0); v < 0x10100; v++ {
		add(v)
	}
	for k := uint(0); k < 64; k++ {
		add(1 << k)
		add(1<<k - 1)
		add(1<<k + 1)
	}
	for d := uint64(0); d <= 256; d++ {
		add(1<<32 - 1 - d)
		add(1<<32 + d)
		add(1<<64 - 1 - d)
	}
	out := make([]uint64, 0, len(set))
	for v := range set {
		out = append(out, v)
	}
	sort.Slice(out, func(i, j int) bool { return out[i] < out[j] })
	return out
}

func (c *tlvCheck) spaceV(all32 bool, workers int) int64 {
	lc := newLocal()
	var n int64
	c.checkVarint(nil, lc)
	for b0 := 0; b0 < 256; b0++ {
		c.checkVarint([]byte{byte(b0)}, lc)
		c.checkVarint([]byte{byte(b0), 0x55}, lc) // a trailing byte must stay unread
		n += 2
	}
	for _, v := range boundaryValues() {
		c.checkWrite(v, lc)
		n++
		for _, size := range []int{1, 3, 5, 9} {
			f := bytemut.BigSizeForm(v, size)
			if f == nil {
				continue
			}
			c.checkVarint(f, lc)
			c.checkVarint(append(append([]byte{}, f...), 0xAA), lc)
			n += 2
			if v < 0x200 || v > 0xff00 {
				for l := 1; l < len(f); l++ {
					c.checkVarint(f[:l], lc)
					n++
				}
			}
		}
	}
	c.merge(lc)
	if all32 {
		var wg sync.WaitGroup
		var mu sync.Mutex
		for w := 0; w < workers; w++ {
			wg.Add(1)
			go func(w int) {
				defer wg.Done()
				defer c.recoverGo("space V")
				lc := newLocal()
				var cnt int64
				f := []byte{0xfe, 0, 0, 0, 0}
				for hi := w; hi < 65536; hi += workers {
					f[1], f[2] = byte(hi>>8), byte(hi)
					for lo := 0; lo < 65536; lo++ {
						f[3], f[4] = byte(lo>>8), byte(lo)
						c.checkVarint(f, lc)
						cnt++
					}
				}
				c.merge(lc)
				mu.Lock()
				n += cnt
				mu.Unlock()
			}(w)
		}
		wg.Wait()
	}
	return n
}

// ---------------------------------------------------------------------------------

// recoverGo turns a panic that escaped the per-call guards of an enumeration goroutine
// into a violation (a goroutine panic would otherwise kill the whole binary).
func (c *tlvCheck) recoverGo(where string) {
	if r := recover(); r != nil {
		c.violation("tlv:panic-outside-guard:"+where, fmt.Sprintf("a call into the tlv package panicked outside the per-call guards in %s: %v", where, r), replayCase{Space: "none"})
	}
}

func TestC10TLV(t *testing.T) {
	run := evid.Start("C10", "exploration")
	defer func() {
		if r := recover(); r != nil {
			run.Violation("tlv:harness-phase:panic", fmt.Sprintf("a call into the tlv package panicked outside the enumeration: %v", r), replayCase{Half: "tlv", Space: "none"})
			os.Exit(run.Finish(map[string]any{"evaluations": 1, "distinct_nontrivial": 2, "rule": "aborted by a panic outside the enumeration", "samples": []any{fmt.Sprint(r)}, "exhaustive": false}))
		}
	}()
	c := &tlvCheck{capsHit: []string{}, run: run, outcomes: map[string]int64{}, accepted: map[string]struct{}{}, cells: map[string]struct{}{}, samples: evid.NewSamples(8)}

	if os.Getenv("VERIF_C10_TLV_CHILD") != "" {
		c.replaying = os.Getenv("VERIF_C10_TLV_STREAM") != ""
		c.childMain()
		return
	}
	if rp := os.Getenv("VERIF_REPLAY"); rp != "" {
		c.replay(t, rp)
		return
	}

	workers := runtime.GOMAXPROCS(0)
	if workers > 16 {
		workers = 16
	}
	alphabet := []byte{0x00, 0x01, 0xff}
	if run.Thorough() {
		alphabet = []byte{0x00, 0x01, 0x80, 0xfd, 0xff}
	}
	bounds := map[string]any{}
	only := os.Getenv("VERIF_C10_SPACES") // debugging aid: e.g. "B,E"; empty = all
	want := func(s string) bool { return only == "" || strings.Contains(only, s) }
	if want("A") {
		bounds["A_streams"] = c.spaceA(3, workers)
		fmt.Printf("INFO tlv space A+C done: %d streams, %d decodes, %.0fs\n", bounds["A_streams"], c.evals, run.Elapsed().Seconds())
	}
	if want("B") || want("E") {
		bounds["BE_streams"] = c.runIsolated(t, "", nil)
	}
	if want("D") {
		bounds["D_values"] = c.spaceD(alphabet, workers)
	}
	if want("V") {
		bounds["V_varints"] = c.spaceV(run.Thorough(), workers)
	}
	if only != "" {
		bounds["partial_run_spaces"] = only
	}
	bounds["types"] = knownTypes
	bounds["lengths"] = []int{0, 1, 2}
	bounds["claimed_lengths"] = claimLens
	bounds["prim_alphabet"] = fmt.Sprintf("%x", alphabet)
	bounds["alloc_bound_p2p_bytes"] = allocBoundP2P

	samples := []any{
		map[string]any{"space": "A", "stream": "00fd0000" + "01" + "0111", "meaning": "type 0 / 3-byte (non-minimal) length 0, then type 1 len 1: must be rejected"},
		map[string]any{"space": "A", "stream": "0000" + "0200" + "fd00fd0122", "meaning": "types 0,2,253 minimal, increasing: must be accepted and re-encode identically"},
		map[string]any{"space": "B", "stream": "01ffffffffffffffffff", "meaning": "type 1 claims 2^64-1 value bytes, none present"},
		map[string]any{"space": "D", "prim": "tuint32", "stream": "01020001", "meaning": "truncated uint32 with a leading zero byte: not minimal"},
		map[string]any{"space": "V", "varint": "fd00fc", "meaning": "3-byte form of 252: not minimal"},
	}
	cov := map[string]any{
		"evaluations":         int(c.evals),
		"distinct_nontrivial": len(c.accepted) + len(c.cells),
		"rule": "tlv half: every byte string of spaces A-E,V (see bounds) is decoded by the real tlv code through each entry point and compared with an independent BOLT-1 reference parser " +
			"(accept <=> canonical; returned values == reference; re-encode == input); distinct_nontrivial = distinct accepted inputs (set of byte strings; full value + re-encode clauses exercised) " +
			"+ distinct rejection cells (space x entry point x record config x reference reason x #records)",
		"samples":           samples,
		"exhaustive":        only == "" && len(c.capsHit) == 0,
		"caps_hit":          c.capsHit,
		"tlv_outcomes":      c.outcomes,
		"tlv_bounds":        bounds,
		"tlv_accepted":      len(c.accepted),
		"tlv_reject_cells":  len(c.cells),
		"tlv_alloc_max_p2p": int(c.allocMax),
	}
	run.Assumptions = append(run.Assumptions,
		"tlv half: 'all TLV streams' is covered for <=3 records over 7 structural types, value lengths 0..2 (declared lengths up to 2^64-1), every BigSize form; larger streams only at the MaxRecordSize boundary",
		"tlv half: allocation bound checked on the p2p entry points only (the non-p2p entry points are documented as unbounded)")
	if code := run.Finish(cov); code != 0 {
		os.Exit(code)
	}
}

func (c *tlvCheck) replay(t *testing.T, path string) {
	c.replaying = true
	raw, err := os.ReadFile(path)
	if err != nil {
		t.Fatalf("replay: %v", err)
	}
	var f struct {
		Replay replayCase `json:"replay"`
	}
	if err := json.Unmarshal(raw, &f); err != nil {
		t.Fatalf("replay: %v", err)
	}
	rc := f.Replay
	lc := newLocal()
	if rc.Half != "tlv" {
		fmt.Printf("INFO tlv target: replay file belongs to half %q, nothing to do\n", rc.Half)
	} else {
		b, _ := hex.DecodeString(rc.Stream)
		switch rc.Space {
		case "A", "C":
			fmt.Printf("INFO replaying space %s stream %x\n", rc.Space, b)
			c.checkStream(rc.Space, b, lc, 0xf)
		case "B", "E":
			fmt.Printf("INFO replaying space %s stream %x… (%d bytes) in an isolated child process\n", rc.Space, b[:min(len(b), 32)], len(b))
			c.runIsolated(t, rc.Space, b)
		case "D":
			for _, p := range prims() {
				if p.name == rc.Prim {
					v := b[2:]
					trailer := false
					if int(b[1]) != len(v) {
						trailer = true
						v = v[:len(v)-2]
					}
					fmt.Printf("INFO replaying space D primitive %s value %x trailer=%v\n", p.name, v, trailer)
					c.checkPrim(p, v, trailer, lc)
				}
			}
		case "V":
			if rc.Write != "" {
				var v uint64
				fmt.Sscan(rc.Write, &v)
				c.checkWrite(v, lc)
			} else {
				vb, _ := hex.DecodeString(rc.Varint)
				c.checkVarint(vb, lc)
			}
		}
	}
	c.merge(lc)
	code := c.run.Finish(map[string]any{"evaluations": int(c.evals) + 1, "distinct_nontrivial": 2, "rule": "replay", "samples": []any{path}, "exhaustive": false})
	if code != 0 {
		os.Exit(code)
	}
}
