// C10, lnwire half: exhaustive bounded enumeration of inputs to the real wire codecs.
//
// For every registered message type (asked from lnwire.MakeEmptyMessage, + Custom),
// every registered onion failure code (asked from lnwire.DecodeFailureMessage over all
// 65536 codes) and the padded onion failure packet:
//
//	short   all bodies of length <= 2 (quick) / <= 3 (thorough)
//	val     every corpus value: clauses V1-V3 of oracle_test.go
//	repl    every single-byte replacement (255 values) at every position of every seed of
//	        <= 512 bytes; for larger seeds at every boundary position (first/last two bytes
//	        of every read the decoder performs, every byte of reads <= 8 bytes, the prefix
//	        and first/last value byte of every TLV record of the tail)
//	trunc   every truncation (larger seeds in the quick tier: every length <= 2048, the last
//	        2048, and +-2 around every boundary)
//	ext     every one-byte extension (256)
//	del/ins every one-byte deletion / insertion of 0x00 and 0xff (same positions as repl)
//	tlvlen  every BigSize type/length prefix of every TLV record found in the seed replaced
//	        by each non-minimal form and by {v-1, v+1, 0, 0xfc, 0xfd, 0xffff, 0x10000, 2^32, 2^64-1}
//	splice  seed_i[:k] + seed_{i+1}[k:] for every k (consecutive seeds of one codec)
//	field   every integer field of the fullest value swept over special values (field_test.go)
//	resize  every length-delimited region resized with consistent prefixes (resize_test.go)
//	extrec  every single / pair (thorough: triple) of unknown records of structurally special
//	        type and length merged in canonical order into the extension TLV stream of every
//	        message type's bases; decode -> encode identity and value -> bytes -> value
//	        equality (extrec_test.go)
//
// Each input goes through the oracle of oracle_test.go. The enumeration runs in worker
// processes (GOMAXPROCS=1 each, so the allocation accounting is exact, and so that a
// fatal runtime error - stack overflow, out of memory - kills one worker whose current
// input the parent then reports as a violation instead of losing the whole check).
package c10

import (
	"bufio"
	"bytes"
	"encoding/binary"
	"encoding/hex"
	"encoding/json"
	"fmt"
	"io"
	"os"
	"os/exec"
	"reflect"
	"runtime"
	"runtime/debug"
	"sort"
	"strconv"
	"strings"
	"sync"
	"sync/atomic"
	"testing"
	"time"

	"github.com/lightningnetwork/lnd/lnwire"
	"github.com/lightningnetwork/lnd/verifmc/bytemut"
	"github.com/lightningnetwork/lnd/verifmc/evid"
)

// ---------------------------------------------------------------------------------
// plan

type item struct {
	Idx    int    `json:"idx"`
	Codec  int    `json:"codec"`
	Seed   int    `json:"seed"` // -1: no seed (short)
	Seed2  int    `json:"seed2,omitempty"`
	Family string `json:"family"`
	Lo     int    `json:"lo"`
	Hi     int    `json:"hi"` // ordinal window [Lo,Hi); Hi == 0: everything
	Arg    int    `json:"arg,omitempty"`
	cost   int64
}

const (
	smallSeed = 512  // all positions below this size
	fullTrunc = 4096 // all truncations below this size (quick tier)
)

func buildPlan(co *corpus, thorough bool) []item {
	var plan []item
	shortLen := 2
	if thorough {
		shortLen = 3
	}
	add := func(it item) {
		it.Idx = len(plan)
		plan = append(plan, it)
	}
	for ci, cc := range co.codecs {
		// short bodies
		if cc.c.kind != kFailPkt {
			for n := 0; n <= shortLen; n++ {
				if n == 3 && ignoresBody(cc) {
					continue // the decoder does not look at the body (see ignoresBody)
				}
				if n < 3 {
					add(item{Codec: ci, Seed: -1, Family: "short", Arg: n, Lo: 0, Hi: 255, cost: int64(1) << (8 * uint(n))})
				} else {
					for f := 0; f < 256; f += 16 {
						add(item{Codec: ci, Seed: -1, Family: "short", Arg: n, Lo: f, Hi: f + 15, cost: 1 << 20})
					}
				}
			}
		}
		add(item{Codec: ci, Seed: -1, Family: "val", cost: int64(len(cc.seeds)) * 50})
		if cc.c.kind != kFailPkt {
			for si := range cc.seeds {
				s := &cc.seeds[si]
				if s.gen != nil && (s.sweep || s.name == "zero") {
					// variable-length elements at their extreme legal lengths (varlen_test.go);
					// the zero message too (a generator value equal to it is not in the corpus)
					for li, nl := 0, varLeafCount(s); li < nl; li++ {
						add(item{Codec: ci, Seed: si, Family: "varlen", Arg: li, cost: 60 * 1000 * 3})
					}
				}
				if !s.sweep || s.gen == nil {
					continue
				}
				nf := fieldCount(s)
				per := int64(len(s.full)/64 + 4)
				for fi := 0; fi < nf; fi++ {
					add(item{Codec: ci, Seed: si, Family: "field", Arg: fi, cost: 2200 * per * 3})
				}
			}
		}
		prev := -1
		for si, s := range cc.seeds {
			if s.valueOnly || s.full == nil {
				continue
			}
			n := len(s.full) - cc.c.prefixLen()
			per := int64(n/64 + 4) // relative cost of one evaluation
			if n <= smallSeed && cc.c.kind != kFailPkt {
				total := 255 * n
				const chunk = 30000
				for lo := 0; lo < total; lo += chunk {
					hi := lo + chunk
					if hi > total {
						hi = total
					}
					add(item{Codec: ci, Seed: si, Family: "repl", Lo: lo, Hi: hi, cost: int64(hi-lo) * per})
				}
			} else {
				add(item{Codec: ci, Seed: si, Family: "repl", cost: 200 * 255 * per})
			}
			add(item{Codec: ci, Seed: si, Family: "trunc", cost: int64(min(n, 6000)) * per})
			add(item{Codec: ci, Seed: si, Family: "ext", cost: 256 * per})
			add(item{Codec: ci, Seed: si, Family: "del", cost: int64(min(n, 400)) * per})
			add(item{Codec: ci, Seed: si, Family: "ins", cost: int64(min(n, 400)) * 2 * per})
			add(item{Codec: ci, Seed: si, Family: "tlvlen", cost: 300 * per})
			add(item{Codec: ci, Seed: si, Family: "resize", cost: 2500 * per})
			if cc.c.kind == kMsg && n <= xrMaxBase {
				// extension records: every message type x every byte-mutated seed
				// (zero message, fullest / emptiest example, ...); see extrec_test.go
				xc := int64(3000)
				if thorough {
					xc = 40000
				}
				add(item{Codec: ci, Seed: si, Family: "extrec", cost: xc * per * 3})
			}
			if prev >= 0 && n <= 2048 && len(cc.seeds[prev].full) <= 2048+2 {
				add(item{Codec: ci, Seed: prev, Seed2: si, Family: "splice", cost: int64(n) * per})
			}
			prev = si
		}
	}
	return plan
}

// ignoresBody: failure codes without payload and the Custom message take any body
// unparsed (every body of length <= 2 is accepted with the same outcome class), so the
// thorough tier's length-3 sweep - 16.7M more bodies of the same class - is skipped
// for them. Decided statically from the corpus: the constructor value has an empty body.
func ignoresBody(cc *codecCorpus) bool {
	if cc.c.name == "msg/Custom" {
		return true
	}
	if cc.c.kind != kFailMsg || len(cc.seeds) == 0 {
		return false
	}
	for _, s := range cc.seeds {
		if len(s.full) != 2 {
			return false
		}
	}
	return true
}

// positions returns the byte positions (in body coordinates) at which the
// position-indexed families operate; nil means "all".
func (w *worker) positions(c *codec, s *seed) []int {
	pl := c.prefixLen()
	n := len(s.full) - pl
	if c.kind == kFailPkt && n >= 4 {
		// len(2) || message || padlen(2) || padding: every position up to and
		// including the pad length and the first two padding bytes, plus the last two
		// bytes (the padding content itself is skipped by the decoder).
		ml := int(s.full[0])<<8 | int(s.full[1])
		var out []int
		for p := 0; p < n && p < 2+ml+4; p++ {
			out = append(out, p)
		}
		for p := n - 2; p < n; p++ {
			if p >= 2+ml+4 {
				out = append(out, p)
			}
		}
		return out
	}
	if n <= smallSeed {
		return nil
	}
	set := map[int]struct{}{}
	addp := func(p int) {
		p -= pl
		if p >= 0 && p < n {
			set[p] = struct{}{}
		}
	}
	segs := w.traceReads(c, s.full)
	nShort := 0
	for _, sg := range segs {
		if sg.hi-sg.lo <= 8 {
			nShort++
		}
	}
	iShort := 0
	for _, sg := range segs {
		if sg.hi-sg.lo <= 8 {
			iShort++
			// quick tier: a long run of small reads (an id or signature list) is
			// covered completely at its first 48 and last 16 elements and at the first
			// byte of every element in between.
			if !w.thorough && iShort > 48 && iShort <= nShort-16 {
				addp(sg.lo)
				continue
			}
			for p := sg.lo; p < sg.hi; p++ {
				addp(p)
			}
		} else {
			addp(sg.lo)
			addp(sg.lo + 1)
			addp(sg.hi - 2)
			addp(sg.hi - 1)
		}
	}
	for _, r := range tlvRecords(s.full, pl, false) {
		for p := r.TypeOff; p < r.ValOff; p++ {
			addp(p)
		}
		addp(r.ValOff)
		addp(r.ValOff + int(r.Len) - 1)
	}
	out := make([]int, 0, len(set))
	for p := range set {
		out = append(out, p)
	}
	sort.Ints(out)
	return out
}

func (w *worker) traceReads(c *codec, full []byte) []seg {
	var tr []seg
	w.rd.reset(full)
	w.rd.trace = &tr
	safely(func() { c.decode(&w.rd) })
	w.rd.trace = nil
	return tr
}

// tlvRecords locates TLV records inside full: every offset p >= from at which the rest
// of the message is a canonical non-empty TLV stream (all = every such p, otherwise only
// the first). Offsets are in full coordinates.
func tlvRecords(full []byte, from int, all bool) []bytemut.TLVRecord {
	var out []bytemut.TLVRecord
	seen := map[int]bool{}
	for p := from; p < len(full); p++ {
		recs, ok := bytemut.ParseTLV(full[p:], 0)
		if !ok || len(recs) == 0 {
			continue
		}
		for _, r := range recs {
			r.TypeOff += p
			r.LenOff += p
			r.ValOff += p
			if !seen[r.TypeOff] {
				seen[r.TypeOff] = true
				out = append(out, r)
			}
		}
		if !all {
			break
		}
	}
	sort.Slice(out, func(i, j int) bool { return out[i].TypeOff < out[j].TypeOff })
	return out
}

// tlvLenMuts lists the tlvlen family for a seed (mutations in body coordinates).
func tlvLenMuts(c *codec, s *seed) []bytemut.Mut {
	pl := c.prefixLen()
	recs := tlvRecords(s.full, pl, len(s.full) <= 2048)
	var out []bytemut.Mut
	var prevType uint64
	for i, r := range recs {
		edit := func(off, size int, cur uint64, vals []uint64) {
			for _, form := range []int{3, 5, 9} {
				if form > size {
					if f := bytemut.BigSizeForm(cur, form); f != nil {
						out = append(out, bytemut.Set(off-pl, size, f))
					}
				}
			}
			done := map[uint64]bool{cur: true}
			for _, v := range vals {
				if done[v] {
					continue
				}
				done[v] = true
				out = append(out, bytemut.Set(off-pl, size, bytemut.BigSize(v)))
			}
		}
		structural := []uint64{0, 0xfc, 0xfd, 0xffff, 0x10000, 1 << 32, 1<<64 - 1}
		edit(r.LenOff, r.ValOff-r.LenOff, r.Len, append([]uint64{r.Len - 1, r.Len + 1}, structural...))
		tv := []uint64{r.Type - 1, r.Type + 1, r.Type + 2}
		if i > 0 {
			tv = append(tv, prevType)
		}
		edit(r.TypeOff, r.LenOff-r.TypeOff, r.Type, append(tv, structural...))
		prevType = r.Type
	}
	return out
}

// enumerate visits the inputs of one plan item in a fixed order.
func (w *worker) enumerate(it item, visit func(m func() bytemut.Mut, body []byte)) {
	cc := w.co.codecs[it.Codec]
	c := cc.c
	pl := c.prefixLen()
	if it.Family == "short" {
		bytemut.AllStrings(it.Arg, it.Lo, it.Hi, func(b []byte) {
			visit(func() bytemut.Mut { return bytemut.Raw(b) }, b)
		})
		return
	}
	if it.Seed < 0 {
		return
	}
	s := &cc.seeds[it.Seed]
	body := s.full[pl:]
	lazy := func(m bytemut.Mut, b []byte) { visit(func() bytemut.Mut { return m }, b) }
	switch it.Family {
	case "repl":
		bytemut.Replacements(body, w.positions(c, s), it.Lo, it.Hi, lazy)
	case "trunc":
		var lens []int
		if len(body) > fullTrunc && !w.thorough {
			set := map[int]struct{}{}
			for l := 0; l < 2048; l++ {
				set[l] = struct{}{}
				set[len(body)-1-l] = struct{}{}
			}
			for _, p := range w.positions(c, s) {
				for d := -2; d <= 2; d++ {
					set[p+d] = struct{}{}
				}
			}
			for l := range set {
				if l >= 0 && l < len(body) {
					lens = append(lens, l)
				}
			}
			sort.Ints(lens)
		}
		bytemut.Truncations(body, lens, lazy)
	case "ext":
		bytemut.Extensions(body, lazy)
	case "del":
		bytemut.Deletions(body, w.positions(c, s), lazy)
	case "ins":
		pos := w.positions(c, s)
		if pos != nil {
			pos = append(pos, len(body))
		}
		bytemut.Insertions(body, pos, []byte{0x00, 0xff}, lazy)
	case "tlvlen":
		var buf []byte
		for _, m := range tlvLenMuts(c, s) {
			b, err := m.ApplyTo(buf, body)
			if err != nil {
				continue
			}
			buf = b
			lazy(m, b)
		}
	case "resize":
		w.res.ResizeTargets += int64(w.enumerateResize(c, s, visit))
	case "splice":
		o := cc.seeds[it.Seed2].full[pl:]
		bytemut.Splices(body, o, lazy)
		bytemut.Splices(o, body, func(m bytemut.Mut, b []byte) {
			// expressed relative to the first seed so that one seed suffices for replay
			visit(func() bytemut.Mut { return bytemut.Raw(b) }, b)
		})
	}
}

// ---------------------------------------------------------------------------------
// worker

type violRec struct {
	Sig    string `json:"sig"`
	What   string `json:"what"`
	Replay any    `json:"replay"`
}

type itemResult struct {
	Idx           int              `json:"idx"`
	Evals         int64            `json:"evals"`
	Accepted      int64            `json:"accepted"`
	ShortAcc      int64            `json:"short_accepted"`
	Outcomes      map[string]int64 `json:"outcomes"`
	Viols         []violRec        `json:"viols,omitempty"`
	AllocMax      uint64           `json:"alloc_max"`
	AllocMaxAt    string           `json:"alloc_max_at,omitempty"`
	Precise       int64            `json:"precise"`
	Rechecked     int64            `json:"rechecked"`
	MaxReads      float64          `json:"max_reads_per_byte"`
	Secs          float64          `json:"secs"`
	FullChain     int64            `json:"full_chain"`
	Triples       int64            `json:"triples"`
	ResizeTargets int64            `json:"resize_targets"`
	Oversize      int64            `json:"oversize_skipped"`
	XrCases       int64            `json:"extrec_cases"`
	XrBases       int64            `json:"extrec_bases"`
	Samples       []any            `json:"samples,omitempty"`
}

type replayCase struct {
	Half   string         `json:"half"`
	Codec  string         `json:"codec"`
	Kind   string         `json:"kind"` // bytes | value
	Prefix string         `json:"prefix,omitempty"`
	Seed   string         `json:"seed,omitempty"` // hex body
	Mut    *bytemut.Mut   `json:"mut,omitempty"`
	Desc   map[string]any `json:"desc,omitempty"`
	Family string         `json:"family,omitempty"`
	Field  string         `json:"field,omitempty"` // field family: path of the swept field
	Value  string         `json:"value,omitempty"` // field family: raw value (decimal)
	Recs   []xrec         `json:"recs,omitempty"`  // extrec family: the records merged into the base (Seed / Desc)
}

type worker struct {
	co        *corpus
	thorough  bool
	shortLen  int
	verbose   bool
	rd        budgetReader
	mt        meter
	full      []byte
	res       *itemResult
	hashes    *bufio.Writer
	prog      *os.File
	progBuf   [24]byte
	ord       int
	curItem   item
	curSeed   *seed
	canonSeen int64
	lastOrd   int
	nViol     int64            // violations reported by this worker so far (all classes)
	lastB2    []byte           // evalBytes: the re-encoding of the last accepted input
	xr        map[int]*xrCodec // extrec family: per-codec alphabet cache
	itemSigs  map[string]bool  // signatures already recorded for the current item
}

func (w *worker) info(format string, a ...any) {
	if w.verbose {
		fmt.Printf("INFO "+format+"\n", a...)
	}
}

func (w *worker) viol(c *codec, class, what string, rc replayCase) {
	rc.Half = "lnwire"
	rc.Codec = c.name
	w.nViol++
	w.res.Outcomes["VIOL-"+strings.SplitN(class, ":", 2)[0]]++
	// one record per distinct signature and item (the parent de-duplicates by signature
	// anyway), so that a frequent class cannot crowd a rare one out of the cap
	sig := "lnwire:" + c.name + ":" + class
	if w.itemSigs == nil {
		w.itemSigs = map[string]bool{}
	}
	if !w.itemSigs[sig] && len(w.res.Viols) < 400 {
		w.itemSigs[sig] = true
		w.res.Viols = append(w.res.Viols, violRec{Sig: sig, What: what, Replay: rc})
	}
	w.info("VIOLATION-CLASS %s: %s", class, what)
}

func (w *worker) bytesCase(c *codec, m func() bytemut.Mut, body []byte) replayCase {
	rc := replayCase{Kind: "bytes", Prefix: hex.EncodeToString(c.prefix[:c.prefixLen()]), Family: w.curItem.Family}
	mm := m()
	if w.curSeed != nil && mm.Kind != bytemut.KindRaw && len(w.curSeed.full) <= 4096 {
		rc.Seed = hex.EncodeToString(w.curSeed.full[c.prefixLen():])
		rc.Mut = &mm
	} else if w.curSeed != nil && mm.Kind != bytemut.KindRaw && w.curSeed.desc != nil && w.curSeed.gen != nil {
		rc.Desc = w.curSeed.desc // large seed: regenerate instead of embedding 64 KiB of hex
		rc.Mut = &mm
	} else {
		r := bytemut.Raw(body)
		rc.Mut = &r
	}
	return rc
}

// decodeMeasured runs clause O1 (and O2 when precise).
func (w *worker) decode(c *codec, full []byte, precise bool) (v any, err error, pan string, alloc uint64) {
	w.rd.reset(full)
	if precise {
		before := w.mt.total()
		pan = safely(func() { v, err = c.decode(&w.rd) })
		alloc = w.mt.total() - before
		w.res.Precise++
		if alloc > w.res.AllocMax {
			w.res.AllocMax = alloc
			w.res.AllocMaxAt = fmt.Sprintf("%s %d-byte input", c.name, len(full))
		}
		return
	}
	pan = safely(func() { v, err = c.decode(&w.rd) })
	return
}

// evalBytes is the universal oracle on one input (body, without prefix).
// It returns true when the input was accepted.
func (w *worker) evalBytes(c *codec, m func() bytemut.Mut, body []byte, precise bool) bool {
	pl := c.prefixLen()
	if pl+len(body) > lnwire.MaxSliceLength {
		// outside the property's quantifier (byte strings up to 65535 bytes)
		w.res.Oversize++
		return false
	}
	w.full = append(append(w.full[:0], c.prefix[:pl]...), body...)
	full := w.full
	w.res.Evals++
	fam := w.curItem.Family
	v, err, pan, alloc := w.decode(c, full, precise)
	if w.verbose {
		w.info("decode %s input %s -> err=%v panic=%q reads=%d alloc=%d", c.name, hexs(full, 96), err, pan, w.rd.calls, alloc)
	}
	if len(full) > 0 {
		if r := float64(w.rd.calls) / float64(len(full)+32); r > w.res.MaxReads {
			w.res.MaxReads = r
		}
	}
	if pan != "" {
		if pan == "read-budget" {
			w.viol(c, "read-budget-exceeded", fmt.Sprintf("decoding %s performed more than %d reads on a %d-byte input (does not terminate on this input?)", hexs(full, 64), w.rd.budget, len(full)), w.bytesCase(c, m, body))
		} else {
			w.viol(c, "decode-panic:"+panicClass(pan), fmt.Sprintf("decoding %s panicked: %s", hexs(full, 64), pan), w.bytesCase(c, m, body))
		}
		return false
	}
	if precise && alloc > c.allocBound() {
		w.viol(c, "alloc-bound", fmt.Sprintf("decoding the %d-byte input %s allocated %d bytes (bound %d = 64KiB*%d)", len(full), hexs(full, 64), alloc, c.allocBound(), c.allocBound()/kib64), w.bytesCase(c, m, body))
	}
	if err != nil {
		w.res.Outcomes[fam+":reject"]++
		return false
	}
	// O3. Encode may modify the message it is given (several encoders rebuild
	// ExtraData, sort id lists, ...), so v is handed to the encoder and, when the
	// later clauses need the decoded message again, a pristine copy is obtained by
	// decoding the same input a second time.
	var b2 []byte
	pan = safely(func() { b2, err = c.encode(v) })
	if w.verbose {
		w.info("re-encode -> %s err=%v panic=%q", hexs(b2, 96), err, pan)
	}
	if pan != "" {
		w.viol(c, "encode-panic:"+panicClass(pan), fmt.Sprintf("input %s decoded, re-encoding panicked: %s", hexs(full, 64), pan), w.bytesCase(c, m, body))
		return true
	}
	if err != nil {
		if c.kind == kFailPkt {
			// lnd only ever emits 256-byte failure packets but accepts longer ones
			// (BOLT 4 allows them); such a message cannot be re-packed. Not a violation
			// (the repository's fuzz harness makes the same allowance).
			var mb []byte
			mc := codec{kind: kFailMsg}
			safely(func() { mb, _ = mc.encode(v) })
			if len(mb) > lnwire.FailureMessageLength {
				w.res.Outcomes[fam+":accept-oversize-failure"]++
				return true
			}
		}
		class := "reencode-failed:other"
		if strings.Contains(err.Error(), "too large") {
			// the canonical form is longer than the (accepted) input and no longer fits
			class = fmt.Sprintf("reencode-failed:too-large(input-%d-bytes)", len(full))
		}
		w.viol(c, class, fmt.Sprintf("input %s decoded to %T but re-encoding failed: %v", hexs(full, 64), v, err), w.bytesCase(c, m, body))
		return true
	}
	w.lastB2 = append(w.lastB2[:0], b2...)
	if c.kind == kMsg && len(b2)-2 > lnwire.MaxMsgBody {
		w.viol(c, "encode-oversize", fmt.Sprintf("re-encoding of %s is %d bytes", hexs(full, 64), len(b2)), w.bytesCase(c, m, body))
	}
	// O4 + O5. When b2 equals the input byte for byte the two clauses follow from the
	// determinism of decode and encode (decode(b2) is decode(b), encode of it is b2
	// again), so the chain is only spot-checked (every 16th such input, and always in
	// a replay); determinism itself is what the spot-check and the second decode below
	// establish. For every other accepted input the full chain runs.
	canonical := bytes.Equal(b2, full)
	w.canonSeen++
	if !canonical || w.verbose || w.canonSeen%16 == 0 || precise {
		var pristine any
		w.rd.reset(full)
		if p2 := safely(func() { pristine, err = c.decode(&w.rd) }); p2 != "" || err != nil {
			w.viol(c, "decode-not-deterministic", fmt.Sprintf("input %s decoded once and failed the second time: err=%v panic=%q", hexs(full, 64), err, p2), w.bytesCase(c, m, body))
			return true
		}
		var v2 any
		w.rd.reset(b2)
		pan = safely(func() { v2, err = c.decode(&w.rd) })
		if w.verbose {
			w.info("decode of the re-encoding -> err=%v panic=%q", err, pan)
		}
		if pan != "" || err != nil {
			w.viol(c, "reencoded-rejected", fmt.Sprintf("input %s decoded and re-encoded to %s, which the decoder refuses: err=%v panic=%q", hexs(full, 64), hexs(b2, 64), err, pan), w.bytesCase(c, m, body))
			return true
		}
		if d := equivAny(pristine, v2); d != "" {
			w.viol(c, "roundtrip-value-differs:"+d, fmt.Sprintf("input %s: decode -> encode -> decode changed the message at %s", hexs(full, 64), d), w.bytesCase(c, m, body))
			return true
		}
		var b3 []byte
		pan = safely(func() { b3, err = c.encode(v2) })
		if w.verbose {
			w.info("second re-encode -> identical=%v err=%v panic=%q", bytes.Equal(b3, b2), err, pan)
		}
		if pan != "" || err != nil || !bytes.Equal(b3, b2) {
			w.viol(c, "not-a-fixpoint", fmt.Sprintf("input %s: encode(decode(b2)) = %s differs from b2 = %s (err=%v panic=%q)", hexs(full, 64), hexs(b3, 64), hexs(b2, 64), err, pan), w.bytesCase(c, m, body))
			return true
		}
		w.res.FullChain++
	}
	if bytes.Equal(b2, full) {
		w.res.Outcomes[fam+":accept-canonical"]++
	} else {
		w.res.Outcomes[fam+":accept-noncanonical"]++
		if len(w.res.Samples) < 2 && fam != "short" && fam != "val" && len(full) <= 400 {
			sn := ""
			if w.curSeed != nil {
				sn = w.curSeed.name
			}
			w.res.Samples = append(w.res.Samples, map[string]any{"codec": c.name, "family": fam, "seed": sn, "mutation": m().String(),
				"input": hexs(full, 120), "outcome": "accepted, not canonical: re-encodes to " + hexs(b2, 120) + ", which is a fixpoint"})
		}
	}
	w.res.Accepted++
	if fam == "short" {
		w.res.ShortAcc++
	} else if len(body) > w.shortLen && w.hashes != nil {
		var hb [8]byte
		binary.LittleEndian.PutUint64(hb[:], hash64(uint64(w.curItem.Codec), body))
		w.hashes.Write(hb[:])
	}
	return true
}

// evalValue is the value oracle (V1-V3) on one corpus entry.
func (w *worker) evalValue(c *codec, s *seed) {
	w.res.Evals++
	rc := replayCase{Kind: "value", Desc: s.desc}
	var v, pristine any
	if pan := safely(func() { v, pristine = s.gen(), s.gen() }); pan != "" || v == nil || (reflect.ValueOf(v).Kind() == reflect.Ptr && reflect.ValueOf(v).IsNil()) {
		w.res.Outcomes["val:generator-failed"]++
		return
	}
	var b []byte
	var err error
	pan := safely(func() { b, err = c.encode(v) })
	w.info("value %s (%T): encode -> %s err=%v panic=%q", s.name, v, hexs(b, 96), err, pan)
	if pan != "" {
		w.viol(c, "value-encode-panic:"+panicClass(pan), fmt.Sprintf("encoding corpus value %s panicked: %s", s.name, pan), rc)
		return
	}
	if s.name == "oversize" {
		if err == nil && len(b)-c.prefixLen() <= lnwire.MaxMsgBody {
			// the encoder rebuilt the extra data and dropped the filler
			w.res.Outcomes["val:oversize-input-shrunk-by-encoder"]++
		} else if err == nil {
			w.viol(c, "oversize-encoded", fmt.Sprintf("a %s with a %d-byte body was encoded (%d bytes); the maximum is %d", c.name, len(b)-2, len(b), lnwire.MaxMsgBody), rc)
		} else {
			w.res.Outcomes["val:oversize-refused"]++
		}
		return
	}
	if err != nil {
		if s.wellFormed {
			w.viol(c, "wellformed-encode-failed", fmt.Sprintf("well-formed value %s could not be encoded: %v", s.name, err), rc)
		} else {
			w.res.Outcomes["val:derived-not-encodable"]++
		}
		return
	}
	if c.kind == kMsg && len(b)-2 > lnwire.MaxMsgBody {
		w.viol(c, "encode-oversize", fmt.Sprintf("value %s encodes to a %d-byte body", s.name, len(b)-2), rc)
		return
	}
	var m any
	w.rd.reset(b)
	before := w.mt.total()
	pan = safely(func() { m, err = c.decode(&w.rd) })
	alloc := w.mt.total() - before
	w.res.Precise++
	if alloc > w.res.AllocMax {
		w.res.AllocMax, w.res.AllocMaxAt = alloc, fmt.Sprintf("%s value %s (%d bytes)", c.name, s.name, len(b))
	}
	w.info("decode of that encoding -> err=%v panic=%q alloc=%d", err, pan, alloc)
	if pan != "" {
		w.viol(c, "decode-panic:"+panicClass(pan), fmt.Sprintf("decoding the encoding of value %s panicked: %s", s.name, pan), rc)
		return
	}
	if alloc > c.allocBound() {
		w.viol(c, "alloc-bound", fmt.Sprintf("decoding the %d-byte encoding of value %s allocated %d bytes (bound %d)", len(b), s.name, alloc, c.allocBound()), rc)
	}
	if err != nil {
		if s.wellFormed {
			w.viol(c, "wellformed-decode-failed", fmt.Sprintf("the encoding %s of well-formed value %s is refused by the decoder: %v", hexs(b, 64), s.name, err), rc)
		} else {
			w.res.Outcomes["val:derived-rejected"]++
		}
		return
	}
	if s.wellFormed {
		// compared with a second, untouched instance of the value: Encode may have
		// modified the one it was given.
		if d := equivAny(pristine, m); d != "" {
			w.viol(c, "value-roundtrip-differs:"+d, fmt.Sprintf("well-formed value %s: decode(encode(v)) differs from v at %s", s.name, d), rc)
			return
		}
	}
	var b2 []byte
	pan = safely(func() { b2, err = c.encode(m) })
	if pan != "" || err != nil || !bytes.Equal(b, b2) {
		w.viol(c, "value-reencode-differs", fmt.Sprintf("value %s: encode(decode(encode(v))) = %s differs from encode(v) = %s (err=%v panic=%q): data lost or altered", s.name, hexs(b2, 64), hexs(b, 64), err, pan), rc)
		return
	}
	w.res.Outcomes["val:roundtrip-ok"]++
	if s.wellFormed {
		w.res.Outcomes["val:wellformed-ok"]++
	}
	w.res.Accepted++
	if len(b)-c.prefixLen() > w.shortLen && w.hashes != nil {
		var hb [8]byte
		binary.LittleEndian.PutUint64(hb[:], hash64(uint64(w.curItem.Codec), b[c.prefixLen():]))
		w.hashes.Write(hb[:])
	}
}

func (w *worker) progress(ord int) {
	w.lastOrd = ord
	if w.prog == nil {
		return
	}
	binary.LittleEndian.PutUint64(w.progBuf[0:], uint64(w.curItem.Idx))
	binary.LittleEndian.PutUint64(w.progBuf[8:], uint64(ord))
	w.prog.WriteAt(w.progBuf[:16], 0)
}

// runItem evaluates one plan item. Inputs with ordinal <= resumeAfter are skipped
// (used after a worker died on that ordinal).
func (w *worker) runItem(it item, resumeAfter int) *itemResult {
	t0 := time.Now()
	res := &itemResult{Idx: it.Idx, Outcomes: map[string]int64{}}
	defer func() { res.Secs = time.Since(t0).Seconds() }()
	w.res = res
	w.itemSigs = nil
	w.curItem = it
	w.curSeed = nil
	cc := w.co.codecs[it.Codec]
	c := cc.c
	if it.Family == "val" {
		for si := range cc.seeds {
			if si <= resumeAfter {
				continue
			}
			w.progress(si)
			s := &cc.seeds[si]
			w.curSeed = s
			if s.gen != nil {
				w.evalValue(c, s)
			}
			if s.full != nil {
				// the universal byte oracle on the seed itself, precisely metered
				w.evalBytes(c, func() bytemut.Mut { return bytemut.Mut{Kind: bytemut.KindID} }, s.full[c.prefixLen():], true)
			}
			if len(res.Samples) < 1 && s.full != nil && si > 0 {
				res.Samples = append(res.Samples, map[string]any{"codec": c.name, "seed": s.name, "bytes": hexs(s.full, 80)})
			}
		}
		return res
	}
	if it.Seed >= 0 {
		w.curSeed = &cc.seeds[it.Seed]
	}
	if it.Family == "field" {
		w.sweepField(c, w.curSeed, it.Arg, resumeAfter, nil)
		return res
	}
	if it.Family == "varlen" {
		w.sweepVar(c, w.curSeed, it.Arg, resumeAfter, nil)
		return res
	}
	if it.Family == "extrec" {
		w.runExtrec(cc, w.curSeed, resumeAfter, nil)
		return res
	}
	// allocation accounting: precise per decode for large inputs; for small ones the
	// total allocation of a chunk of K evaluations (decode + everything the harness
	// does) is compared with the per-decode bound, and only a chunk that exceeds it is
	// re-run with per-decode measurement.
	seedLen := 0
	if w.curSeed != nil {
		seedLen = len(w.curSeed.full)
	}
	precise := seedLen >= 4096
	K := 128
	if seedLen >= 1024 {
		K = 16
	}
	var suspects [][2]int
	ord, chunkStart := -1, 0
	var chunkAlloc uint64
	if !precise {
		chunkAlloc = w.mt.total()
	}
	w.enumerate(it, func(m func() bytemut.Mut, body []byte) {
		ord++
		if ord <= resumeAfter {
			return
		}
		w.progress(ord)
		w.evalBytes(c, m, body, precise)
		if !precise && (ord+1-chunkStart) >= K {
			now := w.mt.total()
			if now-chunkAlloc > c.allocBound() {
				suspects = append(suspects, [2]int{chunkStart, ord + 1})
			}
			chunkStart, chunkAlloc = ord+1, w.mt.total()
		}
	})
	if !precise && ord+1 > chunkStart {
		if w.mt.total()-chunkAlloc > c.allocBound() {
			suspects = append(suspects, [2]int{chunkStart, ord + 1})
		}
	}
	if len(suspects) > 0 {
		o := -1
		w.enumerate(it, func(m func() bytemut.Mut, body []byte) {
			o++
			in := false
			for _, s := range suspects {
				if o >= s[0] && o < s[1] {
					in = true
				}
			}
			if !in || o <= resumeAfter {
				return
			}
			w.progress(o)
			res.Rechecked++
			pl := c.prefixLen()
			w.full = append(append(w.full[:0], c.prefix[:pl]...), body...)
			_, _, pan, alloc := w.decode(c, w.full, true)
			if pan == "" && alloc > c.allocBound() {
				w.viol(c, "alloc-bound", fmt.Sprintf("decoding the %d-byte input %s allocated %d bytes (bound %d = 64KiB*%d)", len(w.full), hexs(w.full, 64), alloc, c.allocBound(), c.allocBound()/kib64), w.bytesCase(c, m, body))
			}
		})
	}

	return res
}

func workerMain(thorough bool) {
	guard := time.AfterFunc(20*time.Minute, func() { os.Exit(2) })
	w := &worker{co: buildCorpus(thorough), thorough: thorough, shortLen: 2}
	guard.Stop()
	if thorough {
		w.shortLen = 3
	}
	plan := buildPlan(w.co, thorough)
	if p := os.Getenv("VERIF_C10_PROGRESS"); p != "" {
		w.prog, _ = os.OpenFile(p, os.O_CREATE|os.O_WRONLY, 0o644)
	}
	if p := os.Getenv("VERIF_C10_HASHES"); p != "" {
		f, err := os.OpenFile(p, os.O_CREATE|os.O_WRONLY|os.O_APPEND, 0o644)
		if err == nil {
			w.hashes = bufio.NewWriterSize(f, 1<<16)
			defer f.Close()
		}
	}
	out := bufio.NewWriter(os.Stdout)
	fmt.Fprintf(out, "READY %d\n", len(plan))
	out.Flush()
	sc := bufio.NewScanner(os.Stdin)
	for sc.Scan() {
		f := strings.Fields(sc.Text())
		if len(f) < 2 {
			continue
		}
		idx, _ := strconv.Atoi(f[0])
		resume, _ := strconv.Atoi(f[1])
		if idx < 0 || idx >= len(plan) {
			continue
		}
		var res *itemResult
		if p := safely(func() { res = w.runItem(plan[idx], resume) }); p != "" {
			// a panic that escaped the per-call guards inside an item: report it
			// against the input the worker was on and hand the partial result back.
			res = w.res
			rc := w.caseAt(plan[idx], w.lastOrd)
			c := w.co.codecs[plan[idx].Codec].c
			w.res = res
			w.viol(c, "panic-outside-guard:"+panicClass(p), fmt.Sprintf("%s %s ordinal %d: %s", c.name, plan[idx].Family, w.lastOrd, p), rc)
		}
		if w.hashes != nil {
			w.hashes.Flush()
		}
		j, _ := json.Marshal(res)
		fmt.Fprintf(out, "RES %s\n", j)
		out.Flush()
	}
}

// ---------------------------------------------------------------------------------
// parent

type wproc struct {
	id       int
	cmd      *exec.Cmd
	stdin    io.WriteCloser
	out      *bufio.Reader
	errTail  *tailBuf
	progPath string
	hashPath string
	busy     atomic.Int64 // item idx + 1, 0 = idle
	stalled  atomic.Bool
}

// syncBuf is an unbounded concurrent-safe buffer (replay child output).
type syncBuf struct {
	mu sync.Mutex
	b  bytes.Buffer
}

func (s *syncBuf) Write(p []byte) (int, error) {
	s.mu.Lock()
	defer s.mu.Unlock()
	return s.b.Write(p)
}

func (s *syncBuf) bytes() []byte {
	s.mu.Lock()
	defer s.mu.Unlock()
	return append([]byte(nil), s.b.Bytes()...)
}

type tailBuf struct {
	mu sync.Mutex
	b  []byte
}

func (t *tailBuf) Write(p []byte) (int, error) {
	t.mu.Lock()
	t.b = append(t.b, p...)
	if len(t.b) > 1<<16 {
		t.b = t.b[len(t.b)-1<<15:]
	}
	t.mu.Unlock()
	return len(p), nil
}

func (t *tailBuf) firstFatal() string {
	t.mu.Lock()
	defer t.mu.Unlock()
	for _, ln := range strings.Split(string(t.b), "\n") {
		if strings.HasPrefix(ln, "fatal error:") || strings.HasPrefix(ln, "runtime:") || strings.HasPrefix(ln, "panic:") || strings.HasPrefix(ln, "signal:") {
			return ln
		}
	}
	s := strings.TrimSpace(string(t.b))
	if len(s) > 200 {
		s = s[:200]
	}
	return s
}

func spawn(id int, dir string, tier string) (*wproc, error) {
	self := os.Getenv("VERIF_SELF")
	if self == "" {
		self, _ = os.Executable()
	}
	p := &wproc{id: id, progPath: fmt.Sprintf("%s/c10w%d.prog", dir, id), hashPath: fmt.Sprintf("%s/c10w%d.hash", dir, id), errTail: &tailBuf{}}
	os.WriteFile(p.progPath, make([]byte, 16), 0o644)
	args := []string{"-test.run", "TestC10Lnwire$", "-test.timeout", "12h"}
	if pf := os.Getenv("VERIF_C10_PROFILE"); pf != "" && id == 0 {
		args = append(args, "-test.cpuprofile", pf) // debugging aid
	}
	if cd := os.Getenv("VERIF_C10_COVER_DIR"); cd != "" {
		// audit aid (binary built by `bin/check --cover`): the enumeration runs in the
		// workers, so the block profile has to be written by them
		args = append(args, "-test.coverprofile", fmt.Sprintf("%s/C10_lnwire_w%d.out", cd, id))
	}
	p.cmd = exec.Command(self, args...)
	p.cmd.Env = append(os.Environ(), "VERIF_C10_WORKER=1", "GOMAXPROCS=1", "GOGC=800", "VERIF_TIER="+tier,
		"VERIF_C10_PROGRESS="+p.progPath, "VERIF_C10_HASHES="+p.hashPath)
	var err error
	if p.stdin, err = p.cmd.StdinPipe(); err != nil {
		return nil, err
	}
	so, err := p.cmd.StdoutPipe()
	if err != nil {
		return nil, err
	}
	p.cmd.Stderr = p.errTail
	p.out = bufio.NewReaderSize(so, 1<<20)
	if err := p.cmd.Start(); err != nil {
		return nil, err
	}
	for {
		ln, err := p.out.ReadString('\n')
		if err != nil {
			return nil, fmt.Errorf("worker %d did not start: %v: %s", id, err, p.errTail.firstFatal())
		}
		if strings.HasPrefix(ln, "READY ") {
			return p, nil
		}
		p.errTail.Write([]byte(ln))
	}
}

func (p *wproc) readProgress() (idx, ord int) {
	raw, err := os.ReadFile(p.progPath)
	if err != nil || len(raw) < 16 {
		return -1, -1
	}
	return int(binary.LittleEndian.Uint64(raw[0:])), int(binary.LittleEndian.Uint64(raw[8:]))
}

type agg struct {
	mu                         sync.Mutex
	evals                      int64
	accepted                   int64
	shortAcc                   int64
	outcomes                   map[string]int64
	perCodec                   map[string][2]int64 // evals, accepted
	allocMax                   map[string]uint64   // plain / zlib
	allocMaxAt                 map[string]string
	precise                    int64
	rechecked                  int64
	maxReads                   float64
	samples                    []any
	crashes                    int
	capsHit                    []string
	itemsDone                  int
	sigs                       map[string]int
	allocCodec                 map[string]uint64
	fullChain                  int64
	triples                    int64
	sweptFields                int
	resizeCases, resizeTargets int64
	resizeSeeds                int
	sweptTypes                 map[string]int
	oversize                   int64
	sampleFams                 map[string]int
	secsFam                    map[string]float64
	secsCodec                  map[string]float64
	xrCases, xrBases           int64
	xrPerCodec                 map[string]int
}

func TestC10Lnwire(t *testing.T) {
	thorough := os.Getenv("VERIF_TIER") == "thorough"
	if os.Getenv("VERIF_C10_WORKER") != "" {
		workerMain(thorough)
		return
	}
	run := evid.Start("C10", "exploration")
	if rp := os.Getenv("VERIF_REPLAY"); rp != "" {
		replayLnwire(t, run, rp)
		return
	}
	dir := os.Getenv("VERIF_SCRATCH")
	if dir == "" {
		dir = os.TempDir()
	}
	// Corpus construction encodes and decodes valid values in this process; if that
	// does not terminate nothing can be attributed to an input: give up (exit 2).
	guard := time.AfterFunc(20*time.Minute, func() {
		fmt.Println("INFO corpus construction did not finish within 20 minutes (a codec does not terminate on one of its own valid values?)")
		os.Exit(2)
	})
	// Last resort: whatever panics in this process outside the guarded calls (a
	// decoder reached from a place nobody thought of) still ends in a verdict with
	// evidence, never in a dead binary.
	defer func() {
		if r := recover(); r != nil {
			st := string(debug.Stack())
			site := "unknown"
			for _, ln := range strings.Split(st, "\n") {
				if strings.Contains(ln, "lnd/lnwire.") || strings.Contains(ln, "lnd/tlv.") {
					site = strings.TrimSpace(strings.SplitN(ln, "(", 2)[0])
					break
				}
			}
			run.Violation("lnwire:harness-phase:panic:"+panicClass(fmt.Sprint(r)), fmt.Sprintf("a call into lnd panicked outside the enumeration (%v) at %s; stack: %s", r, site, hexFree(st, 1500)), map[string]any{"half": "lnwire", "kind": "none"})
			os.Exit(run.Finish(map[string]any{"evaluations": 1, "distinct_nontrivial": 2, "rule": "aborted by a panic outside the enumeration", "samples": []any{fmt.Sprint(r)}, "exhaustive": false, "caps_hit": []string{"panic outside the enumeration"}}))
		}
	}()
	co := buildCorpus(thorough)
	plan := buildPlan(co, thorough)
	guard.Stop()
	for _, v := range buildViols {
		run.Violation(v.Sig, v.What, v.Replay)
	}
	nBuildViols := len(buildViols)
	fmt.Printf("INFO lnwire corpus: %d codecs, %d plan items, built in %.1fs\n", len(co.codecs), len(plan), run.Elapsed().Seconds())
	if os.Getenv("VERIF_C10_DEBUG") != "" {
		for _, it := range plan {
			if it.Family == "varlen" {
				s := &co.codecs[it.Codec].seeds[it.Seed]
				safely(func() {
					l := varLeaves(s.gen())[it.Arg]
					fmt.Printf("INFO varlen element %s %s %s (%s) base-len=%d\n", co.codecs[it.Codec].c.name, s.name, l.path, l.kind, func() int {
						if l.kind == "fv" {
							return -1
						}
						return l.v.Len()
					}())
				})
			}
		}
	}
	pw := &worker{co: co, thorough: thorough, res: &itemResult{Outcomes: map[string]int64{}}} // for crash attribution only

	nw := runtime.NumCPU()
	if nw > 16 {
		nw = 16
	}
	if s := os.Getenv("VERIF_C10_WORKERS"); s != "" {
		if n, err := strconv.Atoi(s); err == nil && n > 0 {
			nw = n
		}
	}
	stallSecs := 900
	if s := os.Getenv("VERIF_C10_STALL_S"); s != "" {
		if n, err := strconv.Atoi(s); err == nil && n > 0 {
			stallSecs = n
		}
	}
	onlyCodec := os.Getenv("VERIF_C10_CODEC") // debugging aid: substring filter
	onlyFam := os.Getenv("VERIF_C10_FAMILY")  // debugging aid: exact family name

	// most expensive first, rotated by VERIF_SEED (work assignment only)
	order := make([]int, 0, len(plan))
	for i, it := range plan {
		if onlyCodec != "" && !strings.Contains(co.codecs[it.Codec].c.name, onlyCodec) {
			continue
		}
		if onlyFam != "" && it.Family != onlyFam {
			continue
		}
		order = append(order, i)
	}
	sort.SliceStable(order, func(a, b int) bool { return plan[order[a]].cost > plan[order[b]].cost })
	if len(order) > 0 {
		rot := run.Seed() % len(order)
		if rot < 0 {
			rot = -rot
		}
		order = append(order[rot:], order[:rot]...)
	}
	type job struct{ idx, resume, crashes int }
	queue := make(chan job, len(order)+64)
	for _, i := range order {
		queue <- job{idx: i, resume: -1}
	}
	var pending atomic.Int64
	pending.Store(int64(len(order)))

	a := &agg{xrPerCodec: map[string]int{}, sweptTypes: map[string]int{}, sampleFams: map[string]int{}, secsFam: map[string]float64{}, secsCodec: map[string]float64{}, sigs: map[string]int{}, allocCodec: map[string]uint64{}, outcomes: map[string]int64{}, perCodec: map[string][2]int64{}, allocMax: map[string]uint64{}, allocMaxAt: map[string]string{}, capsHit: []string{}}
	var hashFiles []string
	var hfMu sync.Mutex
	var broken atomic.Bool
	var wg sync.WaitGroup
	var procs sync.Map
	stopWatch := make(chan struct{})
	go func() { // stall watchdog: stops exploration only, never a verdict
		last := map[int][3]int64{}
		tk := time.NewTicker(5 * time.Second)
		defer tk.Stop()
		for {
			select {
			case <-stopWatch:
				return
			case <-tk.C:
			}
			procs.Range(func(k, v any) bool {
				p := v.(*wproc)
				b := p.busy.Load()
				if b == 0 {
					delete(last, p.id)
					return true
				}
				idx, ord := p.readProgress()
				l, seen := last[p.id]
				if seen && l[0] == int64(idx) && l[1] == int64(ord) {
					if time.Now().Unix()-l[2] > int64(stallSecs) {
						p.stalled.Store(true)
						p.cmd.Process.Kill()
					}
				} else {
					last[p.id] = [3]int64{int64(idx), int64(ord), time.Now().Unix()}
				}
				return true
			})
		}
	}()

	for wi := 0; wi < nw; wi++ {
		wg.Add(1)
		go func(wi int) {
			defer wg.Done()
			var p *wproc
			gen := 0
			for {
				if pending.Load() == 0 {
					break
				}
				var j job
				select {
				case j = <-queue:
				case <-time.After(200 * time.Millisecond):
					continue
				}
				if p == nil {
					var err error
					p, err = spawn(wi*1000+gen, dir, run.Tier())
					gen++
					if err != nil {
						fmt.Printf("INFO %v\n", err)
						broken.Store(true)
						pending.Add(-1)
						continue
					}
					procs.Store(p.id, p)
					hfMu.Lock()
					hashFiles = append(hashFiles, p.hashPath)
					hfMu.Unlock()
				}
				p.busy.Store(int64(j.idx) + 1)
				fmt.Fprintf(p.stdin, "%d %d\n", j.idx, j.resume)
				var res *itemResult
				for {
					ln, err := p.out.ReadString('\n')
					if err != nil {
						break
					}
					if strings.HasPrefix(ln, "RES ") {
						var r itemResult
						if json.Unmarshal([]byte(ln[4:]), &r) == nil {
							res = &r
						}
						break
					}
				}
				p.busy.Store(0)
				if res != nil {
					a.add(co, plan[j.idx], res, run)
					pending.Add(-1)
					continue
				}
				// the worker died while working on item j
				p.cmd.Wait()
				idx, ord := p.readProgress()
				procs.Delete(p.id)
				os.Remove(p.progPath)
				it := plan[j.idx]
				if idx != j.idx {
					ord = j.resume + 1
				}
				cname := co.codecs[it.Codec].c.name
				if p.stalled.Load() {
					// Rule: a wall-clock deadline only stops exploration. The input is
					// saved, named as a cap (exhaustive:false) and skipped; the exit code
					// stays 0 unless VERIF_C10_STALL_VERDICT=violation asks for a verdict,
					// in which case the input is re-run alone three times in fresh
					// processes and reported only if none of the three returns.
					rc := pw.caseAt(it, ord)
					path := writeStall(rc)
					fmt.Printf("INFO stall: no progress for %ds on %s %s ordinal %d; input saved to %s and skipped (cap, not a verdict)\n", stallSecs, cname, it.Family, ord, path)
					a.mu.Lock()
					a.capsHit = append(a.capsHit, fmt.Sprintf("stall (no progress for %ds) on %s %s ordinal %d, replay %s", stallSecs, cname, it.Family, ord, path))
					a.mu.Unlock()
					if os.Getenv("VERIF_C10_STALL_VERDICT") == "violation" && confirmStall(path, stallSecs) {
						run.Violation("lnwire:"+cname+":no-termination",
							fmt.Sprintf("decoding an input of %s (%s, ordinal %d) did not return within %ds in 3 of 3 isolated re-runs", cname, it.Family, ord, stallSecs), rc)
					}
				} else {
					first := p.errTail.firstFatal()
					rc := pw.caseAt(it, ord)
					run.Violation("lnwire:"+cname+":fatal-crash:"+panicClass(first),
						fmt.Sprintf("decoding an input of %s (%s, ordinal %d) killed the process: %s", cname, it.Family, ord, first), rc)
					a.mu.Lock()
					a.crashes++
					a.outcomes["VIOL-fatal-crash"]++
					a.mu.Unlock()
				}
				p = nil
				if j.crashes+1 >= 3 {
					a.mu.Lock()
					a.capsHit = append(a.capsHit, fmt.Sprintf("item %s/%s abandoned after 3 worker deaths", cname, it.Family))
					a.mu.Unlock()
					pending.Add(-1)
				} else {
					queue <- job{idx: j.idx, resume: ord, crashes: j.crashes + 1}
				}
			}
			if p != nil {
				p.stdin.Close()
				p.cmd.Wait()
				os.Remove(p.progPath)
			}
		}(wi)
	}
	wg.Wait()
	close(stopWatch)

	distinct, nh := countDistinct(hashFiles)
	for _, f := range hashFiles {
		os.Remove(f)
	}

	// coverage
	codecNames := []string{}
	nMsg, nFail := 0, 0
	seedsTotal, wellFormed := 0, 0
	for _, cc := range co.codecs {
		codecNames = append(codecNames, cc.c.name)
		switch cc.c.kind {
		case kMsg:
			nMsg++
		case kFailMsg:
			nFail++
		}
		for _, s := range cc.seeds {
			seedsTotal++
			if s.wellFormed {
				wellFormed++
			}
		}
	}
	vacuous := []string{}
	for _, n := range codecNames {
		pc := a.perCodec[n]
		if pc[0] > 0 && (pc[1] == 0 || pc[1] == pc[0]) && n != "msg/Custom" {
			vacuous = append(vacuous, fmt.Sprintf("%s: %d evaluations, %d accepted", n, pc[0], pc[1]))
		}
	}
	xrNoBase := []string{}
	for _, cc := range co.codecs {
		if cc.c.kind == kMsg && a.xrPerCodec[cc.c.name] == 0 {
			xrNoBase = append(xrNoBase, cc.c.name)
		}
	}
	if len(a.samples) == 0 {
		a.samples = []any{"(no sample returned by the workers)"}
	}
	perCodec := map[string]any{}
	for k, v := range a.perCodec {
		perCodec[k] = map[string]int64{"evaluations": v[0], "accepted": v[1]}
	}
	cov := map[string]any{
		"evaluations":         int(a.evals),
		"distinct_nontrivial": int(distinct + a.shortAcc),
		"rule": "lnwire half: inputs are enumerated exhaustively per (codec, seed, family) as listed in the header of harness/c10/lnwire_test.go; an input is non-trivial when the real decoder ACCEPTED it, " +
			"so that the re-encode / re-decode / equality / fixpoint clauses O3-O5 all ran on it; distinct = distinct (codec, byte string) pairs: structural for the all-short-bodies family, " +
			"a merged set of 64-bit hashes for all other families",
		"samples":                               a.samples,
		"exhaustive":                            len(a.capsHit) == 0 && !broken.Load() && onlyCodec == "" && onlyFam == "",
		"caps_hit":                              a.capsHit,
		"lnwire_outcomes":                       a.outcomes,
		"lnwire_per_codec":                      perCodec,
		"lnwire_codecs":                         len(co.codecs),
		"lnwire_message_types":                  nMsg,
		"lnwire_failure_codes":                  nFail,
		"lnwire_seeds":                          seedsTotal,
		"lnwire_wellformed_values":              wellFormed,
		"lnwire_plan_items":                     len(order),
		"lnwire_accepted_hashes":                int(nh),
		"lnwire_alloc_max_bytes":                a.allocMax,
		"lnwire_alloc_max_at":                   a.allocMaxAt,
		"lnwire_alloc_max_per_codec":            a.allocCodec,
		"lnwire_violation_signatures":           a.sigs,
		"lnwire_worker_seconds_per_family":      a.secsFam,
		"lnwire_worker_seconds_per_codec":       a.secsCodec,
		"lnwire_alloc_bound_bytes":              map[string]int{"plain": allocCPlain * kib64, "heavy": allocCHeavy * kib64},
		"lnwire_alloc_precise_measurements":     int(a.precise),
		"lnwire_alloc_rechecked":                int(a.rechecked),
		"lnwire_max_reads_per_byte":             a.maxReads,
		"lnwire_corpus_construction_violations": nBuildViols,
		"lnwire_worker_deaths":                  a.crashes,
		"lnwire_full_chain_evaluations":         int(a.fullChain),
		"lnwire_field_sweep_triples":            int(a.triples),
		"lnwire_resize_cases":                   int(a.resizeCases),
		"lnwire_resize_targets":                 int(a.resizeTargets),
		"lnwire_resize_seeds":                   a.resizeSeeds,
		"lnwire_field_sweep_fields":             a.sweptFields,
		"lnwire_field_sweep_fields_per_codec":   a.sweptTypes,
		"lnwire_field_sweep_range":              fmt.Sprintf("[0,%d] + {2^k-1,2^k,2^k+1 : k<=width} + max (+ -1,-2,min for signed)", sweepUpto(thorough)),
		"lnwire_inputs_over_65535_skipped":      int(a.oversize),
		"lnwire_extrec_record_sets":             int(a.xrCases),
		"lnwire_extrec_bases_used":              int(a.xrBases),
		"lnwire_extrec_bases_per_codec":         a.xrPerCodec,
		"lnwire_extrec_codecs_without_base":     xrNoBase,
		"lnwire_codecs_single_outcome":          vacuous,
		"lnwire_corpus_notes":                   co.notes,
		"lnwire_workers":                        nw,
	}
	run.Assumptions = append(run.Assumptions,
		"lnwire half, varlen family: a value whose variable-length element was resized counts as well-formed when the real encoder accepts it, with three legality rules stated in the harness instead of read from lnd: strings (DNS hostnames) have 1..255 bytes, a DeliveryAddress has at most 34 bytes (BOLT 2 script forms), types of package tor are not entered; ExtraOpaqueData / CustomRecords / ExtraSignedFields are left to the extrec family; bases are the field-sweep value and the zero message of each codec",
		"lnwire half: 'all byte strings up to 65535 bytes' is covered through all bodies <= 2 (quick) / <= 3 (thorough) bytes and the stated single-edit neighbourhoods of a fixed corpus; seeds come from the repository's RandTestMessage generators with fixed rapid seeds (sampling) - the enumeration around each seed is exhaustive",
		"lnwire half: 'never hangs' is decided by a deterministic read-count budget (8*len+256 reads on the message reader); a decode that spins without reading is killed by a no-progress watchdog, its input is saved, skipped and named in caps_hit (exhaustive:false, no verdict) unless VERIF_C10_STALL_VERDICT=violation asks for a 3x re-run confirmation",
		"lnwire half, extrec family: the extension TLV stream of a base encoding is located by observing the real decoder's reads (the first 512-byte-buffer read = io.ReadAll in ExtraOpaqueData.Decode, or a 1-byte read at offset 2 for decoders that hand the reader to a tlv.Stream) and must parse as a canonical stream with the reference parser; bases where it cannot be located, that are no decode/encode fixpoint or exceed 2048 bytes are skipped and counted (lnwire_outcomes extrec-base:*, lnwire_extrec_codecs_without_base); the known record types of a message type are learnt from its encoder's output on the corpus values and from the tlv.TlvTypeN names in its struct, unknown even types may be refused, onion failures are not part of the family",
		"lnwire half: lnwire is compiled against tlv@v1.4.0 from the module cache (as lnd itself is); the tlv working tree is checked by the tlv half",
		"lnwire half: allocation is measured as runtime TotalAlloc delta around the decode call in a single-goroutine GOMAXPROCS=1 worker; bounds are 64KiB*"+strconv.Itoa(allocCPlain)+" (plain) and 64KiB*"+strconv.Itoa(allocCHeavy)+" (codecs with a signature vector, a feature-bit map or zlib data), fixed from the maxima measured on the unchanged tree with >= 2x head-room")
	code := run.Finish(cov)
	if broken.Load() {
		t.Fatalf("lnwire half incomplete (worker start failure or stall): no verdict")
	}
	if code != 0 {
		os.Exit(code)
	}
}

func (a *agg) add(co *corpus, it item, r *itemResult, run *evid.Run) {
	a.mu.Lock()
	defer a.mu.Unlock()
	a.itemsDone++
	a.evals += r.Evals
	a.accepted += r.Accepted
	a.shortAcc += r.ShortAcc
	for k, v := range r.Outcomes {
		a.outcomes[k] += v
	}
	c := co.codecs[it.Codec].c
	pc := a.perCodec[c.name]
	pc[0] += r.Evals
	pc[1] += r.Accepted
	a.perCodec[c.name] = pc
	cl := "plain"
	if c.zlib || c.heavy {
		cl = "heavy"
	}
	if r.AllocMax > a.allocMax[cl] {
		a.allocMax[cl] = r.AllocMax
		a.allocMaxAt[cl] = r.AllocMaxAt
	}
	a.precise += r.Precise
	a.rechecked += r.Rechecked
	if r.MaxReads > a.maxReads {
		a.maxReads = r.MaxReads
	}
	for _, sm := range r.Samples {
		key := it.Family
		if a.sampleFams[key] < 2 && len(a.samples) < 14 {
			a.sampleFams[key]++
			a.samples = append(a.samples, sm)
		}
	}
	a.fullChain += r.FullChain
	a.triples += r.Triples
	if it.Family == "resize" {
		a.resizeCases += r.Evals
		a.resizeTargets += r.ResizeTargets
		a.resizeSeeds++
	}
	if it.Family == "field" && r.Triples > 0 {
		a.sweptFields++
		a.sweptTypes[c.name]++
	}
	a.oversize += r.Oversize
	a.xrCases += r.XrCases
	a.xrBases += r.XrBases
	if it.Family == "extrec" {
		a.xrPerCodec[c.name] += int(r.XrBases)
	}
	a.secsFam[it.Family] += r.Secs
	a.secsCodec[c.name] += r.Secs
	if r.AllocMax > a.allocCodec[c.name] {
		a.allocCodec[c.name] = r.AllocMax
	}
	for _, v := range r.Viols {
		if a.sigs[v.Sig] == 0 && os.Getenv("VERIF_C10_DEBUG") != "" {
			fmt.Printf("INFO new violation signature %s :: %s\n", v.Sig, v.What)
		}
		a.sigs[v.Sig]++
		run.Violation(v.Sig, v.What, v.Replay)
	}
}

// caseAt reconstructs the input of (item, ordinal) for crash / stall attribution.
func (w *worker) caseAt(it item, ord int) replayCase {
	cc := w.co.codecs[it.Codec]
	c := cc.c
	w.curItem = it
	w.curSeed = nil
	rc := replayCase{Half: "lnwire", Codec: c.name, Kind: "bytes", Family: it.Family}
	if it.Family == "val" {
		if ord >= 0 && ord < len(cc.seeds) {
			s := cc.seeds[ord]
			rc.Kind, rc.Desc = "value", s.desc
			if s.full != nil && len(s.full) <= 4096 {
				rc.Kind = "bytes"
				r := bytemut.Raw(s.full[c.prefixLen():])
				rc.Mut = &r
				rc.Prefix = hex.EncodeToString(c.prefix[:c.prefixLen()])
			}
		}
		return rc
	}
	if it.Seed >= 0 {
		w.curSeed = &cc.seeds[it.Seed]
	}
	if it.Family == "field" {
		rc.Kind, rc.Desc = "field", w.curSeed.desc
		safely(func() {
			ls := leaves(w.curSeed.gen())
			if it.Arg < len(ls) {
				rc.Field = ls[it.Arg].path
				vals := sweepValues(ls[it.Arg].bits, ls[it.Arg].signed, sweepUpto(w.thorough))
				if ord >= 0 && ord < len(vals) {
					rc.Value = fmt.Sprint(vals[ord])
				}
			}
		})
		return rc
	}
	if it.Family == "varlen" {
		rc.Kind, rc.Desc = "varlen", w.curSeed.desc
		safely(func() {
			ls := varLeaves(w.curSeed.gen())
			if it.Arg < len(ls) {
				rc.Field = ls[it.Arg].path
				w.res = &itemResult{Outcomes: map[string]int64{}}
				if cs := w.varCases(c, w.curSeed, it.Arg, ls[it.Arg]); ord >= 0 && ord < len(cs) {
					rc.Value = cs[ord]
				}
			}
		})
		return rc
	}
	if it.Family == "extrec" {
		return w.xrCaseAt(cc, w.curSeed, ord)
	}
	o := -1
	found := false
	w.enumerate(it, func(m func() bytemut.Mut, body []byte) {
		o++
		if o == ord && !found {
			found = true
			rc = w.bytesCase(c, m, body)
			rc.Half, rc.Codec = "lnwire", c.name
		}
	})
	return rc
}

// confirmStall re-runs a saved input alone, three times, each in a fresh process with
// the same time allowance; true iff none of the runs returns.
func confirmStall(path string, secs int) bool {
	self := os.Getenv("VERIF_SELF")
	if self == "" {
		self, _ = os.Executable()
	}
	for i := 0; i < 3; i++ {
		cmd := exec.Command(self, "-test.run", "TestC10Lnwire$")
		cmd.Env = append(os.Environ(), "VERIF_C10_REPLAY_CHILD=1", "VERIF_REPLAY="+path, "GOMAXPROCS=1")
		done := make(chan error, 1)
		if err := cmd.Start(); err != nil {
			return false
		}
		go func() { done <- cmd.Wait() }()
		select {
		case <-done:
			return false
		case <-time.After(time.Duration(secs) * time.Second):
			cmd.Process.Kill()
			<-done
		}
	}
	return true
}

func hexFree(s string, max int) string {
	s = strings.ReplaceAll(s, "\n", " | ")
	if len(s) > max {
		s = s[:max]
	}
	return s
}

func writeStall(rc replayCase) string {
	dir := evid.Root() + "/replays/C10"
	os.MkdirAll(dir, 0o755)
	j, _ := json.MarshalIndent(map[string]any{"property": "C10", "signature": "stall", "what": "no progress (not a verdict)", "replay": rc}, "", " ")
	path := fmt.Sprintf("%s/stall-%d.json", dir, time.Now().UnixNano())
	os.WriteFile(path, j, 0o644)
	return path
}

// countDistinct merges the workers' hash files.
func countDistinct(files []string) (distinct, total int64) {
	var all []uint64
	for _, f := range files {
		raw, err := os.ReadFile(f)
		if err != nil {
			continue
		}
		for i := 0; i+8 <= len(raw); i += 8 {
			all = append(all, binary.LittleEndian.Uint64(raw[i:]))
		}
	}
	sort.Slice(all, func(i, j int) bool { return all[i] < all[j] })
	for i, h := range all {
		if i == 0 || h != all[i-1] {
			distinct++
		}
	}
	return distinct, int64(len(all))
}

// ---------------------------------------------------------------------------------
// replay

func genFromDesc(d map[string]any) func() any {
	num := func(k string) int {
		f, _ := d[k].(float64)
		return int(f)
	}
	g, _ := d["gen"].(string)
	switch g {
	case "zero":
		return nil
	case "rapid":
		t := lnwire.MessageType(num("type"))
		k := num("seed")
		var clear []string
		if cl, ok := d["clear"].([]any); ok {
			for _, c := range cl {
				clear = append(clear, fmt.Sprint(c))
			}
		}
		return func() any {
			m, _ := randMsg(t, k)
			v := reflect.ValueOf(m).Elem()
			for _, f := range clear {
				fv := v.FieldByName(f)
				fv.Set(reflect.Zero(fv.Type()))
			}
			return m
		}
	case "max":
		t := lnwire.MessageType(num("type"))
		var ex []lnwire.Message
		if m, _ := randMsg(t, 0); m != nil {
			ex = append(ex, m)
		}
		return maxValue(t, ex, num("body"))
	case "addrkinds":
		t := lnwire.MessageType(num("type"))
		k := num("seed")
		spec, _ := d["spec"].(string)
		return func() any {
			m, _ := randMsg(t, k)
			setAddrFields(m, spec)
			return m
		}
	case "zlib":
		t := lnwire.MessageType(num("type"))
		n := num("ids")
		return func() any { return zlibValue(t, n) }
	case "extrec":
		return xrGenFromDesc(d)
	case "failctor":
		gens := failureValues(lnwire.FailCode(num("code")))
		if i := num("i"); i < len(gens) {
			return gens[i]
		}
	}
	return nil
}

func replayLnwire(t *testing.T, run *evid.Run, path string) {
	raw, err := os.ReadFile(path)
	if err != nil {
		t.Fatalf("replay: %v", err)
	}
	var f struct {
		Replay replayCase `json:"replay"`
	}
	if err := json.Unmarshal(raw, &f); err != nil {
		t.Fatalf("replay: %v", err)
	}
	rc := f.Replay
	finish := func(evals int) {
		code := run.Finish(map[string]any{"evaluations": evals + 1, "distinct_nontrivial": 2, "rule": "replay", "samples": []any{path}, "exhaustive": false})
		if code != 0 {
			os.Exit(code)
		}
	}
	if rc.Half != "lnwire" {
		fmt.Printf("INFO lnwire target: replay file belongs to half %q, nothing to do\n", rc.Half)
		finish(0)
		return
	}
	// The case itself runs in a child process: it may be one that kills the process.
	if os.Getenv("VERIF_C10_REPLAY_CHILD") == "" {
		self := os.Getenv("VERIF_SELF")
		if self == "" {
			self, _ = os.Executable()
		}
		cmd := exec.Command(self, "-test.run", "TestC10Lnwire$")
		cmd.Env = append(os.Environ(), "VERIF_C10_REPLAY_CHILD=1", "GOMAXPROCS=1")
		var outBuf syncBuf
		cmd.Stdout, cmd.Stderr = &outBuf, &outBuf
		err := cmd.Start()
		if err == nil {
			done := make(chan error, 1)
			go func() { done <- cmd.Wait() }()
			limit := 900
			if s := os.Getenv("VERIF_C10_STALL_S"); s != "" {
				if n, e := strconv.Atoi(s); e == nil && n > 0 {
					limit = n
				}
			}
			select {
			case err = <-done:
			case <-time.After(time.Duration(limit) * time.Second):
				cmd.Process.Kill()
				<-done
				fmt.Printf("INFO the replayed input did not return within %ds (stall: a cap, not a verdict)\n", limit)
				finish(1)
				return
			}
		}
		out := outBuf.bytes()
		var viols []violRec
		for _, ln := range strings.Split(string(out), "\n") {
			if strings.HasPrefix(ln, "INFO ") {
				fmt.Println(ln)
			}
			if strings.HasPrefix(ln, "CHILDVIOL ") {
				var v violRec
				if json.Unmarshal([]byte(ln[10:]), &v) == nil {
					viols = append(viols, v)
				}
			}
		}
		if err != nil && !strings.Contains(string(out), "CHILDDONE") {
			tb := &tailBuf{b: out}
			first := tb.firstFatal()
			fmt.Printf("INFO the replayed input killed the child process: %s\n", first)
			run.Violation("lnwire:"+rc.Codec+":fatal-crash:"+panicClass(first), "replayed input killed the process: "+first, rc)
		}
		for _, v := range viols {
			run.Violation(v.Sig, v.What, v.Replay)
		}
		finish(1)
		return
	}
	// child
	co := &corpus{}
	var c *codec
	full := buildCorpus(false)
	for _, cc := range full.codecs {
		if cc.c.name == rc.Codec {
			c = cc.c
			co.codecs = []*codecCorpus{cc}
		}
	}
	if c == nil {
		fmt.Printf("INFO unknown codec %q\n", rc.Codec)
		os.Exit(3)
	}
	w := &worker{co: co, verbose: true, shortLen: 2, res: &itemResult{Outcomes: map[string]int64{}}}
	w.curItem = item{Family: rc.Family}
	fmt.Printf("INFO replaying a %s case of codec %s (family %s)\n", rc.Kind, rc.Codec, rc.Family)
	if rc.Kind == "extrec" {
		sb, _ := hex.DecodeString(rc.Seed)
		s := &seed{name: "replay-base", full: append(append([]byte{}, c.prefix[:c.prefixLen()]...), sb...), desc: rc.Desc}
		if g, _ := rc.Desc["gen"].(string); g == "zero" {
			pfx := c.prefix
			s.gen = func() any {
				m, _ := lnwire.MakeEmptyMessage(lnwire.MessageType(binary.BigEndian.Uint16(pfx[:])))
				return m
			}
		} else if rc.Desc != nil {
			s.gen = genFromDesc(rc.Desc)
		}
		if rc.Seed == "" && s.gen != nil {
			safely(func() { s.full, _ = c.encode(s.gen()) })
			if len(s.full) >= c.prefixLen() {
				sb = s.full[c.prefixLen():]
			}
		}
		w.curSeed = s
		w.curItem = item{Family: "extrec"}
		U := fromX(rc.Recs)
		fmt.Printf("INFO base body %s; records merged into its extension stream: %s\n", hexs(sb, 64), showU(U))
		w.runExtrec(co.codecs[0], s, -1, U)
	} else if rc.Kind == "varlen" {
		gen := genFromDesc(rc.Desc)
		if g, _ := rc.Desc["gen"].(string); g == "zero" {
			pfx := c.prefix
			gen = func() any {
				m, _ := lnwire.MakeEmptyMessage(lnwire.MessageType(binary.BigEndian.Uint16(pfx[:])))
				return m
			}
		}
		if gen == nil {
			fmt.Printf("INFO cannot rebuild the value from %v\n", rc.Desc)
			os.Exit(3)
		}
		s := &seed{name: "replay", gen: gen, desc: rc.Desc}
		w.curSeed = s
		w.curItem = item{Family: "varlen"}
		li := -1
		for i, l := range varLeaves(gen()) {
			if l.path == rc.Field {
				li = i
			}
		}
		if li < 0 {
			fmt.Printf("INFO element %q not found in the rebuilt value\n", rc.Field)
			os.Exit(3)
		}
		fmt.Printf("INFO value %v of %s: setting element %s to %s\n", rc.Desc, rc.Codec, rc.Field, rc.Value)
		w.sweepVar(c, s, li, -1, &rc.Value)
	} else if rc.Kind == "field" {
		gen := genFromDesc(rc.Desc)
		if gen == nil {
			fmt.Printf("INFO cannot rebuild the value from %v\n", rc.Desc)
			os.Exit(3)
		}
		s := &seed{name: "replay", gen: gen, desc: rc.Desc}
		w.curSeed = s
		w.curItem = item{Family: "field"}
		fi := -1
		for i, l := range leaves(gen()) {
			if l.path == rc.Field {
				fi = i
			}
		}
		raw, err := strconv.ParseUint(rc.Value, 10, 64)
		if fi < 0 || err != nil {
			fmt.Printf("INFO field %q not found in the rebuilt value (or bad value %q)\n", rc.Field, rc.Value)
			os.Exit(3)
		}
		fmt.Printf("INFO value %v of %s: setting field %s to %d\n", rc.Desc, rc.Codec, rc.Field, raw)
		w.sweepField(c, s, fi, -1, &raw)
	} else if rc.Kind == "value" {
		gen := genFromDesc(rc.Desc)
		if g, _ := rc.Desc["gen"].(string); g == "zero" {
			pfx := c.prefix
			gen = func() any {
				m, _ := lnwire.MakeEmptyMessage(lnwire.MessageType(binary.BigEndian.Uint16(pfx[:])))
				return m
			}
		}
		if gen == nil {
			fmt.Printf("INFO cannot rebuild the value from %v\n", rc.Desc)
			os.Exit(3)
		}
		dj, _ := json.Marshal(rc.Desc)
		name := string(dj)
		if g, _ := rc.Desc["gen"].(string); g == "max" && int(rc.Desc["body"].(float64)) > lnwire.MaxMsgBody {
			name = "oversize"
		}
		wf := false
		if g, _ := rc.Desc["gen"].(string); (g == "rapid" && rc.Desc["clear"] == nil) || g == "failctor" || g == "extrec" {
			wf = true
		}
		s := &seed{name: name, gen: gen, wellFormed: wf, desc: rc.Desc}
		w.curSeed = s
		w.evalValue(c, s)
	} else {
		var seedBody []byte
		if rc.Seed != "" {
			seedBody, _ = hex.DecodeString(rc.Seed)
		} else if rc.Desc != nil {
			if gen := genFromDesc(rc.Desc); gen != nil {
				var b []byte
				err := fmt.Errorf("panicked")
				safely(func() { b, err = c.encode(gen()) })
				if err != nil {
					fmt.Printf("INFO cannot rebuild the seed: %v\n", err)
					os.Exit(3)
				}
				seedBody = b[c.prefixLen():]
			}
		}
		if rc.Mut == nil {
			fmt.Println("INFO replay file has no mutation")
			os.Exit(3)
		}
		body, err := rc.Mut.Apply(seedBody)
		if err != nil {
			fmt.Printf("INFO %v\n", err)
			os.Exit(3)
		}
		fmt.Printf("INFO seed body %s; mutation: %s; input body %s\n", hexs(seedBody, 64), rc.Mut.String(), hexs(body, 64))
		mm := *rc.Mut
		w.curSeed = &seed{full: append(append([]byte{}, c.prefix[:c.prefixLen()]...), seedBody...), desc: rc.Desc}
		if rc.Desc != nil {
			w.curSeed.gen = genFromDesc(rc.Desc)
		}
		w.evalBytes(c, func() bytemut.Mut { return mm }, body, true)
	}
	for _, v := range w.res.Viols {
		j, _ := json.Marshal(v)
		fmt.Printf("CHILDVIOL %s\n", j)
	}
	fmt.Printf("INFO outcome classes: %v\n", w.res.Outcomes)
	fmt.Println("CHILDDONE")
	os.Exit(0)
}
