// C10, lnwire half: codecs under test, the universal oracle and its helpers.
//
// Oracle clauses (from the property statement), applied to every enumerated input b of
// every codec (lnwire message type / onion failure code / onion failure packet):
//
//	O1  decode(b) does not panic, does not die, and performs at most 8*len(b)+256 reads
//	    on its input (deterministic step budget standing in for "does not hang")
//	O2  decode(b) allocates at most allocBound bytes (64 KiB * c, c reported)
//	O3  decode(b) = m  =>  encode(m) = b2 succeeds (for messages: body <= 65533 bytes)
//	O4                  =>  decode(b2) = m2 succeeds and m2 == m (type-aware equality:
//	                        nil == empty slice/map, net.Addr by String())
//	O5                  =>  encode(m2) == b2 byte for byte (canonical fixpoint)
//
// and to every generated well-formed value v (the repo's own RandTestMessage generator
// with fixed rapid seeds, hand-built maximal values, the exported failure constructors):
//
//	V1  encode(v) = b succeeds with |body| <= 65533, decode(b) = m succeeds, m == v
//	V2  encode(m) == b   (unknown records / extra data preserved byte for byte)
//	V3  one byte more than the maximum is refused by the encoder
package c10

import (
	"bytes"
	"encoding/binary"
	"errors"
	"fmt"
	"io"
	"net"
	"reflect"
	"regexp"
	"runtime"
	"strings"

	"github.com/lightningnetwork/lnd/lnwire"
)

// ---------------------------------------------------------------------------------
// input reader with a step budget and an optional trace of the reads

type seg struct{ lo, hi int }

type budgetReader struct {
	b      []byte
	off    int
	calls  int
	budget int
	trace  *[]seg
	// calllog, when set, records every Read call (offset, buffer size, bytes returned),
	// including the ones that return EOF (extrec family: locating the extension stream).
	calllog *[]rdCall
}

type rdCall struct{ off, buf, n int }

var errReadBudget = errors.New("read budget exceeded")

func (r *budgetReader) reset(b []byte) {
	r.b, r.off, r.calls = b, 0, 0
	r.budget = 8*len(b) + 256
}

// Read mirrors bytes.Reader.Read (the production reader: peer/brontide hands
// lnwire.ReadMessage a bytes.Reader over the decrypted message).
func (r *budgetReader) Read(p []byte) (int, error) {
	r.calls++
	if r.calls > r.budget {
		panic(errReadBudget)
	}
	if r.off >= len(r.b) {
		if r.calllog != nil {
			*r.calllog = append(*r.calllog, rdCall{r.off, len(p), 0})
		}
		return 0, io.EOF
	}
	n := copy(p, r.b[r.off:])
	if r.calllog != nil {
		*r.calllog = append(*r.calllog, rdCall{r.off, len(p), n})
	}
	if r.trace != nil && n > 0 {
		*r.trace = append(*r.trace, seg{r.off, r.off + n})
	}
	r.off += n
	return n, nil
}

// ---------------------------------------------------------------------------------
// codecs

const (
	kMsg = iota
	kFailMsg
	kFailPkt
)

type codec struct {
	name   string
	kind   int
	prefix [2]byte // message type / failure code (unused for kFailPkt)
	zlib   bool    // allocation class: the decoder may inflate zlib data
	heavy  bool    // allocation class: signature vector / feature-bit map
}

func (c *codec) prefixLen() int {
	if c.kind == kFailPkt {
		return 0
	}
	return 2
}

// decode parses full = prefix || body.
func (c *codec) decode(r io.Reader) (any, error) {
	switch c.kind {
	case kMsg:
		return lnwire.ReadMessage(r, 0)
	case kFailMsg:
		return lnwire.DecodeFailureMessage(r, 0)
	default:
		return lnwire.DecodeFailure(r, 0)
	}
}

var errNotAMessage = errors.New("value of the wrong kind")

// encode returns prefix || body.
func (c *codec) encode(v any) ([]byte, error) {
	var buf bytes.Buffer
	switch c.kind {
	case kMsg:
		m, ok := v.(lnwire.Message)
		if !ok {
			return nil, errNotAMessage
		}
		if _, err := lnwire.WriteMessage(&buf, m, 0); err != nil {
			return nil, err
		}
	case kFailMsg:
		f, ok := v.(lnwire.FailureMessage)
		if !ok {
			return nil, errNotAMessage
		}
		if err := lnwire.EncodeFailureMessage(&buf, f, 0); err != nil {
			return nil, err
		}
	default:
		f, ok := v.(lnwire.FailureMessage)
		if !ok {
			return nil, errNotAMessage
		}
		if err := lnwire.EncodeFailure(&buf, f, 0); err != nil {
			return nil, err
		}
	}
	return buf.Bytes(), nil
}

// safely runs f, converting a panic into a (normalised) string.
func safely(f func()) (panicked string) {
	defer func() {
		if r := recover(); r != nil {
			if e, ok := r.(error); ok && errors.Is(e, errReadBudget) {
				panicked = "read-budget"
				return
			}
			panicked = fmt.Sprint(r)
			if i := strings.IndexByte(panicked, '\n'); i > 0 {
				panicked = panicked[:i]
			}
			if panicked == "" {
				panicked = "panic"
			}
		}
	}()
	f()
	return ""
}

var digits = regexp.MustCompile(`[0-9]+`)

// panicClass strips numbers so that one defect gives one signature.
func panicClass(p string) string {
	p = digits.ReplaceAllString(p, "N")
	if len(p) > 80 {
		p = p[:80]
	}
	return strings.ReplaceAll(p, " ", "_")
}

// ---------------------------------------------------------------------------------
// type-aware equality

var netAddrType = reflect.TypeOf((*net.Addr)(nil)).Elem()

// equivAny reports the path of the first difference, "" if a and b are equal up to
// nil-vs-empty slices/maps and the textual form of network addresses (the
// equalities the repository's own fuzz harness uses).
func equivAny(a, b any) string {
	if reflect.DeepEqual(a, b) {
		return ""
	}
	return equiv(reflect.ValueOf(a), reflect.ValueOf(b), "", 0)
}

func equiv(a, b reflect.Value, path string, depth int) string {
	if depth > 64 {
		return path + ":too-deep"
	}
	if !a.IsValid() || !b.IsValid() {
		if a.IsValid() == b.IsValid() {
			return ""
		}
		return path + ":nil-vs-value"
	}
	if a.Type() != b.Type() {
		return path + ":type"
	}
	switch a.Kind() {
	case reflect.Ptr:
		if a.IsNil() || b.IsNil() {
			if a.IsNil() && b.IsNil() {
				return ""
			}
			return path + ":nil-vs-ptr"
		}
		if a.Pointer() == b.Pointer() {
			return ""
		}
		return equiv(a.Elem(), b.Elem(), path, depth+1)
	case reflect.Interface:
		if a.IsNil() || b.IsNil() {
			if a.IsNil() && b.IsNil() {
				return ""
			}
			return path + ":nil-vs-iface"
		}
		if a.Type().Implements(netAddrType) && a.CanInterface() && b.CanInterface() {
			x, y := a.Interface().(net.Addr), b.Interface().(net.Addr)
			if x.Network() == y.Network() && x.String() == y.String() {
				return ""
			}
			return path + ":addr"
		}
		return equiv(a.Elem(), b.Elem(), path, depth+1)
	case reflect.Struct:
		for i := 0; i < a.NumField(); i++ {
			if d := equiv(a.Field(i), b.Field(i), path+"."+a.Type().Field(i).Name, depth+1); d != "" {
				return d
			}
		}
		return ""
	case reflect.Slice:
		if a.Len() != b.Len() {
			return path + ":len"
		}
		if a.Type().Elem().Kind() == reflect.Uint8 {
			if bytes.Equal(a.Bytes(), b.Bytes()) {
				return ""
			}
			return path + ":bytes"
		}
		for i := 0; i < a.Len(); i++ {
			if d := equiv(a.Index(i), b.Index(i), path+"[]", depth+1); d != "" {
				return d
			}
		}
		return ""
	case reflect.Array:
		for i := 0; i < a.Len(); i++ {
			if d := equiv(a.Index(i), b.Index(i), path, depth+1); d != "" {
				return d
			}
		}
		return ""
	case reflect.Map:
		if a.Len() != b.Len() {
			return path + ":maplen"
		}
		it := a.MapRange()
		for it.Next() {
			bv := b.MapIndex(it.Key())
			if !bv.IsValid() {
				return path + ":mapkey"
			}
			if d := equiv(it.Value(), bv, path+"{}", depth+1); d != "" {
				return d
			}
		}
		return ""
	case reflect.Func, reflect.Chan, reflect.UnsafePointer:
		if a.IsNil() == b.IsNil() {
			return ""
		}
		return path + ":func"
	case reflect.Bool:
		if a.Bool() == b.Bool() {
			return ""
		}
	case reflect.Int, reflect.Int8, reflect.Int16, reflect.Int32, reflect.Int64:
		if a.Int() == b.Int() {
			return ""
		}
	case reflect.Uint, reflect.Uint8, reflect.Uint16, reflect.Uint32, reflect.Uint64, reflect.Uintptr:
		if a.Uint() == b.Uint() {
			return ""
		}
	case reflect.Float32, reflect.Float64:
		if a.Float() == b.Float() {
			return ""
		}
	case reflect.Complex64, reflect.Complex128:
		if a.Complex() == b.Complex() {
			return ""
		}
	case reflect.String:
		if a.String() == b.String() {
			return ""
		}
	}
	return path + ":value"
}

// ---------------------------------------------------------------------------------
// allocation accounting (exact only while a single goroutine allocates: the worker
// processes run with GOMAXPROCS=1 and do nothing else)

type meter struct{ ms runtime.MemStats }

func (m *meter) total() uint64 {
	runtime.ReadMemStats(&m.ms)
	return m.ms.TotalAlloc
}

// allocation bounds per decode: 64 KiB * c. The constants were fixed from the maxima
// measured on the unchanged tree (reported in the evidence as alloc_max_*) with at
// least 2x head-room; the zlib class covers the two gossip-query messages whose
// decoder inflates up to maxDecodedShortChanIDs ids by design.
const (
	allocCPlain = 24  // measured maximum 0.56 MB (a 65 KB message read by io.ReadAll and copied by the TLV parser)
	allocCHeavy = 160 // measured maximum 4.7 MB (CommitSig pre-allocates num_htlcs * 65 B; feature vectors are maps; zlib)
	kib64       = 64 * 1024
)

// heavy codecs are those whose decoder, by design, builds a structure much larger
// than its input: a signature vector sized from a 16-bit count, a feature-bit map,
// or an inflated id list.
func (c *codec) allocBound() uint64 {
	if c.zlib || c.heavy {
		return allocCHeavy * kib64
	}
	return allocCPlain * kib64
}

// ---------------------------------------------------------------------------------
// small helpers

func be16(v uint16) [2]byte {
	var b [2]byte
	binary.BigEndian.PutUint16(b[:], v)
	return b
}

// hash64 is a fast 64-bit hash of (codec, input) used for distinct accounting.
func hash64(seed uint64, b []byte) uint64 {
	h := seed ^ 0x9E3779B97F4A7C15 ^ uint64(len(b))*0xff51afd7ed558ccd
	for len(b) >= 8 {
		h = (h ^ binary.LittleEndian.Uint64(b)) * 0x9E3779B97F4A7C15
		h ^= h >> 29
		b = b[8:]
	}
	var t uint64
	for i, x := range b {
		t |= uint64(x) << (8 * uint(i))
	}
	h = (h ^ t) * 0xbf58476d1ce4e5b9
	h ^= h >> 32
	h *= 0x94d049bb133111eb
	h ^= h >> 29
	return h
}

func hexs(b []byte, max int) string {
	if len(b) <= max {
		return fmt.Sprintf("%x", b)
	}
	return fmt.Sprintf("%x…(%d bytes)", b[:max], len(b))
}
