// C10, lnwire half: the FIELD-VALUE SWEEP family ("field").
//
// Byte-level edits of an encoding reach a field value only one byte at a time, and the
// corpus values come from generators with their own ranges; neither reaches "the one
// value an encoder treats specially" (a record omitted when equal to a default, an
// off-by-one range check, a truncating cast). This family therefore works on values:
// for the fullest generator example of every message type and for every constructor
// value of every onion failure, every integer field reachable by reflection - through
// pointers, tlv.RecordT / OptionalRecordT / fn.Option / BigSizeT wrappers, and the first
// and last element of lists - is set, one field at a time, to every value of
//
//	[0, 2048] (quick) / [0, 4096] (thorough)  +  {2^k-1, 2^k, 2^k+1 : k <= width}  +  max
//	(+ -1 and min for signed fields)
//
// and the resulting value v goes through:
//
//	F1  encode(v) = b does not panic; if it fails the value is counted as not encodable
//	F2  the universal byte oracle O1-O5 on b (decode, re-encode, fixpoint)
//	F3  decode(b) = m; if the decoder refuses its own encoder's output the value is
//	    counted (not every swept value is a valid one), otherwise:
//	F4  encode(m) == b
//	F5  if the field is live on the wire for this seed (at least two swept values give
//	    different encodings), m carries exactly the swept value at the same path
//
// F5 compares the swept field only: other fields may legitimately depend on it (a flag
// that switches an optional field off).
package c10

import (
	"bytes"
	"fmt"
	"reflect"
	"regexp"
	"sort"
	"strings"
	"unsafe"

	"github.com/lightningnetwork/lnd/verifmc/bytemut"
)

type leaf struct {
	path   string
	v      reflect.Value // settable integer
	signed bool
	bits   int
}

const maxLeaves = 96

// leaves enumerates the integer fields of a value in a fixed order.
func leaves(root any) []leaf {
	var out []leaf
	rv := reflect.ValueOf(root)
	if rv.Kind() != reflect.Ptr || rv.IsNil() {
		return nil
	}
	walkLeaves(rv.Elem(), "", 0, &out)
	return out
}

func skipPkg(t reflect.Type) bool {
	p := t.PkgPath()
	return strings.Contains(p, "btcec") || strings.Contains(p, "secp256k1") || p == "net" || p == "math/big"
}

func wrapperPkg(t reflect.Type) bool {
	p := t.PkgPath()
	return strings.HasSuffix(p, "/tlv") || strings.Contains(p, "/fn")
}

func walkLeaves(v reflect.Value, path string, depth int, out *[]leaf) {
	if depth > 10 || len(*out) >= maxLeaves || !v.IsValid() {
		return
	}
	t := v.Type()
	if skipPkg(t) {
		return
	}
	switch v.Kind() {
	case reflect.Uint8, reflect.Uint16, reflect.Uint32, reflect.Uint64, reflect.Uint:
		if v.CanSet() {
			*out = append(*out, leaf{path: path, v: v, bits: t.Bits()})
		}
	case reflect.Int8, reflect.Int16, reflect.Int32, reflect.Int64, reflect.Int:
		if v.CanSet() {
			*out = append(*out, leaf{path: path, v: v, signed: true, bits: t.Bits()})
		}
	case reflect.Ptr:
		if !v.IsNil() {
			walkLeaves(v.Elem(), path, depth+1, out)
		}
	case reflect.Struct:
		exported := 0
		for i := 0; i < t.NumField(); i++ {
			if t.Field(i).IsExported() {
				exported++
			}
		}
		// an absent option holds a meaningless zero value
		if strings.HasPrefix(t.Name(), "Option[") {
			if f := v.FieldByName("isSome"); f.IsValid() && f.Kind() == reflect.Bool && !f.Bool() {
				return
			}
		}
		for i := 0; i < t.NumField(); i++ {
			sf := t.Field(i)
			fv := v.Field(i)
			if !sf.IsExported() {
				// unexported fields are followed only inside the generic wrappers of
				// the tlv / fn packages and in types that have no exported field at all
				// (their state is reachable through constructors only); elsewhere they
				// are internal bookkeeping that is not on the wire.
				if !(wrapperPkg(t) || exported == 0) || !fv.CanAddr() {
					continue
				}
				fv = reflect.NewAt(sf.Type, unsafe.Pointer(fv.UnsafeAddr())).Elem()
			}
			n0 := len(*out)
			walkLeaves(fv, path+"."+sf.Name, depth+1, out)
			// BOLT 7: a short_channel_id is 3 bytes of block height, 3 bytes of
			// transaction index and 2 bytes of output index; lnd keeps the first two
			// in uint32 fields, so their well-formed range is 24 bits.
			if t.Name() == "ShortChannelID" && (sf.Name == "BlockHeight" || sf.Name == "TxIndex") && len(*out) == n0+1 {
				(*out)[n0].bits = 24
			}
			// BOLT 7: ports are 2 bytes on the wire; Go address types keep them in an int.
			if sf.Name == "Port" && len(*out) == n0+1 && (*out)[n0].bits > 16 {
				(*out)[n0].bits, (*out)[n0].signed = 16, false
			}
		}
	case reflect.Slice, reflect.Array:
		if t.Elem().Kind() == reflect.Uint8 || v.Len() == 0 {
			return
		}
		walkLeaves(v.Index(0), path+"[0]", depth+1, out)
		if n := v.Len(); n > 1 {
			walkLeaves(v.Index(n-1), fmt.Sprintf("%s[%d]", path, n-1), depth+1, out)
		}
	}
}

// sweepValues lists the values a field of the given width is set to, as raw bit
// patterns (two's complement for signed fields), ascending and without duplicates.
func sweepValues(bits int, signed bool, upto int) []uint64 {
	mask := uint64(1)<<uint(bits) - 1
	if bits == 64 {
		mask = ^uint64(0)
	}
	set := map[uint64]struct{}{}
	add := func(x uint64) { set[x&mask] = struct{}{} }
	for x := 0; x <= upto; x++ {
		add(uint64(x))
	}
	for k := 0; k <= bits; k++ {
		var p uint64
		if k < 64 {
			p = uint64(1) << uint(k)
		}
		add(p - 1)
		add(p)
		add(p + 1)
	}
	add(mask)
	if signed {
		add(mask >> 1)   // max
		add(mask>>1 + 1) // min
		add(mask)        // -1
		add(mask - 1)    // -2
	}
	out := make([]uint64, 0, len(set))
	for x := range set {
		out = append(out, x)
	}
	sort.Slice(out, func(i, j int) bool { return out[i] < out[j] })
	return out
}

func isIntKind(k reflect.Kind) bool {
	return k == reflect.Int || k == reflect.Int8 || k == reflect.Int16 || k == reflect.Int32 || k == reflect.Int64
}

func (l leaf) set(raw uint64) {
	if isIntKind(l.v.Kind()) {
		if l.signed {
			shift := uint(64 - l.bits)
			l.v.SetInt(int64(raw<<shift) >> shift)
		} else {
			l.v.SetInt(int64(raw))
		}
		return
	}
	l.v.SetUint(raw)
}

func (l leaf) raw() uint64 {
	if isIntKind(l.v.Kind()) {
		x := uint64(l.v.Int())
		if l.bits < 64 {
			x &= uint64(1)<<uint(l.bits) - 1
		}
		return x
	}
	return l.v.Uint()
}

func (l leaf) show(raw uint64) string {
	if l.signed {
		shift := uint(64 - l.bits)
		return fmt.Sprint(int64(raw<<shift) >> shift)
	}
	return fmt.Sprint(raw)
}

func sweepUpto(thorough bool) int {
	if thorough {
		return 4096
	}
	return 2048
}

// fieldCount is used by the planner.
func fieldCount(s *seed) int {
	var n int
	safely(func() { n = len(leaves(s.gen())) })
	return n
}

// sweepField runs the family for one (codec, seed, field).
func (w *worker) sweepField(c *codec, s *seed, fi int, resumeAfter int, only *uint64) {
	var probe []leaf
	safely(func() { probe = leaves(s.gen()) })
	if fi >= len(probe) {
		return
	}
	lf0 := probe[fi]
	vals := sweepValues(lf0.bits, lf0.signed, sweepUpto(w.thorough))
	if only != nil {
		vals = []uint64{*only}
	}
	type rec struct {
		raw   uint64
		b     []byte
		m     any
		state int // 0 not encodable, 1 rejected by decoder, 2 decoded
	}
	var recs []rec
	distinct := map[string]struct{}{}
	mkCase := func(raw uint64) replayCase {
		return replayCase{Kind: "field", Desc: s.desc, Family: "field", Field: lf0.path, Value: fmt.Sprint(raw)}
	}
	for ord, raw := range vals {
		if ord <= resumeAfter {
			continue
		}
		w.progress(ord)
		w.res.Triples++
		var v any
		var ls []leaf
		safely(func() { v = s.gen(); ls = leaves(v) })
		if fi >= len(ls) || ls[fi].path != lf0.path {
			w.res.Outcomes["field:path-unstable"]++
			continue
		}
		ls[fi].set(raw)
		var b []byte
		var err error
		pan := safely(func() { b, err = c.encode(v) })
		if w.verbose {
			w.info("field %s := %s: encode -> %s err=%v panic=%q", lf0.path, lf0.show(raw), hexs(b, 96), err, pan)
		}
		if pan != "" {
			w.viol(c, "field-encode-panic:"+lf0.path+":"+panicClass(pan), fmt.Sprintf("%s with %s = %s: Encode panicked: %s", c.name, lf0.path, lf0.show(raw), pan), mkCase(raw))
			continue
		}
		if err != nil {
			w.res.Outcomes["field:not-encodable"]++
			recs = append(recs, rec{raw: raw})
			continue
		}
		distinct[string(b)] = struct{}{}
		// F2: the byte oracle on the encoding.
		body := b[c.prefixLen():]
		w.evalBytes(c, func() bytemut.Mut { return bytemut.Raw(body) }, body, false)
		// F3
		var m any
		w.rd.reset(b)
		pan = safely(func() { m, err = c.decode(&w.rd) })
		if pan != "" {
			continue // reported by evalBytes
		}
		if err != nil {
			if w.verbose {
				w.info("decoder refuses that encoding: %v", err)
			}
			w.res.Outcomes["field:encoded-but-refused-by-decoder"]++
			recs = append(recs, rec{raw: raw, b: b, state: 1})
			continue
		}
		// F4
		var b2 []byte
		pan = safely(func() { b2, err = c.encode(m) })
		if w.verbose {
			w.info("decode ok; re-encode -> identical=%v err=%v panic=%q", bytes.Equal(b2, b), err, pan)
		}
		if pan != "" || err != nil || !bytes.Equal(b2, b) {
			w.viol(c, "field-reencode-differs:"+lf0.path, fmt.Sprintf("%s with %s = %s: encode(v) = %s but encode(decode(encode(v))) = %s (err=%v panic=%q)", c.name, lf0.path, lf0.show(raw), hexs(b, 64), hexs(b2, 64), err, pan), mkCase(raw))
			// fall through: F5 is still evaluated for this value
		}
		// m was handed to the encoder; decode once more for the comparison of F5
		var pm any
		w.rd.reset(b)
		safely(func() { pm, _ = c.decode(&w.rd) })
		recs = append(recs, rec{raw: raw, b: b, m: pm, state: 2})
	}
	live := len(distinct) > 1 || only != nil
	if !live {
		w.res.Outcomes["field:not-on-the-wire-for-this-seed"] += int64(len(recs))
		return
	}
	for _, r := range recs {
		if r.state != 2 {
			continue
		}
		got, found := findLeaf(r.m, lf0, r.raw)
		if w.verbose {
			w.info("decoded value carries %s = %s (found=%v), expected %s", lf0.path, lf0.show(got), found, lf0.show(r.raw))
		}
		if !found || got != r.raw {
			gs := "absent"
			if found {
				gs = lf0.show(got)
			}
			w.viol(c, "field-roundtrip-differs:"+lf0.path, fmt.Sprintf("%s with %s = %s encodes to %s, which decodes with %s = %s", c.name, lf0.path, lf0.show(r.raw), hexs(r.b, 64), lf0.path, gs), mkCase(r.raw))
			continue
		}
		w.res.Outcomes["field:roundtrip-ok"]++
	}
}

// findLeaf looks the swept field up in a decoded value. A field inside a list element
// is looked for in every element of that list: encoders may legitimately reorder a
// list (short channel ids are sorted), so the element index is not part of the claim.
// It returns the value found (the swept one if any element carries it).
func findLeaf(root any, want leaf, raw uint64) (got uint64, found bool) {
	rv := reflect.ValueOf(root)
	if rv.Kind() != reflect.Ptr || rv.IsNil() {
		return 0, false
	}
	var hits []uint64
	lookup(rv.Elem(), "", want.path, 0, want, &hits)
	if len(hits) == 0 {
		return 0, false
	}
	for _, h := range hits {
		if h == raw {
			return h, true
		}
	}
	return hits[0], true
}

var idxRe = regexp.MustCompile(`\[[0-9]+\]`)

func lookup(v reflect.Value, path, want string, depth int, wl leaf, hits *[]uint64) {
	if depth > 10 || !v.IsValid() || len(*hits) > 100000 {
		return
	}
	t := v.Type()
	if skipPkg(t) {
		return
	}
	if !strings.HasPrefix(idxRe.ReplaceAllString(want, "[]"), path) {
		return
	}
	switch v.Kind() {
	case reflect.Uint8, reflect.Uint16, reflect.Uint32, reflect.Uint64, reflect.Uint,
		reflect.Int8, reflect.Int16, reflect.Int32, reflect.Int64, reflect.Int:
		if path == idxRe.ReplaceAllString(want, "[]") {
			l := leaf{v: v, bits: wl.bits, signed: wl.signed}
			*hits = append(*hits, l.raw())
		}
	case reflect.Ptr:
		if !v.IsNil() {
			lookup(v.Elem(), path, want, depth+1, wl, hits)
		}
	case reflect.Struct:
		if strings.HasPrefix(t.Name(), "Option[") {
			if f := v.FieldByName("isSome"); f.IsValid() && f.Kind() == reflect.Bool && !f.Bool() {
				return
			}
		}
		for i := 0; i < t.NumField(); i++ {
			lookup(v.Field(i), path+"."+t.Field(i).Name, want, depth+1, wl, hits)
		}
	case reflect.Slice, reflect.Array:
		if t.Elem().Kind() == reflect.Uint8 {
			return
		}
		for i := 0; i < v.Len(); i++ {
			lookup(v.Index(i), path+"[]", want, depth+1, wl, hits)
		}
	}
}
