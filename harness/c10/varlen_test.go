// C10, lnwire half: the VARIABLE-LENGTH ELEMENT family ("varlen").
//
// The generator corpus draws the length of every variable-length element from its own
// comfortable range (hostnames are absent from node_announcement address lists
// altogether, lists have 0..5 elements, blobs a few dozen bytes), byte edits change a
// length prefix or the bytes behind it but never both, and "resize" moves a region by at
// most 72 bytes from a generator length. None of them puts an element at the extreme
// LEGAL lengths, where length arithmetic wraps or truncates (u8: 252..255, u16:
// 65533..65535, "exactly fills the message"). This family works on VALUES:
//
// for the field-sweep value of every message type and every onion failure, every
// variable-length element reachable by reflection (same traversal as the field family:
// pointers, tlv / fn wrappers, first and last element of lists) -
//
//	(types of package tor are not entered: an onion address has a fixed form)
//	bytes   every byte slice (opaque reasons, error data, ping / pong payloads, delivery
//	        scripts, TLV blobs, encrypted data, ...), content = its own bytes repeated
//	string  every string (DNS hostnames), legal lengths 1..255 (BOLT 7: hostname_len is a
//	        u8 and a hostname is not empty), content = its own characters repeated
//	list    every other slice (short channel ids, signatures, timestamps, typed address
//	        lists ...), elements = its own elements repeated (short channel ids strictly
//	        increasing); every other list that has the same number of elements in the
//	        base value is resized with it (lists that are parallel stay parallel)
//	fv      every feature vector, length in bytes (top bit 8L-1 and bit 0 set)
//	addrs   every []net.Addr: every address kind the encoder knows (tcp4, tcp6, tor v2,
//	        tor v3, DNS hostname of 1,2,63,64,251..255 bytes, opaque of 1,2,255,256,1000
//	        bytes) alone, behind and in front of a tcp4 address, twice; N tcp4 addresses;
//	        252 / 253 maximal hostnames
//
// is set, one element at a time, to every length of
//
//	0,1,2,3  31..33  63..65  127..129  251..258  1023..1025  8190..8192  32767,32768
//	65531..65536  and  Lmax-2..Lmax+1, Lmax = the largest length for which the encoder
//	still produces the message (found by bisection: "exactly fills the 65535 bytes")
//	thorough: + every length 0..520
//
// and the value v goes through
//
//	L1  encode(v) does not panic; a refusal is counted (not every length is legal)
//	L2  the encoding has at most 65535 bytes; the universal byte oracle O1-O5 on it
//	L3  decode(encode(v)) succeeds: the encoder of a message must not emit what its own
//	    decoder refuses
//	L4  the decoded value carries the element with exactly the content it was given
//	L5  encode(decode(encode(v))) == encode(v)
//
// ExtraOpaqueData / CustomRecords / ExtraSignedFields are left to the extrec family and
// the maximal corpus seeds (their content must be a TLV stream).
package c10

import (
	"bytes"
	"fmt"
	"net"
	"reflect"
	"sort"
	"strconv"
	"strings"
	"unsafe"

	"github.com/lightningnetwork/lnd/lnwire"
	"github.com/lightningnetwork/lnd/tor"
	"github.com/lightningnetwork/lnd/verifmc/bytemut"
)

type vleaf struct {
	path string
	v    reflect.Value
	kind string // bytes | string | list | fv | addrs
}

var fvType = reflect.TypeOf(lnwire.RawFeatureVector{})

// legalMax: element types whose well-formed length is bounded below what their length
// prefix could carry (stated here, not read from the code under test): BOLT 2 shutdown /
// closing scripts are p2pkh, p2sh, p2wpkh, p2wsh or p2tr, at most 34 bytes
// (lnwire.DeliveryAddress: "max 34 bytes"); the decoder refuses longer ones.
var legalMax = map[string]int{"DeliveryAddress": 34}

const maxVarLeaves = 48

func varLeaves(root any) []vleaf {
	var out []vleaf
	rv := reflect.ValueOf(root)
	if rv.Kind() != reflect.Ptr || rv.IsNil() {
		return nil
	}
	walkVar(rv.Elem(), "", 0, &out)
	return out
}

func walkVar(v reflect.Value, path string, depth int, out *[]vleaf) {
	if depth > 10 || len(*out) >= maxVarLeaves || !v.IsValid() {
		return
	}
	t := v.Type()
	if skipPkg(t) || strings.HasSuffix(t.PkgPath(), "/tor") {
		// tor.OnionAddr: a fixed-form service name and a private key that is not on the wire
		return
	}
	switch v.Kind() {
	case reflect.String:
		if v.CanSet() {
			*out = append(*out, vleaf{path, v, "string"})
		}
	case reflect.Ptr:
		if !v.IsNil() {
			walkVar(v.Elem(), path, depth+1, out)
		}
	case reflect.Struct:
		if t.ConvertibleTo(fvType) {
			if v.CanSet() {
				*out = append(*out, vleaf{path, v, "fv"})
			}
			return
		}
		exported := 0
		for i := 0; i < t.NumField(); i++ {
			if t.Field(i).IsExported() {
				exported++
			}
		}
		if strings.HasPrefix(t.Name(), "Option[") {
			if f := v.FieldByName("isSome"); f.IsValid() && f.Kind() == reflect.Bool && !f.Bool() {
				return
			}
		}
		for i := 0; i < t.NumField(); i++ {
			sf := t.Field(i)
			fv := v.Field(i)
			if !sf.IsExported() {
				if !(wrapperPkg(t) || exported == 0) || !fv.CanAddr() {
					continue
				}
				fv = reflect.NewAt(sf.Type, unsafe.Pointer(fv.UnsafeAddr())).Elem()
			}
			walkVar(fv, path+"."+sf.Name, depth+1, out)
		}
	case reflect.Slice:
		if !v.CanSet() {
			return
		}
		switch {
		case t.Elem() == netAddrType:
			*out = append(*out, vleaf{path, v, "addrs"})
		case t.Elem().Kind() == reflect.Uint8:
			switch t.Name() {
			case "ExtraOpaqueData", "ExtraSignedFields", "CustomRecords":
				return
			}
			*out = append(*out, vleaf{path, v, "bytes"})
		default:
			*out = append(*out, vleaf{path, v, "list"})
			if n := v.Len(); n > 0 {
				walkVar(v.Index(0), path+"[0]", depth+1, out)
				if n > 1 {
					walkVar(v.Index(n-1), path+"[last]", depth+1, out)
				}
			}
		}
	case reflect.Array:
		if t.Elem().Kind() != reflect.Uint8 && v.Len() > 0 {
			walkVar(v.Index(0), path+"[0]", depth+1, out)
		}
	}
}

// ---------------------------------------------------------------------------------
// the alphabet

var varLens = []int{0, 1, 2, 3, 31, 32, 33, 63, 64, 65, 127, 128, 129, 251, 252, 253, 254, 255, 256, 257, 258,
	1023, 1024, 1025, 8190, 8191, 8192, 32767, 32768, 65531, 65532, 65533, 65534, 65535, 65536}

func hostOf(n int) string {
	b := make([]byte, n)
	for i := range b {
		b[i] = "abcdefghijklmnopqrstuvwxyz0123456789-."[i%38]
	}
	return string(b)
}

func addrOf(kind string) net.Addr {
	switch {
	case kind == "tcp4":
		return &net.TCPAddr{IP: net.IP{10, 1, 2, 3}, Port: 9735}
	case kind == "tcp6":
		return &net.TCPAddr{IP: net.IP{0x20, 1, 0xd, 0xb8, 5, 6, 7, 8, 9, 10, 11, 12, 13, 14, 15, 16}, Port: 9736}
	case kind == "v2":
		return &tor.OnionAddr{OnionService: tor.Base32Encoding.EncodeToString(patt(tor.V2DecodedLen)) + tor.OnionSuffix, Port: 9737}
	case kind == "v3":
		return &tor.OnionAddr{OnionService: tor.Base32Encoding.EncodeToString(patt(tor.V3DecodedLen)) + tor.OnionSuffix, Port: 9738}
	case strings.HasPrefix(kind, "dns"):
		n, _ := strconv.Atoi(kind[3:])
		return &lnwire.DNSAddress{Hostname: hostOf(n), Port: 9739}
	case strings.HasPrefix(kind, "opq"):
		n, _ := strconv.Atoi(kind[3:])
		p := patt(n)
		p[0] = 0x7f
		return &lnwire.OpaqueAddrs{Payload: p}
	}
	return nil
}

// addrsOf builds an address list from "k1,k2,..." where each k may be "kind*N".
func addrsOf(spec string) []net.Addr {
	var out []net.Addr
	if spec == "" {
		return out
	}
	for _, k := range strings.Split(spec, ",") {
		n := 1
		if i := strings.IndexByte(k, '*'); i >= 0 {
			n, _ = strconv.Atoi(k[i+1:])
			k = k[:i]
		}
		for j := 0; j < n; j++ {
			out = append(out, addrOf(k))
		}
	}
	return out
}

func addrSpecs() []string {
	kinds := []string{"tcp4", "tcp6", "v2", "v3"}
	for _, n := range []int{1, 2, 63, 64, 251, 252, 253, 254, 255} {
		kinds = append(kinds, fmt.Sprintf("dns%d", n))
	}
	for _, n := range []int{1, 2, 255, 256, 1000} {
		kinds = append(kinds, fmt.Sprintf("opq%d", n))
	}
	out := []string{""}
	for _, k := range kinds {
		out = append(out, k, "tcp4,"+k)
		if !strings.HasPrefix(k, "opq") { // an opaque address swallows the rest of the list
			out = append(out, k+",tcp4", k+","+k)
		}
	}
	out = append(out, "dns255*252", "dns255*253", "dns253*252")
	return out
}

// apply sets leaf li of v to the case cs ("len=N" / "addrs=spec"). ls are v's leaves.
func applyVar(ls []vleaf, li int, cs string) bool {
	l := ls[li]
	if strings.HasPrefix(cs, "addrs=") {
		if l.kind != "addrs" {
			return false
		}
		l.v.Set(reflect.ValueOf(addrsOf(cs[6:])))
		return true
	}
	n, err := strconv.Atoi(strings.TrimPrefix(cs, "len="))
	if err != nil || n < 0 {
		return false
	}
	switch l.kind {
	case "bytes":
		old := l.v.Bytes()
		nb := make([]byte, n)
		for i := range nb {
			if len(old) > 0 {
				nb[i] = old[i%len(old)]
			} else {
				nb[i] = 'a' + byte(i%26)
			}
		}
		l.v.Set(reflect.ValueOf(nb).Convert(l.v.Type()))
	case "string":
		old := l.v.String()
		nb := make([]byte, n)
		for i := range nb {
			if len(old) > 0 {
				nb[i] = old[i%len(old)]
			} else {
				nb[i] = 'a' + byte(i%26)
			}
		}
		l.v.SetString(string(nb))
	case "fv":
		var bits []lnwire.FeatureBit
		if n > 0 {
			bits = append(bits, lnwire.FeatureBit(8*n-1))
			if n > 1 {
				bits = append(bits, 0)
			}
		}
		if 8*n-1 > 65535 {
			return false // FeatureBit is a uint16
		}
		l.v.Set(reflect.ValueOf(*lnwire.NewRawFeatureVector(bits...)).Convert(l.v.Type()))
	case "list":
		base := l.v.Len()
		for _, o := range ls {
			if o.kind == "list" && (o.path == l.path || (base > 0 && o.v.Len() == base && !strings.HasPrefix(o.path, l.path+"[") && !strings.HasPrefix(l.path, o.path+"["))) {
				resizeList(o.v, n)
			}
		}
	case "addrs":
		l.v.Set(reflect.ValueOf(addrsOf(fmt.Sprintf("tcp4*%d", n))))
	default:
		return false
	}
	return true
}

func resizeList(v reflect.Value, n int) {
	t := v.Type()
	old := v
	ns := reflect.MakeSlice(t, n, n)
	for i := 0; i < n; i++ {
		e := ns.Index(i)
		switch {
		case old.Len() > 0:
			e.Set(old.Index(i % old.Len()))
		case t.Elem().Kind() == reflect.Ptr:
			e.Set(reflect.New(t.Elem().Elem()))
		}
		if t.Elem().Name() == "ShortChannelID" {
			if f := e.FieldByName("BlockHeight"); f.IsValid() && f.CanSet() {
				f.SetUint(uint64(i + 1))
			}
		}
	}
	v.Set(ns)
}

// varBuild regenerates the seed value with leaf li set to the case cs.
func varBuild(s *seed, li int, path, cs string) (v any, ok bool) {
	safely(func() {
		v = s.gen()
		ls := varLeaves(v)
		if li < len(ls) && ls[li].path == path {
			ok = applyVar(ls, li, cs)
		}
	})
	return v, ok
}

func (w *worker) varCases(c *codec, s *seed, li int, l vleaf) []string {
	set := map[int]bool{}
	for _, n := range varLens {
		set[n] = true
	}
	if w.thorough {
		for n := 0; n <= 520; n++ {
			set[n] = true
		}
	}
	// the largest length the encoder still accepts
	encOK := func(n int) bool {
		v, ok := varBuild(s, li, l.path, fmt.Sprintf("len=%d", n))
		if !ok {
			return false
		}
		var err error
		var b []byte
		pan := safely(func() { b, err = c.encode(v) })
		return pan == "" && err == nil && (c.kind != kMsg || len(b)-2 <= lnwire.MaxMsgBody)
	}
	if encOK(0) && !encOK(65537) {
		lo, hi := 0, 65537
		for hi-lo > 1 {
			mid := (lo + hi) / 2
			if encOK(mid) {
				lo = mid
			} else {
				hi = mid
			}
		}
		for n := lo - 2; n <= lo+1; n++ {
			if n >= 0 {
				set[n] = true
			}
		}
		w.res.Outcomes["varlen:encoder-limit-found"]++
	}
	var ns []int
	for n := range set {
		if l.kind == "string" && (n < 1 || n > 255) {
			continue
		}
		if lim, ok := legalMax[l.v.Type().Name()]; ok && n > lim {
			continue
		}
		ns = append(ns, n)
	}
	sort.Ints(ns)
	var out []string
	for _, n := range ns {
		out = append(out, fmt.Sprintf("len=%d", n))
	}
	if l.kind == "addrs" {
		for _, sp := range addrSpecs() {
			out = append(out, "addrs="+sp)
		}
	}
	return out
}

func varLeafCount(s *seed) int {
	var n int
	safely(func() { n = len(varLeaves(s.gen())) })
	return n
}

// sweepVar runs the family for one (codec, seed, element).
func (w *worker) sweepVar(c *codec, s *seed, li int, resumeAfter int, only *string) {
	var probe []vleaf
	safely(func() { probe = varLeaves(s.gen()) })
	if li >= len(probe) {
		return
	}
	l0 := probe[li]
	var cases []string
	if only != nil {
		cases = []string{*only}
	} else {
		cases = w.varCases(c, s, li, l0)
	}
	w.res.Outcomes["varlen:elements-"+l0.kind]++
	for ord, cs := range cases {
		if ord <= resumeAfter {
			continue
		}
		w.progress(ord)
		w.res.Evals++
		rc := replayCase{Kind: "varlen", Desc: s.desc, Family: "varlen", Field: l0.path, Value: cs}
		at := l0.path + ":" + cs
		v, ok := varBuild(s, li, l0.path, cs)
		pristine, ok2 := varBuild(s, li, l0.path, cs)
		if !ok || !ok2 {
			w.res.Outcomes["varlen:case-not-applicable"]++
			continue
		}
		var b []byte
		var err error
		pan := safely(func() { b, err = c.encode(v) })
		if w.verbose {
			w.info("varlen %s: encode -> %d bytes %s err=%v panic=%q", at, len(b), hexs(b, 64), err, pan)
		}
		if pan != "" {
			w.viol(c, "varlen-encode-panic:"+at+":"+panicClass(pan), fmt.Sprintf("%s with %s: Encode panicked: %s", c.name, at, pan), rc)
			continue
		}
		if err != nil {
			w.res.Outcomes["varlen:not-encodable"]++
			continue
		}
		if c.kind == kMsg && len(b)-2 > lnwire.MaxMsgBody {
			w.viol(c, "varlen-encode-oversize:"+at, fmt.Sprintf("%s with %s encodes to a %d-byte body", c.name, at, len(b)-2), rc)
			continue
		}
		body := b[c.prefixLen():]
		w.evalBytes(c, func() bytemut.Mut { return bytemut.Raw(body) }, body, false)
		var m any
		w.rd.reset(b)
		pan = safely(func() { m, err = c.decode(&w.rd) })
		if pan != "" {
			continue // reported by evalBytes
		}
		if err != nil {
			w.viol(c, "varlen-refused:"+at, fmt.Sprintf("%s with %s: the encoder produced %d bytes (%s) that the decoder refuses: %v", c.name, at, len(b), hexs(b, 48), err), rc)
			continue
		}
		// L4: the swept element, compared with an untouched second instance
		var want, got *vleaf
		safely(func() {
			for _, x := range varLeaves(pristine) {
				if x.path == l0.path {
					x := x
					want = &x
					break
				}
			}
			for _, x := range varLeaves(m) {
				if x.path == l0.path {
					x := x
					got = &x
					break
				}
			}
		})
		switch {
		case want == nil:
			w.res.Outcomes["varlen:path-unstable"]++
		case got == nil:
			empty := false
			safely(func() { empty = want.kind != "fv" && want.v.Len() == 0 })
			if !empty {
				w.viol(c, "varlen-roundtrip-differs:"+at+":absent", fmt.Sprintf("%s with %s encodes to %s, which decodes without that element", c.name, at, hexs(b, 48)), rc)
				continue
			}
		default:
			d := "?"
			safely(func() { d = equiv(want.v, got.v, "", 0) })
			if d != "" {
				w.viol(c, "varlen-roundtrip-differs:"+at+d, fmt.Sprintf("%s with %s encodes to %s, which decodes with a different element (%s)", c.name, at, hexs(b, 48), d), rc)
				continue
			}
		}
		var b2 []byte
		pan = safely(func() { b2, err = c.encode(m) })
		if pan != "" || err != nil || !bytes.Equal(b2, b) {
			w.viol(c, "varlen-reencode-differs:"+at, fmt.Sprintf("%s with %s: encode(v) = %s (%d bytes) but encode(decode(encode(v))) = %s (%d bytes, err=%v panic=%q)", c.name, at, hexs(b, 48), len(b), hexs(b2, 48), len(b2), err, pan), rc)
			continue
		}
		w.res.Outcomes["varlen:roundtrip-ok"]++
		w.res.Outcomes["varlen:roundtrip-ok-"+l0.kind]++
		if len(w.res.Samples) < 1 && len(b) <= 600 && ord > 8 {
			w.res.Samples = append(w.res.Samples, map[string]any{"codec": c.name, "family": "varlen", "element": l0.path, "case": cs, "bytes": hexs(b, 80)})
		}
	}
}
