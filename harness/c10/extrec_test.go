// C10, lnwire half: the EXTENSION RECORDS family ("extrec").
//
// The byte families edit seeds one byte / one length at a time and judge the result with
// O1-O5, which only ask that decode -> encode reaches a fixpoint: a decoder and an encoder
// that silently lose the same thing agree with each other. The corpus values come from the
// repository's generators, whose unknown records all have 4..64 byte values and random
// types. Neither reaches "an UNKNOWN record of a structurally special shape, placed at a
// chosen position of the extension TLV stream, must survive byte for byte".
//
// This family builds inputs that are canonical BY CONSTRUCTION and demands identity:
//
//	base     every message type x {zero message, the byte-mutated generator examples
//	         (quick: fullest/emptiest, thorough: + the first six)} whose encoding b0 is a
//	         decode/encode fixpoint of <= 2048 bytes. The extension point p of b0 is found
//	         by watching the real decoder read b0: (A) the offset of its first Read call
//	         with a 512-byte buffer - io.ReadAll's first call, which is how
//	         ExtraOpaqueData.Decode takes "everything up to the end of the message"; fixed
//	         fields are read with exactly-sized buffers, none of which is 512 bytes - or
//	         (B) for decoders that hand the reader straight to a tlv.Stream, offset 2 when
//	         the first read behind the message type is a 1-byte read (a BigSize type) there.
//	         b0[p:] must then parse as a canonical TLV stream with the independent
//	         reference parser, otherwise the base is not used (counted per reason).
//	known    K = the TLV types the real encoder emits for the type's corpus values once
//	         every ExtraOpaqueData / CustomRecords / ExtraSignedFields field is cleared,
//	         plus every tlv.TlvTypeN the message struct mentions in its field types.
//	types    per message type, all outside K: the smallest odd type, the smallest odd type
//	         above min(K), the smallest odd type above max(K below 2^16) (=> before /
//	         between / after the known records wherever the type's numbering leaves a gap),
//	         the smallest even type, 0xfb, 0xfd (first 3-byte BigSize), 0xffff (last below
//	         the custom range), 0x10000, 0x10001 (custom range), 2^32+1, 2^64-1; and, as
//	         single records only, the odd types next to the range thresholds lnd singles out
//	         (159, 161, 10^9-1, 10^9+1, 3*10^9-1, 3*10^9+1).
//	values   length 0, 1, 2 (each also all-zero), 252, 253 (first 3-byte BigSize length);
//	         thorough: + 3, 64, 1000.
//	sets     every single record and every pair of records with distinct types (all value
//	         shapes); thorough: + every triple of distinct types over the value shapes
//	         {empty, 1 byte, 1 zero byte, 2 bytes, 253 bytes}.
//
// For each set U the input is b0[:p] || merge(records of b0[p:], U) in canonical order
// (a set that collides with a type present in b0 is skipped and counted). Clauses:
//
//	X1  O1-O5 of the universal byte oracle on the input
//	X2  all types of U odd  =>  the decoder accepts (an unknown even type may be refused)
//	X3  accepted  =>  encode(decode(input)) == input byte for byte (decode-then-encode
//	    reproduces a canonical input; no record lost, altered, added or moved)
//	X4  value direction, when the base value itself round-trips to an equal value: the base
//	    value with U placed in its ExtraOpaqueData field (types >= 2^16 in its CustomRecords
//	    field if it has one; its ExtraSignedFields map if that is all it has) passes V1-V3
//	    as a well-formed value, and
//	X5  its encoding equals the input built at byte level (value -> bytes is the canonical
//	    merge of known and unknown records).
//
// Message types that rebuild ExtraData from the known records only fail X1 with the
// signature of the listed known finding (roundtrip-value-differs:.ExtraData:len); X3-X5
// have their own signatures (extrec-*), which no known-finding pattern matches.
package c10

import (
	"bytes"
	"encoding/hex"
	"fmt"
	"reflect"
	"regexp"
	"sort"
	"strconv"
	"strings"

	"github.com/lightningnetwork/lnd/lnwire"
	"github.com/lightningnetwork/lnd/verifmc/bytemut"
)

// xrec is the JSON form of one inserted record (type in decimal: it may exceed 2^53).
type xrec struct {
	T string `json:"t"`
	V string `json:"v"`
}

type urec struct {
	t uint64
	v []byte
}

func toX(U []urec) []xrec {
	out := make([]xrec, len(U))
	for i, u := range U {
		out[i] = xrec{T: strconv.FormatUint(u.t, 10), V: hex.EncodeToString(u.v)}
	}
	return out
}

func fromX(X []xrec) []urec {
	out := make([]urec, 0, len(X))
	for _, x := range X {
		t, err := strconv.ParseUint(x.T, 10, 64)
		v, err2 := hex.DecodeString(x.V)
		if err != nil || err2 != nil {
			continue
		}
		out = append(out, urec{t: t, v: v})
	}
	return out
}

func showU(U []urec) string {
	var sb strings.Builder
	for i, u := range U {
		if i > 0 {
			sb.WriteString(", ")
		}
		fmt.Fprintf(&sb, "type %d len %d", u.t, len(u.v))
		if len(u.v) > 0 && len(u.v) <= 4 {
			fmt.Fprintf(&sb, " (%x)", u.v)
		}
	}
	return sb.String()
}

const xrMaxBase = 2048

type xrShape struct {
	n    int
	zero bool
}

func xrShapes(thorough bool) []xrShape {
	out := []xrShape{{0, false}, {1, false}, {1, true}, {2, false}, {2, true}, {252, false}, {253, false}}
	if thorough {
		out = append(out, xrShape{3, false}, xrShape{64, false}, xrShape{1000, false})
	}
	return out
}

func (s xrShape) value() []byte {
	b := make([]byte, s.n)
	if !s.zero {
		for i := range b {
			b[i] = byte(i*29 + 0xa1)
		}
	}
	return b
}

var (
	tExtraOpaque = reflect.TypeOf(lnwire.ExtraOpaqueData(nil))
	tCustomRecs  = reflect.TypeOf(lnwire.CustomRecords(nil))
	tExtraSigned = reflect.TypeOf(lnwire.ExtraSignedFields(nil))
)

// holders returns the settable top-level fields of v that can carry unknown records.
func holders(v any) (eo, cr, es reflect.Value) {
	rv := reflect.ValueOf(v)
	if rv.Kind() != reflect.Ptr || rv.IsNil() || rv.Elem().Kind() != reflect.Struct {
		return
	}
	e := rv.Elem()
	for i := 0; i < e.NumField(); i++ {
		f := e.Field(i)
		if !f.CanSet() {
			continue
		}
		switch f.Type() {
		case tExtraOpaque:
			if !eo.IsValid() {
				eo = f
			}
		case tCustomRecs:
			if !cr.IsValid() {
				cr = f
			}
		case tExtraSigned:
			if !es.IsValid() {
				es = f
			}
		}
	}
	return
}

// clearExt empties every field that can carry records the message type does not know.
func clearExt(v any) {
	eo, cr, es := holders(v)
	for _, f := range []reflect.Value{eo, cr, es} {
		if f.IsValid() {
			f.Set(reflect.Zero(f.Type()))
		}
	}
}

func streamOf(recs []urec) []byte {
	sort.SliceStable(recs, func(i, j int) bool { return recs[i].t < recs[j].t })
	var out []byte
	for _, r := range recs {
		out = append(out, bytemut.BigSize(r.t)...)
		out = append(out, bytemut.BigSize(uint64(len(r.v)))...)
		out = append(out, r.v...)
	}
	return out
}

// placeRecords puts U into the value's record holders; false if it has no place for one.
func placeRecords(v any, U []urec) bool {
	eo, cr, es := holders(v)
	var forEO []urec
	for _, u := range U {
		switch {
		case u.t >= lnwire.MinCustomRecordsTlvType && cr.IsValid():
			if cr.IsNil() {
				cr.Set(reflect.MakeMap(tCustomRecs))
			}
			cr.SetMapIndex(reflect.ValueOf(u.t), reflect.ValueOf(append([]byte{}, u.v...)))
		case eo.IsValid():
			forEO = append(forEO, urec{u.t, append([]byte{}, u.v...)})
		case es.IsValid():
			if es.IsNil() {
				es.Set(reflect.MakeMap(tExtraSigned))
			}
			es.SetMapIndex(reflect.ValueOf(u.t), reflect.ValueOf(append([]byte{}, u.v...)))
		default:
			return false
		}
	}
	if len(forEO) > 0 {
		cur := eo.Bytes()
		recs, ok := bytemut.ParseTLV(cur, 0)
		if !ok {
			return false
		}
		for _, r := range recs {
			forEO = append(forEO, urec{r.Type, append([]byte{}, cur[r.ValOff:r.ValOff+int(r.Len)]...)})
		}
		eo.Set(reflect.ValueOf(lnwire.ExtraOpaqueData(streamOf(forEO))))
	}
	return true
}

// xrCodec is the per-message-type alphabet.
type xrCodec struct {
	known   map[uint64]bool
	pairT   []uint64
	singleT []uint64
}

// extPoint locates the extension TLV stream of a valid encoding (see the file header).
func (w *worker) extPoint(c *codec, full []byte) (p int, recs []bytemut.TLVRecord, why string) {
	w.rd.reset(full)
	var err error
	var log []rdCall
	w.rd.calllog = &log
	pan := safely(func() { _, err = c.decode(&w.rd) })
	w.rd.calllog = nil
	if pan != "" || err != nil {
		return 0, nil, "base-not-decodable"
	}
	pl := c.prefixLen()
	p = -1
	for _, rc := range log {
		if rc.buf == 512 && rc.off >= pl {
			p = rc.off // (A) io.ReadAll starts here
			break
		}
	}
	if p < 0 {
		for _, rc := range log {
			if rc.off >= pl {
				if rc.off == pl && rc.buf == 1 {
					p = pl // (B) a tlv.Stream reads the body directly
				}
				break
			}
		}
	}
	if p < 0 || p > len(full) {
		return 0, nil, "no-extension-stream-read"
	}
	recs, ok := bytemut.ParseTLV(full[p:], 0)
	if !ok {
		return 0, nil, "tail-not-a-canonical-stream"
	}
	return p, recs, ""
}

func (w *worker) xrAlphabet(cc *codecCorpus) *xrCodec {
	if w.xr == nil {
		w.xr = map[int]*xrCodec{}
	}
	key := int(cc.c.prefix[0])<<8 | int(cc.c.prefix[1])
	if al := w.xr[key]; al != nil {
		return al
	}
	al := &xrCodec{known: map[uint64]bool{}}
	n := 0
	for i := range cc.seeds {
		s := &cc.seeds[i]
		if s.gen == nil || s.name == "oversize" || len(s.full) > 4096 || n >= 64 {
			continue
		}
		n++
		var b []byte
		var err error
		if pan := safely(func() {
			v := s.gen()
			clearExt(v)
			b, err = cc.c.encode(v)
		}); pan != "" || err != nil {
			continue
		}
		if _, recs, why := w.extPoint(cc.c, b); why == "" {
			for _, r := range recs {
				al.known[r.Type] = true
			}
		}
	}
	// statically: the record types the message struct declares
	if len(cc.seeds) > 0 && len(cc.seeds[0].full) >= 2 {
		var m lnwire.Message
		safely(func() { m, _ = lnwire.MakeEmptyMessage(lnwire.MessageType(uint16(key))) })
		if m != nil {
			declaredTypes(reflect.TypeOf(m), 0, map[reflect.Type]bool{}, al.known)
		}
	}
	var lo, hi uint64
	first := true
	for t := range al.known {
		if t >= lnwire.MinCustomRecordsTlvType {
			continue
		}
		if first || t < lo {
			lo = t
		}
		if first || t > hi {
			hi = t
		}
		first = false
	}
	next := func(from uint64, parity uint64) uint64 {
		t := from
		for t%2 != parity || al.known[t] {
			t++
		}
		return t
	}
	cand := []uint64{next(0, 1), next(0, 0)}
	if !first {
		cand = append(cand, next(lo+1, 1), next(hi+1, 1))
	}
	cand = append(cand, 0xfb, 0xfd, 0xffff, 0x10000, 0x10001, 1<<32+1, 1<<64-1)
	seen := map[uint64]bool{}
	for _, t := range cand {
		if !seen[t] && !al.known[t] {
			seen[t] = true
			al.pairT = append(al.pairT, t)
		}
	}
	for _, t := range []uint64{159, 161, 999999999, 1000000001, 2999999999, 3000000001} {
		if !seen[t] && !al.known[t] {
			seen[t] = true
			al.singleT = append(al.singleT, t)
		}
	}
	sort.Slice(al.pairT, func(i, j int) bool { return al.pairT[i] < al.pairT[j] })
	w.xr[key] = al
	return al
}

var tlvTypeRe = regexp.MustCompile(`[tT]lvType([0-9]+)`)

// declaredTypes collects every tlv.TlvTypeN named in the field types reachable from t.
func declaredTypes(t reflect.Type, depth int, seen map[reflect.Type]bool, out map[uint64]bool) {
	if depth > 5 || seen[t] {
		return
	}
	seen[t] = true
	for _, m := range tlvTypeRe.FindAllStringSubmatch(t.String(), -1) {
		if n, err := strconv.ParseUint(m[1], 10, 64); err == nil {
			out[n] = true
		}
	}
	switch t.Kind() {
	case reflect.Ptr, reflect.Slice, reflect.Array:
		declaredTypes(t.Elem(), depth+1, seen, out)
	case reflect.Struct:
		if skipPkg(t) {
			return
		}
		for i := 0; i < t.NumField(); i++ {
			declaredTypes(t.Field(i).Type, depth+1, seen, out)
		}
	}
}

// xrEnumerate visits the record sets of the family in a fixed order.
func xrEnumerate(al *xrCodec, thorough bool, f func(U []urec)) {
	shapes := xrShapes(thorough)
	vals := make([][]byte, len(shapes))
	for i, s := range shapes {
		vals[i] = s.value()
	}
	all := append(append([]uint64{}, al.pairT...), al.singleT...)
	for _, t := range all {
		for _, v := range vals {
			f([]urec{{t, v}})
		}
	}
	for i := 0; i < len(al.pairT); i++ {
		for j := i + 1; j < len(al.pairT); j++ {
			for _, v1 := range vals {
				for _, v2 := range vals {
					f([]urec{{al.pairT[i], v1}, {al.pairT[j], v2}})
				}
			}
		}
	}
	if !thorough {
		return
	}
	var tv [][]byte // lengths 0, 1, 1 (zero), 2, 253
	for i, sh := range shapes {
		if sh.n <= 1 || sh.n == 253 || (sh.n == 2 && !sh.zero) {
			tv = append(tv, vals[i])
		}
	}
	for i := 0; i < len(al.pairT); i++ {
		for j := i + 1; j < len(al.pairT); j++ {
			for k := j + 1; k < len(al.pairT); k++ {
				for _, v1 := range tv {
					for _, v2 := range tv {
						for _, v3 := range tv {
							f([]urec{{al.pairT[i], v1}, {al.pairT[j], v2}, {al.pairT[k], v3}})
						}
					}
				}
			}
		}
	}
}

func xrCount(al *xrCodec, thorough bool) int {
	n := 0
	xrEnumerate(al, thorough, func([]urec) { n++ })
	return n
}

// xrBase is what the family needs to know about one base encoding.
type xrBase struct {
	s        *seed
	p        int
	recs     []bytemut.TLVRecord
	has      map[uint64]bool
	kLo, kHi uint64 // smallest / largest known type present in the base stream
	kAny     bool
	valueOK  bool
}

func (w *worker) xrPrepare(c *codec, al *xrCodec, s *seed) (*xrBase, string) {
	if s.full == nil || len(s.full) > xrMaxBase+c.prefixLen() {
		return nil, "base-too-large"
	}
	if pl := c.prefixLen(); !bytes.Equal(s.full[:pl], c.prefix[:pl]) {
		return nil, "base-of-another-message-type" // a Custom example with a type of its own
	}
	p, recs, why := w.extPoint(c, s.full)
	if why != "" {
		return nil, why
	}
	// the base must be a decode/encode fixpoint, or nothing can be asked of its edits
	var v any
	var b2 []byte
	var err error
	w.rd.reset(s.full)
	if pan := safely(func() {
		v, err = c.decode(&w.rd)
		if err == nil {
			b2, err = c.encode(v)
		}
	}); pan != "" || err != nil || !bytes.Equal(b2, s.full) {
		return nil, "base-not-a-fixpoint"
	}
	xb := &xrBase{s: s, p: p, recs: recs, has: map[uint64]bool{}}
	for _, r := range recs {
		xb.has[r.Type] = true
		if al.known[r.Type] && r.Type < lnwire.MinCustomRecordsTlvType {
			if !xb.kAny || r.Type < xb.kLo {
				xb.kLo = r.Type
			}
			if !xb.kAny || r.Type > xb.kHi {
				xb.kHi = r.Type
			}
			xb.kAny = true
		}
	}
	// value direction: only from a base value that encodes to exactly these bytes and
	// decodes back to an equal value
	if s.gen != nil {
		safely(func() {
			v0, pristine := s.gen(), s.gen()
			b, err := c.encode(v0)
			if err != nil || !bytes.Equal(b, s.full) {
				return
			}
			w.rd.reset(b)
			m, err := c.decode(&w.rd)
			if err != nil || equivAny(pristine, m) != "" {
				return
			}
			eo, cr, es := holders(s.gen())
			xb.valueOK = eo.IsValid() || cr.IsValid() || es.IsValid()
		})
	}
	return xb, ""
}

// xrDiff names the first way in which got (a whole message) differs from the expected
// stream of records behind want[:p].
func xrDiff(want, got []byte, p int, base []bytemut.TLVRecord, U []urec) string {
	if len(got) < p || !bytes.Equal(got[:p], want[:p]) {
		return "fixed-part-changed"
	}
	gr, ok := bytemut.ParseTLV(got[p:], 0)
	if !ok {
		return "stream-not-canonical"
	}
	gv := map[uint64][]byte{}
	for _, r := range gr {
		gv[r.Type] = got[p+r.ValOff : p+r.ValOff+int(r.Len)]
	}
	for _, u := range U {
		v, ok := gv[u.t]
		if !ok {
			return fmt.Sprintf("lost:type=%d:len=%d", u.t, len(u.v))
		}
		if !bytes.Equal(v, u.v) {
			return fmt.Sprintf("altered:type=%d:len=%d", u.t, len(u.v))
		}
		delete(gv, u.t)
	}
	wr, _ := bytemut.ParseTLV(want[p:], 0)
	for _, r := range wr {
		v, ok := gv[r.Type]
		if !ok {
			continue
		}
		if !bytes.Equal(v, want[p+r.ValOff:p+r.ValOff+int(r.Len)]) {
			return "base-record-altered"
		}
		delete(gv, r.Type)
	}
	if len(gv) > 0 {
		return "record-added"
	}
	if len(gr) < len(wr) {
		return "base-record-lost"
	}
	return "other"
}

func (w *worker) xrCaseRC(c *codec, xb *xrBase, U []urec) replayCase {
	pl := c.prefixLen()
	return replayCase{Kind: "extrec", Family: "extrec", Prefix: hex.EncodeToString(c.prefix[:pl]),
		Seed: hex.EncodeToString(xb.s.full[pl:]), Desc: xb.s.desc, Recs: toX(U)}
}

// xrCase evaluates one record set on one base (clauses X1-X5).
func (w *worker) xrCase(c *codec, al *xrCodec, xb *xrBase, U []urec, buf *[]byte) {
	pl := c.prefixLen()
	add := make([]urec, 0, len(U)+len(xb.recs))
	allOdd := true
	for _, u := range U {
		if xb.has[u.t] {
			w.res.Outcomes["extrec:type-present-in-base-skipped"]++
			return
		}
		if u.t%2 == 0 {
			allOdd = false
		}
		add = append(add, u)
	}
	base := xb.s.full
	for _, r := range xb.recs {
		add = append(add, urec{r.Type, base[xb.p+r.ValOff : xb.p+r.ValOff+int(r.Len)]})
	}
	in := append(append((*buf)[:0], base[:xb.p]...), streamOf(add)...)
	*buf = in
	if len(in) > lnwire.MaxSliceLength {
		w.res.Outcomes["extrec:oversize-skipped"]++
		return
	}
	for _, u := range U {
		switch {
		case !xb.kAny:
			w.res.Outcomes["extrec:pos-no-known-record-in-base"]++
		case u.t < xb.kLo:
			w.res.Outcomes["extrec:pos-before-known"]++
		case u.t > xb.kHi:
			w.res.Outcomes["extrec:pos-after-known"]++
		default:
			w.res.Outcomes["extrec:pos-between-known"]++
		}
	}
	w.res.XrCases++
	if w.verbose {
		w.info("extension point of the base at offset %d (%d records behind it); inserting %s; input %s", xb.p, len(xb.recs), showU(U), hexs(in, 120))
	}
	// X1
	nv := w.nViol
	body := in[pl:]
	acc := w.evalBytes(c, func() bytemut.Mut { return bytemut.Raw(body) }, body, false)
	if w.nViol != nv {
		w.res.Outcomes["extrec:failed-O1-O5"]++
		return
	}
	if !acc {
		if !allOdd {
			w.res.Outcomes["extrec:unknown-even-type-refused"]++
			return
		}
		// X2. The signature names the record that is refused on its own, if there is
		// one (so that a set inherits the signature of its culprit).
		cul := fmt.Sprintf("type=%d:len=%d", U[0].t, len(U[0].v))
		if len(U) > 1 {
			cul = "only-together"
			for _, u := range U {
				one := append(append([]byte{}, base[:xb.p]...), streamOf(append([]urec{u}, baseRecs(xb)...))...)
				w.rd.reset(one)
				var err error
				if pan := safely(func() { _, err = c.decode(&w.rd) }); pan != "" || err != nil {
					cul = fmt.Sprintf("type=%d:len=%d", u.t, len(u.v))
					break
				}
			}
		}
		w.viol(c, "extrec-rejected:"+cul,
			fmt.Sprintf("canonical input refused: base %s with the unknown odd record(s) [%s] merged in canonical order into its extension stream (offset %d): %s", xb.s.name, showU(U), xb.p, hexs(in, 64)),
			w.xrCaseRC(c, xb, U))
		return
	}
	// X3
	if !bytes.Equal(w.lastB2, in) {
		d := xrDiff(in, w.lastB2, xb.p, xb.recs, U)
		w.viol(c, "extrec-identity:"+d,
			fmt.Sprintf("decode-then-encode does not reproduce a canonical input (%s): base %s with the unknown record(s) [%s] merged into its extension stream at offset %d: input %s re-encodes to %s", d, xb.s.name, showU(U), xb.p, hexs(in[xb.p:], 64), hexs(tailFrom(w.lastB2, xb.p), 64)),
			w.xrCaseRC(c, xb, U))
		return
	}
	w.res.Outcomes["extrec:identity-ok"]++
	if len(w.res.Samples) < 1 {
		w.res.Samples = append(w.res.Samples, map[string]any{"codec": c.name, "family": "extrec", "base": xb.s.name, "extension_offset": xb.p,
			"records": showU(U), "input": hexs(in, 120), "outcome": "accepted, re-encoded byte for byte"})
	}
	if !xb.valueOK {
		return
	}
	// X4
	Uc := append([]urec{}, U...)
	gen := func() any {
		v := xb.s.gen()
		if !placeRecords(v, Uc) {
			return nil
		}
		return v
	}
	vs := &seed{name: xb.s.name + "+[" + showU(U) + "]", gen: gen, wellFormed: true,
		desc: map[string]any{"gen": "extrec", "type": int(c.prefix[0])<<8 | int(c.prefix[1]), "base": xb.s.desc, "recs": toX(U)}}
	nv = w.nViol
	w.evalValue(c, vs)
	if w.nViol != nv {
		w.res.Outcomes["extrec:failed-V1-V3"]++
		return
	}
	// X5
	var b []byte
	var err error
	pan := safely(func() { b, err = c.encode(gen()) })
	if pan != "" || err != nil || !bytes.Equal(b, in) {
		d := "not-encodable"
		if pan == "" && err == nil {
			d = xrDiff(in, b, xb.p, xb.recs, U)
		}
		w.viol(c, "extrec-value-encode:"+d,
			fmt.Sprintf("value -> bytes is not the canonical merge (%s): base value %s with the unknown record(s) [%s] encodes to %s, expected %s (err=%v panic=%q)", d, xb.s.name, showU(U), hexs(tailFrom(b, xb.p), 64), hexs(in[xb.p:], 64), err, pan),
			w.xrCaseRC(c, xb, U))
		return
	}
	w.res.Outcomes["extrec:value-direction-ok"]++
}

func baseRecs(xb *xrBase) []urec {
	out := make([]urec, 0, len(xb.recs))
	for _, r := range xb.recs {
		out = append(out, urec{r.Type, xb.s.full[xb.p+r.ValOff : xb.p+r.ValOff+int(r.Len)]})
	}
	return out
}

func tailFrom(b []byte, p int) []byte {
	if p > len(b) {
		return nil
	}
	return b[p:]
}

// runExtrec runs the family for one (codec, base seed); only != nil: just that set.
func (w *worker) runExtrec(cc *codecCorpus, s *seed, resumeAfter int, only []urec) {
	c := cc.c
	al := w.xrAlphabet(cc)
	xb, why := w.xrPrepare(c, al, s)
	if xb == nil {
		w.res.Outcomes["extrec-base:"+why]++
		w.info("base %s is not used: %s", s.name, why)
		return
	}
	w.res.Outcomes["extrec-base:used"]++
	if xb.valueOK {
		w.res.Outcomes["extrec-base:value-direction"]++
	}
	w.res.XrBases++
	var buf []byte
	if only != nil {
		w.info("known types of %s: %v; base %s, value direction %v", c.name, sortedKeys(al.known), s.name, xb.valueOK)
		w.xrCase(c, al, xb, only, &buf)
		return
	}
	ord := -1
	xrEnumerate(al, w.thorough, func(U []urec) {
		ord++
		if ord <= resumeAfter {
			return
		}
		w.progress(ord)
		w.xrCase(c, al, xb, U, &buf)
	})
}

func sortedKeys(m map[uint64]bool) []uint64 {
	out := make([]uint64, 0, len(m))
	for k := range m {
		out = append(out, k)
	}
	sort.Slice(out, func(i, j int) bool { return out[i] < out[j] })
	return out
}

// xrCaseAt rebuilds the replay case of (base, ordinal) for crash / stall attribution.
func (w *worker) xrCaseAt(cc *codecCorpus, s *seed, ord int) replayCase {
	c := cc.c
	pl := c.prefixLen()
	rc := replayCase{Half: "lnwire", Codec: c.name, Kind: "extrec", Family: "extrec", Prefix: hex.EncodeToString(c.prefix[:pl]), Desc: s.desc}
	if s.full != nil {
		rc.Seed = hex.EncodeToString(s.full[pl:])
	}
	o := -1
	safely(func() {
		xrEnumerate(w.xrAlphabet(cc), w.thorough, func(U []urec) {
			o++
			if o == ord {
				rc.Recs = toX(U)
			}
		})
	})
	return rc
}

// xrGenFromDesc rebuilds the generator of an X4 value for a replay.
func xrGenFromDesc(d map[string]any) func() any {
	base, _ := d["base"].(map[string]any)
	var bg func() any
	if g, _ := base["gen"].(string); g == "zero" {
		tf, _ := d["type"].(float64)
		bg = func() any {
			m, _ := lnwire.MakeEmptyMessage(lnwire.MessageType(uint16(tf)))
			return m
		}
	} else if base != nil {
		bg = genFromDesc(base)
	}
	if bg == nil {
		return nil
	}
	var X []xrec
	if l, ok := d["recs"].([]any); ok {
		for _, e := range l {
			if m, ok := e.(map[string]any); ok {
				X = append(X, xrec{T: fmt.Sprint(m["t"]), V: fmt.Sprint(m["v"])})
			}
		}
	}
	U := fromX(X)
	return func() any {
		v := bg()
		if !placeRecords(v, U) {
			return nil
		}
		return v
	}
}
