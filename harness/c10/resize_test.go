// C10, lnwire half: the length-consistent LIST / RECORD RESIZE family ("resize").
//
// Single-byte edits change a length prefix or the bytes behind it, never both, and the
// field sweep changes numbers, not the number of elements. This family changes the SIZE
// of one length-delimited region of a seed encoding while keeping every length prefix
// around it consistent, so that the result is again a well-framed message in which only
// "how many elements does this list have" differs - the inputs on which two lists of
// one message can disagree (timestamps vs. short channel ids, signatures vs. htlcs).
//
// Targets, found per seed without per-type knowledge:
//
//	tlv    every TLV record of every canonical TLV stream found in the seed (nested ones too)
//	len16  every 2-byte read of the decoder whose value L is followed by a region of L bytes
//	       that ends on a read boundary (id lists incl. the encoding byte, address lists,
//	       feature vectors, opaque blobs, the update embedded in an onion failure, the
//	       message and the padding of a failure packet)
//	len8   the same for 1-byte reads (host names, scripts), seeds <= 2048 bytes
//	cnt16  every 2-byte read whose value N is followed by N reads of one size (signature vectors)
//
// Edits of one target, the prefix recomputed and the prefix of every enclosing target
// adjusted (BigSize prefixes may change size; that propagates outwards):
//
//	value shortened by k and lengthened by k for every k in 1..72 - lengthened once by
//	repeating its own last k bytes, once by k zero bytes; value emptied; (tlv) the record
//	removed, and the record duplicated in place; (cnt16) count -1, +1 (last element
//	repeated) and 0.
//
// The thorough tier additionally applies two edits at once to every pair of disjoint,
// non-nested targets with k in {1, 8, 64} (shorten / lengthen by repetition).
// Every result goes through the universal byte oracle O1-O5.
package c10

import (
	"sort"

	"github.com/lightningnetwork/lnd/verifmc/bytemut"
)

type rzTarget struct {
	kind             string
	start            int // first byte belonging to the target (tlv: the type prefix)
	prefOff, prefLen int
	valOff, valLen   int
	elem             int // cnt16: element size
}

func (t rzTarget) end() int { return t.valOff + t.valLen }

// resizeTargets lists the targets of a seed (offsets in full coordinates).
func (w *worker) resizeTargets(c *codec, s *seed) []rzTarget {
	full := s.full
	pl := c.prefixLen()
	var out []rzTarget
	seen := map[[2]int]bool{}
	add := func(t rzTarget) {
		k := [2]int{t.prefOff, t.valOff + t.valLen}
		if seen[k] || t.valOff+t.valLen > len(full) {
			return
		}
		seen[k] = true
		out = append(out, t)
	}
	for _, r := range tlvRecords(full, pl, len(full) <= 2048) {
		add(rzTarget{kind: "tlv", start: r.TypeOff, prefOff: r.LenOff, prefLen: r.ValOff - r.LenOff, valOff: r.ValOff, valLen: int(r.Len)})
	}
	segs := w.traceReads(c, full)
	ends := map[int]bool{len(full): true}
	for _, sg := range segs {
		ends[sg.hi] = true
	}
	for i, sg := range segs {
		n := sg.hi - sg.lo
		if n != 2 && !(n == 1 && len(full) <= 2048) {
			continue
		}
		L := int(full[sg.lo])
		if n == 2 {
			L = L<<8 | int(full[sg.lo+1])
		}
		if L == 0 {
			continue
		}
		// byte-length prefix
		if sg.hi+L <= len(full) && ends[sg.hi+L] && i+1 < len(segs) && segs[i+1].lo == sg.hi {
			kind := "len16"
			if n == 1 {
				kind = "len8"
			}
			add(rzTarget{kind: kind, start: sg.lo, prefOff: sg.lo, prefLen: n, valOff: sg.hi, valLen: L})
		}
		// element-count prefix
		if n == 2 && i+L < len(segs) {
			e := segs[i+1].hi - segs[i+1].lo
			ok := e > 1 && segs[i+1].lo == sg.hi
			for j := 1; ok && j <= L; j++ {
				if segs[i+j].hi-segs[i+j].lo != e || (j > 1 && segs[i+j].lo != segs[i+j-1].hi) {
					ok = false
				}
			}
			if ok {
				add(rzTarget{kind: "cnt16", start: sg.lo, prefOff: sg.lo, prefLen: 2, valOff: sg.hi, valLen: L * e, elem: e})
			}
		}
	}
	sort.SliceStable(out, func(i, j int) bool {
		if out[i].start != out[j].start {
			return out[i].start < out[j].start
		}
		return out[i].valLen > out[j].valLen
	})
	return out
}

type rzEdit struct {
	t      int
	newVal []byte
	remove bool // tlv: drop the whole record
	dup    bool // tlv: emit the record twice
	desc   string
}

func prefixFor(t rzTarget, n int) []byte {
	switch t.kind {
	case "tlv":
		return bytemut.BigSize(uint64(n))
	case "len16":
		if n > 0xffff {
			return nil
		}
		return []byte{byte(n >> 8), byte(n)}
	case "len8":
		if n > 0xff {
			return nil
		}
		return []byte{byte(n)}
	case "cnt16":
		if t.elem == 0 || n%t.elem != 0 || n/t.elem > 0xffff {
			return nil
		}
		return []byte{byte(n / t.elem >> 8), byte(n / t.elem)}
	}
	return nil
}

// applyEdits builds the message with the edits applied and all enclosing prefixes
// adjusted; nil if some prefix cannot express its new length or the edits overlap.
func applyEdits(full []byte, ts []rzTarget, edits []rzEdit) []byte {
	type repl struct {
		lo, hi int
		data   []byte
	}
	var rs []repl
	delta := make([]int, len(ts)) // byte delta of the whole target (prefix + value)
	edited := map[int]bool{}
	for _, e := range edits {
		t := ts[e.t]
		edited[e.t] = true
		switch {
		case e.remove:
			rs = append(rs, repl{t.start, t.end(), nil})
			delta[e.t] = -(t.end() - t.start)
		case e.dup:
			rec := full[t.start:t.end()]
			rs = append(rs, repl{t.start, t.end(), append(append([]byte{}, rec...), rec...)})
			delta[e.t] = len(rec)
		default:
			p := prefixFor(t, len(e.newVal))
			if p == nil {
				return nil
			}
			rs = append(rs, repl{t.prefOff, t.end(), append(append([]byte{}, p...), e.newVal...)})
			delta[e.t] = len(p) + len(e.newVal) - (t.end() - t.prefOff)
		}
	}
	// the edits must be disjoint and not nested in one another
	for i := range edits {
		for j := range edits {
			if i != j {
				a, b := ts[edits[i].t], ts[edits[j].t]
				if a.start < b.end() && b.start < a.end() {
					return nil
				}
			}
		}
	}
	// enclosing targets, innermost first
	order := make([]int, 0, len(ts))
	for i := range ts {
		if !edited[i] {
			order = append(order, i)
		}
	}
	sort.SliceStable(order, func(a, b int) bool { return ts[order[a]].valLen < ts[order[b]].valLen })
	for _, i := range order {
		t := ts[i]
		if t.kind == "cnt16" {
			continue
		}
		inner := 0
		for j, u := range ts {
			if j != i && delta[j] != 0 && u.start >= t.valOff && u.end() <= t.end() {
				// count only targets that are not themselves inside another counted one
				nested := false
				for k, x := range ts {
					if k != j && k != i && delta[k] != 0 && x.start >= t.valOff && x.end() <= t.end() && u.start >= x.valOff && u.end() <= x.end() {
						nested = true
					}
				}
				if !nested {
					inner += delta[j]
				}
			}
		}
		if inner == 0 {
			continue
		}
		p := prefixFor(t, t.valLen+inner)
		if p == nil || t.valLen+inner < 0 {
			return nil
		}
		rs = append(rs, repl{t.prefOff, t.prefOff + t.prefLen, p})
		delta[i] = inner + len(p) - t.prefLen
	}
	sort.Slice(rs, func(a, b int) bool { return rs[a].lo < rs[b].lo })
	out := make([]byte, 0, len(full)+128)
	pos := 0
	for _, r := range rs {
		if r.lo < pos {
			return nil
		}
		out = append(out, full[pos:r.lo]...)
		out = append(out, r.data...)
		pos = r.hi
	}
	return append(out, full[pos:]...)
}

const rzMaxK = 72

// editsFor lists the single-target edits.
func editsFor(full []byte, ts []rzTarget, ti int, ks []int) []rzEdit {
	t := ts[ti]
	val := full[t.valOff:t.end()]
	var out []rzEdit
	if t.kind == "cnt16" {
		n := t.valLen / t.elem
		out = append(out, rzEdit{t: ti, newVal: val[:(n-1)*t.elem], desc: "count-1"})
		out = append(out, rzEdit{t: ti, newVal: append(append([]byte{}, val...), val[(n-1)*t.elem:]...), desc: "count+1"})
		out = append(out, rzEdit{t: ti, newVal: nil, desc: "count=0"})
		return out
	}
	for _, k := range ks {
		if k <= t.valLen {
			out = append(out, rzEdit{t: ti, newVal: val[:t.valLen-k], desc: "shorten"})
		}
		if t.valLen > 0 {
			rep := make([]byte, 0, t.valLen+k)
			rep = append(rep, val...)
			for i := 0; i < k; i++ {
				src := t.valLen - k + i
				for src < 0 {
					src += t.valLen
				}
				rep = append(rep, val[src%t.valLen])
			}
			out = append(out, rzEdit{t: ti, newVal: rep, desc: "lengthen-repeat"})
		}
		out = append(out, rzEdit{t: ti, newVal: append(append([]byte{}, val...), make([]byte, k)...), desc: "lengthen-zeros"})
	}
	if t.valLen > rzMaxK {
		out = append(out, rzEdit{t: ti, newVal: nil, desc: "empty"})
	}
	if t.kind == "tlv" {
		out = append(out, rzEdit{t: ti, remove: true, desc: "remove"}, rzEdit{t: ti, dup: true, desc: "duplicate"})
	}
	return out
}

// enumerateResize visits the family for one seed (bodies, without the codec prefix).
func (w *worker) enumerateResize(c *codec, s *seed, visit func(m func() bytemut.Mut, body []byte)) (targets int) {
	pl := c.prefixLen()
	ts := w.resizeTargets(c, s)
	ks := make([]int, 0, rzMaxK)
	for k := 1; k <= rzMaxK; k++ {
		ks = append(ks, k)
	}
	emit := func(b []byte) {
		if b == nil || len(b) < pl {
			return
		}
		body := b[pl:]
		visit(func() bytemut.Mut { return bytemut.Raw(body) }, body)
	}
	for ti := range ts {
		for _, e := range editsFor(s.full, ts, ti, ks) {
			emit(applyEdits(s.full, ts, []rzEdit{e}))
		}
	}
	if w.thorough && len(s.full) <= 4096 {
		small := []int{1, 8, 64}
		for i := range ts {
			ei := editsFor(s.full, ts, i, small)
			for j := i + 1; j < len(ts); j++ {
				a, b := ts[i], ts[j]
				if a.start < b.end() && b.start < a.end() {
					continue // nested or overlapping
				}
				ej := editsFor(s.full, ts, j, small)
				for _, x := range ei {
					if x.desc == "lengthen-zeros" {
						continue
					}
					for _, y := range ej {
						if y.desc == "lengthen-zeros" {
							continue
						}
						emit(applyEdits(s.full, ts, []rzEdit{x, y}))
					}
				}
			}
		}
	}
	return len(ts)
}
