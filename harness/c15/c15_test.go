// C15: a preimage is released only for a fully and correctly paid invoice.
//
// Sequential part (this file): exhaustive breadth-first enumeration (engine seqmc) of
// event sequences -- incoming HTLCs with every combination of amount / declared total /
// payment address / expiry of the alphabet, exact replays, CancelInvoice,
// SettleHodlInvoice, set timeout, height+1 -- per invoice kind, executed on the real
// invoices.InvoiceRegistry over the key-value store and over the SQL store in lock-step.
// Every event is judged by the reference oracle of oracle_test.go.
//
// Concurrent part (conc_test.go): all interleavings of two "links" calling into one
// registry, scheduling points at every registry-lock acquisition and every InvoiceDB call.
package c15

import (
	"context"
	"encoding/json"
	"fmt"
	"os"
	"path"
	"sort"
	"strconv"
	"strings"
	"sync"
	"syscall"
	"testing"
	"time"

	"github.com/lightningnetwork/lnd/verifmc/evid"
	"github.com/lightningnetwork/lnd/verifmc/seqmc"
)

var bg = context.Background()

// Space is one bounded exploration: an invoice kind, an alphabet and a depth.
type Space struct {
	Name  string   `json:"name"`
	Kind  string   `json:"kind"`
	Pays  []string `json:"pays"`  // payment forms of fresh HTLCs
	Amts  []int64  `json:"amts"`  // amounts
	Exps  []string `json:"exps"`  // expiries
	Ctl   []string `json:"ctl"`   // control events
	Depth int      `json:"depth"` // maximum history length
	Keys  int      `json:"keys"`  // bound on recorded HTLCs (0 = 3)
	Extra []string `json:"extra"` // further events (not crossed with amounts and expiries)
	Two   bool     `json:"two"`   // a bystander invoice exists next to the invoice under test
	// Scheme names the VALUES the circuit keys k1..k8 stand for (keySchemes in world_test.go)
	Scheme string `json:"scheme"`
}

// Alphabet lists the events, simplest first.
func (s Space) Alphabet() []string {
	var a []string
	for _, e := range s.Exps {
		for _, p := range s.Pays {
			for _, m := range s.Amts {
				a = append(a, fmt.Sprintf("h:%s:%d:%s", p, m, e))
			}
		}
	}
	a = append(a, s.Extra...)
	return append(a, s.Ctl...)
}

var (
	amts5 = []int64{valueV/2 - 1, valueV / 2, valueV/2 + 1, valueV, valueV + 1}
	amts3 = []int64{valueV/2 - 1, valueV / 2, valueV}
	ctlR  = []string{"r:1", "r:2", "r:3", "c", "t", "b"}
	ctlH  = []string{"r:1", "r:2", "r:3", "c", "s:r", "s:w", "t", "b"}
	// ctlRs: SettleHodlInvoice with the invoice's own preimage on a NON-hold kind (axis audit: the
	// control event x invoice kind crossing; update_invoice.go settleHodlInvoice `!HodlInvoice`)
	ctlRs = []string{"r:1", "r:2", "r:3", "c", "s:r", "t", "b"}
)

// spaces crosses the event-sequence spaces (baseSpaces) with the circuit-key schemes:
//
//	wide   EVERY space, at its full depth: k1 -- the key every first HTLC takes -- lies on an SCID
//	       alias (uint64 >= 2^63), k2 on a confirmed channel with the same htlc id, k3 on the alias
//	       with htlc id 2^63-1 (k4, where a space allows four HTLCs: confirmed channel, 2^63-1). So
//	       every event kind of every space (accept, complete a set, settle, cancel, set timeout,
//	       replay, restart, garbage collection, interceptor, AMP set bookkeeping) is executed on a key
//	       with the top bit set, on the key-value and the SQL store in lock-step, and next to an
//	       ordinary key in the same invoice.
//	plain  the original values (confirmed channels, htlc ids 0 / 1): a twin of every space; the
//	       twins of the large-alphabet spaces (>= 30 events) are bounded one event shorter (the
//	       thorough tier's depths are one above the quick tier's, so its twins are deeper too).
//	edge   (thorough) the boundaries of the integer ranges: 2^64-1, 2^63, 2^63-1, the last alias,
//	       htlc ids 2^32 / 2^63-1: a twin of every space, same depth rule (measured: 26 twins,
//	       56 k states, 8 min wall on the fully loaded machine).
//
// Twins run after all "wide" spaces (a deadline caps the twins first). Quick tier: the most
// expensive special space (amp-special, a fifth of the sequential cost) runs last of the wide
// spaces, so that under load the deadline does not starve the cheap configuration spaces.
func spaces(thorough bool) []Space {
	main, deep := baseSpaces(thorough)
	if !thorough {
		var first, last []Space
		for _, sp := range main {
			if sp.Name == "amp-special" {
				last = append(last, sp)
			} else {
				first = append(first, sp)
			}
		}
		main = append(first, last...)
	}
	var out []Space
	for _, sp := range main {
		sp.Scheme = "wide"
		out = append(out, sp)
	}
	twin := func(sp Space, scheme string) Space {
		sp.Name += "/" + scheme
		sp.Scheme = scheme
		if len(sp.Alphabet()) >= 30 && sp.Depth > 2 {
			sp.Depth--
		}
		return sp
	}
	for _, sp := range deep {
		sp.Scheme = "wide"
		out = append(out, sp)
	}
	if thorough {
		for _, sp := range main {
			if strings.Contains(sp.Name, "-frac") {
				continue
			}
			out = append(out, twin(sp, "edge"))
		}
	}
	for _, sp := range main {
		if strings.Contains(sp.Name, "-frac") || (!thorough && strings.HasSuffix(sp.Name, "-expiry")) {
			continue // the amount-unit spaces (both tiers) / the watcher spaces (quick tier) do not depend on key values: wide only
		}
		out = append(out, twin(sp, "plain"))
	}
	return out
}

// baseSpaces lists the event-sequence spaces (kind x alphabet x depth); deep = the spaces that
// are to run last.
func baseSpaces(thorough bool) (main, deep []Space) {
	lo := []string{"ok", "lo"}
	if !thorough {
		return append(append(fracSpaces(false), []Space{
			{Name: "regular", Kind: "regular", Pays: []string{"L", "Mr0", "Mr+", "Mr-", "Mw0"}, Amts: amts5, Exps: lo, Ctl: ctlR, Depth: 4},
			{Name: "hold", Kind: "hold", Pays: []string{"L", "Mr0", "Mr+", "Mr-", "Mw0"}, Amts: amts5, Exps: lo, Ctl: ctlH, Depth: 4},
			{Name: "zero", Kind: "zero", Pays: []string{"L", "Mr0", "Mr-", "Mw0"}, Amts: amts5, Exps: lo, Ctl: ctlR, Depth: 4},
			{Name: "blinded", Kind: "blinded", Pays: []string{"L", "Pr0", "Pr+", "Pr-", "Pw0", "Mr0"}, Amts: amts3, Exps: lo, Ctl: ctlR, Depth: 4},
			{Name: "keysend", Kind: "keysend", Pays: []string{"Kr", "Kw", "Km", "L", "Mr0"}, Amts: amts5, Exps: lo, Ctl: ctlR, Depth: 4},
			{Name: "amp", Kind: "amp", Pays: []string{"A10r0g", "A11r0g", "A11r0b", "A11r+g", "A11w0g", "A2sr0g", "Mr0", "L"}, Amts: amts3, Exps: lo, Ctl: ctlR, Depth: 3},
			{Name: "amp-core", Kind: "amp", Pays: []string{"A10r0g", "A11r0g", "A11r0b", "A2sr0g"}, Amts: []int64{valueV / 2, valueV}, Exps: []string{"ok"}, Ctl: ctlR, Depth: 4},
		}...), append(specialSpaces(4, false), configSpaces(false)...)...), nil
	}
	exps := []string{"ok", "lo", "hi"}
	ctlR4 := []string{"r:1", "r:2", "r:3", "r:4", "c", "t", "b"}
	ctlH4 := []string{"r:1", "r:2", "r:3", "r:4", "c", "s:r", "s:w", "t", "b"}
	// ordered so that the largest spaces run last (a deadline then caps only them)
	return append(append(append(specialSpaces(5, true), configSpaces(true)...), fracSpaces(true)...), []Space{
		{Name: "ampjit", Kind: "ampjit", Pays: []string{"A10r0g", "A11r0g", "A11r0b", "A11r+g", "A2sr0g", "A2sr-g"}, Amts: amts3, Exps: exps, Ctl: ctlR, Depth: 3},
		{Name: "keysend", Kind: "keysend", Pays: []string{"Kr", "Kw", "Km", "L", "Mr0"}, Amts: amts5, Exps: exps, Ctl: ctlR, Depth: 5},
		{Name: "zero", Kind: "zero", Pays: []string{"L", "Mr0", "Mr+", "Mr-", "Mw0"}, Amts: amts5, Exps: exps, Ctl: ctlR, Depth: 4},
		{Name: "hold", Kind: "hold", Pays: []string{"L", "Mr0", "Mr+", "Mr-", "Mw0"}, Amts: amts5, Exps: exps, Ctl: ctlH, Depth: 4},
		{Name: "regular", Kind: "regular", Pays: []string{"L", "Mr0", "Mr+", "Mr-", "Mw0", "Mw+"}, Amts: amts5, Exps: exps, Ctl: ctlR, Depth: 4},
		{Name: "blinded", Kind: "blinded", Pays: []string{"L", "Pr0", "Pr+", "Pr-", "Pw0", "Mr0", "Mw0"}, Amts: amts5, Exps: exps, Ctl: ctlR, Depth: 4},
		{Name: "amp", Kind: "amp", Pays: []string{"A10r0g", "A11r0g", "A11r0b", "A10r+g", "A11r+g", "A11w0g", "A2sr0g", "A2sr-g", "Mr0", "L"}, Amts: amts3, Exps: lo, Ctl: ctlR, Depth: 4},
	}...), []Space{
		// deeper, four recorded HTLCs, on the alphabet restricted to halves and wholes
		{Name: "zero-deep", Kind: "zero", Pays: []string{"L", "Mr0", "Mr-"}, Amts: amts3, Exps: []string{"ok"}, Ctl: ctlR4, Depth: 6, Keys: 4},
		{Name: "regular-deep", Kind: "regular", Pays: []string{"L", "Mr0", "Mr+"}, Amts: amts3, Exps: []string{"ok"}, Ctl: ctlR4, Depth: 6, Keys: 4},
		{Name: "hold-deep", Kind: "hold", Pays: []string{"L", "Mr0", "Mr+"}, Amts: amts3, Exps: []string{"ok"}, Ctl: ctlH4, Depth: 6, Keys: 4},
		{Name: "amp-deep", Kind: "amp", Pays: []string{"A10r0g", "A11r0g", "A11r0b", "A2sr0g"}, Amts: []int64{valueV / 2, valueV}, Exps: []string{"ok"}, Ctl: ctlR4, Depth: 6, Keys: 4},
	}
}

// fracSpaces: the UNIT of the amounts. lnd's invoice values, declared totals and HTLC amounts are
// milli-satoshis; every other space uses an invoice value that is a whole number of satoshis, for
// which "total >= value" and "sum >= total" evaluated in truncated units (ToSatoshis, /1000, a
// rounded conversion) give the same answers as the exact comparison. Here the invoice value has a
// non-zero msat remainder, v = 2000 + r (r in {1, 500, 999}; kinds "<base>-f<r>"), and the declared
// totals AND the delivered sums range over
//
//	m = v-1000 (one satoshi below)   f = floor_sat(v) = 2000   - = v-1   0 = v   + = v+1
//
// for the MPP, blinded-path (path id + total), AMP and legacy forms, as a single HTLC (amount = each
// of the five values) and as a set of two (1000 + each value less 1000); just-in-time keysend / held
// keysend payments take the amounts 2000+r themselves (the invoice is created with the HTLC's
// amount). Every amount x every total is an event (full cross product); oracle unchanged: a set is
// settled only if its members declare one common total >= the invoice value (in msat) and sum to at
// least that total.
//
// quick: r = 500 on every kind with totals {f, -, 0} (the truncated value, one msat below, exact),
// r = 1 and r = 999 on the regular kind (the two ends of the remainder range: a rounding conversion
// treats them differently), depth 3 (AMP 2); thorough: all r x all five totals, one event deeper (AMP:
// depth 2 on the full alphabet of 109 / 139 events; depth 3 measured at 15 k states, 2.5 min per r).
func fracSpaces(thorough bool) []Space {
	tots, d := "f-0", 0
	if thorough {
		tots, d = "mf-0+", 1
	}
	ok := []string{"ok"}
	var out []Space
	for _, r := range fracRems {
		v := fracBase + r
		// the amount alphabet: each total as one HTLC, and as 1000 + the rest
		var amts []int64
		seen := map[int64]bool{}
		add := func(a int64) {
			if !seen[a] {
				seen[a] = true
				amts = append(amts, a)
			}
		}
		add(1000)
		for _, t := range tots {
			tv := int64(htlcSpec{Tot: byte(t), V: uint64(v)}.totalOf())
			add(tv - 1000)
			add(tv)
		}
		sort.Slice(amts, func(i, j int) bool { return amts[i] < amts[j] })
		form := func(pre, post string) []string {
			var f []string
			for _, t := range tots {
				f = append(f, pre+string(t)+post)
			}
			return f
		}
		name := func(base string) string { return fmt.Sprintf("%s-frac%d", base, r) }
		reg := Space{Name: name("regular"), Kind: fracKind("regular", r), Pays: append([]string{"L"}, form("Mr", "")...), Amts: amts, Exps: ok,
			Ctl: []string{"r:1", "r:2", "c", "t"}, Depth: 3 + d}
		if !thorough && r != 500 {
			out = append(out, reg)
			continue
		}
		out = append(out, reg,
			Space{Name: name("hold"), Kind: fracKind("hold", r), Pays: append([]string{"L"}, form("Mr", "")...), Amts: amts, Exps: ok,
				Ctl: []string{"r:1", "c", "s:r", "t"}, Depth: 3 + d},
			Space{Name: name("blinded"), Kind: fracKind("blinded", r), Pays: append([]string{"L"}, form("Pr", "")...), Amts: amts, Exps: ok,
				Ctl: []string{"r:1", "r:2", "c", "t"}, Depth: 3 + d},
			Space{Name: name("amp"), Kind: fracKind("amp", r), Pays: append(append(form("A2sr", "g"), form("A10r", "g")...), form("A11r", "g")...), Amts: amts, Exps: ok,
				Ctl: []string{"r:1", "r:2", "c", "t"}, Depth: 2},
		)
	}
	// spontaneous payments: the just-in-time invoice takes the HTLC's amount as its value
	ks := []int64{fracBase}
	for _, r := range fracRems {
		ks = append(ks, fracBase+r)
	}
	out = append(out, Space{Name: "keysend-frac", Kind: "keysend", Pays: []string{"Kr", "Km", "L"}, Amts: ks, Exps: ok,
		Ctl: []string{"r:1", "r:2", "c", "t"}, Depth: 3 + d})
	if thorough {
		out = append(out, Space{Name: "kshold-frac", Kind: "kshold", Pays: []string{"Kr"}, Amts: ks, Exps: ok,
				Ctl: []string{"r:1", "r:2", "c", "s:r", "t"}, Depth: 4})
	}
	return out
}

// specialSpaces: one space per kind whose value alphabets consist of the structural
// special values that the invoices package itself singles out (grep `Blank`, `== 0`,
// `!= 0`, zero-array comparisons), crossed with the ordinary values needed to build a set
// around them:
//
//	payment address / blinded path id   all-zero = BlankPayAddr  (invoices.go, sql_store.go lookups, channeldb index)
//	declared total                      0                        (update.go `totalAmt == 0`, sql_store.go `MppTotalAmt != 0`)
//	AMP set id                          all-zero                 (update.go `*setID == BlankPayAddr`, HtlcSetBlankModifier)
//	payment hash                        all-zero                 (invoice lookups by hash + address)
//	preimage (keysend record, hold settle)  all-zero
//	amount                              0                        (AmtPaid / AmountPaid `!= 0` checks, zero-value invoices)
//	                                    2^62, 2^63               (sql_store.go int64(...) conversions of amounts, totals and AmtPaid)
//	expiry                              0                        (expiry watcher `minHeight == 0`)
//	                                    2^31, 2^32-1             (sql_store.go int32(...) conversion, uint32(height+delta) comparisons of update.go)
//	AMP child index                     0 is used by every set; two HTLCs with the same set id and child index occur
//	keysend record                      on an HTLC that pays an invoice created up front (update.go isValidKeySend)
//	AMP record                          on an HTLC that carries the address of a non-AMP invoice (invoice ref by address only)
//	a second invoice                    the stores resolve (hash, address) references against two indexes (channeldb
//	                                    fetchInvoiceNumByRef / sql_store.go getInvoiceByRef: ErrInvRefEquivocation)
func specialSpaces(depth int, thorough bool) []Space {
	am := []int64{0, valueV / 2, valueV}
	ex := []string{"ok", "z"}
	ctlHz := []string{"r:1", "r:2", "r:3", "c", "s:r", "s:z", "t", "b"}
	// HTLCs that refer to the bystander invoice of a "two" world: this invoice's hash with the
	// bystander's address, the bystander's hash with this invoice's / a wrong / the blank
	// address, a legacy HTLC on the bystander's hash
	foreign := []string{"h:Mo0:1000:ok", "h:Yr0:1000:ok", "h:Yw0:1000:ok", "h:Yz0:1000:ok", "h:y:1000:ok"}
	sp := []Space{
		{Name: "regular-special", Kind: "regular", Pays: []string{"L", "Mr0", "Mz0", "Mrz", "Mzz", "Zr0", "Zz0"}, Amts: am, Exps: ex, Ctl: ctlRs, Depth: depth, Two: true,
			Extra: append(append([]string{}, foreign...), "h:kw:1000:ok", "h:kz:1000:ok", "h:A2sr0g:1000:ok", "h:A2so0g:1000:ok",
				"h:Mr0:1000:x", "h:Mr0:1000:X", "h:MrH:H:ok", "h:MrG:H:ok", "h:L:I:ok", "h:a2s:1000:ok")},
		{Name: "hold-special", Kind: "hold", Pays: []string{"L", "Mr0", "Mz0", "Mrz", "Zr0"}, Amts: am, Exps: ex, Ctl: ctlHz, Depth: depth, Two: true,
			Extra: append(append([]string{}, foreign...), "h:kw:1000:ok", "h:A2sr0g:1000:ok", "h:MrG:H:x")},
		{Name: "zero-special", Kind: "zero", Pays: []string{"L", "Mr0", "Mz0", "Mrz", "Mzz", "Zr0"}, Amts: am, Exps: ex, Ctl: ctlRs, Depth: depth, Two: true,
			Extra: append(append([]string{}, foreign...), "h:kw:1000:ok")},
		{Name: "blinded-special", Kind: "blinded", Pays: []string{"L", "Pr0", "Pz0", "Prz", "Pzz", "Mz0", "Zr0"}, Amts: am, Exps: ex, Ctl: ctlRs, Depth: depth, Two: true,
			Extra: append(append([]string{}, foreign...), "h:Po0:1000:ok", "h:a2s:1000:ok")},
		{Name: "keysend-special", Kind: "keysend", Pays: []string{"Kr", "Kz", "Km", "L", "Mz0", "Mr0", "Zz0"}, Amts: am, Exps: ex, Ctl: ctlRs, Depth: depth},
		{Name: "amp-special", Kind: "amp", Pays: []string{"A2sr0g", "A3sr0g", "A2sz0g", "A2srzg", "A10r0g", "A11r0g", "A11z0g", "A30r0g", "Mz0"}, Amts: am, Exps: []string{"ok"}, Ctl: ctlR, Depth: depth, Two: true,
			Extra: append(append([]string{}, foreign...), "h:A2so0g:1000:ok", "h:a2s:1000:ok")},
	}
	if thorough {
		sp = append(sp, Space{Name: "ampjit-special", Kind: "ampjit", Pays: []string{"A2sr0g", "A3sr0g", "A2sz0g", "A2srzg", "A10r0g", "A11r0g"}, Amts: am, Exps: []string{"ok"}, Ctl: ctlR, Depth: 3,
			Extra: []string{"h:a2s:1000:ok"}})
	}
	return sp
}

// configSpaces: the dimensions of the registry and of its environment that the other spaces
// hold fixed, each crossed with the states in which it matters (small alphabets, so that the
// depth can cover "accept / cancel / restart / replay / complete the set"):
//
//	RegistryConfig.KeysendHoldTime != 0    kinds kshold*: a spontaneous keysend payment creates a HOLD invoice (preimage
//	                                       known, settled by SettleHodlInvoice, cancelable)
//	GcCanceledInvoicesOnTheFly / OnStartup kinds *-gcf / *-gcs: a canceled invoice is deleted; a settled or open one never is
//	restart "R"                            the registry is stopped and a new one started on the same store: subscriptions and
//	                                       auto-release timers are gone until the links replay; HTLCs found accepted in the
//	                                       store may be older than the hold time
//	AcceptKeySend / AcceptAMP = true       kind regular-jit: spontaneous-payment processing runs in front of a payment to an
//	                                       invoice created up front (keysend record / AMP record on such an HTLC)
//	HtlcInterceptor                        answers CancelSet ("hx:") or AmountPaid ("ha:") for single HTLCs
//	a second invoice in the store          Two: HTLCs that mix the hash of one invoice with the payment address of the other
//	hold x zero-amount                     kind holdzero (thorough)
func configSpaces(thorough bool) []Space {
	d := 0
	if thorough {
		d = 1
	}
	ok := []string{"ok"}
	half := []int64{valueV / 2, valueV}
	sp := []Space{
		{Name: "kshold", Kind: "kshold", Pays: []string{"Kr", "Kw", "L"}, Amts: half, Exps: []string{"ok", "lo"},
			Ctl: []string{"r:1", "r:2", "c", "s:r", "s:w", "t", "b", "R"}, Depth: 4 + d},
		{Name: "kshold-gcf", Kind: "kshold-gcf", Pays: []string{"Kr"}, Amts: []int64{valueV}, Exps: ok,
			Ctl: []string{"r:1", "r:2", "c", "s:r", "R"}, Depth: 4 + d},
		{Name: "regular-restart", Kind: "regular-gcs", Pays: []string{"Mr0"}, Amts: half, Exps: ok,
			Ctl: []string{"r:1", "r:2", "r:3", "c", "t", "R"}, Depth: 5 + d, Two: true},
		{Name: "hold-restart", Kind: "hold-gc", Pays: []string{"Mr0", "L"}, Amts: half, Exps: ok,
			Ctl: []string{"r:1", "r:2", "c", "s:r", "t", "R"}, Depth: 5 + d, Two: true},
		{Name: "amp-restart", Kind: "amp", Pays: []string{"A10r0g", "A11r0g"}, Amts: []int64{valueV / 2}, Exps: ok,
			Extra: []string{"h:A2sr0g:1000:ok"}, Ctl: []string{"r:1", "r:2", "c", "t", "R"}, Depth: 5 + d, Two: true},
		{Name: "regular-jit", Kind: "regular-jit", Pays: []string{"L", "Mr0"}, Amts: half, Exps: ok,
			Extra: []string{"h:kw:1000:ok", "h:kz:1000:ok", "h:A2sr0g:1000:ok", "h:A2so0g:1000:ok", "h:Mo0:1000:ok", "h:a2s:1000:ok"},
			Ctl: []string{"r:1", "r:2", "c", "t"}, Depth: 3 + d, Two: true},
		{Name: "ampjit-restart", Kind: "ampjit", Pays: []string{"A10r0g", "A11r0g"}, Amts: []int64{valueV / 2}, Exps: ok,
			Extra: []string{"h:A2sr0g:1000:ok"}, Ctl: []string{"r:1", "r:2", "c", "t", "b", "R"}, Depth: 4 + d},
		{Name: "regular-icpt", Kind: "regular", Pays: []string{"Mr0"}, Amts: half, Exps: ok,
			Extra: []string{"hx:Mr0:500:ok", "ha:Mr0:500:ok", "ha:Mr+:500:ok", "hx:L:1000:ok"},
			Ctl: []string{"r:1", "r:2", "c", "t"}, Depth: 4 + d},
	}
	sp = append(sp, expirySpaces(thorough)...)
	if thorough {
		sp = append(sp,
			Space{Name: "hold-zero", Kind: "holdzero", Pays: []string{"L", "Mr-", "Mr0"}, Amts: []int64{valueV/2 - 1, valueV / 2}, Exps: []string{"ok", "lo"},
				Ctl: []string{"r:1", "r:2", "c", "s:r", "t"}, Depth: 5},
			Space{Name: "amp-gc", Kind: "amp-gcf", Pays: []string{"A10r0g", "A11r0g"}, Amts: []int64{valueV / 2}, Exps: ok,
				Extra: []string{"h:A2sr0g:1000:ok"}, Ctl: []string{"r:1", "r:2", "c", "t", "R"}, Depth: 5, Two: true},
			Space{Name: "hold-icpt", Kind: "hold", Pays: []string{"Mr0"}, Amts: half, Exps: ok,
				Extra: []string{"hx:Mr0:500:ok", "ha:Mr0:500:ok", "hx:L:1000:ok"},
				Ctl: []string{"r:1", "r:2", "c", "s:r", "t"}, Depth: 5},
			Space{Name: "amp-icpt", Kind: "amp", Pays: []string{"A10r0g", "A11r0g"}, Amts: []int64{valueV / 2}, Exps: ok,
				Extra: []string{"hx:A11r0g:500:ok", "hx:A2sr0g:1000:ok", "ha:A2sr0g:500:ok"},
				Ctl: []string{"r:1", "r:2", "c", "t"}, Depth: 5},
		)
	}
	return sp
}

// expirySpaces (axis audit): the invoice expiry watcher as a live second actor. It cancels
// through the registry's cancelInvoiceImpl(hash, force) -- the only caller with force = false:
//
//	"X"  the watcher's clock passes the time expiry of the invoice under test (once per history):
//	     an Open invoice is canceled together with a partial set it holds; an Accepted one is left
//	     alone (the update callback answers nil: the "no update" path of both stores); a Settled /
//	     Canceled one refuses. A just-in-time keysend invoice (no payment request) is canceled
//	     FORCED: an accepted held keysend payment is failed, a settled one must stay settled.
//	"b"  every block is handed to the watcher as well: a hold invoice whose accepted HTLCs expire
//	     within HoldExpiryDelta (= margin - 1: one block after an exact-margin HTLC arrived, two
//	     after a margin+1 one) is canceled forced and its HTLCs are failed; SettleHodlInvoice and
//	     replays come afterwards.
//	"R"  the restarted registry re-populates a new watcher from FetchPendingInvoices.
//
// Oracle unchanged (settlement conjunction, monotone, amtpaid, replay, both, KV == SQL); the
// on-the-fly garbage collection is accepted after a watcher cancel like after CancelInvoice.
func expirySpaces(thorough bool) []Space {
	d := 0
	exps := []string{"ok"}
	if thorough {
		d = 1
		exps = []string{"ok", "hi"}
	}
	half := []int64{valueV / 2, valueV}
	sp := []Space{
		{Name: "hold-expiry", Kind: "hold-x", Pays: []string{"Mr0"}, Amts: half, Exps: exps,
			Ctl: []string{"r:1", "r:2", "c", "s:r", "t", "b", "X", "R"}, Depth: 4 + d, Two: true},
		{Name: "hold-gc-expiry", Kind: "hold-gc-x", Pays: []string{"Mr0"}, Amts: half, Exps: []string{"ok"},
			Ctl: []string{"r:1", "s:r", "b", "X", "R"}, Depth: 4 + d, Two: true},
		{Name: "regular-expiry", Kind: "regular-x", Pays: []string{"Mr0"}, Amts: half, Exps: []string{"ok"},
			Ctl: []string{"r:1", "r:2", "c", "t", "X", "R"}, Depth: 4 + d, Two: true},
		{Name: "kshold-expiry", Kind: "kshold-x", Pays: []string{"Kr"}, Amts: []int64{valueV}, Exps: []string{"ok"},
			Ctl: []string{"r:1", "r:2", "c", "s:r", "b", "X", "R"}, Depth: 4 + d},
		{Name: "keysend-expiry", Kind: "keysend-x", Pays: []string{"Kr"}, Amts: []int64{valueV}, Exps: []string{"ok"},
			Ctl: []string{"r:1", "b", "X", "R"}, Depth: 4},
	}
	if thorough {
		sp = append(sp, Space{Name: "amp-expiry", Kind: "amp-x", Pays: []string{"A10r0g", "A11r0g"}, Amts: []int64{valueV / 2}, Exps: []string{"ok"},
			Extra: []string{"h:A2sr0g:1000:ok"}, Ctl: []string{"r:1", "r:2", "t", "X", "R"}, Depth: 5, Two: true})
	}
	return sp
}

// replayDoc is the replay artefact of a violation.
type replayDoc struct {
	Kind    string   `json:"kind"`
	Keys    int      `json:"keys,omitempty"`
	Two     bool     `json:"two,omitempty"`
	Scheme  string   `json:"scheme,omitempty"` // circuit-key scheme ("" = plain)
	Stores  []string `json:"stores,omitempty"`
	History []string `json:"history,omitempty"`
	// Conc, if set, is an interleaving case (conc_test.go).
	Conc *concDoc `json:"conc,omitempty"`
}

// gate is the determinism gate in front of run.Violation: a violation is reported only if
// its recorded history reproduces the same signature on 3 fresh worlds.
type gate struct {
	mu     sync.Mutex
	seen   map[string]bool
	nondet []string
	all    bool
}

var theGate = &gate{seen: map[string]bool{}, all: os.Getenv("C15_SIGS") != ""}

func (g *gate) report(run *evid.Run, sig, what string, doc replayDoc, full []string) {
	g.mu.Lock()
	if g.seen[sig] {
		g.mu.Unlock()
		return
	}
	g.seen[sig] = true
	g.mu.Unlock()
	if g.all {
		fmt.Printf("INFO SIG %s :: %v\n", sig, doc.History)
	}
	if strings.HasPrefix(sig, "panic:") {
		run.Violation(sig, what, doc)
		return
	}
	reproduces := func(d replayDoc) bool {
		got := map[string]bool{}
		replayWith(d, func(s, _ string, _, _ []string) { got[s] = true }, nil)
		return got[sig]
	}
	if doc.Conc == nil && len(full) > len(doc.History) && !reproduces(doc) {
		// the shortest history does not reproduce it: fall back to the operations
		// actually executed on the instance
		doc.History = full
		what += "  [full history: " + strings.Join(full, " ") + "]"
	}
	for i := 0; i < 3; i++ {
		if !reproduces(doc) {
			g.mu.Lock()
			g.nondet = append(g.nondet, fmt.Sprintf("%s did not reproduce on replay %d of %v", sig, i+1, doc.History))
			g.mu.Unlock()
			fmt.Printf("INFO nondeterminism: %s did not reproduce on replay %d\n", sig, i+1)
			return
		}
	}
	run.Violation(sig, what, doc)
}

// replayWith executes a recorded case on fresh databases.
func replayWith(doc replayDoc, rep reporter, logf func(string, ...any)) int {
	if doc.Conc != nil {
		return replayConcDoc(doc, rep, logf)
	}
	w, err := newWorld(worldOpts{kind: doc.Kind, scheme: doc.Scheme, keys: doc.Keys, two: doc.Two, stores: doc.Stores, rep: rep, logf: logf})
	if err != nil {
		fmt.Printf("INFO cannot build world: %v\n", err)
		return 0
	}
	defer w.Close()
	if logf != nil {
		logf("invoice kind %s: %s", doc.Kind, w.last[0].canon())
		logf("circuit-key scheme %s: %s", w.scheme.Name, w.scheme.Doc)
	}
	for i, a := range doc.History {
		if logf != nil {
			logf("step %d", i+1)
		}
		if err := w.Do(a); err != nil {
			fmt.Printf("INFO bad step %q: %v\n", a, err)
			return i
		}
	}
	if logf != nil {
		logf("final key: %s", w.Key())
	}
	return len(doc.History)
}

type sampleSet struct {
	mu sync.Mutex
	m  map[string][][]string
}

func (s *sampleSet) add(space string, h []string, max int) {
	s.mu.Lock()
	defer s.mu.Unlock()
	if s.m == nil {
		s.m = map[string][][]string{}
	}
	if len(s.m[space]) < max && len(h) >= 2 {
		s.m[space] = append(s.m[space], append([]string{}, h...))
	}
}

type spaceResult struct {
	res    seqmc.Result
	wall   float64
	ntri   int64
	settle int64
}

func runSpace(run *evid.Run, sp Space, st *Stats, deadline time.Time, workers int, samples *sampleSet) spaceResult {
	t0 := time.Now()
	var (
		mu     sync.Mutex
		ntri   int64
		settle int64
	)
	res := seqmc.Run(seqmc.Options{
		New: func(worker int) (seqmc.Sys, error) {
			var w *World
			rep := func(sig, what string, hist, full []string) {
				theGate.report(run, sig, what, replayDoc{Kind: sp.Kind, Keys: sp.Keys, Two: sp.Two, Scheme: sp.Scheme, History: hist}, full)
			}
			var err error
			w, err = newWorld(worldOpts{kind: sp.Kind, scheme: sp.Scheme, keys: sp.Keys, two: sp.Two, rep: rep, st: st})
			if err != nil {
				return nil, err
			}
			// a fresh instance is in the initial state: the history that is re-established
			// on it is the empty one until seqmc calls Replay
			w.baseSet = true
			return w, nil
		},
		Alphabet:   sp.Alphabet(),
		MaxDepth:   sp.Depth,
		Workers:    workers,
		Deadline:   deadline,
		Stop:       func() bool { return !theGate.all && run.Violations() >= 8 },
		Expandable: func(key string) bool { return !strings.HasPrefix(key, "DEAD:") },
		OnState: func(s seqmc.Sys, hist []string) {
			w := s.(*World)
			if w.dead != "" {
				return
			}
			samples.add(sp.Name, hist, 2)
			o := w.last[0]
			if len(o.Htlcs) == 0 {
				return
			}
			mu.Lock()
			ntri++
			for _, h := range o.Htlcs {
				if h.State == "set" {
					settle++
					break
				}
			}
			mu.Unlock()
		},
	}, func(hist []string, v any) {
		theGate.report(run, "panic:"+sp.Kind+":"+firstLine(fmt.Sprint(v)), fmt.Sprintf("panic while executing %v: %v", hist, v),
			replayDoc{Kind: sp.Kind, Keys: sp.Keys, Two: sp.Two, Scheme: sp.Scheme, History: hist}, nil)
	})
	return spaceResult{res: res, wall: time.Since(t0).Seconds(), ntri: ntri, settle: settle}
}

func cpuSeconds() float64 {
	var ru syscall.Rusage
	if err := syscall.Getrusage(syscall.RUSAGE_SELF, &ru); err != nil {
		return 0
	}
	return float64(ru.Utime.Sec+ru.Stime.Sec) + float64(ru.Utime.Usec+ru.Stime.Usec)/1e6
}

func envInt(name string, def int) int {
	if s := os.Getenv(name); s != "" {
		if n, err := strconv.Atoi(s); err == nil {
			return n
		}
	}
	return def
}

func capNote(r seqmc.Result) string {
	if r.Exhaustive {
		return ""
	}
	return " (NOT exhaustive: " + r.CapHit + ")"
}

func TestC15(t *testing.T) {
	run := evid.Start("C15", "model_checking")
	if rp := os.Getenv("VERIF_REPLAY"); rp != "" {
		os.Exit(replayFile(run, rp))
	}
	budget := 150 * time.Second
	if run.Thorough() {
		budget = 22 * time.Minute
	}
	if n := envInt("VERIF_BUDGET_S", 0); n > 0 {
		budget = time.Duration(n) * time.Second
	}
	deadline := time.Now().Add(budget)
	workers := envInt("C15_WORKERS", 0)
	st := newStats()
	samples := &sampleSet{}

	sps := spaces(run.Thorough())
	if d := envInt("C15_DEPTH", 0); d > 0 {
		for i := range sps {
			sps[i].Depth = d
		}
	}
	if os.Getenv("C15_ONLYCONC") != "" {
		sps = nil
	}
	if only := os.Getenv("C15_SPACE"); only != "" {
		var f []Space
		for _, s := range sps {
			// an exact name, or a pattern ("*/edge", "amp*")
			if ok, _ := path.Match(only, s.Name); ok || s.Name == only {
				f = append(f, s)
			}
		}
		sps = f
	}

	var (
		agg      seqmc.Result
		perSpace []map[string]any
		caps     = []string{}
		ntri     int64
		nsettle  int64
	)
	for _, sp := range sps {
		if time.Now().After(deadline) {
			caps = append(caps, "deadline before space "+sp.Name)
			continue
		}
		cpu0 := cpuSeconds()
		r := runSpace(run, sp, st, deadline, workers, samples)
		cpu := cpuSeconds() - cpu0
		agg.States += r.res.States
		agg.Transitions += r.res.Transitions
		agg.SelfLoops += r.res.SelfLoops
		agg.Replays += r.res.Replays
		agg.ReplaySteps += r.res.ReplaySteps
		agg.ReplayMismatches += r.res.ReplayMismatches
		ntri += r.ntri
		nsettle += r.settle
		if !r.res.Exhaustive {
			caps = append(caps, r.res.CapHit+" in space "+sp.Name)
		}
		perSpace = append(perSpace, map[string]any{
			"space": sp.Name, "kind": sp.Kind, "key_scheme": sp.Scheme, "alphabet_size": len(sp.Alphabet()), "depth_bound": sp.Depth,
			"states": r.res.States, "states_per_depth": r.res.PerDepth, "transitions": r.res.Transitions,
			"self_loops": r.res.SelfLoops, "fresh_instances": r.res.Replays, "unexpanded_states": r.res.Unexpanded,
			"states_with_htlcs": r.ntri, "states_with_settled_htlc": r.settle, "exhaustive": r.res.Exhaustive,
			"wall_s": r.wall, "cpu_s": cpu,
		})
		fmt.Printf("INFO space %-21s |A|=%d depth<=%d: %d states %v, %d transitions, %.1fs wall, %.1fs cpu%s\n", sp.Name, len(sp.Alphabet()), sp.Depth,
			r.res.States, r.res.PerDepth, r.res.Transitions, r.wall, cpu, capNote(r.res))
	}

	// determinism re-check: one completed space again at reduced depth, twice; identical
	// state and transition counts are required.
	recheck := map[string]any{"done": false}
	if run.Violations() == 0 && len(sps) > 0 && len(caps) == 0 {
		small := sps[0]
		if small.Depth > 2 {
			small.Depth = 2
		}
		st2 := newStats()
		a := runSpace(run, small, st2, time.Time{}, workers, &sampleSet{})
		b := runSpace(run, small, st2, time.Time{}, workers, &sampleSet{})
		same := a.res.States == b.res.States && a.res.Transitions == b.res.Transitions && a.res.SelfLoops == b.res.SelfLoops
		recheck = map[string]any{"done": true, "space": small.Name, "depth": small.Depth,
			"first":     map[string]any{"states": a.res.States, "transitions": a.res.Transitions, "self_loops": a.res.SelfLoops},
			"second":    map[string]any{"states": b.res.States, "transitions": b.res.Transitions, "self_loops": b.res.SelfLoops},
			"identical": same}
		agg.Replays += a.res.Replays + b.res.Replays
		if !same {
			caps = append(caps, "nondeterminism_detected in recheck of "+small.Name)
		}
	}
	if agg.ReplayMismatches > 0 {
		caps = append(caps, "nondeterminism_detected (replayed history reached another key)")
	}
	theGate.mu.Lock()
	for _, n := range theGate.nondet {
		caps = append(caps, "nondeterminism_detected: "+n)
	}
	theGate.mu.Unlock()

	// the interleaving part
	concBudget := 60 * time.Second
	if run.Thorough() {
		concBudget = 9 * time.Minute
	}
	if n := envInt("C15_CONC_BUDGET_S", 0); n > 0 {
		concBudget = time.Duration(n) * time.Second
	}
	cc := runConc(run, time.Now().Add(concBudget), st)
	caps = append(caps, cc.Caps...)

	st.mu.Lock()
	outcomes := map[string]int64{}
	classes := map[string]int64{}
	stalled := int64(0)
	for k, v := range st.Outcomes {
		outcomes[k] = v
		f := strings.Split(k, "|")
		classes[f[0]+"|"+f[1]+"|"+f[2]] += v
	}
	clauses := map[string]int64{}
	for k, v := range st.Clauses {
		clauses[k] = v
	}
	info := map[string]int64{}
	for k, v := range st.Info {
		info[k] = v
		if strings.HasPrefix(k, "stalled") {
			stalled += v
		}
	}
	ops := st.Ops
	st.mu.Unlock()
	if stalled > 0 {
		caps = append(caps, "timeout completion signal missing (world stalled)")
	}

	var sampleList []any
	samples.mu.Lock()
	var names []string
	for n := range samples.m {
		names = append(names, n)
	}
	sort.Strings(names)
	for _, n := range names {
		for _, h := range samples.m[n] {
			sampleList = append(sampleList, map[string]any{"space": n, "history": h})
		}
	}
	samples.mu.Unlock()
	sampleList = append(sampleList, cc.Samples...)
	if len(sampleList) == 0 {
		sampleList = append(sampleList, map[string]any{"note": "no history of length >= 2 explored"})
	}
	cov := map[string]any{
		"states":                        agg.States + cc.States,
		"transitions":                   agg.Transitions + cc.Transitions,
		"traces_validated_against_impl": agg.Replays + cc.Executions,
		"samples":                       sampleList,
		"evaluations":                   ops,
		"distinct_nontrivial":           ntri + cc.DistinctOutcomes,
		"rule": "sequential part: state = canonical LookupInvoice report (invoice state, terms, AmtPaid, per-HTLC state/amount/total/expiry/accept height/AMP data, AMP set states) " +
			"of the real registry on the key-value store, identical on the SQL store, plus what every recorded circuit key carried, the verdict history, the height and which accepted HTLCs the running registry instance holds a subscription / timer for; " +
			"transition = one event (NotifyExitHopHtlc with one point of the amount x declared total x address x expiry alphabet, exact replay, CancelInvoice, SettleHodlInvoice, set timeout, height+1, registry restart) " +
			"executed on both registries in lock-step, every event of the alphabet in every state of depth < bound (BFS, shortest histories); every transition runs all oracle clauses; " +
			"evaluations = events executed on a registry (both stores, incl. replayed prefixes and interleaved executions); " +
			"distinct_nontrivial = distinct canonical states in which the invoice records at least one HTLC, plus distinct final outcomes of the interleaving part",
		"exhaustive":               len(caps) == 0,
		"caps_hit":                 caps,
		"per_space":                perSpace,
		"self_loop_transitions":    agg.SelfLoops,
		"fresh_instances":          agg.Replays,
		"replay_steps_on_impl":     agg.ReplaySteps,
		"states_with_settled_htlc": nsettle,
		"determinism_recheck":      recheck,
		"outcome_classes":          classes,
		"distinct_outcome_classes": len(classes),
		"distinct_outcomes":        len(outcomes),
		"clauses_exercised":        clauses,
		"informational":            info,
		"interleavings":            cc.Coverage,
	}
	run.Assumptions = append(run.Assumptions,
		"universe: one invoice under test at a time of kind regular / hold / zero-amount / AMP / keysend (just-in-time) / blinded-path (thorough: also spontaneous AMP, zero-amount hold), value 1000 msat; at most 3 recorded HTLCs; "+
			"amounts {499,500,501,1000,1001}, declared totals {999,1000,1001,absent}, address {right,wrong,absent}, expiry {margin-1,margin,margin+1} above the base height, heights base..base+2; histories up to the per-space depth bound; "+
			"plus one '-special' space per kind over the structural special values the invoices package singles out: all-zero payment address / path id (BlankPayAddr), declared total 0, all-zero AMP set id, all-zero payment hash, all-zero preimage (keysend record, hold settle), amount 0, expiry 0, crossed with amounts {0,500,1000}; "+
			"in the special spaces of the invoices created up front also: expiry 2^31 and 2^32-1, amounts 2^62 / 2^63 and declared totals 2^62 / 2^63 (the int64 boundary of the SQL schema), a keysend record with a foreign / all-zero preimage on an HTLC that pays the invoice, an AMP record on an HTLC that carries the address of a non-AMP invoice, "+
			"and a SECOND (bystander) invoice in the store with HTLCs that combine the hash of one invoice with the payment address of the other (both orders), the bystander's hash with a wrong / blank / no address; "+
			"plus the '-frac' spaces over the UNIT of the amounts: invoice values with a milli-satoshi remainder v = 2000 + r (quick: r = 500 on the regular / hold / AMP / blinded kinds, r = 1 and 999 on the regular kind; thorough: every r on every kind), "+
			"declared totals and delivered sums in {floor_sat(v), v-1, v} (thorough: also v-1000, v+1) as one HTLC and as 1000 + the rest, keysend amounts 2000 + r",
		"registry configuration explored: FinalCltvRejectDelta 10 against invoice deltas 8 / 10 / 12 (either margin binding); HtlcHoldDuration 10 s; AcceptKeySend / AcceptAMP off, on for the just-in-time kinds, and on in front of an invoice created up front (regular-jit); "+
			"KeysendHoldTime 0 and 1 h (kshold kinds: the spontaneous keysend invoice is a hold invoice); GcCanceledInvoicesOnTheFly / GcCanceledInvoicesOnStartup off and on (kinds *-gcf, *-gcs, *-gc); HtlcInterceptor answering nothing, CancelSet or AmountPaid for single HTLCs (the *-icpt spaces; an HTLC whose amount the interceptor replaced counts with the replaced amount)",
		"restart event R (the *-restart spaces, kshold): the registry is stopped and a new one started on the same store with the same clocks; the links come back with a new hodl channel; subscriptions and auto-release timers exist again only for HTLCs that were replayed to the new instance (part of the state key); "+
			"the set-timeout event cancels exactly the accepted HTLCs of an open invoice for which the running instance holds a timer; a replay that is told 'held' for an HTLC whose hold time has passed waits for that HTLC's cancel resolution",
		"an invoice may disappear only through the configured garbage collections: a successful CancelInvoice under GcCanceledInvoicesOnTheFly, a registry start under GcCanceledInvoicesOnStartup while the invoice is canceled; its HTLCs keep their last recorded state for the replay clause",
		"circuit keys are interchangeable as far as the registry's decisions go: a new HTLC always takes the lowest circuit key the invoice does not record (an HTLC refused without being recorded leaves no trace in the registry, so its key is free again); the keys share components the way real ones do (equal htlc ids on different channels, several ids on one channel). "+
			"The VALUES of the key components are a dimension (key_scheme of every space and interleaving case): 'wide' -- every space at full depth -- k1 = (SCID alias 16000000:0:0, the first alias lnd's alias manager hands to a zero-conf / option_scid_alias channel, uint64 >= 2^63; htlc 0), k2 = (confirmed channel 700000:2:0, htlc 0), k3 = (the alias, htlc 2^63-1), k4 = (confirmed, 2^63-1), the concurrent links on a second alias and a second confirmed channel; "+
			"'plain' -- a twin of every space (twins of spaces with >= 30 events one event shorter) -- confirmed channels 700000:1..4:0 with htlc ids 0 / 1; 'edge' (thorough; same depth rule) -- channel ids 2^64-1, 2^63, 2^63-1 and the last alias, htlc ids 2^32 / 2^63-1. "+
			"htlc ids >= 2^63 are outside the universe: the SQL store documents them as unrepresentable (sql_store.go refuses a negative BIGINT htlc id) and a channel's htlc counter cannot reach them; the all-zero short channel id (hop.Source) is never an exit hop's incoming circuit",
		"a replay is the exact re-notification of an HTLC the invoice records; an HTLC refused without being recorded is a new HTLC when presented again",
		"the payment address is required iff the invoice's feature vector requires payment_addr (a blinded-path invoice, as generated by lnd, does not)",
		"NOT in the alphabet: an HTLC to an invoice created up front whose keysend record holds the preimage of its own payment hash. lnd exempts it deliberately from the payment-address requirement (update.go updateLegacy, isValidKeySend: 'if this is a keysend payment, then we'll permit it to pass'); the sender demonstrably knows the preimage the settlement would release (observed: history h:kr:1000:ok on kind regular settles without address; reported to the lead, not judged)",
		"the final-CLTV margin is judged at the height at which the HTLC arrived",
		"SQL store = sqlite (Postgres not available offline); invoice expiry (time- and height-based, InvoiceExpiryWatcher) is outside the universe",
		"the set-timeout event advances the clocks by one HtlcHoldDuration and waits for the registry's cancel resolutions (completion signal); the registry's clock is a clock.Clock implementation whose TickAfter is relative to its last Now reading",
		"interleaving part: scheduling points are every acquisition of a mutex of invoiceregistry.go (sync import rewritten to the scheduler shim) and every InvoiceDB call of the registry; the event loop's set-timeout transaction (the one store access made without the registry lock) is a schedulable step in the timer cases; other work of lnd's own goroutines runs freely between steps; schedules are enumerated up to the stated preemption bound",
		"states in which a violation made the two stores diverge are not expanded further (with the known key-value-store finding this prunes AMP states after a settled set id is paid again)")
	if code := run.Finish(cov); code != 0 {
		os.Exit(code)
	}
}

// replayFile re-runs one replay artefact, narrating every step.
func replayFile(run *evid.Run, path string) int {
	b, err := os.ReadFile(path)
	if err != nil {
		fmt.Printf("INFO cannot read replay: %v\n", err)
		return 2
	}
	var doc struct {
		Signature string    `json:"signature"`
		Replay    replayDoc `json:"replay"`
	}
	if err := json.Unmarshal(b, &doc); err != nil {
		fmt.Printf("INFO cannot parse replay: %v\n", err)
		return 2
	}
	fmt.Printf("INFO replaying %s (recorded signature: %s)\n", path, doc.Signature)
	logf := func(f string, a ...any) { fmt.Printf("INFO "+f+"\n", a...) }
	rep := func(sig, what string, _, _ []string) { run.Violation(sig, what, doc.Replay) }
	n := replayWith(doc.Replay, rep, logf)
	return run.Finish(map[string]any{"evaluations": n, "distinct_nontrivial": 2, "states": 1, "transitions": n + 1,
		"traces_validated_against_impl": 1, "samples": []any{path}, "rule": "replay of one recorded case", "exhaustive": false, "caps_hit": []string{"replay only"}})
}
