// C15 interleaving part: two "links" (threads) notify one registry concurrently.
//
// The registry source is compiled with its `"sync"` import rewritten to the scheduler
// shim (harness.json `rewrites`), and the InvoiceDB handed to the registry is wrapped, so
// that every acquisition of a registry mutex and every InvoiceDB call is a scheduling
// point of the cooperative scheduler vsched. For every case of a small cross product
// (invoice kind x sequential prefix x ops of thread 1 x ops of thread 2) ALL schedules up
// to a preemption bound are executed on a fresh registry (depth-first, each schedule
// replayed from scratch), on the key-value store and on the SQL store. lnd's own
// goroutines (the registry event loop) are not scheduler threads and run freely; no time
// passes in this part, so they take no decisions.
//
// Oracle: the same clauses as the sequential part, evaluated between the state before the
// concurrent phase, every intermediate state the controller can observe, and the final
// state, over all verdicts returned to the threads and delivered on the hodl channel.
// Whether every outcome equals the outcome of some serial order is recorded
// (`nonserializable_outcomes`), not judged: the property does not demand it.
package c15

import (
	"fmt"
	"os"
	"reflect"
	"runtime/debug"
	"sort"
	"strings"
	"sync"
	"sync/atomic"
	"time"

	invpkg "github.com/lightningnetwork/lnd/invoices"
	"github.com/lightningnetwork/lnd/verifmc/evid"
	"github.com/lightningnetwork/lnd/verifmc/vsched"
)

type concDoc struct {
	Prefix   []string   `json:"prefix"`
	Threads  [][]string `json:"threads"`
	Schedule []int      `json:"schedule"` // index into the enabled list at every decision point
	Bound    int        `json:"preemption_bound"`
	Free     bool       `json:"free_running,omitempty"` // race target: no schedule, real goroutines
	Timer    bool       `json:"timer,omitempty"`        // the set timeout of the prefix' HTLC fires during the phase
}

type concCase struct {
	Kind    string
	Scheme  string // circuit-key scheme
	Store   string
	Prefix  []string
	Threads [][]string
	// Timer: the auto-release timer of the (single) HTLC the prefix left accepted fires
	// during the concurrent phase; the event loop's store transaction is one more
	// schedulable step ("timer"), listed after the enabled threads at every decision point.
	Timer bool
}

func (c concCase) String() string {
	var t []string
	for _, th := range c.Threads {
		t = append(t, strings.Join(th, ","))
	}
	tm := ""
	if c.Timer {
		tm = " || set-timeout"
	}
	return fmt.Sprintf("%s/%s/%s-keys prefix=[%s] threads=[%s%s]", c.Kind, c.Store, c.Scheme, strings.Join(c.Prefix, " "), strings.Join(t, " || "), tm)
}

// concAlphabet is the per-kind alphabet of thread ops and sequential prefixes.
type concAlphabet struct {
	Kind     string
	Prefixes [][]string
	Ops      []string
}

func concAlphabets(thorough bool) []concAlphabet {
	a := []concAlphabet{
		{Kind: "regular", Prefixes: [][]string{{}, {"h:Mr0:500:ok"}},
			Ops: []string{"h:Mr0:500:ok", "h:Mr0:499:ok", "h:Mr+:501:ok", "h:Mz0:500:ok", "h:L:1000:ok", "r:1", "c"}},
		{Kind: "hold", Prefixes: [][]string{{"h:Mr0:500:ok"}, {"h:Mr0:1000:ok"}},
			Ops: []string{"h:Mr0:500:ok", "h:L:1000:ok", "s:r", "c", "r:1"}},
		{Kind: "keysend", Prefixes: [][]string{{}},
			Ops: []string{"h:Kr:1000:ok", "h:Kr:500:ok", "h:Kr:1000:lo", "h:Kw:1000:ok"}},
		{Kind: "amp", Prefixes: [][]string{{}, {"h:A10r0g:500:ok"}},
			Ops: []string{"h:A11r0g:500:ok", "h:A11r0b:500:ok", "h:A2sr0g:1000:ok", "h:A10r0g:500:ok", "c"}},
		{Kind: "ampjit", Prefixes: [][]string{{}},
			Ops: []string{"h:A10r0g:500:ok", "h:A11r0g:500:ok", "h:A2sr0g:1000:ok"}},
		// KeysendHoldTime != 0: the just-in-time insert (outside the registry lock) creates a hold
		// invoice; two links, SettleHodlInvoice and CancelInvoice race on it
		{Kind: "kshold", Prefixes: [][]string{{}, {"h:Kr:1000:ok"}},
			Ops: []string{"h:Kr:1000:ok", "h:Kr:500:ok", "s:r", "c", "r:1"}},
	}
	if thorough {
		a = append(a,
			concAlphabet{Kind: "zero", Prefixes: [][]string{{}, {"h:Mr0:500:ok"}},
				Ops: []string{"h:Mr0:500:ok", "h:L:499:ok", "h:Mr-:499:ok", "c"}},
			concAlphabet{Kind: "blinded", Prefixes: [][]string{{}, {"h:Pr0:500:ok"}},
				Ops: []string{"h:Pr0:500:ok", "h:Pr+:501:ok", "h:Pz0:500:ok", "h:L:1000:ok", "h:Mr0:500:ok", "r:1"}},
		)
	}
	return a
}

// concCases crosses the interleaving cases with the circuit-key schemes (world_test.go): every
// case under "wide" (the prefix' HTLC k1 on an SCID alias; the links' HTLCs k5 on another alias,
// k6 on a confirmed channel), and the quick-tier cases under "plain" (thorough: and "edge").
func concCases(thorough bool) []concCase {
	if thorough {
		// the two small twin sets first: the deadline, if it strikes, caps the large set
		out := append(concCasesOf(false, "edge"), concCasesOf(false, "plain")...)
		return append(out, concCasesOf(true, "wide")...)
	}
	return append(concCasesOf(false, "wide"), concCasesOf(false, "plain")...)
}

func concCasesOf(thorough bool, scheme string) []concCase {
	var out []concCase
	for _, al := range concAlphabets(thorough) {
		for _, store := range []string{"kv", "sql"} {
			for _, pre := range al.Prefixes {
				for i, a := range al.Ops {
					for j, b := range al.Ops {
						if j < i {
							continue // the two threads are interchangeable
						}
						if strings.HasPrefix(a, "r:") && len(pre) == 0 || strings.HasPrefix(b, "r:") && len(pre) == 0 {
							continue
						}
						out = append(out, concCase{Kind: al.Kind, Scheme: scheme, Store: store, Prefix: pre, Threads: [][]string{{a}, {b}}})
					}
				}
				if leavesOnePartial(pre) {
					// the prefix' HTLC times out while one link (thorough: two links) is active
					for i, a := range al.Ops {
						out = append(out, concCase{Kind: al.Kind, Scheme: scheme, Store: store, Prefix: pre, Threads: [][]string{{a}}, Timer: true})
						for j, b := range al.Ops {
							if thorough && j >= i {
								out = append(out, concCase{Kind: al.Kind, Scheme: scheme, Store: store, Prefix: pre, Threads: [][]string{{a}, {b}}, Timer: true})
							}
						}
					}
				}
				if thorough {
					// thread 1 performs two notifications, thread 2 one
					for _, a := range al.Ops {
						for _, a2 := range al.Ops {
							for _, b := range al.Ops {
								if !strings.HasPrefix(a, "h:") || !strings.HasPrefix(a2, "h:") || !strings.HasPrefix(b, "h:") {
									continue
								}
								out = append(out, concCase{Kind: al.Kind, Scheme: scheme, Store: store, Prefix: pre, Threads: [][]string{{a, a2}, {b}}})
							}
						}
					}
				}
			}
		}
	}
	return out
}

// leavesOnePartial reports whether the prefix is a single HTLC that carries less than the
// total it declares (it is then held on the open invoice with a set timeout running).
func leavesOnePartial(pre []string) bool {
	if len(pre) != 1 {
		return false
	}
	sp, err := parseHTLC(pre[0])
	return err == nil && sp.hasTotal() && sp.Amt < sp.declaredTotal() && sp.Exp != "lo"
}

// shimInEffect reports whether the registry's mutexes are the scheduler shim.
func shimInEffect() bool {
	t := reflect.TypeOf((*invpkg.InvoiceRegistry)(nil)).Elem()
	for i := 0; i < t.NumField(); i++ {
		if strings.HasSuffix(t.Field(i).Type.PkgPath(), "verifmc/vsync") {
			return true
		}
	}
	return false
}

type concPoint struct {
	n        int  // enabled threads at this decision point
	contFree bool // true if taking another thread than choice 0 is not a preemption
}

type concExec struct {
	choices   []int
	points    []concPoint
	outcome   string
	serial    bool
	steps     int
	snapshots map[string]bool
	deadlock  string
	nViol     int
}

// threadOp is one op of a thread with its circuit key.
type threadOp struct {
	op  string
	key int
}

// runSchedule executes one case under one schedule prefix (choice 0 afterwards).
func runSchedule(c concCase, sched []int, rep reporter, st *Stats, logf func(string, ...any)) (ex concExec, err error) {
	ex.snapshots = map[string]bool{}
	ex.serial = true
	w, err := newWorld(worldOpts{kind: c.Kind, scheme: c.Scheme, stores: []string{c.Store}, rep: rep, st: st, logf: logf})
	if err != nil {
		return ex, err
	}
	defer w.Close()
	for _, op := range c.Prefix {
		if err := w.Do(op); err != nil {
			return ex, err
		}
	}
	if w.dead != "" {
		return ex, fmt.Errorf("prefix left the world dead: %s", w.dead)
	}
	s := w.sides[0]
	pre := w.last[0]
	height := w.height()

	// circuit keys of the thread ops: above the keys a prefix can take
	nextKey := maxKeys + 1
	plan := make([][]threadOp, len(c.Threads))
	for oi := 0; oi < 2; oi++ {
		for ti, ops := range c.Threads {
			if oi >= len(ops) {
				continue
			}
			to := threadOp{op: ops[oi]}
			if strings.HasPrefix(ops[oi], "h:") {
				nextKey++
				to.key = nextKey
				sp, perr := parseHTLC(ops[oi])
				if perr != nil {
					return ex, perr
				}
				w.rec[to.key] = recKey{Op: ops[oi], Spec: sp, ArrH: height}
			} else if strings.HasPrefix(ops[oi], "r:") {
				fmt.Sscanf(ops[oi], "r:%d", &to.key)
				if _, ok := w.rec[to.key]; !ok {
					return ex, fmt.Errorf("replay of unrecorded key in %v", c)
				}
			}
			plan[ti] = append(plan[ti], to)
		}
	}

	type opResult struct {
		out  stepOut
		done bool
	}
	results := make([][]opResult, len(plan))
	timerPending := false
	if c.Timer {
		nacc := 0
		for _, h := range pre.Htlcs {
			if h.State == "acc" {
				nacc++
			}
		}
		if !pre.Found || pre.State != "Open" || nacc != 1 {
			return ex, fmt.Errorf("timer case needs a prefix that leaves exactly one accepted htlc on an open invoice, got %s", pre.canon())
		}
		// The store clock jumps now, so that HTLCs accepted during the phase get a
		// release time beyond the timer step; the registry's clock jumps at the timer
		// step itself, which makes exactly the timers of the prefix' HTLC due.
		s.dbClk.SetTime(s.dbClk.Now().Add(holdDur))
		timerPending = true
	}
	sch := vsched.New()
	for ti := range plan {
		ti := ti
		results[ti] = make([]opResult, len(plan[ti]))
		sch.Spawn(fmt.Sprintf("link%d", ti+1), func() {
			for oi, to := range plan[ti] {
				vsched.Yield("op")
				var out stepOut
				switch {
				case to.key != 0:
					v := s.notify(w.rec[to.key].Spec, to.key, height)
					out.direct = &v
				case to.op == "c":
					if err := s.reg.CancelInvoice(bg, w.eventHash()); err != nil {
						out.callErr = firstLine(err.Error())
					}
				case to.op == "s:r":
					if err := s.reg.SettleHodlInvoice(bg, w.kind.rightPreimage()); err != nil {
						out.callErr = firstLine(err.Error())
					}
				}
				results[ti][oi] = opResult{out: out, done: true}
				st.op()
			}
		})
	}
	defer func() {
		if !sch.AllDone() {
			sch.Abort()
		}
	}()

	evOp := "conc{" + c.String() + "}"
	lastObs := pre
	done := make([]int, len(plan)) // ops judged per thread
	var vv []string
	// observe judges what the step that just ended did: all threads are parked in front
	// of a lock acquisition or a database call (or are done), so the store is between two
	// transactions; at most one thread op has completed in the step.
	var timerDelivered []Verdict
	observe := func(stepped int) {
		cur := s.lookup()
		ex.snapshots[cur.canon()] = true
		out := stepOut{post: cur, delivered: s.drain()}
		ev := event{op: evOp, class: "conc"}
		if stepped < 0 {
			ev = event{op: evOp + " set-timeout", class: "conc-timeout"}
			out.delivered = append(timerDelivered, out.delivered...)
			timerDelivered = nil
		} else if done[stepped] < len(plan[stepped]) {
			// the op the stepping thread is in the middle of
			to := plan[stepped][done[stepped]]
			ev = event{op: fmt.Sprintf("%s link%d:%s", evOp, stepped+1, to.op), class: "conc", key: to.key, spec: w.rec[to.key].Spec}
		}
		for ti := range plan {
			for done[ti] < len(plan[ti]) && results[ti][done[ti]].done {
				r := results[ti][done[ti]]
				to := plan[ti][done[ti]]
				ev = event{op: fmt.Sprintf("%s link%d:%s", evOp, ti+1, to.op), class: "conc", key: to.key, spec: w.rec[to.key].Spec}
				out.direct, out.callErr = r.out.direct, r.out.callErr
				if r.out.direct != nil {
					vv = append(vv, fmt.Sprintf("link%d.%d=%s", ti+1, done[ti]+1, r.out.direct.Kind))
				} else if r.out.callErr != "" {
					vv = append(vv, fmt.Sprintf("link%d.%d=err", ti+1, done[ti]+1))
				} else {
					vv = append(vv, fmt.Sprintf("link%d.%d=ok", ti+1, done[ti]+1))
				}
				if logf != nil {
					logf("link%d op %d (%s) completed: %s", ti+1, done[ti]+1, to.op, out.render())
				}
				done[ti]++
			}
		}
		if logf != nil {
			if len(out.delivered) > 0 && out.direct == nil && out.callErr == "" {
				logf("       %s", out.render())
			}
			logf("       invoice: %s", cur.canon())
		}
		w.judge(s, ev, lastObs, out)
		lastObs = cur
	}
	for !sch.AllDone() || timerPending {
		en := sch.Enabled()
		n := len(en)
		if timerPending {
			n++ // the timer step is the last choice
		}
		if n == 0 {
			ex.deadlock = sch.WaitFor()
			break
		}
		pick := 0
		if len(ex.choices) < len(sched) {
			pick = sched[len(ex.choices)]
			if pick >= n {
				return ex, fmt.Errorf("schedule diverged at point %d: choice %d of %d enabled", len(ex.choices), pick, n)
			}
		}
		isTimer := pick >= len(en)
		// is choice 0 the continuation of the thread that ran last?
		contFree := true
		if tr := sch.Trace(); len(tr) > 0 {
			last := tr[len(tr)-1].Thread
			lt := sch.Thread(last)
			midOp := !lt.Done() && lt.Pending() != "op"
			if len(en) > 0 && en[0] == last && midOp {
				contFree = false
			}
			if midOp && (isTimer || en[pick] != last) {
				ex.serial = false
			}
		}
		ex.points = append(ex.points, concPoint{n: n, contFree: contFree})
		ex.choices = append(ex.choices, pick)
		if isTimer {
			if logf != nil {
				logf("schedule point %d: enabled %v + timer, run the event loop's set-timeout transaction", len(ex.choices), en)
			}
			// Fire the timer: the event loop (idle until now) runs cancelSingleHtlc,
			// whose single store transaction reports its completion through the gate.
			// All threads are parked, so this is one atomic step at this schedule point.
			s.gate.mode.Store(2)
			s.clk.Advance(holdDur)
			var updated bool
			guard := time.NewTimer(stallGuard)
			select {
			case updated = <-s.gate.done:
			case <-guard.C:
				return ex, fmt.Errorf("the event loop did not run the set-timeout cancellation within %v", stallGuard)
			}
			guard.Stop()
			timerPending = false
			ex.steps++
			if updated {
				// the registry now notifies the subscriber: completion signal
				v, ok := s.awaitHodl()
				if !ok {
					return ex, fmt.Errorf("no resolution for the timed-out htlc within %v", stallGuard)
				}
				timerDelivered = append(timerDelivered, v)
			}
			observe(-1)
			continue
		}
		if logf != nil {
			logf("schedule point %d: enabled %v, run link%d from %q", len(ex.choices), en, en[pick]+1, sch.Thread(en[pick]).Pending())
		}
		sch.Step(en[pick])
		ex.steps++
		if t := sch.Thread(en[pick]); t.PanicValue() != nil {
			panic(fmt.Sprintf("thread %s panicked: %v", t.Name(), t.PanicValue()))
		}
		observe(en[pick])
	}
	if ex.deadlock != "" {
		ex.outcome = "deadlock: " + ex.deadlock
		return ex, nil
	}
	final := lastObs
	sort.Strings(vv)
	// interchangeable threads: canonical outcome sorts the per-thread verdicts when both run the same ops
	ex.outcome = strings.Join(vv, " ") + " | " + final.canon()
	if logf != nil {
		logf("final invoice: %s", final.canon())
	}
	ex.nViol = w.nViols
	return ex, nil
}

func preemptions(points []concPoint, choices []int) int {
	n := 0
	for i, c := range choices {
		if c != 0 && !points[i].contFree {
			n++
		}
	}
	return n
}

type concResult struct {
	Executions       int64
	States           int64
	Transitions      int64
	DistinctOutcomes int64
	Caps             []string
	Samples          []any
	Coverage         map[string]any
}

// exploreCase runs all schedules of one case within the preemption bound.
func exploreCase(run *evid.Run, c concCase, bound int, deadline time.Time, st *Stats, agg *concAgg) {
	stack := [][]int{{}}
	serialOutcomes := map[string]bool{}
	allOutcomes := map[string][]int{}
	for len(stack) > 0 {
		if time.Now().After(deadline) {
			agg.capped("deadline in interleaving case " + c.String())
			return
		}
		sched := stack[len(stack)-1]
		stack = stack[:len(stack)-1]
		var cur []int
		rep := func(sig, what string, _, _ []string) {
			theGate.report(run, "conc-"+sig, what, replayDoc{Kind: c.Kind, Scheme: c.Scheme, Stores: []string{c.Store},
				Conc: &concDoc{Prefix: c.Prefix, Threads: c.Threads, Schedule: append([]int{}, cur...), Bound: bound, Timer: c.Timer}}, nil)
		}
		var (
			ex  concExec
			err error
		)
		func() {
			defer func() {
				if v := recover(); v != nil {
					theGate.report(run, "panic:conc:"+c.Kind+":"+firstLine(fmt.Sprint(v)), fmt.Sprintf("panic in %s under schedule %v: %v\n%s", c, sched, v, debug.Stack()),
						replayDoc{Kind: c.Kind, Scheme: c.Scheme, Stores: []string{c.Store}, Conc: &concDoc{Prefix: c.Prefix, Threads: c.Threads, Schedule: sched, Bound: bound, Timer: c.Timer}}, nil)
					err = fmt.Errorf("panic")
				}
			}()
			// first pass without reporting: the full choice sequence is the replay artefact
			cur = sched
			ex, err = runSchedule(c, sched, nil, st, nil)
			if err == nil && ex.nViol > 0 {
				cur = ex.choices
				_, _ = runSchedule(c, ex.choices, rep, nil, nil)
				agg.execs++
			}
		}()
		if err != nil {
			agg.capped(fmt.Sprintf("interleaving case %s: %v", c, err))
			return
		}
		agg.execs++
		agg.steps += int64(ex.steps)
		for k := range ex.snapshots {
			agg.snap[c.Kind+"|"+k] = true
		}
		if ex.deadlock != "" {
			agg.deadlocks++
			agg.capped("deadlock in " + c.String() + ": " + ex.deadlock)
		}
		if ex.serial {
			serialOutcomes[ex.outcome] = true
		}
		if _, ok := allOutcomes[ex.outcome]; !ok {
			allOutcomes[ex.outcome] = ex.choices
		}
		for i := len(sched); i < len(ex.points); i++ {
			for alt := 1; alt < ex.points[i].n; alt++ {
				ch := append(append([]int{}, ex.choices[:i]...), alt)
				if bound >= 0 && preemptions(ex.points[:i+1], ch) > bound {
					continue
				}
				stack = append(stack, ch)
			}
		}
	}
	agg.cases++
	for o, ch := range allOutcomes {
		agg.outcomes[c.Kind+"|"+o] = true
		if !serialOutcomes[o] {
			agg.nonserial++
			if len(agg.nonserialSamples) < 3 {
				agg.nonserialSamples = append(agg.nonserialSamples, map[string]any{"case": c.String(), "schedule": ch, "outcome": o})
			}
		}
	}
	if len(agg.samples) < 3 && len(allOutcomes) > 1 {
		var os []string
		for o := range allOutcomes {
			os = append(os, o)
		}
		sort.Strings(os)
		agg.samples = append(agg.samples, map[string]any{"interleaving_case": c.String(), "distinct_outcomes": os})
	}
}

type concAgg struct {
	mu sync.Mutex
	execs, steps, cases, deadlocks, nonserial int64
	snap, outcomes                            map[string]bool
	caps                                      []string
	samples, nonserialSamples                 []any
}

func (a *concAgg) capped(why string) {
	a.mu.Lock()
	defer a.mu.Unlock()
	if len(a.caps) < 6 {
		a.caps = append(a.caps, why)
	}
}

func (a *concAgg) merge(b *concAgg) {
	a.mu.Lock()
	defer a.mu.Unlock()
	a.execs += b.execs
	a.steps += b.steps
	a.cases += b.cases
	a.deadlocks += b.deadlocks
	a.nonserial += b.nonserial
	for k := range b.snap {
		a.snap[k] = true
	}
	for k := range b.outcomes {
		a.outcomes[k] = true
	}
	for _, c := range b.caps {
		if len(a.caps) < 6 {
			a.caps = append(a.caps, c)
		}
	}
	for _, x := range b.samples {
		if len(a.samples) < 3 {
			a.samples = append(a.samples, x)
		}
	}
	for _, x := range b.nonserialSamples {
		if len(a.nonserialSamples) < 3 {
			a.nonserialSamples = append(a.nonserialSamples, x)
		}
	}
}

func runConc(run *evid.Run, deadline time.Time, st *Stats) concResult {
	agg := &concAgg{snap: map[string]bool{}, outcomes: map[string]bool{}}
	if os.Getenv("C15_NOCONC") != "" || os.Getenv("C15_SPACE") != "" {
		return concResult{Coverage: map[string]any{"skipped": true}}
	}
	if !shimInEffect() {
		return concResult{Caps: []string{"interleaving part skipped: sync shim not in effect for invoices.InvoiceRegistry"},
			Coverage: map[string]any{"skipped": true}}
	}
	bound := 2
	if run.Thorough() {
		bound = 3
	}
	bound = envInt("C15_PREEMPT", bound)
	cases := concCases(run.Thorough())
	t0 := time.Now()
	// cases are independent: a few are explored at a time (each on its own registry and
	// scheduler); the goroutine-id lookup of the scheduler shim serialises on a runtime
	// lock, so more than a handful of workers does not help
	var (
		wg   sync.WaitGroup
		next atomic.Int64
	)
	for wk := 0; wk < envInt("C15_CONC_WORKERS", 4); wk++ {
		wg.Add(1)
		go func() {
			defer wg.Done()
			for {
				i := int(next.Add(1)) - 1
				if i >= len(cases) || run.Violations() >= 8 {
					return
				}
				c := cases[i]
				if time.Now().After(deadline) {
					agg.capped("deadline before interleaving case " + c.String())
					return
				}
				local := &concAgg{snap: map[string]bool{}, outcomes: map[string]bool{}}
				b := bound
				if nops := len(c.Threads[0]) + len(c.Threads[len(c.Threads)-1]); len(c.Threads) == 2 && nops >= 3 && b > 2 {
					b = 2 // three notifications: preemption bound 2 (sized from measured cost)
				}
				exploreCase(run, c, b, deadline, st, local)
				agg.merge(local)
			}
		}()
	}
	wg.Wait()
	cov := map[string]any{
		"cases": agg.cases, "cases_total": len(cases), "executions": agg.execs, "scheduler_steps": agg.steps,
		"preemption_bound": bound, "preemption_bound_three_op_cases": 2, "distinct_intermediate_states": len(agg.snap), "distinct_outcomes": len(agg.outcomes),
		"deadlocks": agg.deadlocks, "nonserializable_outcomes": agg.nonserial, "nonserializable_samples": agg.nonserialSamples,
		"wall_s": time.Since(t0).Seconds(),
	}
	fmt.Printf("INFO interleavings: %d/%d cases, %d executions, %d scheduler steps, %d distinct outcomes, %d non-serializable, %.1fs\n",
		agg.cases, len(cases), agg.execs, agg.steps, len(agg.outcomes), agg.nonserial, time.Since(t0).Seconds())
	return concResult{Executions: agg.execs, States: int64(len(agg.snap)), Transitions: agg.steps,
		DistinctOutcomes: int64(len(agg.outcomes)), Caps: agg.caps, Samples: agg.samples, Coverage: cov}
}

// replayConcDoc re-executes one recorded interleaving.
func replayConcDoc(doc replayDoc, rep reporter, logf func(string, ...any)) int {
	store := "kv"
	if len(doc.Stores) > 0 {
		store = doc.Stores[0]
	}
	c := concCase{Kind: doc.Kind, Scheme: doc.Scheme, Store: store, Prefix: doc.Conc.Prefix, Threads: doc.Conc.Threads, Timer: doc.Conc.Timer}
	if doc.Conc.Free {
		// a free-running case has no schedule to replay: it is executed 20 times
		n := 0
		for i := 0; i < 20; i++ {
			o, err := runFree(c, func(sig, what string, _, _ []string) { rep("free-"+sig, what, nil, nil) }, nil)
			if logf != nil {
				logf("free-running execution %d of %s: %s %v", i+1, c, o, err)
			}
			n++
		}
		return n
	}
	if logf != nil {
		logf("interleaving case %s, schedule %v", c, doc.Conc.Schedule)
	}
	var ex concExec
	var err error
	func() {
		defer func() {
			if v := recover(); v != nil {
				err = fmt.Errorf("panic: %v", v)
				if rep != nil {
					rep("panic:conc:"+c.Kind+":"+firstLine(fmt.Sprint(v)), fmt.Sprint(v), nil, nil)
				}
			}
		}()
		ex, err = runSchedule(c, doc.Conc.Schedule, func(sig, what string, _, _ []string) { rep("conc-"+sig, what, nil, nil) }, nil, logf)
	}()
	if err != nil {
		fmt.Printf("INFO interleaving replay failed: %v\n", err)
	}
	return ex.steps
}
