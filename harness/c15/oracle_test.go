// C15 lock-step world and the reference oracle written from the property statement.
//
// Clauses (each is evaluated on every event of every explored history, on both stores):
//
//	settle-*    the registry orders settlement of an HTLC (HtlcSettleResolution returned or
//	            delivered on the hodl channel, or the HTLC recorded as settled) only when the
//	            HTLCs of its set that are settled with it (a) carried the invoice's payment
//	            address if the invoice's features require one (blinded-path invoice: the path
//	            id / address it carries, if any, is the invoice's), (b) declare one common total
//	            (an HTLC without a total record declares its own amount and is a set of its
//	            own), (c) that total is not below the invoice amount, (d) their amounts sum to
//	            at least that total, (e) each left the required final-CLTV margin
//	            (max(invoice delta, registry reject delta)) at the height it arrived, and
//	            (f) sha256(released preimage) is that HTLC's own payment hash;
//	monotone-*  invoice state only moves open -> accepted -> settled|canceled, HTLC state only
//	            accepted -> settled|canceled, and a recorded HTLC / invoice does not disappear;
//	amtpaid     a settled non-AMP invoice has AmtPaid == sum of its settled HTLCs;
//	replay      re-notifying a recorded HTLC returns the verdict of its recorded state
//	            (accepted -> held, settled -> settle with a matching preimage, canceled -> fail);
//	both        no HTLC is ordered settled and ordered canceled (across return values, hodl
//	            deliveries and recorded states, over the whole history);
//	kvsql-*     the key-value store and the SQL store produce the same verdicts, states and
//	            amounts for the same history;
//	bystander   (worlds with a second invoice) no event of the alphabet carries the bystander
//	            invoice's payment hash together with its payment address, so -- by the address
//	            and preimage clauses -- it records no HTLC and never changes;
//	monotone-invoice-vanished knows the two configured ways an invoice may disappear: a
//	            successful CancelInvoice with GcCanceledInvoicesOnTheFly, and a registry start with
//	            GcCanceledInvoicesOnStartup while the invoice is canceled. The HTLCs of a deleted
//	            invoice keep their last recorded state for the replay and "both" clauses.
//
// Not judged (the property statement does not demand it): which failure code a refusal
// carries; AMP sub-invoice (set) states; an HTLC that was refused *without being recorded*
// is a new HTLC to the registry when it is presented again, so its verdict may change with
// the circumstances.
package c15

import (
	"crypto/sha256"
	"fmt"
	"sort"
	"strings"
	"sync"
	"time"

	"github.com/lightningnetwork/lnd/lntypes"
)

// reporter receives violation candidates.
type reporter func(sig, what string, hist, full []string)

// Stats is the shared, concurrency-safe coverage accounting.
type Stats struct {
	mu       sync.Mutex
	Outcomes map[string]int64 // kind|event class|verdict -> count
	Clauses  map[string]int64 // clause -> number of non-vacuous evaluations
	Info     map[string]int64
	Ops      int64 // registry calls executed (both stores)
}

func newStats() *Stats {
	return &Stats{Outcomes: map[string]int64{}, Clauses: map[string]int64{}, Info: map[string]int64{}}
}

func (s *Stats) outcome(k string) {
	if s == nil {
		return
	}
	s.mu.Lock()
	s.Outcomes[k]++
	s.mu.Unlock()
}

func (s *Stats) clause(k string) {
	if s == nil {
		return
	}
	s.mu.Lock()
	s.Clauses[k]++
	s.mu.Unlock()
}

func (s *Stats) info(k string) {
	if s == nil {
		return
	}
	s.mu.Lock()
	s.Info[k]++
	s.mu.Unlock()
}

func (s *Stats) op() {
	if s == nil {
		return
	}
	s.mu.Lock()
	s.Ops++
	s.mu.Unlock()
}

type recKey struct {
	Op   string
	Spec htlcSpec
	ArrH int32
}

// stepOut is what one event produced on one side.
type stepOut struct {
	direct    *Verdict  // return value of NotifyExitHopHtlc, if the event was an HTLC
	callErr   string    // error of CancelInvoice / SettleHodlInvoice
	delivered []Verdict // hodl channel
	post      invObs
}

func (o stepOut) render() string {
	var b strings.Builder
	if o.direct != nil {
		fmt.Fprintf(&b, "returned %s", o.direct.String())
	}
	if o.callErr != "" {
		fmt.Fprintf(&b, "call error %q", o.callErr)
	}
	for _, d := range o.delivered {
		fmt.Fprintf(&b, " hodl[k%d %s]", d.Key, d.String())
	}
	return strings.TrimSpace(b.String())
}

type event struct {
	op     string
	class  string // htlc | replay | cancel | settle | timeout | height | restart | expire | noop
	spec   htlcSpec
	key    int
	right  bool // settle: right preimage
	zero   bool // settle: all-zero preimage
	replay bool
	lax    bool // free-running execution judged against the final state only: skip "settle order refers to a recorded settled htlc"
}

// World is the lock-step pair (or a single store, for the interleaving part).
type World struct {
	kind   Kind
	sides  []*side
	hOff   int32
	rec    map[int]recKey
	last   []invObs
	ops    []string
	rep    reporter
	st     *Stats
	dead   string
	logf   func(string, ...any)
	quiet  bool
	nViols int
	keys   int
	// base is the history that was re-established on this instance by Replay; every op
	// executed since then but the current one left the key unchanged (seqmc's reuse rule)
	base    []string
	baseSet bool
	// lastCancel is the outcome code of the last cancel order per circuit key
	lastCancel map[int]string
	two        bool
	bystander  []invObs // the bystander invoice as first observed, per side
	// ghost: last recorded state of the HTLCs of an invoice that was deleted by a configured
	// garbage collection, per side
	ghost []map[int]string
	// scheme: the values of the circuit keys k1..k8
	scheme *keyScheme
	// expired: the "X" event has moved the watcher's clock past the invoice's time expiry
	// (Watch kinds; at most once per history)
	expired bool
}

type worldOpts struct {
	kind   string
	scheme string // circuit-key scheme ("" = plain)
	keys   int // bound on recorded HTLCs (0 = maxKeys)
	two    bool // a bystander invoice exists next to the invoice under test
	stores []string // default kv+sql
	rep    reporter
	st     *Stats
	logf   func(string, ...any)
}

func newWorld(o worldOpts) (*World, error) {
	k, ok := kinds[o.kind]
	if !ok {
		return nil, fmt.Errorf("unknown invoice kind %q", o.kind)
	}
	if len(o.stores) == 0 {
		o.stores = []string{"kv", "sql"}
	}
	if o.keys == 0 {
		o.keys = maxKeys
	}
	if k.JIT != "" {
		o.two = false
	}
	ks, err := schemeOf(o.scheme)
	if err != nil {
		return nil, err
	}
	w := &World{kind: k, rec: map[int]recKey{}, rep: o.rep, st: o.st, logf: o.logf, keys: o.keys, two: o.two, scheme: ks}
	for _, name := range o.stores {
		s, err := newSide(name, k, o.two, ks)
		if err != nil {
			w.Close()
			return nil, err
		}
		w.sides = append(w.sides, s)
		w.last = append(w.last, s.lookup())
		w.ghost = append(w.ghost, map[int]string{})
		if o.two {
			w.bystander = append(w.bystander, s.lookupBystander())
		}
	}
	return w, nil
}

// Replay re-establishes an explored history (seqmc.Replayer); oracles run as usual.
func (w *World) Replay(hist []string) error {
	for _, op := range hist {
		if err := w.Do(op); err != nil {
			return err
		}
	}
	w.base = append([]string{}, hist...)
	w.baseSet = true
	return nil
}

// Close releases registries and databases.
func (w *World) Close() {
	for _, s := range w.sides {
		s.close()
	}
	w.sides = nil
}

func (w *World) height() int32 { return baseHeight + w.hOff }

func (w *World) violate(clause, store, detail, what string) {
	w.nViols++
	sig := fmt.Sprintf("%s:%s:%s", clause, w.kind.Name, store)
	if detail != "" {
		sig += ":" + detail
	}
	if w.logf != nil {
		w.logf("  !! %s -- %s", sig, what)
	}
	if w.rep != nil {
		hist := w.ops
		if w.baseSet && len(w.ops) > 0 {
			hist = append(append([]string{}, w.base...), w.ops[len(w.ops)-1])
		}
		w.rep(sig, what+"  [history: "+strings.Join(hist, " ")+"]", append([]string{}, hist...), append([]string{}, w.ops...))
	}
}

// Key is the canonical state.
//
// Same key => same futures: a registry INSTANCE keeps, outside the store, only (1) the hodl
// subscriptions -- one per HTLC it told "held" (fresh or replayed) that is still in the accepted
// state; (2) the auto-release timers -- one or more per HTLC it told "held" while the invoice
// was open, each placed at the HTLC's STORED accept time plus the hold duration. The key lists,
// for every accepted HTLC, whether the running instance told it "held" (sub/unsub: a restart
// forgets all of them, a replay restores one) and, on an open invoice, whether its hold time
// has passed already (overdue: possible only for an HTLC that sat out a clock advance without
// a timer; a replay then arms a timer that fires at once). The only time-advancing event
// advances by exactly one hold duration, so every timer that exists is due with it, and a
// timer whose HTLC is no longer accepted-on-an-open-invoice is a no-op whenever it fires;
// absolute time is therefore not part of the key beyond the overdue flag. (3) Nothing else
// (the expiry watcher never fires here). The store contents are rendered completely as far as
// any clause or any branch of update.go reads them (invoice state, terms, AmtPaid, per HTLC
// state/amount/total/expiry/accept height/AMP data, AMP set states); add/settle indexes
// and timestamps other than the overdue flag are dropped: no verdict depends on them. The
// bystander invoice of a "two" world is constant (a change is a violation and ends the
// world). The harness' own memory (what each recorded circuit key carried -- needed for
// exact replays and for the address clause --, the verdict history, the height, and the last
// states of the HTLCs of a garbage-collected invoice) is part of the key. The circuit-key scheme
// (which VALUES k1..k8 stand for) is constant per world and named in the key.
func (w *World) Key() string {
	if w.dead != "" {
		return "DEAD:" + w.dead
	}
	var b strings.Builder
	fmt.Fprintf(&b, "%s/%s h+%d | %s |", w.kind.Name, w.scheme.Name, w.hOff, w.last[0].canon())
	// Live expiry watcher (Watch kinds): its instance keeps (a) its clock -- moved only by "X",
	// once: the flag; (b) its height = base + hOff ("b" hands it every block, a restart starts it
	// at the current height); (c) a time-expiry entry per invoice it was handed while Open: the
	// bystander's never fires; the one of the invoice under test matters only when "X" comes and
	// exists iff tsQueued (provenance: a restart re-creates it only for an Open invoice); (d) a
	// height entry per completed set of a hold invoice / per hold invoice found Accepted at
	// start-up, carrying the lowest expiry of the accepted HTLCs at that moment: it matters only
	// while the invoice is Accepted, and then it exists and its height is the lowest expiry of
	// the accepted HTLCs in the store, because in the Watch spaces all HTLCs that join an
	// Accepted invoice later (keysend duplicates) carry the same expiry (one "ok" expiry value
	// in the kshold-x alphabet; hold-x invoices take no HTLC once Accepted).
	if w.kind.Watch {
		fmt.Fprintf(&b, " watcher expired=%v ts=%v |", w.expired, w.sides[0].tsQueued)
	}
	// in-memory state of the registry instance (provenance: a restarted registry has neither
	// subscriptions nor timers for the HTLCs it finds accepted in the store): per accepted
	// HTLC whether this instance holds its subscription / timer, and -- while the invoice is
	// open -- whether its hold time has already passed (a replay then re-arms a timer that is
	// due at once)
	if o := w.last[0]; o.Found {
		for _, h := range o.Htlcs {
			if h.State != "acc" {
				continue
			}
			sub := "unsub"
			if w.sides[0].armed[h.Key] {
				sub = "sub"
			}
			fmt.Fprintf(&b, " k%d:%s", h.Key, sub)
			if o.State == "Open" && w.overdue(0, h) {
				b.WriteString("/overdue")
			}
		}
		b.WriteString(" |")
	}
	for _, g := range w.ghostSorted(0) {
		b.WriteString(" ghost:" + g)
	}
	var ks []int
	for k := range w.rec {
		ks = append(ks, k)
	}
	sort.Ints(ks)
	for _, k := range ks {
		fmt.Fprintf(&b, " k%d=%s@%d/v%d", k, w.rec[k].Op, w.rec[k].ArrH-baseHeight, w.sides[0].hist[k])
	}
	return b.String()
}

// overdue reports whether the hold time of an accepted HTLC has passed on side i.
func (w *World) overdue(i int, h htlcObs) bool {
	now := int64(w.sides[i].dbClk.Now().Sub(startTime) / time.Second)
	return now-h.AccT >= int64(holdDur/time.Second)
}

func (w *World) ghostSorted(i int) []string {
	var ks []int
	for k := range w.ghost[i] {
		ks = append(ks, k)
	}
	sort.Ints(ks)
	var out []string
	for _, k := range ks {
		out = append(out, fmt.Sprintf("k%d=%s", k, w.ghost[i][k]))
	}
	return out
}

func (w *World) sideIndex(s *side) int {
	for i, x := range w.sides {
		if x == s {
			return i
		}
	}
	return 0
}

func isHTLCOp(op string) bool {
	return strings.HasPrefix(op, "h:") || strings.HasPrefix(op, "hx:") || strings.HasPrefix(op, "ha:")
}

func (w *World) freshKey() int {
	for k := 1; k <= w.keys; k++ {
		if _, ok := w.rec[k]; !ok {
			return k
		}
	}
	return 0
}

func (w *World) parse(op string) (event, error) {
	switch {
	case isHTLCOp(op):
		sp, err := parseHTLC(op)
		if err != nil {
			return event{}, err
		}
		if w.kind.Value > 0 {
			sp.V = uint64(w.kind.Value) // the relative total tokens refer to this invoice's value
		}
		k := w.freshKey()
		if k == 0 {
			return event{op: op, class: "noop"}, nil
		}
		return event{op: op, class: "htlc", spec: sp, key: k}, nil
	case strings.HasPrefix(op, "r:"):
		var k int
		if _, err := fmt.Sscanf(op, "r:%d", &k); err != nil || k < 1 || k > allKeys {
			return event{}, fmt.Errorf("bad replay op %q", op)
		}
		r, ok := w.rec[k]
		if !ok {
			return event{op: op, class: "noop"}, nil
		}
		return event{op: op, class: "replay", spec: r.Spec, key: k, replay: true}, nil
	case op == "c":
		return event{op: op, class: "cancel"}, nil
	case op == "s:r":
		return event{op: op, class: "settle", right: true}, nil
	case op == "s:w":
		return event{op: op, class: "settle"}, nil
	case op == "s:z":
		return event{op: op, class: "settle", zero: true}, nil
	case op == "t":
		return event{op: op, class: "timeout"}, nil
	case op == "R":
		return event{op: op, class: "restart"}, nil
	case op == "X":
		// time expiry: once per history; for a just-in-time kind only while the invoice exists
		// (an invoice created after the jump would be born expired, and the watcher's cancel
		// would race with the notification that creates it)
		if !w.kind.Watch || w.expired || (w.kind.JIT != "" && !w.last[0].Found) {
			return event{op: op, class: "noop"}, nil
		}
		return event{op: op, class: "expire"}, nil
	case op == "b":
		if w.hOff >= 2 {
			return event{op: op, class: "noop"}, nil
		}
		return event{op: op, class: "height"}, nil
	}
	return event{}, fmt.Errorf("unknown op %q", op)
}

// apply executes the event on one side.
func (w *World) apply(s *side, ev event, pre invObs) stepOut {
	var out stepOut
	switch ev.class {
	case "htlc", "replay":
		v := s.notify(ev.spec, ev.key, w.height())
		out.direct = &v
		if v.Kind == "accept" {
			s.armed[ev.key] = true
			// A replay that is told "held" while the invoice is open re-arms the auto-release
			// timer with the ORIGINAL accept time; if the hold time has passed already
			// (possible only after a restart) the timer is due at once: wait for the
			// registry's completion signal, the cancel resolution of this HTLC.
			if h := pre.htlc(ev.key); ev.class == "replay" && pre.Found && pre.State == "Open" && h != nil && h.State == "acc" &&
				w.overdue(w.sideIndex(s), *h) {

				for {
					d, ok := s.awaitHodl()
					if !ok {
						s.stalled = fmt.Sprintf("no resolution for the overdue replayed htlc k%d on %s within %v", ev.key, s.name, stallGuard)
						break
					}
					out.delivered = append(out.delivered, d)
					if d.Key == ev.key {
						break
					}
				}
			}
		}
		out.delivered = append(out.delivered, s.drain()...)
	case "cancel":
		if err := s.reg.CancelInvoice(bg, w.eventHash()); err != nil {
			out.callErr = firstLine(err.Error())
		}
		out.delivered = s.drain()
	case "restart":
		if err := s.restart(); err != nil {
			out.callErr = firstLine(err.Error())
		}
	case "settle":
		p := w.kind.rightPreimage()
		if !ev.right {
			p = wrongPreimg
		}
		if ev.zero {
			p = zeroPreimage
		}
		if err := s.reg.SettleHodlInvoice(bg, p); err != nil {
			out.callErr = firstLine(err.Error())
		}
		out.delivered = s.drain()
	case "timeout":
		out.delivered = s.timeout(pre)
	case "expire":
		s.expire()
	case "height":
		// Watch kinds only: the watcher is told the new block
		s.epoch(w.height())
	}
	if s.kind.Watch {
		// the watcher reacts to registry calls too (AddInvoices of a completed hold set): let it
		// finish inside the event
		s.waitWatcherIdle()
		out.delivered = append(out.delivered, s.drain()...)
	}
	w.st.op()
	out.post = s.lookup()
	return out
}

// eventHash is the payment hash CancelInvoice is called with.
func (w *World) eventHash() lntypes.Hash {
	switch w.kind.JIT {
	case "keysend":
		return ksHash
	case "amp":
		// a spontaneous AMP invoice is stored under the hash of the HTLC that created it
		return ampChild(1, '0').Hash
	}
	return w.kind.invoiceHash()
}

// Do performs one event on every side, judges it and compares the sides.
func (w *World) Do(op string) error {
	if w.dead != "" {
		return nil
	}
	ev, err := w.parse(op)
	if err != nil {
		return err
	}
	w.ops = append(w.ops, op)
	if ev.class == "noop" {
		if w.logf != nil {
			w.logf("%s: not enabled here (no-op)", op)
		}
		return nil
	}
	if ev.class == "height" {
		w.hOff++
		if w.logf != nil {
			w.logf("%s: height is now %d", op, w.height())
		}
		if !w.kind.Watch {
			return nil
		}
	}
	outs := make([]stepOut, len(w.sides))
	pre0 := w.last[0]
	for i, s := range w.sides {
		pre := w.last[i]
		outs[i] = w.apply(s, ev, pre)
		if w.logf != nil {
			w.logf("%s on %-3s: %s", w.describe(ev), s.name, outs[i].render())
			w.logf("       %-3s invoice: %s", s.name, outs[i].post.canon())
		}
		if s.stalled != "" {
			w.dead = "stalled: " + s.stalled
			w.st.info("stalled: " + s.stalled)
			fmt.Printf("INFO harness stall (not a verdict): %s after %v\n", s.stalled, w.ops)
			return nil
		}
		w.judge(s, ev, pre, outs[i])
		w.last[i] = outs[i].post
		// which time-expiry entry the running watcher instance holds (see Key)
		switch {
		case ev.class == "expire":
			s.tsQueued = false
		case ev.class == "restart":
			s.tsQueued = outs[i].post.Found && outs[i].post.State == "Open"
		case !pre.Found && outs[i].post.Found:
			s.tsQueued = true
		}
	}
	if ev.class == "expire" {
		w.expired = true
	}
	w.account(ev, outs[0])
	if len(w.sides) == 2 {
		w.compare(ev, pre0, outs[0], outs[1])
	}
	// recorded keys follow the (first) store
	if ev.class == "htlc" {
		if h := outs[0].post.htlc(ev.key); h != nil {
			w.rec[ev.key] = recKey{Op: ev.op, Spec: ev.spec, ArrH: w.height()}
		} else if outs[0].direct != nil && outs[0].direct.Kind != "fail" && outs[0].direct.Kind != "error" {
			w.st.info("held_or_settled_but_unrecorded")
		}
	}
	return nil
}

func (w *World) describe(ev event) string {
	switch ev.class {
	case "htlc":
		return fmt.Sprintf("%s (new htlc k%d = (%s), hash %s, amt %d, declared total %d, addr %q, expiry %d at height %d)", ev.op, ev.key,
			w.scheme.describe(ev.key), ev.spec.hash(w.kind).String()[:8], ev.spec.Amt, ev.spec.declaredTotal(), string(rune0(ev.spec.Addr)), ev.spec.absExpiry(w.kind), w.height())
	case "replay":
		return fmt.Sprintf("%s (exact replay of k%d = (%s) = %s at height %d)", ev.op, ev.key, w.scheme.describe(ev.key), w.rec[ev.key].Op, w.height())
	}
	return ev.op
}

func rune0(b byte) rune {
	if b == 0 {
		return '-'
	}
	return rune(b)
}

func (w *World) account(ev event, out stepOut) {
	if w.st == nil {
		return
	}
	v := "-"
	if out.direct != nil {
		v = out.direct.String()
	} else if out.callErr != "" {
		v = "err"
	} else {
		v = "ok"
	}
	cls := ev.class
	if ev.class == "htlc" {
		cls = "htlc-" + string(ev.spec.Pay)
		if ev.spec.Icpt != 0 {
			cls += "/icpt-" + string(ev.spec.Icpt)
		}
	}
	nd := 0
	for _, d := range out.delivered {
		if d.Kind == "settle" || d.Kind == "fail" {
			nd++
		}
	}
	w.st.outcome(fmt.Sprintf("%s|%s|%s|hodl=%d|%s", w.kind.Name, cls, v, nd, out.post.State))
}

func rankInv(s string) int {
	switch s {
	case "Open":
		return 0
	case "Accepted":
		return 1
	case "Settled", "Canceled":
		return 2
	}
	return -1
}

// specOf returns what circuit key k carried.
func (w *World) specOf(ev event, k int) (htlcSpec, int32, bool) {
	if (ev.class == "htlc" || ev.class == "replay") && ev.key == k {
		if r, ok := w.rec[k]; ok {
			return r.Spec, r.ArrH, true
		}
		return ev.spec, w.height(), true
	}
	r, ok := w.rec[k]
	return r.Spec, r.ArrH, ok
}

// setOf is the set identity of an HTLC: HTLCs without a total are sets of their own.
func setOf(sp htlcSpec, k int) string {
	switch {
	case sp.Pay == 'A':
		return fmt.Sprintf("amp%d", sp.Set)
	case sp.hasTotal():
		return "mpp"
	}
	return fmt.Sprintf("single%d", k)
}

// judge evaluates every single-store clause on one event.
func (w *World) judge(s *side, ev event, pre invObs, out stepOut) {
	post := out.post
	store := s.name
	si := w.sideIndex(s)

	// --- monotone
	if pre.Found && !post.Found {
		// the two configured garbage collections
		gcFly := ev.class == "cancel" && w.kind.GcFly && out.callErr == "" && pre.State != "Settled"
		// the expiry watcher cancels through the same cancelInvoiceImpl (time expiry, or block
		// expiry of an accepted hold invoice): a canceled invoice is then deleted on the fly too
		// -- but only a CANCELED invoice: cancelInvoiceImpl orders every HTLC it canceled failed
		// before it deletes, so every HTLC that was accepted and has a live subscription on this
		// registry instance must have got its cancel order in this very event
		if w.kind.Watch && w.kind.GcFly && (ev.class == "expire" || ev.class == "height") && pre.State != "Settled" {
			gcFly = true
			for _, h := range pre.Htlcs {
				if h.State != "acc" || !s.armed[h.Key] {
					continue
				}
				ordered := false
				for _, d := range out.delivered {
					if d.Kind == "fail" && d.Key == h.Key {
						ordered = true
					}
				}
				if !ordered {
					gcFly = false
				}
			}
		}
		gcStart := ev.class == "restart" && w.kind.GcStart && pre.State == "Canceled"
		if gcFly || gcStart {
			w.st.clause("invoice-garbage-collected")
			for _, h := range pre.Htlcs {
				st := h.State
				if st == "acc" {
					st = "can" // canceled together with the invoice
				}
				w.ghost[si][h.Key] = st
			}
		} else {
			w.violate("monotone-invoice-vanished", store, ev.class, fmt.Sprintf("after %s the invoice can no longer be looked up (%s)", ev.op, post.Err))
		}
	}
	if w.two && (ev.class == "cancel" || ev.class == "restart" || ev.class == "expire" || ev.class == "height" || ev.spec.foreign()) {
		w.st.clause("bystander")
		if b := s.lookupBystander(); b.canon() != w.bystander[si].canon() {
			w.violate("bystander-touched", store, ev.class+":"+string(rune0(ev.spec.Pay))+string(rune0(ev.spec.Addr)),
				fmt.Sprintf("%s changed the bystander invoice, which no event pays: {%s} -> {%s}", ev.op, w.bystander[si].canon(), b.canon()))
			w.dead = "bystander invoice touched"
		}
	}
	if pre.Found && post.Found {
		if pre.State != post.State {
			w.st.clause("monotone-invoice-transition")
		}
		rp, rq := rankInv(pre.State), rankInv(post.State)
		if rq < rp || (rp == 2 && pre.State != post.State) || rq < 0 {
			w.violate("monotone-invoice", store, pre.State+"->"+post.State,
				fmt.Sprintf("%s moved the invoice from %s to %s", ev.op, pre.State, post.State))
		}
		for _, h := range pre.Htlcs {
			q := post.htlc(h.Key)
			if q == nil {
				w.violate("monotone-htlc-vanished", store, h.State+":"+w.context(ev, pre), fmt.Sprintf("%s: htlc k%d (recorded %s) is no longer recorded", ev.op, h.Key, h.State))
				continue
			}
			if h.State != q.State {
				w.st.clause("monotone-htlc-transition")
			}
			if h.State != "acc" && h.State != q.State {
				w.violate("monotone-htlc", store, h.State+"->"+q.State,
					fmt.Sprintf("%s moved htlc k%d from %s to %s", ev.op, h.Key, h.State, q.State))
			}
		}
	}
	for _, h := range post.Htlcs {
		if h.State != "acc" && h.State != "set" && h.State != "can" {
			w.violate("monotone-htlc", store, "unknown-state", fmt.Sprintf("%s: htlc k%d has state %s", ev.op, h.Key, h.State))
		}
	}

	// --- amtpaid
	if post.Found && post.State == "Settled" && !post.IsAMP {
		var sum uint64
		for _, h := range post.Htlcs {
			if h.State == "set" {
				sum += h.Amt
			}
		}
		w.st.clause("amtpaid")
		if sum != post.AmtPaid {
			w.violate("amtpaid", store, "", fmt.Sprintf("after %s the settled invoice records AmtPaid=%d but its settled htlcs sum to %d (%s)",
				ev.op, post.AmtPaid, sum, post.canon()))
		}
	}

	// --- settlement conjunction on the HTLCs that became settled in this event
	became := map[int]bool{}
	for _, h := range post.Htlcs {
		if h.State != "set" {
			continue
		}
		p := pre.htlc(h.Key)
		if !pre.Found || p == nil || p.State == "acc" {
			became[h.Key] = true
		}
	}
	sets := map[string][]int{}
	for k := range became {
		sp, _, ok := w.specOf(ev, k)
		if !ok {
			w.violate("settle-unknown-htlc", store, "", fmt.Sprintf("%s: htlc k%d is recorded as settled but was never sent", ev.op, k))
			continue
		}
		id := setOf(sp, k)
		sets[id] = append(sets[id], k)
	}
	var setIDs []string
	for id := range sets {
		setIDs = append(setIDs, id)
	}
	sort.Strings(setIDs)
	margin := post.CltvD
	if rejectDelta > margin {
		margin = rejectDelta
	}
	for _, id := range setIDs {
		ms := sets[id]
		sort.Ints(ms)
		w.st.clause("settle-conjunction")
		var (
			sum      uint64
			total    uint64
			totalSet bool
			desc     []string
			common   = true
		)
		for _, k := range ms {
			sp, arr, _ := w.specOf(ev, k)
			desc = append(desc, fmt.Sprintf("k%d{amt %d, total %d, addr %q, expiry %d, arrived at %d}", k, sp.recordedAmt(), sp.declaredTotal(),
				string(rune0(sp.Addr)), sp.absExpiry(w.kind), arr))
			sum += sp.recordedAmt()
			if !totalSet {
				total, totalSet = sp.declaredTotal(), true
			} else if total != sp.declaredTotal() {
				common = false
			}
			// a blinded-path invoice does not set the payment_addr feature: its path id
			// takes the place of the payment address, so an HTLC that carries a path id
			// or an MPP address must carry the invoice's
			if post.AddrReq || (post.Blinded && sp.Addr != 0) {
				w.st.clause("settle-addr-required")
				if sp.Addr != 'r' {
					w.violate("settle-addr", store, string(sp.Pay), fmt.Sprintf("%s settled htlc k%d which did not carry the invoice's payment address (carried %q) although the invoice requires one; set: %s",
						ev.op, k, string(rune0(sp.Addr)), strings.Join(desc, " ")))
				}
			}
			if int64(sp.absExpiry(w.kind)) < int64(arr)+int64(margin) {
				w.violate("settle-cltv", store, string(sp.Pay), fmt.Sprintf("%s settled htlc k%d with expiry %d that arrived at height %d: required margin %d (invoice delta %d, reject delta %d)",
					ev.op, k, sp.absExpiry(w.kind), arr, margin, post.CltvD, rejectDelta))
			}
		}
		what := fmt.Sprintf("%s settled set %s = %s on an invoice of value %d", ev.op, id, strings.Join(desc, " "), post.Value)
		if !common {
			w.violate("settle-total-mismatch", store, id, what+": the members do not declare one common total")
		}
		if total < post.Value {
			w.violate("settle-total-below-invoice", store, id, what+fmt.Sprintf(": declared total %d is below the invoice amount", total))
		}
		if common && sum < total {
			w.violate("settle-underpaid", store, id, what+fmt.Sprintf(": the members sum to %d, below the declared total %d", sum, total))
		}
	}

	// --- every settle / cancel order
	order := func(v Verdict, via string) {
		if v.Kind != "settle" && v.Kind != "fail" {
			return
		}
		k := v.Key
		sp, _, known := w.specOf(ev, k)
		recorded := post.htlc(k) != nil || pre.htlc(k) != nil
		if v.Kind == "settle" {
			w.st.clause("settle-order")
			if !known {
				w.violate("settle-unknown-htlc", store, via, fmt.Sprintf("%s: settle ordered (%s) for a circuit key that was never sent", ev.op, via))
				return
			}
			want := sp.hash(w.kind)
			if v.Preimage == nil || sha256.Sum256(v.Preimage[:]) != [32]byte(want) {
				w.violate("settle-preimage", store, string(sp.Pay), fmt.Sprintf("%s: settle ordered (%s) for htlc k%d with a preimage that does not hash to its payment hash %s",
					ev.op, via, k, want.String()[:16]))
			}
			if q := post.htlc(k); !ev.lax && (q == nil || q.State != "set") {
				st := "unrecorded"
				if q != nil {
					st = q.State
				}
				w.violate("settle-unrecorded", store, st, fmt.Sprintf("%s: settle ordered (%s) for htlc k%d which the invoice records as %s", ev.op, via, k, st))
			}
			if s.hist[k] == 3 {
				w.violate("both", store, "cancel("+w.lastCancel[k]+")-then-settle", fmt.Sprintf("%s: settle ordered (%s) for htlc k%d that was ordered canceled before", ev.op, via, k))
			}
			s.hist[k] = 2
			return
		}
		// fail
		if !recorded {
			return // a refusal of an HTLC the invoice never recorded
		}
		w.st.clause("cancel-order")
		if w.lastCancel == nil {
			w.lastCancel = map[int]string{}
		}
		w.lastCancel[k] = v.Outcome
		if s.hist[k] == 2 {
			w.violate("both", store, "settle-then-cancel("+v.Outcome+")", fmt.Sprintf("%s: cancel ordered (%s, %s) for htlc k%d that was ordered settled before", ev.op, via, v.Outcome, k))
		}
		s.hist[k] = 3
	}
	if out.direct != nil {
		order(*out.direct, "returned")
		if out.direct.Kind == "accept" && s.hist[ev.key] == 0 {
			s.hist[ev.key] = 1
		}
	}
	for _, d := range out.delivered {
		if d.Kind == "error" {
			w.violate("hodl-garbage", store, "", fmt.Sprintf("%s: %s", ev.op, d.Outcome))
			continue
		}
		order(d, "hodl channel")
	}
	for _, h := range post.Htlcs {
		switch {
		case h.State == "set" && s.hist[h.Key] == 3:
			w.violate("both", store, "ordered-cancel("+w.lastCancel[h.Key]+")-recorded-settled", fmt.Sprintf("%s: htlc k%d was ordered canceled (%s) and is recorded as settled", ev.op, h.Key, w.lastCancel[h.Key]))
		case h.State == "can" && s.hist[h.Key] == 2:
			w.violate("both", store, "ordered-settle-recorded-canceled", fmt.Sprintf("%s: htlc k%d was ordered settled and is recorded as canceled", ev.op, h.Key))
		}
	}

	// --- replay
	if ev.class == "replay" && out.direct != nil {
		st, how := "", "is recorded as"
		if p := pre.htlc(ev.key); p != nil {
			st = p.State
		} else if g, ok := w.ghost[si][ev.key]; ok && !pre.Found {
			st, how = g, "was last recorded (on the invoice deleted since) as"
		}
		if st != "" {
			want := map[string]string{"acc": "accept", "set": "settle", "can": "fail"}[st]
			w.st.clause("replay-" + st)
			if out.direct.Kind != want {
				w.violate("replay", store, st+"->"+out.direct.String(), fmt.Sprintf("%s: htlc k%d %s %s, its exact replay got %s instead of %s",
					ev.op, ev.key, how, st, out.direct.String(), want))
			}
		}
	}
}

// compare is the KV == SQL clause.
func (w *World) compare(ev event, pre0 invObs, a, b stepOut) {
	w.st.clause("kvsql")
	da, db := "-", "-"
	if a.direct != nil {
		da = a.direct.Kind
	}
	if b.direct != nil {
		db = b.direct.Kind
	}
	if da != db {
		w.violate("kvsql-verdict", "both", da+"/"+db, fmt.Sprintf("%s: kv returned %s, sql returned %s", ev.op, a.render(), b.render()))
		w.dead = "kv/sql diverged"
		return
	}
	if a.direct != nil && a.direct.Outcome != b.direct.Outcome {
		w.st.info("kvsql_outcome_code_differs:" + a.direct.Outcome + "/" + b.direct.Outcome)
	}
	if (a.callErr == "") != (b.callErr == "") {
		w.violate("kvsql-verdict", "both", "call-error", fmt.Sprintf("%s: kv call error %q, sql call error %q", ev.op, a.callErr, b.callErr))
		w.dead = "kv/sql diverged"
		return
	}
	ra, rb := renderDeliveries(a.delivered), renderDeliveries(b.delivered)
	if ra != rb {
		w.violate("kvsql-verdict", "both", "hodl", fmt.Sprintf("%s: kv delivered [%s], sql delivered [%s]", ev.op, ra, rb))
		w.dead = "kv/sql diverged"
		return
	}
	if ca, cb := a.post.canon(), b.post.canon(); ca != cb {
		w.violate("kvsql-state", "both", diffClass(a.post, b.post)+":"+w.context(ev, pre0), fmt.Sprintf("%s: kv invoice {%s}, sql invoice {%s}", ev.op, ca, cb))
		w.dead = "kv/sql diverged"
	}
}

func renderDeliveries(d []Verdict) string {
	var s []string
	for _, v := range d {
		s = append(s, fmt.Sprintf("k%d:%s", v.Key, v.Kind))
	}
	sort.Strings(s)
	return strings.Join(s, ",")
}

// context names the situation an event met (part of some signatures, so that a known
// finding can be matched narrowly): for an AMP HTLC the state of the set it joins.
func (w *World) context(ev event, pre invObs) string {
	if ev.spec.Pay == 'A' && (ev.class == "htlc" || ev.class == "conc") {
		st := "none"
		if a := pre.ampSet(ev.spec.Set); a != nil {
			st = a.State
		}
		return "new-htlc-into-ampset(" + st + ")"
	}
	return ev.class
}

// diffClass names the kind of difference between the two stores' observations.
func diffClass(kv, sq invObs) string {
	var d []string
	if kv.Found != sq.Found {
		return "invoice-found"
	}
	if kv.State != sq.State {
		d = append(d, "invoice-state")
	}
	if kv.AmtPaid != sq.AmtPaid {
		d = append(d, "amtpaid")
	}
	if kv.Value != sq.Value || kv.HasPre != sq.HasPre || kv.PreOK != sq.PreOK {
		d = append(d, "terms")
	}
	for _, h := range sq.Htlcs {
		if kv.htlc(h.Key) == nil {
			d = append(d, "kv-lacks-htlc("+h.State+")")
		}
	}
	for _, h := range kv.Htlcs {
		q := sq.htlc(h.Key)
		switch {
		case q == nil:
			d = append(d, "sql-lacks-htlc("+h.State+")")
		case q.State != h.State:
			d = append(d, "htlc-state("+h.State+"/"+q.State+")")
		case *q != h:
			d = append(d, "htlc-fields")
		}
	}
	if fmt.Sprint(kv.AMP) != fmt.Sprint(sq.AMP) {
		d = append(d, "ampsets")
	}
	sort.Strings(d)
	var u []string
	for i, x := range d {
		if i == 0 || d[i-1] != x {
			u = append(u, x)
		}
	}
	return strings.Join(u, "+")
}
