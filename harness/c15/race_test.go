// C15 race target (thorough tier only, built with -race): the interleaving cases of
// conc_test.go are run free-running -- one real goroutine per link, released together, no
// cooperative scheduler (the sync shim passes straight through for goroutines that are not
// scheduler threads) -- so that the Go race detector sees the memory-model effects that a
// baton-passing scheduler hides. The same oracle clauses judge every execution (against
// the state before and after the concurrent phase). A data-race report becomes a
// violation only if the same report (same pair of top frames) shows up in 3 of 3 worker
// processes.
package c15

import (
	"encoding/json"
	"fmt"
	"os"
	"os/exec"
	"path/filepath"
	"regexp"
	"sort"
	"strings"
	"sync"
	"testing"
	"time"

	"github.com/lightningnetwork/lnd/verifmc/evid"
)

type raceWorkerOut struct {
	Cases      int               `json:"cases"`
	Executions int64             `json:"executions"`
	Outcomes   int               `json:"outcomes"`
	Capped     bool              `json:"capped"`
	Violations []raceWorkerViol  `json:"violations"`
	Clauses    map[string]int64  `json:"clauses"`
	Sample     map[string]string `json:"sample"`
}

type raceWorkerViol struct {
	Sig  string    `json:"sig"`
	What string    `json:"what"`
	Doc  replayDoc `json:"doc"`
}

// runFree executes one case with free-running goroutines and judges it.
func runFree(c concCase, rep reporter, st *Stats) (outcome string, err error) {
	w, err := newWorld(worldOpts{kind: c.Kind, scheme: c.Scheme, stores: []string{c.Store}, rep: rep, st: st})
	if err != nil {
		return "", err
	}
	defer w.Close()
	for _, op := range c.Prefix {
		if err := w.Do(op); err != nil {
			return "", err
		}
	}
	s := w.sides[0]
	pre := w.last[0]
	height := w.height()
	nextKey := maxKeys + 1
	plan := make([][]threadOp, len(c.Threads))
	for oi := 0; oi < 2; oi++ {
		for ti, ops := range c.Threads {
			if oi >= len(ops) {
				continue
			}
			to := threadOp{op: ops[oi]}
			if strings.HasPrefix(ops[oi], "h:") {
				nextKey++
				to.key = nextKey
				sp, perr := parseHTLC(ops[oi])
				if perr != nil {
					return "", perr
				}
				w.rec[to.key] = recKey{Op: ops[oi], Spec: sp, ArrH: height}
			} else if strings.HasPrefix(ops[oi], "r:") {
				fmt.Sscanf(ops[oi], "r:%d", &to.key)
				if _, ok := w.rec[to.key]; !ok {
					return "", fmt.Errorf("replay of unrecorded key in %v", c)
				}
			}
			plan[ti] = append(plan[ti], to)
		}
	}
	results := make([][]stepOut, len(plan))
	var (
		wg    sync.WaitGroup
		start = make(chan struct{})
		pmu   sync.Mutex
		pan   []string
	)
	for ti := range plan {
		ti := ti
		results[ti] = make([]stepOut, len(plan[ti]))
		wg.Add(1)
		go func() {
			defer wg.Done()
			defer func() {
				if v := recover(); v != nil {
					pmu.Lock()
					pan = append(pan, fmt.Sprint(v))
					pmu.Unlock()
				}
			}()
			<-start
			for oi, to := range plan[ti] {
				var out stepOut
				switch {
				case to.key != 0:
					v := s.notify(w.rec[to.key].Spec, to.key, height)
					out.direct = &v
				case to.op == "c":
					if err := s.reg.CancelInvoice(bg, w.eventHash()); err != nil {
						out.callErr = firstLine(err.Error())
					}
				case to.op == "s:r":
					if err := s.reg.SettleHodlInvoice(bg, w.kind.rightPreimage()); err != nil {
						out.callErr = firstLine(err.Error())
					}
				}
				results[ti][oi] = out
			}
		}()
	}
	close(start)
	wg.Wait()
	if len(pan) > 0 {
		panic(strings.Join(pan, " / "))
	}
	final := s.lookup()
	evOp := "free{" + c.String() + "}"
	// state clauses and hodl deliveries between the state before and after the phase
	w.judge(s, event{op: evOp, class: "conc", lax: true}, pre, stepOut{post: final, delivered: s.drain()})
	var vv []string
	for ti := range plan {
		for oi, to := range plan[ti] {
			r := results[ti][oi]
			ev := event{op: fmt.Sprintf("%s link%d:%s", evOp, ti+1, to.op), class: "conc", key: to.key, spec: w.rec[to.key].Spec, lax: true}
			w.judge(s, ev, final, stepOut{direct: r.direct, callErr: r.callErr, post: final})
			switch {
			case r.direct != nil:
				vv = append(vv, fmt.Sprintf("link%d.%d=%s", ti+1, oi+1, r.direct.Kind))
			case r.callErr != "":
				vv = append(vv, fmt.Sprintf("link%d.%d=err", ti+1, oi+1))
			default:
				vv = append(vv, fmt.Sprintf("link%d.%d=ok", ti+1, oi+1))
			}
		}
	}
	return strings.Join(vv, " ") + " | " + final.canon(), nil
}

func raceWorker() {
	budget := time.Duration(envInt("C15_RACE_BUDGET_S", 120)) * time.Second
	deadline := time.Now().Add(budget)
	rounds := envInt("C15_RACE_ROUNDS", 3)
	st := newStats()
	var (
		out      raceWorkerOut
		seen     = map[string]bool{}
		outcomes = map[string]bool{}
	)
	out.Sample = map[string]string{}
	var cases []concCase
	for _, c := range concCasesOf(false, "wide") {
		if !c.Timer { // the timer step needs the scheduler
			cases = append(cases, c)
		}
	}
	for round := 0; round < rounds && !out.Capped; round++ {
		for _, c := range cases {
			if time.Now().After(deadline) {
				out.Capped = true
				break
			}
			c := c
			rep := func(sig, what string, _, _ []string) {
				sig = "free-" + sig
				if !seen[sig] {
					seen[sig] = true
					out.Violations = append(out.Violations, raceWorkerViol{Sig: sig, What: what,
						Doc: replayDoc{Kind: c.Kind, Scheme: c.Scheme, Stores: []string{c.Store}, Conc: &concDoc{Prefix: c.Prefix, Threads: c.Threads, Free: true}}})
				}
			}
			func() {
				defer func() {
					if v := recover(); v != nil {
						rep("panic:"+c.Kind+":"+firstLine(fmt.Sprint(v)), fmt.Sprintf("panic in free-running %s: %v", c, v), nil, nil)
					}
				}()
				o, err := runFree(c, rep, st)
				if err != nil {
					rep("harness:"+firstLine(err.Error()), err.Error(), nil, nil)
					return
				}
				out.Executions++
				if !outcomes[c.Kind+"|"+o] {
					outcomes[c.Kind+"|"+o] = true
					if len(out.Sample) < 3 {
						out.Sample[c.String()] = o
					}
				}
			}()
		}
		if round == 0 {
			out.Cases = len(cases)
		}
	}
	out.Outcomes = len(outcomes)
	out.Clauses = st.Clauses
	b, _ := json.Marshal(out)
	_ = os.WriteFile(os.Getenv("C15_RACE_RESULT"), b, 0o644)
}

var raceFrame = regexp.MustCompile(`^\s+([^\s()]+(?:\([^)]*\))?[^\s()]*)\(\)$`)

// parseRaceReports extracts one signature per "WARNING: DATA RACE" block: the top frames
// of the two conflicting accesses.
func parseRaceReports(text string) map[string]string {
	sigs := map[string]string{}
	blocks := strings.Split(text, "WARNING: DATA RACE")
	for _, b := range blocks[1:] {
		if i := strings.Index(b, "=================="); i >= 0 {
			b = b[:i]
		}
		var tops []string
		wantTop := false
		for _, l := range strings.Split(b, "\n") {
			t := strings.TrimSpace(l)
			switch {
			case strings.HasPrefix(t, "Write at") || strings.HasPrefix(t, "Read at") ||
				strings.HasPrefix(t, "Previous write at") || strings.HasPrefix(t, "Previous read at"):
				wantTop = true
			case wantTop && raceFrame.MatchString(l):
				tops = append(tops, raceFrame.FindStringSubmatch(l)[1])
				wantTop = false
			}
		}
		if len(tops) >= 2 {
			p := tops[:2]
			sort.Strings(p)
			sig := p[0] + " <-> " + p[1]
			if _, ok := sigs[sig]; !ok {
				sigs[sig] = firstLines(b, 30)
			}
		}
	}
	return sigs
}

func firstLines(s string, n int) string {
	l := strings.Split(s, "\n")
	if len(l) > n {
		l = l[:n]
	}
	return strings.Join(l, "\n")
}

func TestC15Race(t *testing.T) {
	if os.Getenv("C15_RACE_WORKER") != "" {
		raceWorker()
		return
	}
	run := evid.Start("C15", "model_checking")
	if rp := os.Getenv("VERIF_REPLAY"); rp != "" {
		fmt.Printf("INFO race target: nothing to replay for %s (replays are handled by the main target)\n", rp)
		os.Exit(run.Finish(map[string]any{"samples": []any{rp}, "states": 1, "transitions": 1, "traces_validated_against_impl": 0,
			"evaluations": 1, "distinct_nontrivial": 2, "exhaustive": false}))
	}
	self := os.Getenv("VERIF_SELF")
	if self == "" {
		self = os.Args[0]
	}
	dir := os.Getenv("VERIF_SCRATCH")
	if dir == "" {
		dir = os.TempDir()
	}
	var (
		reports []map[string]string
		last    raceWorkerOut
		execs   int64
		caps    = []string{}
		viol    = map[string]int{}
		violDoc = map[string]raceWorkerViol{}
	)
	for attempt := 1; attempt <= 3; attempt++ {
		res := filepath.Join(dir, fmt.Sprintf("race_worker_%d.json", attempt))
		logp := filepath.Join(dir, fmt.Sprintf("race_log_%d", attempt))
		cmd := exec.Command(self, "-test.run", "TestC15Race$", "-test.count=1", "-test.timeout", "1h")
		cmd.Env = append(os.Environ(), "C15_RACE_WORKER=1", "C15_RACE_RESULT="+res,
			"GORACE=halt_on_error=0 exitcode=0 log_path="+logp)
		b, err := cmd.CombinedOutput()
		var o raceWorkerOut
		if rb, rerr := os.ReadFile(res); rerr == nil {
			_ = json.Unmarshal(rb, &o)
		} else {
			fmt.Printf("INFO race worker %d produced no result: %v\n%s\n", attempt, err, firstLines(string(b), 40))
			caps = append(caps, fmt.Sprintf("race worker %d failed", attempt))
			continue
		}
		var text strings.Builder
		logs, _ := filepath.Glob(logp + ".*")
		for _, l := range logs {
			if lb, err := os.ReadFile(l); err == nil {
				text.Write(lb)
			}
		}
		text.Write(b)
		sigs := parseRaceReports(text.String())
		reports = append(reports, sigs)
		execs += o.Executions
		last = o
		if o.Capped {
			caps = append(caps, fmt.Sprintf("race worker %d: budget", attempt))
		}
		for _, v := range o.Violations {
			viol[v.Sig]++
			violDoc[v.Sig] = v
		}
		fmt.Printf("INFO race worker run %d: %d cases, %d executions, %d distinct outcomes, %d race report(s), %d clause violation(s)\n",
			attempt, o.Cases, o.Executions, o.Outcomes, len(sigs), len(o.Violations))
	}
	seenRace := map[string]int{}
	text := map[string]string{}
	for _, r := range reports {
		for s, tx := range r {
			seenRace[s]++
			text[s] = tx
		}
	}
	confirmed := 0
	for s, n := range seenRace {
		if n >= 3 && len(reports) >= 3 {
			confirmed++
			run.Violation("race:"+s, "data race between "+s+" reported in 3 of 3 free-running runs of the interleaving cases; first report: "+
				strings.ReplaceAll(text[s], "\n", " | "), map[string]any{"kind": "race", "frames": s})
		}
	}
	for s, n := range viol {
		// clause violations of free-running executions are schedule dependent; they are
		// reported when they occurred in every worker run
		if n >= 3 {
			run.Violation(s, violDoc[s].What, violDoc[s].Doc)
		} else {
			caps = append(caps, fmt.Sprintf("free-running clause violation %s seen in %d of 3 runs only (not reported)", s, n))
		}
	}
	cov := map[string]any{
		"states": 1, "transitions": execs, "traces_validated_against_impl": execs,
		"evaluations": execs, "distinct_nontrivial": last.Outcomes,
		"samples":     []any{map[string]any{"free_running_cases": last.Sample}},
		"exhaustive":  len(caps) == 0,
		"caps_hit":    caps,
		"race_target": map[string]any{"worker_runs": len(reports), "cases": last.Cases, "executions": execs,
			"race_reports_seen": len(seenRace), "race_reports_confirmed_3x": confirmed, "clauses_exercised_last_run": last.Clauses},
	}
	run.Assumptions = append(run.Assumptions, "race target: goroutine schedules of the free-running executions are whatever the Go runtime produces (samples); only the race detector's reports and the oracle clauses are judged there")
	if code := run.Finish(cov); code != 0 {
		os.Exit(code)
	}
}
