// C15 world: one real invoices.InvoiceRegistry per invoice store -- the key-value
// store (channeldb on bbolt) and the SQL store (invoices.SQLStore on sqlite) -- driven
// in lock-step by the same event sequence. Everything the oracle judges is read through
// the exported API: the HtlcResolution values returned by NotifyExitHopHtlc, the
// resolutions delivered on the hodl channel, and LookupInvoice after every event.
//
// Time. The stores use a clock.TestClock. The registry's own clock is vclock below
// (an implementation of the exported clock.Clock interface): clock.TestClock has a
// window between the registry's `now := Clock.Now()` and `Clock.TickAfter(t.Sub(now))`
// (invoiceregistry.go tickAt) in which a SetTime from the test makes the timer fire one
// advance late; vclock closes that window (TickAfter is relative to the time the clock
// last handed out). The only time-advancing event is `t` (set timeout): both clocks
// jump by one HtlcHoldDuration, so every auto-release timer started before it is due,
// and the event then waits for the registry's completion signal -- the cancel
// resolution on the hodl channel for every HTLC that is accepted on an open invoice --
// never for wall-clock time.
package c15

import (
	"bytes"
	"context"
	"crypto/sha256"
	"database/sql"
	"errors"
	"fmt"
	"os"
	"path/filepath"
	"sort"
	"strconv"
	"strings"
	"sync"
	"sync/atomic"
	"time"

	"github.com/btcsuite/btcd/chainhash/v2"
	"github.com/lightningnetwork/lnd/amp"
	"github.com/lightningnetwork/lnd/chainntnfs"
	"github.com/lightningnetwork/lnd/channeldb"
	"github.com/lightningnetwork/lnd/clock"
	invpkg "github.com/lightningnetwork/lnd/invoices"
	"github.com/lightningnetwork/lnd/kvdb"
	"github.com/lightningnetwork/lnd/lntypes"
	"github.com/lightningnetwork/lnd/lnwire"
	"github.com/lightningnetwork/lnd/record"
	"github.com/lightningnetwork/lnd/sqldb"
	"github.com/lightningnetwork/lnd/verifmc/vsched"
)

// ---------------------------------------------------------------------------------
// universe

const (
	baseHeight  = int32(100)
	rejectDelta = int32(10) // RegistryConfig.FinalCltvRejectDelta
	holdDur     = 10 * time.Second
	valueV      = int64(1000) // invoice value v in msat
	maxKeys     = 3 // default bound on recorded HTLCs per invoice (a Space may raise it to 4)
	allKeys     = 8 // circuit keys that exist
)

var (
	startTime = time.Date(2024, time.March, 1, 12, 0, 0, 0, time.UTC)

	invPreimage  = mkPreimage("c15 invoice preimage")
	invHash      = invPreimage.Hash()
	wrongPreimg  = mkPreimage("c15 some other preimage")
	ksPreimage   = mkPreimage("c15 keysend preimage")
	ksHash       = ksPreimage.Hash()
	ksWrongPre   = mkPreimage("c15 keysend wrong preimage")
	rightAddr    = sha256.Sum256([]byte("c15 payment address"))
	wrongAddr    = sha256.Sum256([]byte("c15 wrong payment address"))
	ampInvHash   = lntypes.Hash(sha256.Sum256([]byte("c15 amp invoice pseudo hash")))
	// amp set 3 carries the all-zero set id (the value update.go / sql_store.go single out as "blank")
	ampSetIDs    = [4][32]byte{{}, sha256.Sum256([]byte("c15 amp set 1")), sha256.Sum256([]byte("c15 amp set 2")), {}}
	ampRoots     = [4]amp.Share{{}, amp.Share(sha256.Sum256([]byte("c15 amp root 1"))), amp.Share(sha256.Sum256([]byte("c15 amp root 2"))), amp.Share(sha256.Sum256([]byte("c15 amp root 3")))}
	ampFirstHalf = [4]amp.Share{{}, amp.Share(sha256.Sum256([]byte("c15 amp share 1a"))), amp.Share(sha256.Sum256([]byte("c15 amp share 2a"))), amp.Share(sha256.Sum256([]byte("c15 amp share 3a")))}
	zeroAddr     [32]byte         // == invoices.BlankPayAddr
	zeroHash     lntypes.Hash     // all-zero payment hash
	zeroPreimage lntypes.Preimage // all-zero preimage
)

func mkPreimage(s string) lntypes.Preimage {
	return lntypes.Preimage(sha256.Sum256([]byte(s)))
}

// ampChild returns the child (share, index, hash, preimage) of shard j ('0' / '1' of the
// two-way split of the set's root seed, 's' = the single shard carrying the whole root).
func ampChild(set int, shard byte) *amp.Child {
	root := ampRoots[set]
	switch shard {
	case '0':
		return amp.DeriveChild(root, amp.ChildDesc{Share: ampFirstHalf[set], Index: 0})
	case '1':
		var other amp.Share
		other.Xor(&root, &ampFirstHalf[set])
		return amp.DeriveChild(root, amp.ChildDesc{Share: other, Index: 1})
	default:
		return amp.DeriveChild(root, amp.ChildDesc{Share: root, Index: 0})
	}
}

// Kind is one invoice kind of the universe.
type Kind struct {
	Name     string
	Value    int64
	Hold     bool
	AMP      bool
	Blinded  bool
	JIT      string // "" | "keysend" | "amp": no invoice exists up front
	InvDelta int32  // Terms.FinalCltvDelta of the pre-created invoice
}

var kinds = map[string]Kind{
	"regular": {Name: "regular", Value: valueV, InvDelta: 12},
	"hold":    {Name: "hold", Value: valueV, Hold: true, InvDelta: 12},
	// invoice delta below the registry's reject delta: the reject delta is the binding margin
	"zero":    {Name: "zero", Value: 0, InvDelta: 8},
	"amp":     {Name: "amp", Value: valueV, AMP: true, InvDelta: 12},
	"blinded": {Name: "blinded", Value: valueV, Blinded: true, InvDelta: 12},
	"keysend": {Name: "keysend", JIT: "keysend", InvDelta: rejectDelta},
	"ampjit":  {Name: "ampjit", JIT: "amp", AMP: true, InvDelta: rejectDelta},
}

// margin is the final-CLTV margin an accepted HTLC must leave on this kind.
func (k Kind) margin() int32 {
	if k.InvDelta > rejectDelta {
		return k.InvDelta
	}
	return rejectDelta
}

func (k Kind) features() *lnwire.FeatureVector {
	var bits []lnwire.FeatureBit
	switch {
	case k.AMP:
		bits = []lnwire.FeatureBit{lnwire.TLVOnionPayloadRequired, lnwire.PaymentAddrRequired, lnwire.AMPRequired}
	case k.Blinded:
		// what rpcserver.go generates for an invoice with blinded paths
		bits = []lnwire.FeatureBit{lnwire.TLVOnionPayloadRequired, lnwire.PaymentAddrOptional, lnwire.MPPOptional,
			lnwire.RouteBlindingOptional, lnwire.Bolt11BlindedPathsRequired}
	default:
		bits = []lnwire.FeatureBit{lnwire.TLVOnionPayloadRequired, lnwire.PaymentAddrRequired, lnwire.MPPOptional}
	}
	return lnwire.NewFeatureVector(lnwire.NewRawFeatureVector(bits...), lnwire.Features)
}

func (k Kind) invoice() *invpkg.Invoice {
	inv := &invpkg.Invoice{
		CreationDate: startTime,
		Memo:         []byte("c15"),
		// a payment request makes the invoice a non-keysend one for lnd
		PaymentRequest: []byte("lnbc-c15-" + k.Name),
		Terms: invpkg.ContractTerm{
			FinalCltvDelta: k.InvDelta,
			Expiry:         1000 * time.Hour,
			Value:          lnwire.MilliSatoshi(k.Value),
			PaymentAddr:    rightAddr,
			Features:       k.features(),
		},
		HodlInvoice: k.Hold,
	}
	if !k.Hold && !k.AMP {
		p := invPreimage
		inv.Terms.PaymentPreimage = &p
	}
	return inv
}

func (k Kind) invoiceHash() lntypes.Hash {
	if k.AMP {
		return ampInvHash
	}
	return invHash
}

// ---------------------------------------------------------------------------------
// events

// htlcSpec is everything the sender chooses about one HTLC.
type htlcSpec struct {
	// 'L' legacy, 'M' mpp record, 'P' blinded path id + total, 'K' keysend record, 'A' amp+mpp,
	// 'Z' mpp record on an HTLC locked to the ALL-ZERO payment hash
	Pay   byte
	Addr  byte // 'r' right, 'w' wrong (non-zero), 'z' all-zero (BlankPayAddr), 0 no record
	Tot   byte // '-' v-1, '0' v, '+' v+1, 'z' zero, 0 none
	Amt   int64
	Exp   string // "lo" margin-1, "ok" margin, "hi" margin+1 above the base height, "z" expiry 0
	Set   int    // amp set 1|2, 3 = the all-zero set id
	Zero  bool   // keysend: all-zero preimage in the record
	Shard byte   // '0' '1' 's'
	Bad   bool   // amp: corrupted share; keysend: wrong preimage in the record
	KsMpp bool   // keysend record together with an mpp record
}

func totalOf(t byte) int64 {
	switch t {
	case '-':
		return valueV - 1
	case '+':
		return valueV + 1
	case 'z':
		return 0
	}
	return valueV
}

// parseHTLC parses "h:<pay>:<amt>:<exp>".
func parseHTLC(op string) (htlcSpec, error) {
	f := strings.Split(op, ":")
	if len(f) != 4 || f[0] != "h" || len(f[1]) == 0 {
		return htlcSpec{}, fmt.Errorf("bad htlc op %q", op)
	}
	var s htlcSpec
	p := f[1]
	s.Pay = p[0]
	switch s.Pay {
	case 'L':
		if len(p) != 1 {
			return s, fmt.Errorf("bad pay %q", p)
		}
	case 'M', 'P', 'Z':
		if len(p) != 3 {
			return s, fmt.Errorf("bad pay %q", p)
		}
		s.Addr, s.Tot = p[1], p[2]
	case 'K':
		if len(p) != 2 {
			return s, fmt.Errorf("bad pay %q", p)
		}
		switch p[1] {
		case 'r':
		case 'w':
			s.Bad = true
		case 'm':
			s.KsMpp = true
		case 'z':
			s.Zero = true
		default:
			return s, fmt.Errorf("bad pay %q", p)
		}
	case 'A':
		if len(p) != 6 {
			return s, fmt.Errorf("bad pay %q", p)
		}
		s.Set = int(p[1] - '0')
		s.Shard, s.Addr, s.Tot = p[2], p[3], p[4]
		s.Bad = p[5] == 'b'
		if s.Set < 1 || s.Set > 3 {
			return s, fmt.Errorf("bad set in %q", p)
		}
	default:
		return s, fmt.Errorf("bad pay %q", p)
	}
	a, err := strconv.ParseInt(f[2], 10, 64)
	if err != nil {
		return s, err
	}
	s.Amt = a
	s.Exp = f[3]
	if s.Exp != "lo" && s.Exp != "ok" && s.Exp != "hi" && s.Exp != "z" {
		return s, fmt.Errorf("bad expiry %q", f[3])
	}
	return s, nil
}

// declaredTotal is the total the HTLC declares; an HTLC without a total record declares
// itself to be the whole payment.
func (s htlcSpec) declaredTotal() int64 {
	if s.Tot == 0 {
		return s.Amt
	}
	return totalOf(s.Tot)
}

func (s htlcSpec) hasTotal() bool { return s.Tot != 0 }

// hash is the payment hash the HTLC is locked to.
func (s htlcSpec) hash(k Kind) lntypes.Hash {
	switch {
	case s.Pay == 'A':
		return ampChild(s.Set, s.Shard).Hash
	case s.Pay == 'Z':
		return zeroHash
	case s.Pay == 'K':
		return ksHash
	case k.JIT == "keysend":
		return ksHash
	default:
		return k.invoiceHash()
	}
}

func (s htlcSpec) absExpiry(k Kind) uint32 {
	e := baseHeight + k.margin()
	switch s.Exp {
	case "lo":
		e--
	case "hi":
		e++
	case "z":
		return 0
	}
	return uint32(e)
}

type payload struct {
	mpp     *record.MPP
	amp     *record.AMP
	custom  record.CustomSet
	pathID  *chainhash.Hash
	totalMs lnwire.MilliSatoshi
}

func (p *payload) MultiPath() *record.MPP          { return p.mpp }
func (p *payload) AMPRecord() *record.AMP          { return p.amp }
func (p *payload) Metadata() []byte                { return nil }
func (p *payload) PathID() *chainhash.Hash         { return p.pathID }
func (p *payload) TotalAmtMsat() lnwire.MilliSatoshi { return p.totalMs }
func (p *payload) CustomRecords() record.CustomSet {
	if p.custom == nil {
		return make(record.CustomSet)
	}
	return p.custom
}

func addrOf(a byte) [32]byte {
	switch a {
	case 'w':
		return wrongAddr
	case 'z':
		return zeroAddr
	}
	return rightAddr
}

func (s htlcSpec) payload() *payload {
	p := &payload{}
	switch s.Pay {
	case 'M', 'Z':
		p.mpp = record.NewMPP(lnwire.MilliSatoshi(totalOf(s.Tot)), addrOf(s.Addr))
	case 'P':
		a := chainhash.Hash(addrOf(s.Addr))
		p.pathID = &a
		p.totalMs = lnwire.MilliSatoshi(totalOf(s.Tot))
	case 'K':
		pre := ksPreimage
		if s.Bad {
			pre = ksWrongPre
		}
		if s.Zero {
			pre = zeroPreimage
		}
		p.custom = record.CustomSet{record.KeySendType: append([]byte{}, pre[:]...)}
		if s.KsMpp {
			p.mpp = record.NewMPP(lnwire.MilliSatoshi(valueV), rightAddr)
		}
	case 'A':
		c := ampChild(s.Set, s.Shard)
		share := [32]byte(c.Share)
		if s.Bad {
			share[0] ^= 1
		}
		p.mpp = record.NewMPP(lnwire.MilliSatoshi(totalOf(s.Tot)), addrOf(s.Addr))
		p.amp = record.NewAMP(share, ampSetIDs[s.Set], c.Index)
	}
	return p
}

func circuitKey(k int) invpkg.CircuitKey {
	// one channel ("link") per key: concurrent notifications come from several links
	return invpkg.CircuitKey{
		ChanID: lnwire.ShortChannelID{BlockHeight: 700000, TxIndex: uint32(k), TxPosition: 0},
		HtlcID: uint64(10 + k),
	}
}

func keyIndex(ck invpkg.CircuitKey) int {
	for k := 1; k <= allKeys; k++ {
		if circuitKey(k) == ck {
			return k
		}
	}
	return 0
}

// ---------------------------------------------------------------------------------
// clock

// vclock implements clock.Clock. TickAfter(d) is relative to the time most recently
// returned by Now(): the registry computes d from such a reading (tickAt), so the timer
// is placed at the absolute time the registry meant even if the harness advanced the
// clock in between.
type vclock struct {
	mu      sync.Mutex
	cur     time.Time
	lastNow time.Time
	timers  []vtimer
}

type vtimer struct {
	at time.Time
	ch chan time.Time
}

func newVclock(t time.Time) *vclock { return &vclock{cur: t, lastNow: t} }

func (c *vclock) Now() time.Time {
	c.mu.Lock()
	defer c.mu.Unlock()
	c.lastNow = c.cur
	return c.cur
}

func (c *vclock) TickAfter(d time.Duration) <-chan time.Time {
	c.mu.Lock()
	defer c.mu.Unlock()
	ch := make(chan time.Time, 1)
	at := c.lastNow.Add(d)
	if !at.After(c.cur) {
		ch <- c.cur
		return ch
	}
	c.timers = append(c.timers, vtimer{at: at, ch: ch})
	return ch
}

func (c *vclock) Advance(d time.Duration) {
	c.mu.Lock()
	defer c.mu.Unlock()
	c.cur = c.cur.Add(d)
	keep := c.timers[:0]
	for _, t := range c.timers {
		if t.at.After(c.cur) {
			keep = append(keep, t)
			continue
		}
		t.ch <- c.cur
	}
	c.timers = keep
}

// ---------------------------------------------------------------------------------
// databases

var scratchSeq atomic.Int64

func scratchRoot() string {
	if d := os.Getenv("VERIF_SCRATCH"); d != "" {
		return d
	}
	return os.TempDir()
}

func newScratchDir(prefix string) (string, error) {
	d := filepath.Join(scratchRoot(), fmt.Sprintf("%s-%d-%d", prefix, os.Getpid(), scratchSeq.Add(1)))
	return d, os.MkdirAll(d, 0o755)
}

func copyFile(src, dst string) error {
	b, err := os.ReadFile(src)
	if err != nil {
		return err
	}
	return os.WriteFile(dst, b, 0o600)
}

var (
	sqlTplOnce sync.Once
	sqlTplPath string
	sqlTplErr  error
	kvTplOnce  sync.Once
	kvTplPath  string
	kvTplErr   error
)

// sqlTemplate creates one fully migrated sqlite file; fresh databases are byte copies.
func sqlTemplate() (string, error) {
	sqlTplOnce.Do(func() {
		dir, err := newScratchDir("c15-sqltpl")
		if err != nil {
			sqlTplErr = err
			return
		}
		p := filepath.Join(dir, "tpl.db")
		st, err := sqldb.NewSqliteStore(&sqldb.SqliteConfig{SkipMigrations: false}, p)
		if err != nil {
			sqlTplErr = err
			return
		}
		if err := st.ApplyAllMigrations(context.Background(), sqldb.GetMigrations()); err != nil {
			sqlTplErr = err
			return
		}
		if _, err := st.DB.Exec("PRAGMA wal_checkpoint(TRUNCATE)"); err != nil {
			sqlTplErr = err
			return
		}
		if err := st.DB.Close(); err != nil {
			sqlTplErr = err
			return
		}
		sqlTplPath = p
	})
	return sqlTplPath, sqlTplErr
}

func boltCfg(dir string) *kvdb.BoltBackendConfig {
	return &kvdb.BoltBackendConfig{
		DBPath: dir, DBFileName: "channel.db", NoFreelistSync: true,
		AutoCompact: false, AutoCompactMinAge: kvdb.DefaultBoltAutoCompactMinAge,
		DBTimeout: kvdb.DefaultDBTimeout,
	}
}

// kvTemplate creates one initialised channeldb file; fresh databases are byte copies.
func kvTemplate() (string, error) {
	kvTplOnce.Do(func() {
		dir, err := newScratchDir("c15-kvtpl")
		if err != nil {
			kvTplErr = err
			return
		}
		be, err := kvdb.GetBoltBackend(boltCfg(dir))
		if err != nil {
			kvTplErr = err
			return
		}
		if _, err := channeldb.CreateWithBackend(be); err != nil {
			kvTplErr = err
			return
		}
		if err := be.Close(); err != nil {
			kvTplErr = err
			return
		}
		kvTplPath = filepath.Join(dir, "channel.db")
	})
	return kvTplPath, kvTplErr
}

func openKV(clk clock.Clock) (invpkg.InvoiceDB, func(), error) {
	tpl, err := kvTemplate()
	if err != nil {
		return nil, nil, err
	}
	dir, err := newScratchDir("c15-kv")
	if err != nil {
		return nil, nil, err
	}
	if err := copyFile(tpl, filepath.Join(dir, "channel.db")); err != nil {
		return nil, nil, err
	}
	be, err := kvdb.GetBoltBackend(boltCfg(dir))
	if err != nil {
		_ = os.RemoveAll(dir)
		return nil, nil, err
	}
	cdb, err := channeldb.CreateWithBackend(be, channeldb.OptionClock(clk), channeldb.OptionNoMigration(true))
	if err != nil {
		_ = be.Close()
		_ = os.RemoveAll(dir)
		return nil, nil, err
	}
	return cdb, func() { _ = be.Close(); _ = os.RemoveAll(dir) }, nil
}

func openSQL(clk clock.Clock) (invpkg.InvoiceDB, func(), error) {
	tpl, err := sqlTemplate()
	if err != nil {
		return nil, nil, err
	}
	dir, err := newScratchDir("c15-sql")
	if err != nil {
		return nil, nil, err
	}
	p := filepath.Join(dir, "inv.db")
	if err := copyFile(tpl, p); err != nil {
		return nil, nil, err
	}
	st, err := sqldb.NewSqliteStore(&sqldb.SqliteConfig{SkipMigrations: true}, p)
	if err != nil {
		_ = os.RemoveAll(dir)
		return nil, nil, err
	}
	base := st.BaseDB
	exec := sqldb.NewTransactionExecutor(base, func(tx *sql.Tx) invpkg.SQLInvoiceQueries {
		return base.WithTx(tx)
	})
	return invpkg.NewSQLStore(exec, clk), func() { _ = st.DB.Close(); _ = os.RemoveAll(dir) }, nil
}

// pointDB wraps an InvoiceDB: every call the registry makes is a scheduling point of
// the cooperative scheduler (a no-op for goroutines that are not scheduler threads, i.e.
// in the sequential exploration and for lnd's own goroutines) and is counted.
//
// The one registry activity that touches the store WITHOUT the registry lock is the
// set-timeout cancellation issued by the registry's event loop (cancelSingleHtlc). For the
// interleaving part the gate makes that UpdateInvoice call a schedulable step as well: the
// controller fires the timer at the chosen schedule point while every link thread is
// parked, and the gate reports when the event loop's (atomic) store transaction has
// completed and whether its callback produced an update.
type pointDB struct {
	invpkg.InvoiceDB
	calls *dbCalls
	gate  *txGate
}

type dbCalls struct{ add, lookup, update atomic.Int64 }

// txGate intercepts the next UpdateInvoice call made by a goroutine that is not a
// scheduler thread.
type txGate struct {
	mode atomic.Int32 // 0 off, 2 report the completion of the next such call
	done chan bool
}

func newTxGate() *txGate {
	return &txGate{done: make(chan bool, 1)}
}

func (d *pointDB) AddInvoice(ctx context.Context, i *invpkg.Invoice, h lntypes.Hash) (uint64, error) {
	vsched.Yield("db.AddInvoice")
	d.calls.add.Add(1)
	return d.InvoiceDB.AddInvoice(ctx, i, h)
}

func (d *pointDB) LookupInvoice(ctx context.Context, ref invpkg.InvoiceRef) (invpkg.Invoice, error) {
	vsched.Yield("db.LookupInvoice")
	d.calls.lookup.Add(1)
	return d.InvoiceDB.LookupInvoice(ctx, ref)
}

func (d *pointDB) UpdateInvoice(ctx context.Context, ref invpkg.InvoiceRef, setID *invpkg.SetID,
	cb invpkg.InvoiceUpdateCallback) (*invpkg.Invoice, error) {

	d.calls.update.Add(1)
	if g := d.gate; g != nil && g.mode.Load() != 0 && vsched.Current() == nil {
		if m := g.mode.Swap(0); m != 0 {
			updated := false
			inv, err := d.InvoiceDB.UpdateInvoice(ctx, ref, setID, func(i *invpkg.Invoice) (*invpkg.InvoiceUpdateDesc, error) {
				desc, err := cb(i)
				updated = desc != nil && err == nil
				return desc, err
			})
			g.done <- updated && err == nil
			return inv, err
		}
	}
	vsched.Yield("db.UpdateInvoice")
	return d.InvoiceDB.UpdateInvoice(ctx, ref, setID, cb)
}

// ---------------------------------------------------------------------------------
// one registry on one store

type nullNotifier struct {
	chainntnfs.ChainNotifier
	ch chan *chainntnfs.BlockEpoch
}

func (n *nullNotifier) RegisterBlockEpochNtfn(*chainntnfs.BlockEpoch) (*chainntnfs.BlockEpochEvent, error) {
	return &chainntnfs.BlockEpochEvent{Epochs: n.ch, Cancel: func() {}}, nil
}

type passInterceptor struct{}

func (passInterceptor) Intercept(invpkg.HtlcModifyRequest, func(invpkg.HtlcModifyResponse)) error {
	return nil
}

// Verdict is what the registry told the link about one HTLC.
type Verdict struct {
	Kind     string // "accept" | "settle" | "fail" | "error"
	Outcome  string // fail/settle outcome code, or the error text
	Preimage *lntypes.Preimage
	Key      int
}

func (v Verdict) String() string {
	if v.Kind == "accept" {
		return "accept(held)"
	}
	return v.Kind + "(" + v.Outcome + ")"
}

// htlcObs / invObs: the canonical observation of LookupInvoice.
type htlcObs struct {
	Key     int    `json:"k"`
	State   string `json:"st"`
	Amt     int64  `json:"amt"`
	Total   int64  `json:"tot"`
	Expiry  uint32 `json:"exp"`
	AccH    uint32 `json:"acch"`
	Set     int    `json:"set,omitempty"`   // amp set number (0 = none, 9 = unknown set id)
	Child   int    `json:"child,omitempty"` // amp child index
	HasPre  bool   `json:"pre,omitempty"`   // amp preimage stored
	PreOK   bool   `json:"preok,omitempty"` // stored amp preimage hashes to the stored amp hash
	amtSeen bool
}

type ampObs struct {
	Set   int    `json:"set"`
	State string `json:"st"`
	Paid  int64  `json:"paid"`
	Keys  []int  `json:"keys"`
}

type invObs struct {
	Found    bool      `json:"found"`
	Err      string    `json:"err,omitempty"`
	State    string    `json:"st,omitempty"`
	Value    int64     `json:"value,omitempty"`
	AmtPaid  int64     `json:"paid,omitempty"`
	HasPre   bool      `json:"pre,omitempty"`
	PreOK    bool      `json:"preok,omitempty"`
	AddrReq  bool      `json:"addrreq,omitempty"`
	IsAMP    bool      `json:"amp,omitempty"`
	Blinded  bool      `json:"blinded,omitempty"`
	CltvD    int32     `json:"cltv,omitempty"`
	Htlcs    []htlcObs `json:"htlcs,omitempty"`
	AMP      []ampObs  `json:"ampsets,omitempty"`
	AddrOK   bool      `json:"addrok,omitempty"`
	HodlInv  bool      `json:"hodl,omitempty"`
	hashUsed lntypes.Hash
}

func (o invObs) htlc(k int) *htlcObs {
	for i := range o.Htlcs {
		if o.Htlcs[i].Key == k {
			return &o.Htlcs[i]
		}
	}
	return nil
}

func (o invObs) ampSet(s int) *ampObs {
	for i := range o.AMP {
		if o.AMP[i].Set == s {
			return &o.AMP[i]
		}
	}
	return nil
}

// canon renders the observation as the state key component.
func (o invObs) canon() string {
	if !o.Found {
		if o.Err != "" {
			return "noinv(" + o.Err + ")"
		}
		return "noinv"
	}
	var b strings.Builder
	fmt.Fprintf(&b, "%s paid=%d val=%d pre=%v/%v", o.State, o.AmtPaid, o.Value, o.HasPre, o.PreOK)
	for _, h := range o.Htlcs {
		fmt.Fprintf(&b, " [k%d %s amt=%d tot=%d exp=%d acc=%d", h.Key, h.State, h.Amt, h.Total, h.Expiry, h.AccH)
		if h.Set != 0 {
			fmt.Fprintf(&b, " set=%d/%d pre=%v/%v", h.Set, h.Child, h.HasPre, h.PreOK)
		}
		b.WriteString("]")
	}
	for _, a := range o.AMP {
		fmt.Fprintf(&b, " {set%d %s paid=%d keys=%v}", a.Set, a.State, a.Paid, a.Keys)
	}
	return b.String()
}

func htlcStateName(s invpkg.HtlcState) string {
	switch s {
	case invpkg.HtlcStateAccepted:
		return "acc"
	case invpkg.HtlcStateSettled:
		return "set"
	case invpkg.HtlcStateCanceled:
		return "can"
	}
	return fmt.Sprintf("?%d", s)
}

func setNumber(id [32]byte) int {
	for i := 1; i <= 3; i++ {
		if ampSetIDs[i] == id {
			return i
		}
	}
	return 9
}

func observe(inv *invpkg.Invoice) invObs {
	o := invObs{Found: true, State: inv.State.String(), Value: int64(inv.Terms.Value), AmtPaid: int64(inv.AmtPaid),
		CltvD: inv.Terms.FinalCltvDelta, IsAMP: inv.IsAMP(), Blinded: inv.IsBlinded(), HodlInv: inv.HodlInvoice}
	if inv.Terms.Features != nil {
		o.AddrReq = inv.Terms.Features.RequiresFeature(lnwire.PaymentAddrRequired)
	}
	o.AddrOK = inv.Terms.PaymentAddr == rightAddr
	if p := inv.Terms.PaymentPreimage; p != nil {
		o.HasPre = true
		o.PreOK = p.Hash() == invHash || p.Hash() == ksHash
	}
	for ck, h := range inv.Htlcs {
		ho := htlcObs{Key: keyIndex(ck), State: htlcStateName(h.State), Amt: int64(h.Amt), Total: int64(h.MppTotalAmt),
			Expiry: h.Expiry, AccH: h.AcceptHeight}
		if h.AMP != nil {
			ho.Set = setNumber(h.AMP.Record.SetID())
			ho.Child = int(h.AMP.Record.ChildIndex())
			if h.AMP.Preimage != nil {
				ho.HasPre = true
				ho.PreOK = h.AMP.Preimage.Matches(h.AMP.Hash)
			}
		}
		o.Htlcs = append(o.Htlcs, ho)
	}
	sort.Slice(o.Htlcs, func(i, j int) bool { return o.Htlcs[i].Key < o.Htlcs[j].Key })
	for id, st := range inv.AMPState {
		a := ampObs{Set: setNumber(id), State: htlcStateName(st.State), Paid: int64(st.AmtPaid)}
		for ck := range st.InvoiceKeys {
			a.Keys = append(a.Keys, keyIndex(ck))
		}
		sort.Ints(a.Keys)
		o.AMP = append(o.AMP, a)
	}
	sort.Slice(o.AMP, func(i, j int) bool { return o.AMP[i].Set < o.AMP[j].Set })
	return o
}

// side is one registry on one store.
type side struct {
	name   string
	kind   Kind
	raw    invpkg.InvoiceDB
	reg    *invpkg.InvoiceRegistry
	clk    *vclock
	dbClk  *clock.TestClock
	hodl   chan interface{}
	calls  dbCalls
	closer func()
	gate   *txGate
	// verdict history per circuit key: 0 none, 1 held, 2 settle ordered, 3 cancel ordered
	hist    map[int]int
	stalled string
}

func newSide(name string, k Kind) (*side, error) {
	s := &side{name: name, kind: k, hodl: make(chan interface{}, 256), hist: map[int]int{}, gate: newTxGate()}
	s.dbClk = clock.NewTestClock(startTime)
	s.clk = newVclock(startTime)
	var err error
	if name == "kv" {
		s.raw, s.closer, err = openKV(s.dbClk)
	} else {
		s.raw, s.closer, err = openSQL(s.dbClk)
	}
	if err != nil {
		return nil, fmt.Errorf("open %s store: %w", name, err)
	}
	// The expiry watcher gets a clock of its own that never advances and no block
	// epochs: invoice expiry (time- or height-based) is not an event of this universe.
	watcher := invpkg.NewInvoiceExpiryWatcher(
		clock.NewTestClock(startTime), 0, uint32(baseHeight), nil,
		&nullNotifier{ch: make(chan *chainntnfs.BlockEpoch)},
	)
	cfg := &invpkg.RegistryConfig{
		FinalCltvRejectDelta: rejectDelta,
		HtlcHoldDuration:     holdDur,
		Clock:                s.clk,
		AcceptKeySend:        k.JIT == "keysend",
		AcceptAMP:            k.JIT == "amp",
		HtlcInterceptor:      passInterceptor{},
	}
	s.reg = invpkg.NewRegistry(&pointDB{InvoiceDB: s.raw, calls: &s.calls, gate: s.gate}, watcher, cfg)
	if err := s.reg.Start(); err != nil {
		s.closer()
		return nil, fmt.Errorf("registry start (%s): %w", name, err)
	}
	if k.JIT == "" {
		if _, err := s.reg.AddInvoice(context.Background(), k.invoice(), k.invoiceHash()); err != nil {
			s.close()
			return nil, fmt.Errorf("add invoice (%s): %w", name, err)
		}
	}
	return s, nil
}

func (s *side) close() {
	if s.reg != nil {
		_ = s.reg.Stop()
		s.reg = nil
	}
	if s.closer != nil {
		s.closer()
		s.closer = nil
	}
}

// lookup reads the one invoice of the universe through the registry.
func (s *side) lookup() invObs {
	var (
		inv invpkg.Invoice
		err error
	)
	ctx := context.Background()
	switch {
	case s.kind.JIT == "amp":
		inv, err = s.reg.LookupInvoiceByRef(ctx, invpkg.InvoiceRefByAddr(rightAddr))
	case s.kind.JIT == "keysend":
		inv, err = s.reg.LookupInvoice(ctx, ksHash)
	default:
		inv, err = s.reg.LookupInvoice(ctx, s.kind.invoiceHash())
	}
	if err != nil {
		if errors.Is(err, invpkg.ErrInvoiceNotFound) || errors.Is(err, invpkg.ErrNoInvoicesCreated) {
			return invObs{}
		}
		return invObs{Err: firstLine(err.Error())}
	}
	return observe(&inv)
}

func verdictOf(res invpkg.HtlcResolution, err error, key int) Verdict {
	switch {
	case err != nil:
		return Verdict{Kind: "error", Outcome: firstLine(err.Error()), Key: key}
	case res == nil:
		return Verdict{Kind: "accept", Key: key}
	}
	switch r := res.(type) {
	case *invpkg.HtlcSettleResolution:
		p := r.Preimage
		return Verdict{Kind: "settle", Outcome: r.Outcome.String(), Preimage: &p, Key: keyIndex(r.CircuitKey())}
	case *invpkg.HtlcFailResolution:
		return Verdict{Kind: "fail", Outcome: r.Outcome.String(), Key: keyIndex(r.CircuitKey())}
	}
	return Verdict{Kind: "error", Outcome: fmt.Sprintf("unknown resolution %T", res), Key: key}
}

// drain collects what is on the hodl channel right now.
func (s *side) drain() []Verdict {
	var out []Verdict
	for {
		select {
		case m := <-s.hodl:
			if r, ok := m.(invpkg.HtlcResolution); ok {
				out = append(out, verdictOf(r, nil, 0))
			} else {
				out = append(out, Verdict{Kind: "error", Outcome: fmt.Sprintf("hodl channel carried %T", m)})
			}
		default:
			return out
		}
	}
}

func (s *side) notify(spec htlcSpec, key int, height int32) Verdict {
	res, err := s.reg.NotifyExitHopHtlc(
		spec.hash(s.kind), lnwire.MilliSatoshi(spec.Amt), spec.absExpiry(s.kind), height,
		circuitKey(key), s.hodl, nil, spec.payload(),
	)
	return verdictOf(res, err, key)
}

// stallGuard bounds how long the timeout event waits for a completion signal. It is not an
// oracle: when it expires the world is marked stalled and the run is reported as not
// exhaustive.
var stallGuard = 180 * time.Second

// timeout advances both clocks by one hold duration and waits until the registry has
// delivered the cancel resolution of every HTLC that was accepted on the open invoice.
func (s *side) timeout(pre invObs) []Verdict {
	due := map[int]bool{}
	if pre.Found && pre.State == "Open" {
		for _, h := range pre.Htlcs {
			if h.State == "acc" {
				due[h.Key] = true
			}
		}
	}
	s.dbClk.SetTime(s.dbClk.Now().Add(holdDur))
	s.clk.Advance(holdDur)
	var out []Verdict
	guard := time.NewTimer(stallGuard)
	defer guard.Stop()
	for len(due) > 0 {
		select {
		case m := <-s.hodl:
			r, ok := m.(invpkg.HtlcResolution)
			if !ok {
				out = append(out, Verdict{Kind: "error", Outcome: fmt.Sprintf("hodl channel carried %T", m)})
				continue
			}
			v := verdictOf(r, nil, 0)
			out = append(out, v)
			delete(due, v.Key)
		case <-guard.C:
			var ks []int
			for k := range due {
				ks = append(ks, k)
			}
			sort.Ints(ks)
			s.stalled = fmt.Sprintf("no resolution for timed-out htlc(s) %v on %s within %v", ks, s.name, stallGuard)
			return out
		}
	}
	return append(out, s.drain()...)
}

// awaitHodl waits for the next resolution on the hodl channel (completion signal).
func (s *side) awaitHodl() (Verdict, bool) {
	guard := time.NewTimer(stallGuard)
	defer guard.Stop()
	select {
	case m := <-s.hodl:
		if r, ok := m.(invpkg.HtlcResolution); ok {
			return verdictOf(r, nil, 0), true
		}
		return Verdict{Kind: "error", Outcome: fmt.Sprintf("hodl channel carried %T", m)}, true
	case <-guard.C:
		return Verdict{}, false
	}
}

func firstLine(s string) string {
	if i := strings.IndexByte(s, '\n'); i >= 0 {
		s = s[:i]
	}
	if len(s) > 160 {
		s = s[:160]
	}
	return s
}

var _ = bytes.Equal
