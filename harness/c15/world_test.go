// C15 world: one real invoices.InvoiceRegistry per invoice store -- the key-value
// store (channeldb on bbolt) and the SQL store (invoices.SQLStore on sqlite) -- driven
// in lock-step by the same event sequence. Everything the oracle judges is read through
// the exported API: the HtlcResolution values returned by NotifyExitHopHtlc, the
// resolutions delivered on the hodl channel, and LookupInvoice after every event.
//
// Time. The stores use a clock.TestClock. The registry's own clock is vclock below
// (an implementation of the exported clock.Clock interface): clock.TestClock has a
// window between the registry's `now := Clock.Now()` and `Clock.TickAfter(t.Sub(now))`
// (invoiceregistry.go tickAt) in which a SetTime from the test makes the timer fire one
// advance late; vclock closes that window (TickAfter is relative to the time the clock
// last handed out). The only time-advancing event is `t` (set timeout): both clocks
// jump by one HtlcHoldDuration, so every auto-release timer started before it is due,
// and the event then waits for the registry's completion signal -- the cancel
// resolution on the hodl channel for every HTLC that is accepted on an open invoice --
// never for wall-clock time.
package c15

import (
	"bytes"
	"context"
	"crypto/sha256"
	"database/sql"
	"errors"
	"fmt"
	"os"
	"path/filepath"
	"runtime"
	"sort"
	"strconv"
	"strings"
	"sync"
	"sync/atomic"
	"time"

	"github.com/btcsuite/btcd/chainhash/v2"
	"github.com/lightningnetwork/lnd/amp"
	"github.com/lightningnetwork/lnd/chainntnfs"
	"github.com/lightningnetwork/lnd/channeldb"
	"github.com/lightningnetwork/lnd/clock"
	invpkg "github.com/lightningnetwork/lnd/invoices"
	"github.com/lightningnetwork/lnd/kvdb"
	"github.com/lightningnetwork/lnd/lntypes"
	"github.com/lightningnetwork/lnd/lnwire"
	"github.com/lightningnetwork/lnd/record"
	"github.com/lightningnetwork/lnd/sqldb"
	"github.com/lightningnetwork/lnd/verifmc/vsched"
)

// ---------------------------------------------------------------------------------
// universe

const (
	baseHeight  = int32(100)
	rejectDelta = int32(10) // RegistryConfig.FinalCltvRejectDelta
	holdDur     = 10 * time.Second
	valueV      = int64(1000) // invoice value v in msat
	maxKeys     = 3 // default bound on recorded HTLCs per invoice (a Space may raise it to 4)
	allKeys     = 8 // circuit keys that exist
	ksHoldTime  = time.Hour // RegistryConfig.KeysendHoldTime of the "kshold" kinds

	hugeH = uint64(1) << 62 // amount / total token "H"
	hugeI = uint64(1) << 63 // amount token "I", total token 'G': the int64 boundary of the SQL schema
)

var (
	startTime = time.Date(2024, time.March, 1, 12, 0, 0, 0, time.UTC)

	invPreimage  = mkPreimage("c15 invoice preimage")
	invHash      = invPreimage.Hash()
	wrongPreimg  = mkPreimage("c15 some other preimage")
	ksPreimage   = mkPreimage("c15 keysend preimage")
	ksHash       = ksPreimage.Hash()
	ksWrongPre   = mkPreimage("c15 keysend wrong preimage")
	rightAddr    = sha256.Sum256([]byte("c15 payment address"))
	wrongAddr    = sha256.Sum256([]byte("c15 wrong payment address"))
	ampInvHash   = lntypes.Hash(sha256.Sum256([]byte("c15 amp invoice pseudo hash")))
	// amp set 3 carries the all-zero set id (the value update.go / sql_store.go single out as "blank")
	ampSetIDs    = [4][32]byte{{}, sha256.Sum256([]byte("c15 amp set 1")), sha256.Sum256([]byte("c15 amp set 2")), {}}
	ampRoots     = [4]amp.Share{{}, amp.Share(sha256.Sum256([]byte("c15 amp root 1"))), amp.Share(sha256.Sum256([]byte("c15 amp root 2"))), amp.Share(sha256.Sum256([]byte("c15 amp root 3")))}
	ampFirstHalf = [4]amp.Share{{}, amp.Share(sha256.Sum256([]byte("c15 amp share 1a"))), amp.Share(sha256.Sum256([]byte("c15 amp share 2a"))), amp.Share(sha256.Sum256([]byte("c15 amp share 3a")))}
	zeroAddr     [32]byte         // == invoices.BlankPayAddr
	// the bystander invoice B that exists next to the invoice under test in "two" worlds
	otherPreimage = mkPreimage("c15 bystander invoice preimage")
	otherHash     = otherPreimage.Hash()
	otherAddr     = sha256.Sum256([]byte("c15 bystander payment address"))
	zeroHash     lntypes.Hash     // all-zero payment hash
	zeroPreimage lntypes.Preimage // all-zero preimage
)

func mkPreimage(s string) lntypes.Preimage {
	return lntypes.Preimage(sha256.Sum256([]byte(s)))
}

// ampChild returns the child (share, index, hash, preimage) of shard j ('0' / '1' of the
// two-way split of the set's root seed, 's' = the single shard carrying the whole root).
func ampChild(set int, shard byte) *amp.Child {
	root := ampRoots[set]
	switch shard {
	case '0':
		return amp.DeriveChild(root, amp.ChildDesc{Share: ampFirstHalf[set], Index: 0})
	case '1':
		var other amp.Share
		other.Xor(&root, &ampFirstHalf[set])
		return amp.DeriveChild(root, amp.ChildDesc{Share: other, Index: 1})
	default:
		return amp.DeriveChild(root, amp.ChildDesc{Share: root, Index: 0})
	}
}

// Kind is one invoice kind of the universe.
type Kind struct {
	Name     string
	Value    int64
	Hold     bool
	AMP      bool
	Blinded  bool
	JIT      string // "" | "keysend" | "amp": no invoice exists up front
	InvDelta int32  // Terms.FinalCltvDelta of the pre-created invoice
	// registry configuration (zero values = the lnd defaults)
	KsHold    time.Duration // KeysendHoldTime: just-in-time keysend invoices are hold invoices
	GcFly     bool          // GcCanceledInvoicesOnTheFly
	GcStart   bool          // GcCanceledInvoicesOnStartup
	AcceptAll bool          // AcceptKeySend and AcceptAMP although an invoice exists up front
	// Watch: the invoice expiry watcher is LIVE (axis audit): it reads a harness clock that the
	// "X" event moves past the invoice's expiry time, and every "b" event hands it a block epoch.
	// HoldDelta is its block expiry delta (lnd: HoldExpiryDelta), one below the margin, so that an
	// accepted HTLC with the exact margin expires for the watcher one block after it arrived.
	Watch     bool
	HoldDelta uint32
}

var kinds = map[string]Kind{
	"regular": {Name: "regular", Value: valueV, InvDelta: 12},
	"hold":    {Name: "hold", Value: valueV, Hold: true, InvDelta: 12},
	// invoice delta below the registry's reject delta: the reject delta is the binding margin
	"zero":    {Name: "zero", Value: 0, InvDelta: 8},
	"amp":     {Name: "amp", Value: valueV, AMP: true, InvDelta: 12},
	"blinded": {Name: "blinded", Value: valueV, Blinded: true, InvDelta: 12},
	"keysend": {Name: "keysend", JIT: "keysend", InvDelta: rejectDelta},
	"ampjit":  {Name: "ampjit", JIT: "amp", AMP: true, InvDelta: rejectDelta},

	// --- non-default registry configuration / kind crossings
	// spontaneous keysend payments are held (KeysendHoldTime != 0): the just-in-time invoice is a
	// hold invoice whose preimage is known; it is settled by SettleHodlInvoice
	"kshold":     {Name: "kshold", JIT: "keysend", InvDelta: rejectDelta, KsHold: ksHoldTime},
	"kshold-gcf": {Name: "kshold-gcf", JIT: "keysend", InvDelta: rejectDelta, KsHold: ksHoldTime, GcFly: true},
	// canceled invoices are deleted when they are canceled / when the registry starts
	"regular-gcs": {Name: "regular-gcs", Value: valueV, InvDelta: 12, GcStart: true},
	"hold-gc":     {Name: "hold-gc", Value: valueV, Hold: true, InvDelta: 12, GcFly: true, GcStart: true},
	"amp-gcf":     {Name: "amp-gcf", Value: valueV, AMP: true, InvDelta: 12, GcFly: true, GcStart: true},
	// spontaneous payments are accepted while the payment goes to an invoice created up front
	"regular-jit": {Name: "regular-jit", Value: valueV, InvDelta: 12, AcceptAll: true},
	// zero-amount hold invoice, reject delta binding
	"holdzero": {Name: "holdzero", Value: 0, Hold: true, InvDelta: 8},

	// --- live invoice expiry watcher (time expiry "X", block epochs on "b")
	"regular-x": {Name: "regular-x", Value: valueV, InvDelta: 12, Watch: true, HoldDelta: 11},
	"hold-x":    {Name: "hold-x", Value: valueV, Hold: true, InvDelta: 12, Watch: true, HoldDelta: 11},
	"hold-gc-x": {Name: "hold-gc-x", Value: valueV, Hold: true, InvDelta: 12, GcFly: true, GcStart: true, Watch: true, HoldDelta: 11},
	"amp-x":     {Name: "amp-x", Value: valueV, AMP: true, InvDelta: 12, Watch: true, HoldDelta: 11},
	// just-in-time keysend invoices carry no payment request: the watcher cancels them FORCED at
	// their time expiry (accepted ones too)
	"keysend-x": {Name: "keysend-x", JIT: "keysend", InvDelta: rejectDelta, Watch: true, HoldDelta: uint32(rejectDelta) - 1},
	"kshold-x":  {Name: "kshold-x", JIT: "keysend", InvDelta: rejectDelta, KsHold: ksHoldTime, Watch: true, HoldDelta: uint32(rejectDelta) - 1},
}

// fracBase / fracRems: invoice values with a NON-ZERO MILLI-SATOSHI REMAINDER, v = 2000 + r msat
// (kinds "<base>-f<r>"). lnd's amounts are milli-satoshis, the unit of BOLT 11 amounts and of
// value_msat of AddInvoice; every other kind's value is a whole number of satoshis, which makes a
// comparison carried out in truncated units (ToSatoshis, /1000) indistinguishable from the exact one.
const fracBase = int64(2000)

var fracRems = []int64{1, 500, 999}

func fracKind(base string, r int64) string { return fmt.Sprintf("%s-f%d", base, r) }

func init() {
	for _, base := range []string{"regular", "hold", "amp", "blinded"} {
		for _, r := range fracRems {
			k := kinds[base]
			k.Name = fracKind(base, r)
			k.Value = fracBase + r
			kinds[k.Name] = k
		}
	}
}

// invoiceLife is the Terms.Expiry of the invoice under test in a Watch world, expiryJump what the
// "X" event adds to the watcher's clock: past the invoice under test (and past a just-in-time
// keysend invoice: KeysendHoldTime or the one-hour default), short of the bystander's 1000 h.
const (
	invoiceLife = 500 * time.Hour
	expiryJump  = 600 * time.Hour
)

// margin is the final-CLTV margin an accepted HTLC must leave on this kind.
func (k Kind) margin() int32 {
	if k.InvDelta > rejectDelta {
		return k.InvDelta
	}
	return rejectDelta
}

func (k Kind) features() *lnwire.FeatureVector {
	var bits []lnwire.FeatureBit
	switch {
	case k.AMP:
		bits = []lnwire.FeatureBit{lnwire.TLVOnionPayloadRequired, lnwire.PaymentAddrRequired, lnwire.AMPRequired}
	case k.Blinded:
		// what rpcserver.go generates for an invoice with blinded paths
		bits = []lnwire.FeatureBit{lnwire.TLVOnionPayloadRequired, lnwire.PaymentAddrOptional, lnwire.MPPOptional,
			lnwire.RouteBlindingOptional, lnwire.Bolt11BlindedPathsRequired}
	default:
		bits = []lnwire.FeatureBit{lnwire.TLVOnionPayloadRequired, lnwire.PaymentAddrRequired, lnwire.MPPOptional}
	}
	return lnwire.NewFeatureVector(lnwire.NewRawFeatureVector(bits...), lnwire.Features)
}

func (k Kind) invoice() *invpkg.Invoice {
	inv := &invpkg.Invoice{
		CreationDate: startTime,
		Memo:         []byte("c15"),
		// a payment request makes the invoice a non-keysend one for lnd
		PaymentRequest: []byte("lnbc-c15-" + k.Name),
		Terms: invpkg.ContractTerm{
			FinalCltvDelta: k.InvDelta,
			Expiry:         1000 * time.Hour,
			Value:          lnwire.MilliSatoshi(k.Value),
			PaymentAddr:    rightAddr,
			Features:       k.features(),
		},
		HodlInvoice: k.Hold,
	}
	if k.Watch {
		inv.Terms.Expiry = invoiceLife
	}
	if !k.Hold && !k.AMP {
		p := invPreimage
		inv.Terms.PaymentPreimage = &p
	}
	return inv
}

// rightPreimage is the preimage SettleHodlInvoice must be called with.
func (k Kind) rightPreimage() lntypes.Preimage {
	if k.JIT == "keysend" {
		return ksPreimage
	}
	return invPreimage
}

func (k Kind) invoiceHash() lntypes.Hash {
	if k.AMP {
		return ampInvHash
	}
	return invHash
}

// ---------------------------------------------------------------------------------
// events

// htlcSpec is everything the sender chooses about one HTLC.
type htlcSpec struct {
	// 'L' legacy, 'M' mpp record, 'P' blinded path id + total, 'K' keysend record, 'A' amp+mpp,
	// 'Z' mpp record on an HTLC locked to the ALL-ZERO payment hash,
	// 'Y' mpp record on an HTLC locked to the payment hash of the BYSTANDER invoice, 'y' legacy HTLC locked to it,
	// 'k' keysend record on an HTLC locked to the hash of the invoice under test (no mpp record),
	// 'a' AMP record WITHOUT an mpp record on an HTLC locked to the hash of the invoice under test
	//     ("a<set><shard>": update.go `ctx.amp != nil && ctx.mpp == nil`, processAMP "no MPP record")
	Pay   byte
	Addr  byte // 'r' right, 'w' wrong (non-zero), 'z' all-zero (BlankPayAddr), 'o' the bystander invoice's address, 0 no record
	Tot   byte // '-' v-1, '0' v, '+' v+1, 'f' v truncated to whole satoshis, 'm' v-1000, 'z' zero, 'H' 2^62, 'G' 2^63, 0 none
	// V is the invoice value v the relative total tokens refer to (0 = valueV; World.parse sets it
	// to the value of the invoice kind, which differs from valueV only for the "-f<r>" kinds)
	V     uint64
	Amt   uint64
	Exp   string // "lo" margin-1, "ok" margin, "hi" margin+1 above the base height, "z" expiry 0, "X" 2^31, "x" 2^32-1
	Set   int    // amp set 1|2, 3 = the all-zero set id
	Zero  bool   // keysend: all-zero preimage in the record
	Shard byte   // '0' '1' 's'
	Bad   bool   // amp: corrupted share; keysend: wrong preimage in the record
	KsMpp bool   // keysend record together with an mpp record
	// Icpt is what the HTLC interceptor answers for this HTLC: 0 nothing (pass), 'x' CancelSet,
	// 'a' AmountPaid = v (the invoice then records v as the amount of this HTLC)
	Icpt byte
}

func (s htlcSpec) totalOf() uint64 {
	v := s.V
	if v == 0 {
		v = uint64(valueV)
	}
	switch s.Tot {
	case '-':
		return v - 1
	case '+':
		return v + 1
	case 'f':
		return v / 1000 * 1000 // the value truncated to whole satoshis (== v unless v has a msat remainder)
	case 'm':
		return v - 1000 // one whole satoshi below
	case 'z':
		return 0
	case 'H':
		return hugeH
	case 'G':
		return hugeI
	}
	return v
}

// parseHTLC parses "h:<pay>:<amt>:<exp>" ("hx:" / "ha:": with an interceptor answer).
func parseHTLC(op string) (htlcSpec, error) {
	f := strings.Split(op, ":")
	if len(f) != 4 || len(f[1]) == 0 {
		return htlcSpec{}, fmt.Errorf("bad htlc op %q", op)
	}
	var s htlcSpec
	switch f[0] {
	case "h":
	case "hx":
		s.Icpt = 'x'
	case "ha":
		s.Icpt = 'a'
	default:
		return htlcSpec{}, fmt.Errorf("bad htlc op %q", op)
	}
	p := f[1]
	s.Pay = p[0]
	switch s.Pay {
	case 'L', 'y':
		if len(p) != 1 {
			return s, fmt.Errorf("bad pay %q", p)
		}
	case 'M', 'P', 'Z', 'Y':
		if len(p) != 3 {
			return s, fmt.Errorf("bad pay %q", p)
		}
		s.Addr, s.Tot = p[1], p[2]
	case 'K', 'k':
		if len(p) != 2 {
			return s, fmt.Errorf("bad pay %q", p)
		}
		switch p[1] {
		case 'r':
		case 'w':
			s.Bad = true
		case 'm':
			s.KsMpp = true
		case 'z':
			s.Zero = true
		default:
			return s, fmt.Errorf("bad pay %q", p)
		}
	case 'a':
		if len(p) != 3 {
			return s, fmt.Errorf("bad pay %q", p)
		}
		s.Set, s.Shard = int(p[1]-'0'), p[2]
		if s.Set < 1 || s.Set > 3 {
			return s, fmt.Errorf("bad set in %q", p)
		}
	case 'A':
		if len(p) != 6 {
			return s, fmt.Errorf("bad pay %q", p)
		}
		s.Set = int(p[1] - '0')
		s.Shard, s.Addr, s.Tot = p[2], p[3], p[4]
		s.Bad = p[5] == 'b'
		if s.Set < 1 || s.Set > 3 {
			return s, fmt.Errorf("bad set in %q", p)
		}
	default:
		return s, fmt.Errorf("bad pay %q", p)
	}
	switch f[2] {
	case "H":
		s.Amt = hugeH
	case "I":
		s.Amt = hugeI
	default:
		a, err := strconv.ParseUint(f[2], 10, 64)
		if err != nil {
			return s, err
		}
		s.Amt = a
	}
	s.Exp = f[3]
	switch s.Exp {
	case "lo", "ok", "hi", "z", "x", "X":
	default:
		return s, fmt.Errorf("bad expiry %q", f[3])
	}
	return s, nil
}

// recordedAmt is the amount the registry works with: the wire amount unless the interceptor
// replaced it.
func (s htlcSpec) recordedAmt() uint64 {
	if s.Icpt == 'a' {
		return uint64(valueV)
	}
	return s.Amt
}

// declaredTotal is the total the HTLC declares; an HTLC without a total record declares
// itself to be the whole payment.
func (s htlcSpec) declaredTotal() uint64 {
	if s.Tot == 0 {
		return s.recordedAmt()
	}
	return s.totalOf()
}

func (s htlcSpec) hasTotal() bool { return s.Tot != 0 }

// foreign reports whether the HTLC refers to the bystander invoice (its hash or its address).
func (s htlcSpec) foreign() bool { return s.Pay == 'Y' || s.Pay == 'y' || s.Addr == 'o' }

// hash is the payment hash the HTLC is locked to.
func (s htlcSpec) hash(k Kind) lntypes.Hash {
	switch {
	case s.Pay == 'A':
		return ampChild(s.Set, s.Shard).Hash
	case s.Pay == 'Z':
		return zeroHash
	case s.Pay == 'Y' || s.Pay == 'y':
		return otherHash
	case s.Pay == 'K':
		return ksHash
	case k.JIT == "keysend":
		return ksHash
	default:
		return k.invoiceHash()
	}
}

func (s htlcSpec) absExpiry(k Kind) uint32 {
	e := baseHeight + k.margin()
	switch s.Exp {
	case "lo":
		e--
	case "hi":
		e++
	case "z":
		return 0
	case "X":
		return 1 << 31
	case "x":
		return 1<<32 - 1
	}
	return uint32(e)
}

type payload struct {
	mpp     *record.MPP
	amp     *record.AMP
	custom  record.CustomSet
	pathID  *chainhash.Hash
	totalMs lnwire.MilliSatoshi
}

func (p *payload) MultiPath() *record.MPP          { return p.mpp }
func (p *payload) AMPRecord() *record.AMP          { return p.amp }
func (p *payload) Metadata() []byte                { return nil }
func (p *payload) PathID() *chainhash.Hash         { return p.pathID }
func (p *payload) TotalAmtMsat() lnwire.MilliSatoshi { return p.totalMs }
func (p *payload) CustomRecords() record.CustomSet {
	if p.custom == nil {
		return make(record.CustomSet)
	}
	return p.custom
}

func addrOf(a byte) [32]byte {
	switch a {
	case 'w':
		return wrongAddr
	case 'z':
		return zeroAddr
	case 'o':
		return otherAddr
	}
	return rightAddr
}

func (s htlcSpec) payload() *payload {
	p := &payload{}
	switch s.Pay {
	case 'M', 'Z', 'Y':
		p.mpp = record.NewMPP(lnwire.MilliSatoshi(s.totalOf()), addrOf(s.Addr))
	case 'P':
		a := chainhash.Hash(addrOf(s.Addr))
		p.pathID = &a
		p.totalMs = lnwire.MilliSatoshi(s.totalOf())
	case 'k':
		// a keysend record on an HTLC that pays the invoice under test: the invoice's own
		// preimage ('r'), another preimage ('w'), the all-zero preimage ('z')
		pre := invPreimage
		if s.Bad {
			pre = ksWrongPre
		}
		if s.Zero {
			pre = zeroPreimage
		}
		p.custom = record.CustomSet{record.KeySendType: append([]byte{}, pre[:]...)}
	case 'K':
		pre := ksPreimage
		if s.Bad {
			pre = ksWrongPre
		}
		if s.Zero {
			pre = zeroPreimage
		}
		p.custom = record.CustomSet{record.KeySendType: append([]byte{}, pre[:]...)}
		if s.KsMpp {
			p.mpp = record.NewMPP(lnwire.MilliSatoshi(valueV), rightAddr)
		}
	case 'a':
		c := ampChild(s.Set, s.Shard)
		p.amp = record.NewAMP([32]byte(c.Share), ampSetIDs[s.Set], c.Index)
	case 'A':
		c := ampChild(s.Set, s.Shard)
		share := [32]byte(c.Share)
		if s.Bad {
			share[0] ^= 1
		}
		p.mpp = record.NewMPP(lnwire.MilliSatoshi(s.totalOf()), addrOf(s.Addr))
		p.amp = record.NewAMP(share, ampSetIDs[s.Set], c.Index)
	}
	return p
}

// Circuit keys. The keys come from a few channels ("links") and share their components the way
// real circuit keys do -- every channel numbers its HTLCs from its own counter, so different keys
// have EQUAL htlc ids on different channels and different ids on the same channel. A key SCHEME
// fixes the two channels (c1, c2) of each of the two key groups and the two htlc ids (i1, i2):
//
//	k1=(c1, i1)  k2=(c2, i1)  k3=(c1, i2)  k4=(c2, i2)        group 0: the sequential part
//	k5=(c1',i1)  k6=(c2',i1)  k7=(c1',i2)  k8=(c2',i2)        group 1: the concurrent links
//
// A store that matches an HTLC by one component only confuses two of them. The VALUES of the
// components are a dimension of their own (keySchemes): a short channel id is a uint64 that the
// key-value store writes as 8 big-endian bytes and the SQL store as a decimal string in a TEXT
// column, an htlc id is a uint64 that the SQL store keeps in a signed BIGINT column, and lnd hands
// real exit-hop links short channel ids from the whole uint64 range: confirmed channels
// (block height < 2^23, top bit clear) and SCID aliases of zero-conf / option_scid_alias channels
// (aliasmgr: block heights 16,000,000 .. 16,250,000, i.e. the uint64 form has the TOP BIT SET).
type keyScheme struct {
	Name string
	C    [2][2]lnwire.ShortChannelID // [group][column]
	I    [2]uint64
	Doc  string
}

func scid(block, txIndex uint32, pos uint16) lnwire.ShortChannelID {
	return lnwire.ShortChannelID{BlockHeight: block, TxIndex: txIndex, TxPosition: pos}
}

const maxHtlcID = uint64(1)<<63 - 1 // the largest htlc id the SQL schema can hold (sql_store.go refuses negative BIGINTs)

var keySchemes = map[string]*keyScheme{
	// the original alphabet: confirmed channels at block 700000, htlc ids 0 and 1
	"plain": {Name: "plain",
		C:   [2][2]lnwire.ShortChannelID{{scid(700000, 1, 0), scid(700000, 2, 0)}, {scid(700000, 3, 0), scid(700000, 4, 0)}},
		I:   [2]uint64{0, 1},
		Doc: "confirmed channels 700000:1..4:0, htlc ids 0 / 1"},
	// c1 = an SCID alias (the first ones lnd's alias manager hands out; uint64 >= 2^63), c2 = a
	// confirmed channel; i1 = 0, i2 = the largest representable htlc id. The 2x2 of
	// {alias, confirmed} x {0, 2^63-1} is k1..k4; k1 -- the key of every first HTLC -- is on the alias
	"wide": {Name: "wide",
		C:   [2][2]lnwire.ShortChannelID{{scid(16000000, 0, 0), scid(700000, 2, 0)}, {scid(16000000, 0, 1), scid(700000, 4, 0)}},
		I:   [2]uint64{0, maxHtlcID},
		Doc: "c1 = SCID alias 16000000:0:0 / 16000000:0:1 (top bit of the uint64 set), c2 = confirmed channel 700000:2:0 / 700000:4:0, htlc ids 0 / 2^63-1"},
	// the boundaries of the two integer ranges: c1 = the largest uint64, c2 = exactly 2^63 (the
	// smallest value with the top bit set); group 1: the last alias block and 2^63-1 (the largest
	// value without the top bit); i1 = 2^32 (lost by any 32-bit truncation), i2 = 2^63-1
	"edge": {Name: "edge",
		C: [2][2]lnwire.ShortChannelID{{scid(1<<24-1, 1<<24-1, 1<<16-1), scid(1<<23, 0, 0)},
			{scid(16249999, 1<<24-1, 1<<16-1), scid(1<<23-1, 1<<24-1, 1<<16-1)}},
		I:   [2]uint64{1 << 32, maxHtlcID},
		Doc: "c1 = 2^64-1 / the last alias 16249999:16777215:65535, c2 = 2^63 / 2^63-1, htlc ids 2^32 / 2^63-1"},
}

// schemeOf resolves a scheme name; "" is the original alphabet (replay artefacts written before
// the dimension existed).
func schemeOf(name string) (*keyScheme, error) {
	if name == "" {
		name = "plain"
	}
	ks, ok := keySchemes[name]
	if !ok {
		return nil, fmt.Errorf("unknown circuit-key scheme %q", name)
	}
	return ks, nil
}

func (ks *keyScheme) key(k int) invpkg.CircuitKey {
	g := (k - 1) / 4
	i := (k - 1) % 4
	return invpkg.CircuitKey{ChanID: ks.C[g][i%2], HtlcID: ks.I[i/2]}
}

func (ks *keyScheme) index(ck invpkg.CircuitKey) int {
	for k := 1; k <= allKeys; k++ {
		if ks.key(k) == ck {
			return k
		}
	}
	return 0
}

func (ks *keyScheme) describe(k int) string {
	ck := ks.key(k)
	return fmt.Sprintf("chan %s = %d, htlc id %d", ck.ChanID, ck.ChanID.ToUint64(), ck.HtlcID)
}

// ---------------------------------------------------------------------------------
// clock

// vclock implements clock.Clock. TickAfter(d) is relative to the time most recently
// returned by Now(): the registry computes d from such a reading (tickAt), so the timer
// is placed at the absolute time the registry meant even if the harness advanced the
// clock in between.
type vclock struct {
	mu      sync.Mutex
	cur     time.Time
	lastNow time.Time
	timers  []vtimer
}

type vtimer struct {
	at time.Time
	ch chan time.Time
}

func newVclock(t time.Time) *vclock { return &vclock{cur: t, lastNow: t} }

func (c *vclock) Now() time.Time {
	c.mu.Lock()
	defer c.mu.Unlock()
	c.lastNow = c.cur
	return c.cur
}

func (c *vclock) TickAfter(d time.Duration) <-chan time.Time {
	c.mu.Lock()
	defer c.mu.Unlock()
	ch := make(chan time.Time, 1)
	at := c.lastNow.Add(d)
	if !at.After(c.cur) {
		ch <- c.cur
		return ch
	}
	c.timers = append(c.timers, vtimer{at: at, ch: ch})
	return ch
}

func (c *vclock) Advance(d time.Duration) {
	c.mu.Lock()
	defer c.mu.Unlock()
	c.cur = c.cur.Add(d)
	keep := c.timers[:0]
	for _, t := range c.timers {
		if t.at.After(c.cur) {
			keep = append(keep, t)
			continue
		}
		t.ch <- c.cur
	}
	c.timers = keep
}

// ---------------------------------------------------------------------------------
// databases

var scratchSeq atomic.Int64

func scratchRoot() string {
	if d := os.Getenv("VERIF_SCRATCH"); d != "" {
		return d
	}
	return os.TempDir()
}

func newScratchDir(prefix string) (string, error) {
	d := filepath.Join(scratchRoot(), fmt.Sprintf("%s-%d-%d", prefix, os.Getpid(), scratchSeq.Add(1)))
	return d, os.MkdirAll(d, 0o755)
}

func copyFile(src, dst string) error {
	b, err := os.ReadFile(src)
	if err != nil {
		return err
	}
	return os.WriteFile(dst, b, 0o600)
}

var (
	sqlTplOnce sync.Once
	sqlTplPath string
	sqlTplErr  error
	kvTplOnce  sync.Once
	kvTplPath  string
	kvTplErr   error
)

// sqlTemplate creates one fully migrated sqlite file; fresh databases are byte copies.
func sqlTemplate() (string, error) {
	sqlTplOnce.Do(func() {
		dir, err := newScratchDir("c15-sqltpl")
		if err != nil {
			sqlTplErr = err
			return
		}
		p := filepath.Join(dir, "tpl.db")
		st, err := sqldb.NewSqliteStore(&sqldb.SqliteConfig{SkipMigrations: false}, p)
		if err != nil {
			sqlTplErr = err
			return
		}
		if err := st.ApplyAllMigrations(context.Background(), sqldb.GetMigrations()); err != nil {
			sqlTplErr = err
			return
		}
		if _, err := st.DB.Exec("PRAGMA wal_checkpoint(TRUNCATE)"); err != nil {
			sqlTplErr = err
			return
		}
		if err := st.DB.Close(); err != nil {
			sqlTplErr = err
			return
		}
		sqlTplPath = p
	})
	return sqlTplPath, sqlTplErr
}

func boltCfg(dir string) *kvdb.BoltBackendConfig {
	return &kvdb.BoltBackendConfig{
		DBPath: dir, DBFileName: "channel.db", NoFreelistSync: true,
		AutoCompact: false, AutoCompactMinAge: kvdb.DefaultBoltAutoCompactMinAge,
		DBTimeout: kvdb.DefaultDBTimeout,
	}
}

// kvTemplate creates one initialised channeldb file; fresh databases are byte copies.
func kvTemplate() (string, error) {
	kvTplOnce.Do(func() {
		dir, err := newScratchDir("c15-kvtpl")
		if err != nil {
			kvTplErr = err
			return
		}
		be, err := kvdb.GetBoltBackend(boltCfg(dir))
		if err != nil {
			kvTplErr = err
			return
		}
		if _, err := channeldb.CreateWithBackend(be); err != nil {
			kvTplErr = err
			return
		}
		if err := be.Close(); err != nil {
			kvTplErr = err
			return
		}
		kvTplPath = filepath.Join(dir, "channel.db")
	})
	return kvTplPath, kvTplErr
}

func openKV(clk clock.Clock) (invpkg.InvoiceDB, func(), error) {
	tpl, err := kvTemplate()
	if err != nil {
		return nil, nil, err
	}
	dir, err := newScratchDir("c15-kv")
	if err != nil {
		return nil, nil, err
	}
	if err := copyFile(tpl, filepath.Join(dir, "channel.db")); err != nil {
		return nil, nil, err
	}
	be, err := kvdb.GetBoltBackend(boltCfg(dir))
	if err != nil {
		_ = os.RemoveAll(dir)
		return nil, nil, err
	}
	cdb, err := channeldb.CreateWithBackend(be, channeldb.OptionClock(clk), channeldb.OptionNoMigration(true))
	if err != nil {
		_ = be.Close()
		_ = os.RemoveAll(dir)
		return nil, nil, err
	}
	return cdb, func() { _ = be.Close(); _ = os.RemoveAll(dir) }, nil
}

func openSQL(clk clock.Clock) (invpkg.InvoiceDB, func(), error) {
	tpl, err := sqlTemplate()
	if err != nil {
		return nil, nil, err
	}
	dir, err := newScratchDir("c15-sql")
	if err != nil {
		return nil, nil, err
	}
	p := filepath.Join(dir, "inv.db")
	if err := copyFile(tpl, p); err != nil {
		return nil, nil, err
	}
	st, err := sqldb.NewSqliteStore(&sqldb.SqliteConfig{SkipMigrations: true}, p)
	if err != nil {
		_ = os.RemoveAll(dir)
		return nil, nil, err
	}
	base := st.BaseDB
	exec := sqldb.NewTransactionExecutor(base, func(tx *sql.Tx) invpkg.SQLInvoiceQueries {
		return base.WithTx(tx)
	})
	return invpkg.NewSQLStore(exec, clk), func() { _ = st.DB.Close(); _ = os.RemoveAll(dir) }, nil
}

// pointDB wraps an InvoiceDB: every call the registry makes is a scheduling point of
// the cooperative scheduler (a no-op for goroutines that are not scheduler threads, i.e.
// in the sequential exploration and for lnd's own goroutines) and is counted.
//
// The one registry activity that touches the store WITHOUT the registry lock is the
// set-timeout cancellation issued by the registry's event loop (cancelSingleHtlc). For the
// interleaving part the gate makes that UpdateInvoice call a schedulable step as well: the
// controller fires the timer at the chosen schedule point while every link thread is
// parked, and the gate reports when the event loop's (atomic) store transaction has
// completed and whether its callback produced an update.
type pointDB struct {
	invpkg.InvoiceDB
	calls *dbCalls
	gate  *txGate
}

type dbCalls struct{ add, lookup, update atomic.Int64 }

// txGate intercepts the next UpdateInvoice call made by a goroutine that is not a
// scheduler thread.
type txGate struct {
	mode atomic.Int32 // 0 off, 2 report the completion of the next such call
	done chan bool
}

func newTxGate() *txGate {
	return &txGate{done: make(chan bool, 1)}
}

func (d *pointDB) AddInvoice(ctx context.Context, i *invpkg.Invoice, h lntypes.Hash) (uint64, error) {
	vsched.Yield("db.AddInvoice")
	d.calls.add.Add(1)
	return d.InvoiceDB.AddInvoice(ctx, i, h)
}

func (d *pointDB) LookupInvoice(ctx context.Context, ref invpkg.InvoiceRef) (invpkg.Invoice, error) {
	vsched.Yield("db.LookupInvoice")
	d.calls.lookup.Add(1)
	return d.InvoiceDB.LookupInvoice(ctx, ref)
}

func (d *pointDB) UpdateInvoice(ctx context.Context, ref invpkg.InvoiceRef, setID *invpkg.SetID,
	cb invpkg.InvoiceUpdateCallback) (*invpkg.Invoice, error) {

	d.calls.update.Add(1)
	if g := d.gate; g != nil && g.mode.Load() != 0 && vsched.Current() == nil {
		if m := g.mode.Swap(0); m != 0 {
			updated := false
			inv, err := d.InvoiceDB.UpdateInvoice(ctx, ref, setID, func(i *invpkg.Invoice) (*invpkg.InvoiceUpdateDesc, error) {
				desc, err := cb(i)
				updated = desc != nil && err == nil
				return desc, err
			})
			g.done <- updated && err == nil
			return inv, err
		}
	}
	vsched.Yield("db.UpdateInvoice")
	return d.InvoiceDB.UpdateInvoice(ctx, ref, setID, cb)
}

// ---------------------------------------------------------------------------------
// one registry on one store

type nullNotifier struct {
	chainntnfs.ChainNotifier
	ch chan *chainntnfs.BlockEpoch
}

func (n *nullNotifier) RegisterBlockEpochNtfn(*chainntnfs.BlockEpoch) (*chainntnfs.BlockEpochEvent, error) {
	return &chainntnfs.BlockEpochEvent{Epochs: n.ch, Cancel: func() {}}, nil
}

// keyedInterceptor is the RegistryConfig.HtlcInterceptor: it answers per circuit key what
// the HTLC's spec says (nothing / CancelSet / AmountPaid).
type keyedInterceptor struct {
	mu  sync.Mutex
	ans map[invpkg.CircuitKey]byte
}

func (k *keyedInterceptor) set(ck invpkg.CircuitKey, a byte) {
	k.mu.Lock()
	defer k.mu.Unlock()
	if k.ans == nil {
		k.ans = map[invpkg.CircuitKey]byte{}
	}
	if a == 0 {
		delete(k.ans, ck)
		return
	}
	k.ans[ck] = a
}

func (k *keyedInterceptor) Intercept(req invpkg.HtlcModifyRequest, respond func(invpkg.HtlcModifyResponse)) error {
	k.mu.Lock()
	a := k.ans[req.ExitHtlcCircuitKey]
	k.mu.Unlock()
	switch a {
	case 'x':
		respond(invpkg.HtlcModifyResponse{CancelSet: true})
	case 'a':
		respond(invpkg.HtlcModifyResponse{AmountPaid: lnwire.MilliSatoshi(valueV)})
	}
	return nil
}

// Verdict is what the registry told the link about one HTLC.
type Verdict struct {
	Kind     string // "accept" | "settle" | "fail" | "error"
	Outcome  string // fail/settle outcome code, or the error text
	Preimage *lntypes.Preimage
	Key      int
}

func (v Verdict) String() string {
	if v.Kind == "accept" {
		return "accept(held)"
	}
	return v.Kind + "(" + v.Outcome + ")"
}

// htlcObs / invObs: the canonical observation of LookupInvoice.
type htlcObs struct {
	Key     int    `json:"k"`
	State   string `json:"st"`
	Amt     uint64 `json:"amt"`
	Total   uint64 `json:"tot"`
	Expiry  uint32 `json:"exp"`
	AccH    uint32 `json:"acch"`
	AccT    int64  `json:"acct"` // accept time, seconds after the start time (not part of canon)
	Set     int    `json:"set,omitempty"`   // amp set number (0 = none, 9 = unknown set id)
	Child   int    `json:"child,omitempty"` // amp child index
	HasPre  bool   `json:"pre,omitempty"`   // amp preimage stored
	PreOK   bool   `json:"preok,omitempty"` // stored amp preimage hashes to the stored amp hash
	amtSeen bool
}

type ampObs struct {
	Set   int    `json:"set"`
	State string `json:"st"`
	Paid  uint64 `json:"paid"`
	Keys  []int  `json:"keys"`
}

type invObs struct {
	Found    bool      `json:"found"`
	Err      string    `json:"err,omitempty"`
	State    string    `json:"st,omitempty"`
	Value    uint64    `json:"value,omitempty"`
	AmtPaid  uint64    `json:"paid,omitempty"`
	HasPre   bool      `json:"pre,omitempty"`
	PreOK    bool      `json:"preok,omitempty"`
	AddrReq  bool      `json:"addrreq,omitempty"`
	IsAMP    bool      `json:"amp,omitempty"`
	Blinded  bool      `json:"blinded,omitempty"`
	CltvD    int32     `json:"cltv,omitempty"`
	Htlcs    []htlcObs `json:"htlcs,omitempty"`
	AMP      []ampObs  `json:"ampsets,omitempty"`
	AddrOK   bool      `json:"addrok,omitempty"`
	HodlInv  bool      `json:"hodl,omitempty"`
	hashUsed lntypes.Hash
}

func (o invObs) htlc(k int) *htlcObs {
	for i := range o.Htlcs {
		if o.Htlcs[i].Key == k {
			return &o.Htlcs[i]
		}
	}
	return nil
}

func (o invObs) ampSet(s int) *ampObs {
	for i := range o.AMP {
		if o.AMP[i].Set == s {
			return &o.AMP[i]
		}
	}
	return nil
}

// canon renders the observation as the state key component.
func (o invObs) canon() string {
	if !o.Found {
		if o.Err != "" {
			return "noinv(" + o.Err + ")"
		}
		return "noinv"
	}
	var b strings.Builder
	fmt.Fprintf(&b, "%s paid=%d val=%d pre=%v/%v", o.State, o.AmtPaid, o.Value, o.HasPre, o.PreOK)
	for _, h := range o.Htlcs {
		fmt.Fprintf(&b, " [k%d %s amt=%d tot=%d exp=%d acc=%d", h.Key, h.State, h.Amt, h.Total, h.Expiry, h.AccH)
		if h.Set != 0 {
			fmt.Fprintf(&b, " set=%d/%d pre=%v/%v", h.Set, h.Child, h.HasPre, h.PreOK)
		}
		b.WriteString("]")
	}
	for _, a := range o.AMP {
		fmt.Fprintf(&b, " {set%d %s paid=%d keys=%v}", a.Set, a.State, a.Paid, a.Keys)
	}
	return b.String()
}

func htlcStateName(s invpkg.HtlcState) string {
	switch s {
	case invpkg.HtlcStateAccepted:
		return "acc"
	case invpkg.HtlcStateSettled:
		return "set"
	case invpkg.HtlcStateCanceled:
		return "can"
	}
	return fmt.Sprintf("?%d", s)
}

func setNumber(id [32]byte) int {
	for i := 1; i <= 3; i++ {
		if ampSetIDs[i] == id {
			return i
		}
	}
	return 9
}

func observe(ks *keyScheme, inv *invpkg.Invoice) invObs {
	o := invObs{Found: true, State: inv.State.String(), Value: uint64(inv.Terms.Value), AmtPaid: uint64(inv.AmtPaid),
		CltvD: inv.Terms.FinalCltvDelta, IsAMP: inv.IsAMP(), Blinded: inv.IsBlinded(), HodlInv: inv.HodlInvoice}
	if inv.Terms.Features != nil {
		o.AddrReq = inv.Terms.Features.RequiresFeature(lnwire.PaymentAddrRequired)
	}
	o.AddrOK = inv.Terms.PaymentAddr == rightAddr || inv.Terms.PaymentAddr == otherAddr
	if p := inv.Terms.PaymentPreimage; p != nil {
		o.HasPre = true
		o.PreOK = p.Hash() == invHash || p.Hash() == ksHash || p.Hash() == otherHash
	}
	for ck, h := range inv.Htlcs {
		ho := htlcObs{Key: ks.index(ck), State: htlcStateName(h.State), Amt: uint64(h.Amt), Total: uint64(h.MppTotalAmt),
			Expiry: h.Expiry, AccH: h.AcceptHeight, AccT: int64(h.AcceptTime.Sub(startTime) / time.Second)}
		if h.AMP != nil {
			ho.Set = setNumber(h.AMP.Record.SetID())
			ho.Child = int(h.AMP.Record.ChildIndex())
			if h.AMP.Preimage != nil {
				ho.HasPre = true
				ho.PreOK = h.AMP.Preimage.Matches(h.AMP.Hash)
			}
		}
		o.Htlcs = append(o.Htlcs, ho)
	}
	sort.Slice(o.Htlcs, func(i, j int) bool { return o.Htlcs[i].Key < o.Htlcs[j].Key })
	for id, st := range inv.AMPState {
		a := ampObs{Set: setNumber(id), State: htlcStateName(st.State), Paid: uint64(st.AmtPaid)}
		for ck := range st.InvoiceKeys {
			a.Keys = append(a.Keys, ks.index(ck))
		}
		sort.Ints(a.Keys)
		o.AMP = append(o.AMP, a)
	}
	sort.Slice(o.AMP, func(i, j int) bool { return o.AMP[i].Set < o.AMP[j].Set })
	return o
}

// side is one registry on one store.
type side struct {
	name   string
	kind   Kind
	two    bool
	ks     *keyScheme
	raw    invpkg.InvoiceDB
	reg    *invpkg.InvoiceRegistry
	clk    *vclock
	dbClk  *clock.TestClock
	hodl   chan interface{}
	icpt   *keyedInterceptor
	calls  dbCalls
	closer func()
	gate   *txGate
	// verdict history per circuit key: 0 none, 1 held, 2 settle ordered, 3 cancel ordered
	hist map[int]int
	// armed: the circuit keys for which THIS registry instance was told "held" while the invoice
	// was open, i.e. for which it runs an auto-release timer and holds a subscription. A
	// restart empties it: timers and subscriptions live in memory only and are re-established
	// by the links' replays.
	armed   map[int]bool
	starts  int
	stalled string
	// live expiry watcher (kind.Watch): its clock, the block-epoch channel of the running
	// instance, the runtime id of its mainLoop goroutine, the height it was told last, and
	// tsQueued: the running watcher INSTANCE holds a time-expiry entry for the invoice under test
	// (pushed when the invoice was added or found Open at start-up; an invoice found Accepted at
	// start-up gets none) -- provenance of rebuilt in-memory state, part of the world key.
	wclk     *vclock
	epochs   chan *chainntnfs.BlockEpoch
	wgid     int64
	wHeight  int32
	tsQueued bool
}

func newSide(name string, k Kind, two bool, ks *keyScheme) (*side, error) {
	s := &side{name: name, kind: k, two: two, ks: ks, hodl: make(chan interface{}, 256), hist: map[int]int{}, armed: map[int]bool{},
		gate: newTxGate(), icpt: &keyedInterceptor{}}
	s.dbClk = clock.NewTestClock(startTime)
	s.clk = newVclock(startTime)
	s.wclk = newVclock(startTime)
	s.wHeight = baseHeight
	var err error
	if name == "kv" {
		s.raw, s.closer, err = openKV(s.dbClk)
	} else {
		s.raw, s.closer, err = openSQL(s.dbClk)
	}
	if err != nil {
		return nil, fmt.Errorf("open %s store: %w", name, err)
	}
	if err := s.start(); err != nil {
		s.closer()
		return nil, err
	}
	if k.JIT == "" {
		if _, err := s.reg.AddInvoice(context.Background(), k.invoice(), k.invoiceHash()); err != nil {
			s.close()
			return nil, fmt.Errorf("add invoice (%s): %w", name, err)
		}
		s.tsQueued = true
	}
	if two {
		if _, err := s.reg.AddInvoice(context.Background(), bystanderInvoice(), otherHash); err != nil {
			s.close()
			return nil, fmt.Errorf("add bystander invoice (%s): %w", name, err)
		}
	}
	return s, nil
}

// start builds and starts a registry on the side's store (the first one, or the next one after a
// restart; the clocks keep running).
func (s *side) start() error {
	// The expiry watcher gets a clock of its own that never advances and no block
	// epochs: invoice expiry (time- or height-based) is not an event of this universe.
	// (Kinds with Watch: the watcher is live -- see waitWatcherIdle.)
	watcher := invpkg.NewInvoiceExpiryWatcher(
		clock.NewTestClock(startTime), 0, uint32(baseHeight), nil,
		&nullNotifier{ch: make(chan *chainntnfs.BlockEpoch)},
	)
	k := s.kind
	if k.Watch {
		s.epochs = make(chan *chainntnfs.BlockEpoch)
		watcher = invpkg.NewInvoiceExpiryWatcher(s.wclk, k.HoldDelta, uint32(s.wHeight), nil, &nullNotifier{ch: s.epochs})
	}
	cfg := &invpkg.RegistryConfig{
		FinalCltvRejectDelta:        rejectDelta,
		HtlcHoldDuration:            holdDur,
		Clock:                       s.clk,
		AcceptKeySend:               k.JIT == "keysend" || k.AcceptAll,
		AcceptAMP:                   k.JIT == "amp" || k.AcceptAll,
		KeysendHoldTime:             k.KsHold,
		GcCanceledInvoicesOnTheFly:  k.GcFly,
		GcCanceledInvoicesOnStartup: k.GcStart,
		HtlcInterceptor:             s.icpt,
	}
	s.reg = invpkg.NewRegistry(&pointDB{InvoiceDB: s.raw, calls: &s.calls, gate: s.gate}, watcher, cfg)
	s.starts++
	if err := s.reg.Start(); err != nil {
		s.reg = nil
		return fmt.Errorf("registry start (%s): %w", s.name, err)
	}
	if k.Watch {
		// hand-over of the block the watcher already knows: afterwards its goroutine is in mainLoop
		s.wgid = 0
		s.epoch(s.wHeight)
		gid, err := findWatcherGoroutine(watcher)
		if err == nil && s.stalled != "" {
			err = errors.New(s.stalled)
		}
		if err != nil {
			_ = s.reg.Stop()
			s.reg = nil
			return fmt.Errorf("registry start (%s): %w", s.name, err)
		}
		s.wgid = gid
		s.waitWatcherIdle()
	}
	return nil
}

// --- quiescence of the live expiry watcher ------------------------------------------------------
//
// The watcher is an actor of its own: one goroutine (InvoiceExpiryWatcher.mainLoop) that selects
// on its clock, its height queue, the registry's AddInvoices hand-over and the block epochs, and
// calls the registry's cancelInvoiceImpl. The harness cannot wrap that callback (the registry
// passes its own closure to the concrete type), so it determines the END of the watcher's
// reaction to an event from the runtime: the watcher has finished iff its goroutine is parked
// in mainLoop's select. A goroutine parked there found no case ready; a case can become ready only
// through the harness thread (clock advance, epoch send, AddInvoices inside a registry call), and
// each of those hand-overs marks the goroutine runnable before the sending call returns. The
// goroutine dump is read only to decide how long to WAIT (a completion signal like the hodl
// channel of the "t" event); no verdict depends on timing, and stallGuard only ends the world.

var stackBufs = sync.Pool{New: func() any { b := make([]byte, 1<<20); return &b }}

func allStacks() string {
	bp := stackBufs.Get().(*[]byte)
	for {
		n := runtime.Stack(*bp, true)
		if n < len(*bp) {
			out := string((*bp)[:n])
			stackBufs.Put(bp)
			return out
		}
		b := make([]byte, 2*len(*bp))
		bp = &b
	}
}

const watcherLoopFrame = "InvoiceExpiryWatcher).mainLoop("

// findWatcherGoroutine identifies the mainLoop goroutine of the given watcher. The caller has
// just completed a hand-over on the watcher's (unbuffered) epoch channel, so the goroutine has
// entered mainLoop; its frame is printed with the receiver as first argument.
func findWatcherGoroutine(watcher *invpkg.InvoiceExpiryWatcher) (int64, error) {
	frame := fmt.Sprintf("%s%p,", watcherLoopFrame, watcher)
	var found []int64
	st := allStacks()
	for _, blk := range strings.Split(st, "\n\n") {
		if !strings.HasPrefix(blk, "goroutine ") || !strings.Contains(blk, frame) {
			continue
		}
		f := strings.Fields(blk)
		if id, err := strconv.ParseInt(f[1], 10, 64); err == nil {
			found = append(found, id)
		}
	}
	if len(found) != 1 {
		return 0, fmt.Errorf("cannot identify the expiry watcher's goroutine (%d goroutines show the frame %s)", len(found), frame)
	}
	return found[0], nil
}

// watcherIdle reports whether the watcher goroutine is parked in mainLoop's select (or gone).
func (s *side) watcherIdle() bool {
	st := allStacks()
	hdr := fmt.Sprintf("goroutine %d [", s.wgid)
	i := 0
	if !strings.HasPrefix(st, hdr) {
		i = strings.Index(st, "\n"+hdr)
		if i < 0 {
			return true // the goroutine has exited (watcher stopped)
		}
		i++
	}
	blk := st[i:]
	if j := strings.Index(blk, "\n\n"); j >= 0 {
		blk = blk[:j]
	}
	lines := strings.SplitN(blk, "\n", 3)
	if len(lines) < 2 {
		return false
	}
	status := lines[0][len(hdr):]
	return strings.HasPrefix(status, "select") && strings.Contains(lines[1], watcherLoopFrame)
}

// waitWatcherIdle waits until the watcher has finished reacting (see above).
func (s *side) waitWatcherIdle() {
	if !s.kind.Watch || s.reg == nil || s.wgid == 0 {
		return
	}
	deadline := time.Now().Add(stallGuard)
	for d := 20 * time.Microsecond; ; {
		runtime.Gosched()
		if s.watcherIdle() {
			return
		}
		if time.Now().After(deadline) {
			s.stalled = fmt.Sprintf("expiry watcher of %s not idle within %v", s.name, stallGuard)
			return
		}
		time.Sleep(d)
		if d < 2*time.Millisecond {
			d *= 2
		}
	}
}

// expire moves the watcher's clock past the time expiry of the invoice under test.
func (s *side) expire() {
	s.wclk.Advance(expiryJump)
	s.waitWatcherIdle()
}

// epoch hands the watcher the block at the given height.
func (s *side) epoch(height int32) {
	s.wHeight = height
	guard := time.NewTimer(stallGuard)
	defer guard.Stop()
	select {
	case s.epochs <- &chainntnfs.BlockEpoch{Height: height}:
	case <-guard.C:
		s.stalled = fmt.Sprintf("expiry watcher of %s did not take the block epoch within %v", s.name, stallGuard)
		return
	}
	s.waitWatcherIdle()
}

// restart stops the registry and starts a new one on the same store: the hodl subscriptions and
// the auto-release timers are gone (the links come back with a new channel and replay).
func (s *side) restart() error {
	if s.reg != nil {
		_ = s.reg.Stop()
		s.reg = nil
	}
	s.hodl = make(chan interface{}, 256)
	s.armed = map[int]bool{}
	return s.start()
}

func (s *side) close() {
	if s.reg != nil {
		_ = s.reg.Stop()
		s.reg = nil
	}
	if s.closer != nil {
		s.closer()
		s.closer = nil
	}
}

// bystanderInvoice is the second invoice of a "two" world: a regular invoice with its own
// hash, preimage and payment address. No event of the alphabet pays it (none carries its hash
// together with its address), so it must stay untouched.
func bystanderInvoice() *invpkg.Invoice {
	p := otherPreimage
	return &invpkg.Invoice{
		CreationDate:   startTime,
		Memo:           []byte("c15 bystander"),
		PaymentRequest: []byte("lnbc-c15-bystander"),
		Terms: invpkg.ContractTerm{
			FinalCltvDelta:  12,
			Expiry:          1000 * time.Hour,
			Value:           lnwire.MilliSatoshi(valueV),
			PaymentAddr:     otherAddr,
			PaymentPreimage: &p,
			Features:        kinds["regular"].features(),
		},
	}
}

// lookupBystander reads the bystander invoice.
func (s *side) lookupBystander() invObs {
	inv, err := s.reg.LookupInvoice(context.Background(), otherHash)
	if err != nil {
		if errors.Is(err, invpkg.ErrInvoiceNotFound) || errors.Is(err, invpkg.ErrNoInvoicesCreated) {
			return invObs{}
		}
		return invObs{Err: firstLine(err.Error())}
	}
	return observe(s.ks, &inv)
}

// lookup reads the one invoice of the universe through the registry.
func (s *side) lookup() invObs {
	var (
		inv invpkg.Invoice
		err error
	)
	ctx := context.Background()
	switch {
	case s.kind.JIT == "amp":
		inv, err = s.reg.LookupInvoiceByRef(ctx, invpkg.InvoiceRefByAddr(rightAddr))
	case s.kind.JIT == "keysend":
		inv, err = s.reg.LookupInvoice(ctx, ksHash)
	default:
		inv, err = s.reg.LookupInvoice(ctx, s.kind.invoiceHash())
	}
	if err != nil {
		if errors.Is(err, invpkg.ErrInvoiceNotFound) || errors.Is(err, invpkg.ErrNoInvoicesCreated) {
			return invObs{}
		}
		return invObs{Err: firstLine(err.Error())}
	}
	return observe(s.ks, &inv)
}

func (s *side) verdictOf(res invpkg.HtlcResolution, err error, key int) Verdict {
	switch {
	case err != nil:
		return Verdict{Kind: "error", Outcome: firstLine(err.Error()), Key: key}
	case res == nil:
		return Verdict{Kind: "accept", Key: key}
	}
	switch r := res.(type) {
	case *invpkg.HtlcSettleResolution:
		p := r.Preimage
		return Verdict{Kind: "settle", Outcome: r.Outcome.String(), Preimage: &p, Key: s.ks.index(r.CircuitKey())}
	case *invpkg.HtlcFailResolution:
		return Verdict{Kind: "fail", Outcome: r.Outcome.String(), Key: s.ks.index(r.CircuitKey())}
	}
	return Verdict{Kind: "error", Outcome: fmt.Sprintf("unknown resolution %T", res), Key: key}
}

// drain collects what is on the hodl channel right now.
func (s *side) drain() []Verdict {
	var out []Verdict
	for {
		select {
		case m := <-s.hodl:
			if r, ok := m.(invpkg.HtlcResolution); ok {
				out = append(out, s.verdictOf(r, nil, 0))
			} else {
				out = append(out, Verdict{Kind: "error", Outcome: fmt.Sprintf("hodl channel carried %T", m)})
			}
		default:
			return out
		}
	}
}

func (s *side) notify(spec htlcSpec, key int, height int32) Verdict {
	s.icpt.set(s.ks.key(key), spec.Icpt)
	res, err := s.reg.NotifyExitHopHtlc(
		spec.hash(s.kind), lnwire.MilliSatoshi(spec.Amt), spec.absExpiry(s.kind), height,
		s.ks.key(key), s.hodl, nil, spec.payload(),
	)
	return s.verdictOf(res, err, key)
}

// stallGuard bounds how long the timeout event waits for a completion signal. It is not an
// oracle: when it expires the world is marked stalled and the run is reported as not
// exhaustive.
var stallGuard = 180 * time.Second

// timeout advances both clocks by one hold duration and waits until the registry has
// delivered the cancel resolution of every HTLC that is accepted on the open invoice and for
// which this registry instance runs a timer (all of them, unless the registry was restarted).
func (s *side) timeout(pre invObs) []Verdict {
	due := map[int]bool{}
	if pre.Found && pre.State == "Open" {
		for _, h := range pre.Htlcs {
			if h.State == "acc" && s.armed[h.Key] {
				due[h.Key] = true
			}
		}
	}
	s.dbClk.SetTime(s.dbClk.Now().Add(holdDur))
	s.clk.Advance(holdDur)
	var out []Verdict
	guard := time.NewTimer(stallGuard)
	defer guard.Stop()
	for len(due) > 0 {
		select {
		case m := <-s.hodl:
			r, ok := m.(invpkg.HtlcResolution)
			if !ok {
				out = append(out, Verdict{Kind: "error", Outcome: fmt.Sprintf("hodl channel carried %T", m)})
				continue
			}
			v := s.verdictOf(r, nil, 0)
			out = append(out, v)
			delete(due, v.Key)
		case <-guard.C:
			var ks []int
			for k := range due {
				ks = append(ks, k)
			}
			sort.Ints(ks)
			s.stalled = fmt.Sprintf("no resolution for timed-out htlc(s) %v on %s within %v", ks, s.name, stallGuard)
			return out
		}
	}
	return append(out, s.drain()...)
}

// awaitHodl waits for the next resolution on the hodl channel (completion signal).
func (s *side) awaitHodl() (Verdict, bool) {
	guard := time.NewTimer(stallGuard)
	defer guard.Stop()
	select {
	case m := <-s.hodl:
		if r, ok := m.(invpkg.HtlcResolution); ok {
			return s.verdictOf(r, nil, 0), true
		}
		return Verdict{Kind: "error", Outcome: fmt.Sprintf("hodl channel carried %T", m)}, true
	case <-guard.C:
		return Verdict{}, false
	}
}

func firstLine(s string) string {
	if i := strings.IndexByte(s, '\n'); i >= 0 {
		s = s[:i]
	}
	if len(s) > 160 {
		s = s[:160]
	}
	return s
}

var _ = bytes.Equal
