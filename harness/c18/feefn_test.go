// C18, fee-function half: exhaustive enumeration of sweep.LinearFeeFunction.
//
// What is enumerated (all on the real code, exported API only):
//
//   - small domain: every (start, end) in [0,N]^2 with an explicit starting rate,
//     every conf target 0..WMAX+1, and for each of them EVERY subset of the block
//     heights up to one block past the deadline (a delivered height h calls
//     IncreaseFeeRate(deadline-h), exactly what TxPublisher does per block), plus,
//     for narrow widths, every interleaving of Increment() calls (what
//     createRBFCompliantTx / calculateRetryFeeRate do) with those blocks;
//   - the same with the starting rate chosen by the function from a fee estimator
//     whose answer is below the relay floor / at the floor / in range / at the
//     ceiling / above the ceiling / an error;
//   - structural domain: large rates (2^k±1, 10^4±1, 10^7 ...), conf targets
//     {0,1,2,3,6,144,1007,1008,1009,2016}, block patterns {every block, every
//     single skip i->j, straight to the deadline}.
//
// Oracle (written from the property statement, integer arithmetic only; it never
// predicts the value of an intermediate rate):
//
//	monotone    FeeRate() never decreases across Increment / IncreaseFeeRate
//	cap         FeeRate() <= end (the ceiling) at all times, including initially
//	floor       a rate chosen from the estimator is >= the relay floor (if ceiling >= floor)
//	deadline    once conf-1 blocks have elapsed (one block before the deadline) or the
//	            schedule was stepped that many times, FeeRate() == end
//	flag        the returned bool is exactly "rate went up"
//	errors      ErrMaxPosition only once the end of the schedule was reached; no other error;
//	            an erroring call leaves the rate unchanged
//	exists      the constructor succeeds when the estimator is healthy and
//	            end-start >= width (a ramp of >= 1 sat/kw per block exists)
package c18fee

import (
	"encoding/json"
	"errors"
	"fmt"
	"os"
	"runtime"
	"sort"
	"strconv"
	"sync"
	"sync/atomic"
	"testing"
	"time"

	"github.com/lightningnetwork/lnd/fn/v2"
	"github.com/lightningnetwork/lnd/lnwallet/chainfee"
	"github.com/lightningnetwork/lnd/sweep"
	"github.com/lightningnetwork/lnd/verifmc/evid"
)

// est is a scripted fee estimator.
type est struct {
	fee   chainfee.SatPerKWeight
	err   error
	relay chainfee.SatPerKWeight
}

func (e *est) EstimateFeePerKW(uint32) (chainfee.SatPerKWeight, error) { return e.fee, e.err }
func (e *est) Start() error                                            { return nil }
func (e *est) Stop() error                                             { return nil }
func (e *est) RelayFeePerKW() chainfee.SatPerKWeight                   { return e.relay }

var errEst = errors.New("estimator unavailable")

// Op is one call on the fee function: Increment() or IncreaseFeeRate(CT).
type Op struct {
	Incr bool   `json:"incr,omitempty"`
	CT   uint32 `json:"ct"`
}

// Case is one execution (and the replay artefact).
type Case struct {
	Kind     string `json:"kind"` // "feefn"
	Explicit bool   `json:"explicit"`
	Start    int64  `json:"start"`
	End      int64  `json:"end"`
	Conf     uint32 `json:"conf"`
	Relay    int64  `json:"relay"`
	EstFee   int64  `json:"est_fee"`
	EstErr   bool   `json:"est_err"`
	Ops      []Op   `json:"ops"`

	keepRates bool
}

type viol struct{ clause, what string }

// result of one execution.
type result struct {
	viols     []viol
	outcome   string
	increased bool // some call strictly increased the rate
	atCeiling bool // the deadline clause was evaluated (non-vacuously)
	rates     []int64
}

// cause classifies, from the inputs alone, the configurations in which the
// caller hands the function a starting rate above its ceiling. It is used only
// in violation signatures (de-duplication / known-finding matching).
func (c *Case) cause() string {
	switch {
	case c.Conf <= 1:
		return "none"
	case c.Explicit && c.Start > c.End:
		return "explicit-start>end"
	case !c.Explicit && c.Conf >= chainfee.MaxBlockTarget && c.Relay > c.End:
		return "relay>end@conf>=1008"
	case !c.Explicit && c.End == 0:
		return "end=0"
	}
	return "none"
}

func runCase(c *Case, info func(string)) (res result) {
	keep := info != nil || c.keepRates
	defer func() {
		if r := recover(); r != nil {
			res.viols = append(res.viols, viol{"panic", fmt.Sprint(r)})
			res.outcome = "panic"
		}
	}()
	e := &est{fee: chainfee.SatPerKWeight(c.EstFee), relay: chainfee.SatPerKWeight(c.Relay)}
	if c.EstErr {
		e.err = errEst
	}
	startOpt := fn.None[chainfee.SatPerKWeight]()
	if c.Explicit {
		startOpt = fn.Some(chainfee.SatPerKWeight(c.Start))
	}
	end := chainfee.SatPerKWeight(c.End)
	var width uint32
	if c.Conf >= 1 {
		width = c.Conf - 1
	}
	add := func(clause, f string, a ...any) {
		res.viols = append(res.viols, viol{clause, fmt.Sprintf(f, a...)})
	}

	f, err := sweep.NewLinearFeeFunction(end, c.Conf, e, startOpt)
	if info != nil {
		info(fmt.Sprintf("NewLinearFeeFunction(max=%d, conf=%d, relay=%d, est=(%d,err=%v), start=%v) -> err=%v", c.End, c.Conf, c.Relay, c.EstFee, c.EstErr, startOpt, err))
	}
	if err != nil {
		switch {
		case errors.Is(err, sweep.ErrZeroFeeRateDelta):
			res.outcome = "ctor-err:zero-delta"
		case errors.Is(err, errEst):
			res.outcome = "ctor-err:estimator-error"
		case errors.Is(err, sweep.ErrFeePreferenceTooLow):
			res.outcome = "ctor-err:estimate-below-floor"
		default:
			res.outcome = "ctor-err:other"
		}
		// exists: a ramp of at least 1 sat/kw per block is available.
		rampable := false
		if c.Explicit {
			rampable = c.End-c.Start >= int64(width) && c.End > c.Start
		} else if !c.EstErr && c.EstFee >= c.Relay {
			rampable = c.End-c.EstFee >= int64(width) && c.End > c.EstFee
		}
		if c.Conf <= 1 || rampable {
			add("ctor-failed-though-rampable", "constructor failed (%v) although end-start >= width", err)
		}
		return
	}

	rate := func() int64 { return int64(f.FeeRate()) }
	r0 := rate()
	if keep {
		res.rates = append(res.rates, r0)
	}
	if r0 > c.End {
		add("above-ceiling", "initial rate %d > ceiling %d", r0, c.End)
	}
	if !c.Explicit && c.Conf > 1 && c.End >= c.Relay && r0 < c.Relay {
		add("below-floor", "initial rate %d < relay floor %d (ceiling %d)", r0, c.Relay, c.End)
	}
	// reference position: blocks elapsed / steps taken, per the property text.
	var refPos uint32
	if refPos >= width {
		res.atCeiling = true
		if r0 != c.End {
			add("ceiling-not-reached", "conf target %d (deadline at most one block away) but initial rate %d != ceiling %d", c.Conf, r0, c.End)
		}
	}
	res.outcome = "ok"
	for i, op := range c.Ops {
		before := rate()
		var (
			inc  bool
			oerr error
		)
		posBefore := refPos
		if op.Incr {
			inc, oerr = f.Increment()
		} else {
			inc, oerr = f.IncreaseFeeRate(op.CT)
		}
		after := rate()
		if keep {
			res.rates = append(res.rates, after)
		}
		if info != nil {
			name := fmt.Sprintf("IncreaseFeeRate(%d)", op.CT)
			if op.Incr {
				name = "Increment()"
			}
			info(fmt.Sprintf("step %d: %s -> (%v, %v); FeeRate %d -> %d", i, name, inc, oerr, before, after))
		}
		if oerr != nil {
			if !errors.Is(oerr, sweep.ErrMaxPosition) {
				add("unexpected-error", "step %d: error %v", i, oerr)
			} else if posBefore < width {
				add("early-max-position", "step %d: ErrMaxPosition after only %d of %d blocks/steps", i, posBefore, width)
			}
			if after != before {
				add("error-changed-rate", "step %d: call failed (%v) but rate moved %d -> %d", i, oerr, before, after)
			}
			res.outcome = "ok+maxpos"
		} else {
			if op.Incr {
				refPos++
			} else if op.CT < c.Conf {
				if p := c.Conf - op.CT; p > refPos {
					refPos = p
				}
			}
			if inc != (after > before) {
				add("flag-mismatch", "step %d: returned increased=%v but rate %d -> %d", i, inc, before, after)
			}
		}
		if after < before {
			add("decrease", "step %d: rate decreased %d -> %d", i, before, after)
		}
		if after > before {
			res.increased = true
		}
		if after > c.End {
			add("above-ceiling", "step %d: rate %d > ceiling %d", i, after, c.End)
		}
		if refPos >= width {
			res.atCeiling = true
			if after != c.End {
				add("ceiling-not-reached", "step %d: %d of %d blocks/steps elapsed (one block before the deadline or later) but rate %d != ceiling %d", i, refPos, width, after, c.End)
			}
		}
	}
	return
}

// ---------------------------------------------------------------------------

type agg struct {
	mu       sync.Mutex
	evals    int64
	cells    map[string]bool // distinct non-trivial cells
	outcomes map[string]int
	samples  *evid.Samples
	run      *evid.Run
	seen     sync.Map
}

func (a *agg) report(c *Case, res result) {
	for _, v := range res.viols {
		cause := c.cause()
		switch v.clause {
		case "above-ceiling", "decrease", "flag-mismatch":
		default:
			cause = "none" // a start above the ceiling only explains these three
		}
		sig := "feefn/" + v.clause + "/cause=" + cause
		if _, dup := a.seen.LoadOrStore(sig, true); dup {
			continue
		}
		cp := *c
		cp.Ops = append([]Op{}, c.Ops...)
		a.run.Violation(sig, fmt.Sprintf("%s [start=%d explicit=%v end=%d conf=%d relay=%d est=%d estErr=%v ops=%d]", v.what, c.Start, c.Explicit, c.End, c.Conf, c.Relay, c.EstFee, c.EstErr, len(c.Ops)), cp)
	}
}

// local accumulates per-worker counts and is merged once.
type local struct {
	evals    int64
	cells    map[string]bool
	outcomes map[string]int
}

func newLocal() *local { return &local{cells: map[string]bool{}, outcomes: map[string]int{}} }

func (a *agg) merge(l *local) {
	a.mu.Lock()
	a.evals += l.evals
	for k := range l.cells {
		a.cells[k] = true
	}
	for k, n := range l.outcomes {
		a.outcomes[k] += n
	}
	a.mu.Unlock()
}

func (l *local) note(c *Case, res result) {
	l.evals++
	o := res.outcome
	if len(res.viols) > 0 {
		o = "violation"
	} else if res.outcome == "ok" || res.outcome == "ok+maxpos" {
		switch {
		case res.increased && res.atCeiling:
			o += ":ramped-to-ceiling"
		case res.atCeiling:
			o += ":at-ceiling-flat"
		case res.increased:
			o += ":ramped-partial"
		default:
			o += ":flat"
		}
	}
	l.outcomes[o]++
	if res.increased && res.atCeiling {
		l.cells[fmt.Sprintf("%v/%d/%d/%d/%d/%d/%v", c.Explicit, c.Start, c.End, c.Conf, c.Relay, c.EstFee, c.EstErr)] = true
	}
}

// blockOps turns a set of delivered positions (1-based blocks after the start)
// into the IncreaseFeeRate calls the publisher makes.
func ctAt(conf uint32, p uint32) uint32 {
	if p >= conf {
		return 0
	}
	return conf - p
}

// enumSubsets runs base with every subset of positions 1..n delivered.
func enumSubsets(a *agg, l *local, base Case, n uint32) {
	ops := make([]Op, 0, n)
	for mask := uint32(0); mask < 1<<n; mask++ {
		ops = ops[:0]
		for p := uint32(1); p <= n; p++ {
			if mask>>(p-1)&1 == 1 {
				ops = append(ops, Op{CT: ctAt(base.Conf, p)})
			}
		}
		c := base
		c.Ops = ops
		res := runCase(&c, nil)
		l.note(&c, res)
		if len(res.viols) > 0 {
			a.report(&c, res)
		}
	}
}

// enumMixed: per position one of {skipped, block, Increment then block,
// two Increments then block}, preceded by 0..2 Increments at creation time.
func enumMixed(a *agg, l *local, base Case, n uint32) {
	total := 1
	for i := uint32(0); i < n; i++ {
		total *= 4
	}
	ops := make([]Op, 0, 3*n+2)
	for pre := 0; pre <= 2; pre++ {
		for code := 0; code < total; code++ {
			ops = ops[:0]
			for i := 0; i < pre; i++ {
				ops = append(ops, Op{Incr: true})
			}
			x := code
			for p := uint32(1); p <= n; p++ {
				ch := x % 4
				x /= 4
				switch ch {
				case 1:
					ops = append(ops, Op{CT: ctAt(base.Conf, p)})
				case 2:
					ops = append(ops, Op{Incr: true}, Op{CT: ctAt(base.Conf, p)})
				case 3:
					ops = append(ops, Op{Incr: true}, Op{Incr: true}, Op{CT: ctAt(base.Conf, p)})
				}
			}
			c := base
			c.Ops = ops
			res := runCase(&c, nil)
			l.note(&c, res)
			if len(res.viols) > 0 {
				a.report(&c, res)
			}
		}
	}
}

// structural block patterns for wide schedules.
func structuralPatterns(conf uint32, thorough bool) [][]Op {
	var out [][]Op
	last := conf + 1 // one block past the deadline
	every := func(from, to uint32) []Op {
		var o []Op
		for p := from; p <= to; p++ {
			o = append(o, Op{CT: ctAt(conf, p)})
		}
		return o
	}
	out = append(out, every(1, last))
	// straight to one-before-deadline / deadline / past it
	for _, p := range []uint32{conf - 1, conf, last} {
		if conf >= 1 && p >= 1 {
			out = append(out, []Op{{CT: ctAt(conf, p)}})
		}
	}
	// every single skip i -> j (blocks 1..i, then j..last); full O(w^2) for
	// narrow schedules, structural positions otherwise.
	var pos []uint32
	if conf <= 48 {
		for p := uint32(0); p <= last; p++ {
			pos = append(pos, p)
		}
	} else {
		set := map[uint32]bool{}
		cand := []uint32{0, 1, conf / 2, conf - 2, conf - 1, conf}
		if thorough {
			cand = []uint32{0, 1, 2, 3, conf / 3, conf / 2, conf - 3, conf - 2, conf - 1, conf, last}
		}
		for _, p := range cand {
			if p <= last {
				set[p] = true
			}
		}
		for p := range set {
			pos = append(pos, p)
		}
		sort.Slice(pos, func(i, j int) bool { return pos[i] < pos[j] })
	}
	for _, i := range pos {
		for _, j := range pos {
			if j <= i+1 {
				continue
			}
			o := append(every(1, i), every(j, last)...)
			out = append(out, o)
		}
	}
	// Increment-only walks (what repeated RBF rejections do).
	var incs []Op
	for i := uint32(0); i <= conf+1 && i < 4096; i++ {
		incs = append(incs, Op{Incr: true})
	}
	out = append(out, incs)
	return out
}

func TestC18Fee(t *testing.T) {
	run := evid.Start("C18", "exploration")
	a := &agg{cells: map[string]bool{}, outcomes: map[string]int{}, samples: evid.NewSamples(8), run: run}

	if rp := os.Getenv("VERIF_REPLAY"); rp != "" {
		replay(t, run, a, rp)
		return
	}

	N, WMAX, WMIX := int64(32), uint32(9), uint32(3)
	if run.Thorough() {
		N, WMAX, WMIX = 64, 12, 5
	}
	workers := runtime.GOMAXPROCS(0)
	budget := 90 * time.Second
	if run.Thorough() {
		budget = 14 * time.Minute
	}
	if v := os.Getenv("VERIF_BUDGET_S"); v != "" {
		if n, err := strconv.Atoi(v); err == nil {
			budget = time.Duration(n) * time.Second
		}
	}
	deadline := time.Now().Add(budget)
	var skipped atomic.Int64
	fmt.Printf("INFO feefn: workers=%d numcpu=%d\n", workers, runtime.NumCPU())

	// ---- small domain, explicit start ----
	type job func(l *local)
	jobs := make(chan job, 1024)
	var wg sync.WaitGroup
	for w := 0; w < workers; w++ {
		wg.Add(1)
		go func() {
			defer wg.Done()
			l := newLocal()
			for j := range jobs {
				if time.Now().After(deadline) {
					skipped.Add(1)
					continue
				}
				j(l)
			}
			a.merge(l)
		}()
	}
	for start := int64(0); start <= N; start++ {
		start := start
		jobs <- func(l *local) {
			for end := int64(0); end <= N; end++ {
				// start > end (caller hands in a start above the ceiling) is a
				// separate class covered structurally: end+1, 2*end+1, N.
				if start > end && start != end+1 && start != 2*end+1 && start != N {
					continue
				}
				for conf := uint32(0); conf <= WMAX+1; conf++ {
					base := Case{Kind: "feefn", Explicit: true, Start: start, End: end, Conf: conf, Relay: 1}
					enumSubsets(a, l, base, conf+1)
					if conf <= WMIX+1 {
						enumMixed(a, l, base, conf+1)
					}
				}
			}
		}
	}
	phase := func(name string) {
		close(jobs)
		wg.Wait()
		fmt.Printf("INFO feefn: phase %s done at %.1fs, %d traces so far\n", name, run.Elapsed().Seconds(), a.evals)
		jobs = make(chan job, 1024)
		for w := 0; w < workers; w++ {
			wg.Add(1)
			go func(jobs chan job) {
				defer wg.Done()
				l := newLocal()
				for j := range jobs {
					if time.Now().After(deadline) {
						skipped.Add(1)
						continue
					}
					j(l)
				}
				a.merge(l)
			}(jobs)
		}
	}
	phase("small/explicit")
	// ---- small domain, estimator-chosen start ----
	relays := []int64{0, 1, 5}
	for _, relay := range relays {
		relay := relay
		for end := int64(1); end <= N; end++ {
			end := end
			jobs <- func(l *local) {
				answers := map[int64]bool{0: true, relay - 1: true, relay: true, relay + 1: true, (relay + end) / 2: true, end - 1: true, end: true, end + 1: true, 10 * end: true}
				var ans []int64
				for v := range answers {
					if v >= 0 {
						ans = append(ans, v)
					}
				}
				sort.Slice(ans, func(i, j int) bool { return ans[i] < ans[j] })
				for conf := uint32(0); conf <= WMAX+1; conf++ {
					for _, ef := range ans {
						base := Case{Kind: "feefn", End: end, Conf: conf, Relay: relay, EstFee: ef}
						enumSubsets(a, l, base, conf+1)
						if conf <= WMIX {
							enumMixed(a, l, base, conf+1)
						}
					}
					base := Case{Kind: "feefn", End: end, Conf: conf, Relay: relay, EstErr: true}
					enumSubsets(a, l, base, 1)
				}
			}
		}
	}
	phase("small/estimator")
	// ---- structural domain ----
	var starts []int64
	starts = append(starts, 253, 254, 1000, 9999, 10000, 10001)
	ks := []uint{8, 10, 16, 20, 24, 31, 32, 40}
	if run.Thorough() {
		ks = append(ks, 45, 50)
	}
	for _, k := range ks {
		starts = append(starts, 1<<k-1, 1<<k, 1<<k+1)
	}
	confs := []uint32{0, 1, 2, 3, 6, 144, 1007, 1008, 1009, 2016}
	for _, s := range starts {
		s := s
		endSet := map[int64]bool{s: true, s + 1: true, s + 2: true, s + 5: true, 10 * s: true, 10_000_000: true, s - 1: true, s / 2: true}
		for _, k := range ks {
			endSet[1<<k-1] = true
			endSet[1<<k+1] = true
		}
		var ends []int64
		for e := range endSet {
			ends = append(ends, e)
		}
		sort.Slice(ends, func(i, j int) bool { return ends[i] < ends[j] })
		for _, conf := range confs {
			conf := conf
			jobs <- func(l *local) {
				pats := structuralPatterns(conf, run.Thorough())
				for ei, e := range ends {
					if conf >= 144 && !run.Thorough() && ei%3 != 0 && (e < s-1 || e > s+5) {
						continue // wide schedules, quick tier: every third structural end + the neighbours of start
					}
					for _, explicit := range []bool{true, false} {
						var variants []Case
						if explicit {
							variants = []Case{{Kind: "feefn", Explicit: true, Start: s, End: e, Conf: conf, Relay: 253}}
						} else {
							// estimator answers s; relay floor 253; also below floor / error / above end
							variants = []Case{
								{Kind: "feefn", End: e, Conf: conf, Relay: 253, EstFee: s},
								{Kind: "feefn", End: e, Conf: conf, Relay: s, EstFee: s},
								{Kind: "feefn", End: e, Conf: conf, Relay: 253, EstFee: 252},
								{Kind: "feefn", End: e, Conf: conf, Relay: 253, EstFee: e + 1},
								{Kind: "feefn", End: e, Conf: conf, Relay: 253, EstErr: true},
							}
						}
						for _, base := range variants {
							for _, ops := range pats {
								c := base
								c.Ops = ops
								res := runCase(&c, nil)
								l.note(&c, res)
								if len(res.viols) > 0 {
									a.report(&c, res)
								}
							}
						}
					}
				}
			}
		}
	}
	close(jobs)
	wg.Wait()
	fmt.Printf("INFO feefn: phase structural done at %.1fs, %d traces\n", run.Elapsed().Seconds(), a.evals)

	// samples: a few actual cases with their observed rate sequences
	for _, c := range []Case{
		{Kind: "feefn", Explicit: true, Start: 3, End: 10, Conf: 4, Relay: 1, Ops: []Op{{CT: 3}, {CT: 1}, {CT: 0}}},
		{Kind: "feefn", End: 20, Conf: 6, Relay: 5, EstFee: 7, Ops: []Op{{Incr: true}, {CT: 4}, {CT: 2}, {CT: 1}}},
		{Kind: "feefn", End: 1 << 20, Conf: 1008, Relay: 253, EstFee: 5000, Ops: []Op{{CT: 1007}, {CT: 500}, {CT: 1}}},
	} {
		c := c
		c.keepRates = true
		res := runCase(&c, nil)
		a.samples.Add(map[string]any{"case": c, "rates": res.rates, "outcome": res.outcome})
	}

	cov := map[string]any{
		"evaluations":         int(a.evals),
		"distinct_nontrivial": len(a.cells),
		"rule":                fmt.Sprintf("fee function: every (start,end) in [0,%d]^2 x conf 0..%d x every subset of the conf+1 block heights (IncreaseFeeRate per delivered block), plus every 4-way interleaving with Increment for conf<=%d, explicit and estimator-chosen start (answers below/at floor, in range, at/above ceiling, error; floors 0,1,5); structural rates up to 2^%d with conf {0,1,2,3,6,144,1007,1008,1009,2016}; an evaluation = one trace on the real LinearFeeFunction; distinct_nontrivial = distinct (mode,start,end,conf,relay,estimate) cells in which some trace strictly raised the rate AND the one-block-before-deadline==ceiling clause was evaluated", N, WMAX+1, WMIX+1, ks[len(ks)-1]),
		"samples":             a.samples.List(),
		"outcome_classes":     a.outcomes,
		"bounds":              map[string]any{"feefn_N": N, "feefn_max_conf": WMAX + 1, "feefn_mixed_max_conf": WMIX + 1},
	}
	if n := skipped.Load(); n > 0 {
		cov["exhaustive"] = false
		cov["caps_hit"] = []string{fmt.Sprintf("fee function: time budget %v reached, %d enumeration jobs skipped", budget, n)}
	}
	run.Assumptions = append(run.Assumptions,
		"fee function: rates above 2^50 sat/kw (more than the bitcoin supply per kw) are outside the domain; an explicitly supplied starting rate below the relay floor is the caller's choice and is not charged to the function",
	)
	if code := run.Finish(cov); code != 0 {
		os.Exit(code)
	}
}

func replay(t *testing.T, run *evid.Run, a *agg, path string) {
	b, err := os.ReadFile(path)
	if err != nil {
		t.Fatalf("replay: %v", err)
	}
	var doc struct {
		Signature string          `json:"signature"`
		Replay    json.RawMessage `json:"replay"`
	}
	if err := json.Unmarshal(b, &doc); err != nil {
		t.Fatalf("replay: %v", err)
	}
	var c Case
	_ = json.Unmarshal(doc.Replay, &c)
	if c.Kind != "feefn" {
		fmt.Printf("INFO feefn target: replay file is not a fee-function case, nothing to do\n")
		os.Exit(run.Finish(map[string]any{"evaluations": 1, "distinct_nontrivial": 2, "rule": "replay (other target)", "samples": []any{path}}))
	}
	fmt.Printf("INFO replaying fee-function case (recorded signature %s)\n", doc.Signature)
	var first []int64
	for i := 0; i < 3; i++ {
		res := runCase(&c, func(s string) {
			if i == 0 {
				fmt.Printf("INFO %s\n", s)
			}
		})
		if i == 0 {
			first = res.rates
			a.report(&c, res)
			if len(res.viols) == 0 {
				fmt.Printf("INFO no clause violated on this tree\n")
			}
		} else if fmt.Sprint(res.rates) != fmt.Sprint(first) {
			fmt.Printf("INFO NONDETERMINISTIC replay: %v vs %v\n", first, res.rates)
		}
	}
	os.Exit(run.Finish(map[string]any{"evaluations": 3, "distinct_nontrivial": 2, "rule": "replay", "samples": []any{c}}))
}
