// C18, publisher half: the real UtxoSweeper + BudgetAggregator + TxPublisher
// pipeline (exported API only) driven block by block inside a testing/synctest
// bubble, with recording wallet / estimator / notifier / store doubles owned by
// the harness. Every transaction the node hands to CheckMempoolAcceptance or
// PublishTransaction is judged from the transaction bytes alone.
//
// Oracle (from the property statement; no expected values per scenario):
//
//	budget     fee(tx) = sum(input values) - sum(outputs) <= sum of the budgets
//	           attached to the inputs it spends (wallet top-up inputs carry 0)
//	max-rate   fee(tx) <= MaxFeeRate x weight (weight counted with a change
//	           output) + the below-dust remainder that cannot become an output
//	inputs     the tx spends exactly the inputs of one broadcast request, all of
//	           them known (offered to the sweeper or wallet UTXOs)
//	dust       no output below the dust limit of its script
//	monotone   within one broadcast request (one fee schedule) the rate offered to
//	           the wallet never decreases, rejected offers included; and nothing is
//	           ever offered below the last successfully published tx of the same
//	           input set, across retries too (exact reported rates where the sweeper
//	           stored one, else the interval of rates consistent with fee and weight)
//	per-input  for every offered input, whatever sets it travels through (sets are
//	           regrouped after failed sweeps, after a restart, when later inputs
//	           join): no tx spending it is ever offered below the rate of a tx
//	           spending it that was already published - unless that tx pays the
//	           ceiling min(budget/size, max) of the set it now belongs to
//	floor      a rate chosen by the node starts at >= the relay floor (if ceiling >= floor)
//	deadline   once a block at height >= deadline-1 has been processed, the last tx
//	           offered for the input set pays the ceiling min(budget/size, max), where
//	           budget/size may be rounded down or up as long as its fee stays within
//	           the budget (evaluated only in a healthy environment and only if a tx at
//	           the ceiling is constructible from the inputs: covers the fee, change not dust)
//	exists     in healthy scenarios with economical inputs a sweep is published at all
package c18pipe

import (
	"crypto/sha256"
	"encoding/json"
	"errors"
	"fmt"
	"os"
	"runtime"
	"sort"
	"strconv"
	"strings"
	"sync"
	"testing"
	"testing/synctest"
	"time"

	"github.com/btcsuite/btcd/btcutil/v2"
	"github.com/btcsuite/btcd/chainhash/v2"
	"github.com/btcsuite/btcd/txscript/v2"
	"github.com/btcsuite/btcd/wire/v2"
	"github.com/btcsuite/btclog/v2"
	"github.com/btcsuite/btcwallet/chain"
	"github.com/lightningnetwork/lnd/chainio"
	"github.com/lightningnetwork/lnd/chainntnfs"
	"github.com/lightningnetwork/lnd/fn/v2"
	"github.com/lightningnetwork/lnd/input"
	"github.com/lightningnetwork/lnd/lntypes"
	"github.com/lightningnetwork/lnd/lnwallet"
	"github.com/lightningnetwork/lnd/lnwallet/chainfee"
	"github.com/lightningnetwork/lnd/sweep"
	"github.com/lightningnetwork/lnd/tlv"
	"github.com/lightningnetwork/lnd/verifmc/evid"
)

const h0 = int32(1000)

// InSpec is one input offered to the sweeper.
type InSpec struct {
	Value     int64 `json:"value"`
	Budget    int64 `json:"budget"`
	ReqOut    int64 `json:"req_out,omitempty"` // >0: carries a required output of this value
	Start     int64 `json:"start,omitempty"`   // explicit starting fee rate (sat/kw)
	Immediate bool  `json:"immediate,omitempty"`
	At        int32 `json:"at,omitempty"` // offered once every delivered block with offset <= At has been processed (0: before the first block)
	// input KIND alphabet (family P). Kind: "" = to_local (CommitmentTimeLock,
	// P2WSH), "anchor" = CommitmentAnchor (P2WSH), "tranchor" =
	// TaprootAnchorSweepSpend (P2TR). ParentW > 0: the tx that created the
	// input is still UNCONFIRMED and has this weight / paid this fee
	// (input.UnconfParent() != nil, what lnd attaches to the anchor of a not yet
	// confirmed commitment tx). Inputs with the same ParentID > 0 are outputs of
	// the same parent tx (same txid). Excl > 0: offered with this exclusive group.
	Kind      string `json:"kind,omitempty"`
	ParentW   int64  `json:"parent_w,omitempty"`
	ParentFee int64  `json:"parent_fee,omitempty"`
	ParentID  int    `json:"parent_id,omitempty"`
	Excl      uint64 `json:"excl,omitempty"`
}

// Scenario is one execution (and the replay artefact).
type Scenario struct {
	Kind         string   `json:"kind"` // "pipe"
	Inputs       []InSpec `json:"inputs"`
	Wallet       []int64  `json:"wallet,omitempty"`
	MaxFeeRateVB int64    `json:"max_fee_rate_vb"`
	Relay        int64    `json:"relay"`
	EstFee       int64    `json:"est_fee"`
	EstErr       bool     `json:"est_err,omitempty"`
	Delta        int32    `json:"delta"`       // deadline = h0 + Delta; <0: no deadline given
	Blocks       []int32  `json:"blocks"`      // delivered heights (offsets from h0), ascending
	RejectMask   uint32   `json:"reject_mask"` // per input set: i-th CheckMempoolAcceptance answers ErrInsufficientFee
	PubFailMask  uint32   `json:"pubfail_mask"`
	P2WKHChange  bool     `json:"p2wkh_change,omitempty"`
	PubFailAt    []int32  `json:"pubfail_at,omitempty"` // EVERY PublishTransaction at these heights (offsets) fails with a non-fee error, whatever the input set
	Restart      int32    `json:"restart,omitempty"`    // >0: once the blocks with offset <= Restart are processed the node is stopped, a new sweeper+publisher is started on the same store / mempool and every input offered so far is offered again (budget and deadline as before; no immediate flag, no explicit starting rate)
}

// ---------------------------------------------------------------------------
// scripts, witnesses, weights

func p2wsh(tag byte) []byte {
	s := make([]byte, 34)
	s[0], s[1] = 0x00, 0x20
	s[2] = tag
	return s
}
func p2wkh(tag byte) []byte {
	s := make([]byte, 22)
	s[0], s[1] = 0x00, 0x14
	s[2] = tag
	return s
}
func p2tr(tag byte) []byte {
	s := make([]byte, 34)
	s[0], s[1] = 0x51, 0x20
	s[2] = tag
	return s
}

// dustFor is Bitcoin Core's GetDustThreshold at the default 3000 sat/kvB,
// written independently of lnd.
func dustFor(script []byte) int64 {
	out := int64(8 + 1 + len(script))
	isWit := len(script) >= 4 && len(script) <= 42 && (script[0] == 0 || (script[0] >= 0x51 && script[0] <= 0x60)) && int(script[1]) == len(script)-2
	if isWit {
		return (out + 67) * 3
	}
	return (out + 148) * 3
}

// exactWitness returns a witness whose serialized size is exactly n bytes.
func exactWitness(n int) wire.TxWitness {
	switch {
	case n <= 254:
		return wire.TxWitness{make([]byte, n-2)}
	case n >= 257:
		return wire.TxWitness{make([]byte, n-4)}
	default: // 255, 256
		return wire.TxWitness{make([]byte, 1), make([]byte, n-4)}
	}
}

func txWeight(tx *wire.MsgTx) int64 {
	return int64(tx.SerializeSizeStripped()*3 + tx.SerializeSize())
}

// swInput is the harness' own input.Input.
type swInput struct {
	op  wire.OutPoint
	wt  input.StandardWitnessType
	sd  input.SignDescriptor
	req *wire.TxOut
	par *input.TxInfo
}

func (i *swInput) OutPoint() wire.OutPoint          { return i.op }
func (i *swInput) RequiredTxOut() *wire.TxOut       { return i.req }
func (i *swInput) RequiredLockTime() (uint32, bool) { return 0, false }
func (i *swInput) WitnessType() input.WitnessType   { return i.wt }
func (i *swInput) SignDesc() *input.SignDescriptor  { return &i.sd }
func (i *swInput) BlocksToMaturity() uint32         { return 0 }
func (i *swInput) HeightHint() uint32               { return 900 }
func (i *swInput) UnconfParent() *input.TxInfo      { return i.par }
func (i *swInput) ResolutionBlob() fn.Option[tlv.Blob] {
	return fn.None[tlv.Blob]()
}
func (i *swInput) Preimage() fn.Option[lntypes.Preimage] {
	return fn.None[lntypes.Preimage]()
}
func (i *swInput) CraftInputScript(input.Signer, *wire.MsgTx, *txscript.TxSigHashes, txscript.PrevOutputFetcher, int) (*input.Script, error) {
	size, _, err := i.wt.SizeUpperBound()
	if err != nil {
		return nil, err
	}
	return &input.Script{Witness: exactWitness(int(size))}, nil
}

func outpoint(kind byte, n int) wire.OutPoint {
	h := sha256.Sum256([]byte{kind, byte(n), 'c', '1', '8'})
	return wire.OutPoint{Hash: chainhash.Hash(h), Index: uint32(n)}
}

// inOutpoint is the outpoint of offered input n: output n of a tx of its own,
// or of the shared parent tx ParentID.
func inOutpoint(n int, s InSpec) wire.OutPoint {
	if s.ParentID > 0 {
		h := sha256.Sum256([]byte{'p', byte(s.ParentID), 'c', '1', '8'})
		return wire.OutPoint{Hash: chainhash.Hash(h), Index: uint32(n)}
	}
	return outpoint('i', n)
}

func (sc *Scenario) op(n int) wire.OutPoint { return inOutpoint(n, sc.Inputs[n]) }

func makeInput(n int, s InSpec) *swInput {
	in := &swInput{op: inOutpoint(n, s), wt: input.CommitmentTimeLock}
	in.sd.Output = &wire.TxOut{Value: s.Value, PkScript: p2wsh(byte(0x10 + n))}
	switch s.Kind {
	case "anchor":
		in.wt = input.CommitmentAnchor
	case "tranchor":
		in.wt = input.TaprootAnchorSweepSpend
		in.sd.Output.PkScript = p2tr(byte(0x10 + n))
	}
	if s.ParentW > 0 {
		in.par = &input.TxInfo{Fee: btcutil.Amount(s.ParentFee), Weight: lntypes.WeightUnit(s.ParentW)}
	}
	if s.ReqOut > 0 {
		in.wt = input.HtlcOfferedTimeoutSecondLevelInputConfirmed
		in.req = &wire.TxOut{Value: s.ReqOut, PkScript: p2wsh(byte(0x80 + n))}
	}
	return in
}

// signer serves the wallet inputs the sweeper creates itself (P2WKH).
type signer struct{ input.MuSig2Signer }

func (signer) SignOutputRaw(*wire.MsgTx, *input.SignDescriptor) (input.Signature, error) {
	return nil, errors.New("c18: SignOutputRaw unused")
}
func (signer) ComputeInputScript(*wire.MsgTx, *input.SignDescriptor) (*input.Script, error) {
	return &input.Script{Witness: wire.TxWitness{make([]byte, 73), make([]byte, 33)}}, nil
}

// ---------------------------------------------------------------------------
// world: the doubles and the observation log

type txObs struct {
	Seq    int
	Height int32
	Kind   string // check | publish
	Tx     *wire.MsgTx
	Ans    string
	Key    string
}

type reqObs struct {
	Seq       int
	Height    int32
	Key       string
	Budget    int64
	MaxRate   int64
	Start     int64 // -1 none
	Deadline  int32
	Immediate bool
}

type world struct {
	mu      sync.Mutex
	sc      *Scenario
	height  int32
	seq     int
	txs     []txObs
	reqs    []reqObs
	stored  map[chainhash.Hash]sweep.TxRecord
	nCheck  map[string]int
	nPub    map[string]int
	utxos   []*lnwallet.Utxo
	values  map[wire.OutPoint]int64 // every known outpoint -> value
	budgets map[wire.OutPoint]int64
	reqOuts map[wire.OutPoint]int64
	offered map[wire.OutPoint]bool
	change  []byte
	info    func(string)
	// mempool model: the successfully published txs that no later successful
	// publish conflicts with (nothing ever confirms)
	pool       map[chainhash.Hash]*wire.MsgTx
	restartSeq []int // value of seq at each restart
}

func keyOfOutpoints(ops []wire.OutPoint) string {
	ss := make([]string, len(ops))
	for i, o := range ops {
		ss[i] = o.String()
	}
	sort.Strings(ss)
	return strings.Join(ss, ",")
}

func keyOfTx(tx *wire.MsgTx) string {
	ops := make([]wire.OutPoint, len(tx.TxIn))
	for i, ti := range tx.TxIn {
		ops[i] = ti.PreviousOutPoint
	}
	return keyOfOutpoints(ops)
}

func (w *world) logf(f string, a ...any) {
	if w.info != nil {
		w.info(fmt.Sprintf(f, a...))
	}
}

// --- sweep.Wallet
type wallet struct{ w *world }

var errPublish = errors.New("c18: wallet rejected the transaction")

func (m wallet) PublishTransaction(tx *wire.MsgTx, _ string) error {
	w := m.w
	w.mu.Lock()
	defer w.mu.Unlock()
	k := keyOfTx(tx)
	i := w.nPub[k]
	w.nPub[k]++
	var err error
	ans := "ok"
	if i < 32 && w.sc.PubFailMask>>uint(i)&1 == 1 {
		err, ans = errPublish, "publish-error"
	}
	for _, off := range w.sc.PubFailAt {
		if w.height == h0+off {
			err, ans = errPublish, "publish-error"
		}
	}
	if err == nil {
		for h, old := range w.pool {
			if conflicts(old, tx) {
				delete(w.pool, h)
			}
		}
		w.pool[tx.TxHash()] = tx.Copy()
	}
	w.seq++
	w.txs = append(w.txs, txObs{Seq: w.seq, Height: w.height, Kind: "publish", Tx: tx.Copy(), Ans: ans, Key: k})
	w.logf("h=%d PublishTransaction #%d for set: %s -> %s", w.height, i, describeTx(w, tx), ans)
	return err
}
func (m wallet) CheckMempoolAcceptance(tx *wire.MsgTx) error {
	w := m.w
	w.mu.Lock()
	defer w.mu.Unlock()
	k := keyOfTx(tx)
	i := w.nCheck[k]
	w.nCheck[k]++
	var err error
	ans := "ok"
	if i < 32 && w.sc.RejectMask>>uint(i)&1 == 1 {
		err, ans = chain.ErrInsufficientFee, "insufficient-fee"
	}
	w.seq++
	w.txs = append(w.txs, txObs{Seq: w.seq, Height: w.height, Kind: "check", Tx: tx.Copy(), Ans: ans, Key: k})
	w.logf("h=%d CheckMempoolAcceptance #%d: %s -> %s", w.height, i, describeTx(w, tx), ans)
	return err
}
func (m wallet) ListUnspentWitnessFromDefaultAccount(int32, int32) ([]*lnwallet.Utxo, error) {
	out := make([]*lnwallet.Utxo, len(m.w.utxos))
	for i, u := range m.w.utxos {
		c := *u
		out[i] = &c
	}
	return out, nil
}
func (m wallet) WithCoinSelectLock(f func() error) error     { return f() }
func (m wallet) RemoveDescendants(*wire.MsgTx) error         { return nil }
func (m wallet) FetchTx(chainhash.Hash) (*wire.MsgTx, error) { return nil, nil }
func (m wallet) CancelRebroadcast(chainhash.Hash)            {}
func (m wallet) BackEnd() string                             { return "bitcoind" }
func (m wallet) GetTransactionDetails(*chainhash.Hash) (*lnwallet.TransactionDetail, error) {
	return nil, errors.New("c18: no details")
}

// --- chainfee.Estimator
type estimator struct{ w *world }

var errEstimator = errors.New("c18: estimator unavailable")

func (e estimator) EstimateFeePerKW(uint32) (chainfee.SatPerKWeight, error) {
	if e.w.sc.EstErr {
		return 0, errEstimator
	}
	return chainfee.SatPerKWeight(e.w.sc.EstFee), nil
}
func (e estimator) Start() error { return nil }
func (e estimator) Stop() error  { return nil }
func (e estimator) RelayFeePerKW() chainfee.SatPerKWeight {
	return chainfee.SatPerKWeight(e.w.sc.Relay)
}

// --- chainntnfs.ChainNotifier (nothing is ever spent: the worst case for the ramp)
type notifier struct{}

func (notifier) RegisterConfirmationsNtfn(*chainhash.Hash, []byte, uint32, uint32, ...chainntnfs.NotifierOption) (*chainntnfs.ConfirmationEvent, error) {
	return nil, errors.New("c18: unused")
}
func (notifier) RegisterSpendNtfn(*wire.OutPoint, []byte, uint32) (*chainntnfs.SpendEvent, error) {
	return &chainntnfs.SpendEvent{Spend: make(chan *chainntnfs.SpendDetail, 1), Cancel: func() {}}, nil
}
func (notifier) RegisterBlockEpochNtfn(*chainntnfs.BlockEpoch) (*chainntnfs.BlockEpochEvent, error) {
	return nil, errors.New("c18: unused")
}
func (notifier) Start() error  { return nil }
func (notifier) Started() bool { return true }
func (notifier) Stop() error   { return nil }

// --- chainntnfs.MempoolWatcher
type mempool struct{ w *world }

func conflicts(a, b *wire.MsgTx) bool {
	for _, x := range a.TxIn {
		for _, y := range b.TxIn {
			if x.PreviousOutPoint == y.PreviousOutPoint {
				return true
			}
		}
	}
	return false
}

func (mempool) SubscribeMempoolSpent(wire.OutPoint) (*chainntnfs.MempoolSpendEvent, error) {
	return nil, errors.New("c18: unused")
}
func (mempool) CancelMempoolSpendEvent(*chainntnfs.MempoolSpendEvent) {}
func (m mempool) LookupInputMempoolSpend(op wire.OutPoint) fn.Option[wire.MsgTx] {
	m.w.mu.Lock()
	defer m.w.mu.Unlock()
	for _, tx := range m.w.pool {
		for _, ti := range tx.TxIn {
			if ti.PreviousOutPoint == op {
				return fn.Some(*tx.Copy())
			}
		}
	}
	return fn.None[wire.MsgTx]()
}

// --- sweep.SweeperStore
type store struct{ w *world }

func (s store) IsOurTx(h chainhash.Hash) bool {
	s.w.mu.Lock()
	defer s.w.mu.Unlock()
	_, ok := s.w.stored[h]
	return ok
}
func (s store) StoreTx(tr *sweep.TxRecord) error {
	s.w.mu.Lock()
	defer s.w.mu.Unlock()
	s.w.stored[tr.Txid] = *tr
	return nil
}
func (s store) ListSweeps() ([]chainhash.Hash, error) { return nil, nil }
func (s store) GetTx(h chainhash.Hash) (*sweep.TxRecord, error) {
	s.w.mu.Lock()
	defer s.w.mu.Unlock()
	tr, ok := s.w.stored[h]
	if !ok {
		return nil, sweep.ErrTxNotFound
	}
	return &tr, nil
}
func (s store) DeleteTx(chainhash.Hash) error { return nil } // keep: the oracle wants every reported rate

// --- sweep.Bumper: records each request, then hands it to the real TxPublisher.
type bumper struct {
	w    *world
	real *sweep.TxPublisher
}

func (b bumper) Broadcast(req *sweep.BumpRequest) <-chan *sweep.BumpResult {
	w := b.w
	w.mu.Lock()
	ops := make([]wire.OutPoint, len(req.Inputs))
	for i, in := range req.Inputs {
		ops[i] = in.OutPoint()
	}
	start := int64(-1)
	req.StartingFeeRate.WhenSome(func(r chainfee.SatPerKWeight) { start = int64(r) })
	w.seq++
	ro := reqObs{Seq: w.seq, Height: w.height, Key: keyOfOutpoints(ops), Budget: int64(req.Budget), MaxRate: int64(req.MaxFeeRate), Start: start, Deadline: req.DeadlineHeight, Immediate: req.Immediate}
	w.reqs = append(w.reqs, ro)
	w.logf("h=%d Broadcast request: %d inputs, budget=%d, maxFeeRate=%d sat/kw, start=%d, deadline=%d, immediate=%v", w.height, len(ops), ro.Budget, ro.MaxRate, ro.Start, ro.Deadline, ro.Immediate)
	w.mu.Unlock()
	return b.real.Broadcast(req)
}

func describeTx(w *world, tx *wire.MsgTx) string {
	var in, out int64
	for _, ti := range tx.TxIn {
		in += w.values[ti.PreviousOutPoint]
	}
	for _, to := range tx.TxOut {
		out += to.Value
	}
	return fmt.Sprintf("tx %d in/%d out, fee=%d, weight=%d", len(tx.TxIn), len(tx.TxOut), in-out, txWeight(tx))
}

// ---------------------------------------------------------------------------
// one execution

type observation struct {
	txs     []txObs
	reqs    []reqObs
	stored  map[chainhash.Hash]sweep.TxRecord
	results []string // per offered input: terminal result or "pending"
	panic   string
	lastH   int32
	w       *world
}

func runScenario(t *testing.T, sc *Scenario, info func(string)) (obs *observation) {
	w := &world{sc: sc, height: h0, stored: map[chainhash.Hash]sweep.TxRecord{}, nCheck: map[string]int{}, nPub: map[string]int{},
		values: map[wire.OutPoint]int64{}, budgets: map[wire.OutPoint]int64{}, reqOuts: map[wire.OutPoint]int64{}, offered: map[wire.OutPoint]bool{}, info: info,
		pool: map[chainhash.Hash]*wire.MsgTx{}}
	w.change = p2tr(0xcc)
	if sc.P2WKHChange {
		w.change = p2wkh(0xcc)
	}
	for i, v := range sc.Wallet {
		op := outpoint('w', i)
		w.utxos = append(w.utxos, &lnwallet.Utxo{AddressType: lnwallet.WitnessPubKey, Value: btcutil.Amount(v), Confirmations: 6, PkScript: p2wkh(byte(0x40 + i)), OutPoint: op})
		w.values[op] = v
	}
	for i, s := range sc.Inputs {
		op := inOutpoint(i, s)
		w.values[op] = s.Value
		w.budgets[op] = s.Budget
		w.reqOuts[op] = s.ReqOut
	}
	obs = &observation{w: w, lastH: h0}
	synctest.Test(t, func(t *testing.T) {
		defer func() {
			if r := recover(); r != nil {
				obs.panic = fmt.Sprint(r)
			}
		}()
		est := estimator{w}
		var (
			pub *sweep.TxPublisher
			sw  *sweep.UtxoSweeper
		)
		startNode := func(h int32) {
			pub = sweep.NewTxPublisher(sweep.TxPublisherConfig{Signer: signer{}, Wallet: wallet{w}, Estimator: est, Notifier: notifier{}})
			sw = sweep.New(&sweep.UtxoSweeperConfig{
				GenSweepScript: func() fn.Result[lnwallet.AddrWithKey] {
					return fn.Ok(lnwallet.AddrWithKey{DeliveryAddress: w.change})
				},
				FeeEstimator:         est,
				Wallet:               wallet{w},
				Notifier:             notifier{},
				Mempool:              mempool{w},
				Store:                store{w},
				Signer:               signer{},
				MaxInputsPerTx:       sweep.DefaultMaxInputsPerTx,
				MaxFeeRate:           chainfee.SatPerVByte(sc.MaxFeeRateVB),
				Aggregator:           sweep.NewBudgetAggregator(est, sweep.DefaultMaxInputsPerTx, fn.None[sweep.AuxSweeper]()),
				Publisher:            bumper{w, pub},
				NoDeadlineConfTarget: 1008,
			})
			beat0 := chainio.NewBeat(chainntnfs.BlockEpoch{Height: h})
			if err := sw.Start(beat0); err != nil {
				panic(err)
			}
			if err := pub.Start(beat0); err != nil {
				panic(err)
			}
		}
		startNode(h0)
		resChans := make([]chan sweep.Result, len(sc.Inputs))
		isOffered := make([]bool, len(sc.Inputs))
		offer := func(i int, again bool) {
			s := sc.Inputs[i]
			in := makeInput(i, s)
			w.mu.Lock()
			w.offered[in.op] = true
			h := w.height
			w.mu.Unlock()
			isOffered[i] = true
			// Immediate and an explicit starting rate are set through the BumpFee
			// RPC only and live in the sweeper's memory: the resolvers that
			// re-offer their inputs after a restart set neither.
			p := sweep.Params{Budget: btcutil.Amount(s.Budget), Immediate: s.Immediate && !again}
			if sc.Delta >= 0 {
				p.DeadlineHeight = fn.Some(h0 + sc.Delta)
			}
			if s.Start > 0 && !again {
				p.StartingFeeRate = fn.Some(chainfee.SatPerKWeight(s.Start))
			}
			if s.Excl > 0 {
				g := s.Excl
				p.ExclusiveGroup = &g
			}
			what := "SweepInput"
			if again {
				what = "SweepInput (again, after the restart)"
			}
			w.logf("h=%d %s #%d value=%d budget=%d req_out=%d start=%d immediate=%v deadline=%d kind=%q excl=%d unconfirmed parent: weight=%d fee=%d (id %d)", h, what, i, s.Value, s.Budget, s.ReqOut, int64(p.StartingFeeRate.UnwrapOr(0)), p.Immediate, h0+sc.Delta, s.Kind, s.Excl, s.ParentW, s.ParentFee, s.ParentID)
			rc, err := sw.SweepInput(in, p)
			if err != nil {
				panic(err)
			}
			resChans[i] = rc
			synctest.Wait()
		}
		restarted := sc.Restart <= 0
		// due performs what is scheduled between two blocks: everything with
		// an offset below that of the next block to be delivered.
		due := func(next int32) {
			if !restarted && sc.Restart < next {
				restarted = true
				w.logf("---- restart at height %d: sweeper and publisher stopped, new instances on the same store and mempool ----", w.height)
				_ = sw.Stop()
				_ = pub.Stop()
				synctest.Wait()
				w.mu.Lock()
				w.restartSeq = append(w.restartSeq, w.seq)
				h := w.height
				w.mu.Unlock()
				startNode(h)
				for i := range sc.Inputs {
					if isOffered[i] {
						offer(i, true)
					}
				}
			}
			for i, s := range sc.Inputs {
				if !isOffered[i] && s.At < next {
					offer(i, false)
				}
			}
		}
		for _, off := range sc.Blocks {
			due(off)
			h := h0 + off
			w.mu.Lock()
			w.height = h
			w.mu.Unlock()
			w.logf("---- block %d (deadline-%d) ----", h, h0+sc.Delta-h)
			beat := chainio.NewBeat(chainntnfs.BlockEpoch{Height: h})
			// lnd's dispatcher: sweeper first, then the publisher, sequentially.
			_ = sw.ProcessBlock(beat)
			synctest.Wait()
			_ = pub.ProcessBlock(beat)
			synctest.Wait()
			obs.lastH = h
		}
		due(1 << 30)
		for i, rc := range resChans {
			if !isOffered[i] {
				obs.results = append(obs.results, "not-offered")
				continue
			}
			select {
			case r := <-rc:
				if r.Err != nil {
					obs.results = append(obs.results, "err:"+r.Err.Error())
				} else {
					obs.results = append(obs.results, "swept")
				}
			default:
				obs.results = append(obs.results, "pending")
			}
		}
		_ = sw.Stop()
		_ = pub.Stop()
		synctest.Wait()
	})
	w.mu.Lock()
	obs.txs, obs.reqs, obs.stored = w.txs, w.reqs, w.stored
	w.mu.Unlock()
	return obs
}

// ---------------------------------------------------------------------------
// the oracle

type viol struct{ clause, cause, what string }

type verdict struct {
	viols    []viol
	classes  []string // outcome classes (for the evidence)
	obsHash  string   // canonical hash of what was observed
	nTx      int
	ceilings int // deadline clause evaluated non-vacuously
}

type txFacts struct {
	fee, w, lo, hi int64
	hasChange      bool
	exact          int64 // reported rate, -1 if none
	judged         bool  // fee, weight and rate interval are valid
}

// ceilingCandidates returns the integer rates that can be called "the lesser of
// budget-over-size and the maximum rate": budget*1000/W rounded down or up
// (the statement does not fix the rounding), capped by the maximum rate, and
// never one whose fee would itself exceed the budget.
func ceilingCandidates(budget, W, maxRate int64) []int64 {
	lo := budget * 1000 / W
	cands := []int64{lo}
	if budget*1000%W != 0 {
		cands = append(cands, lo+1)
	}
	var out []int64
	for _, c := range cands {
		if c > maxRate {
			c = maxRate
		}
		if c*W/1000 > budget {
			continue
		}
		dup := false
		for _, o := range out {
			dup = dup || o == c
		}
		if !dup {
			out = append(out, c)
		}
	}
	return out
}

func ceilDiv(a, b int64) int64 { return (a + b - 1) / b }

func judge(sc *Scenario, obs *observation) (v verdict) {
	w := obs.w
	add := func(clause, cause, f string, a ...any) {
		// the "start above ceiling" tag only explains rate clauses
		switch clause {
		case "fee-rate-above-max", "ceiling-not-reached", "rate-decrease", "rate-below-published", "input-rate-below-published":
		default:
			cause = "none"
		}
		v.viols = append(v.viols, viol{clause, cause, fmt.Sprintf(f, a...)})
	}
	if obs.panic != "" {
		add("panic", "none", "panic: %s", obs.panic)
		return
	}
	dustChange := dustFor(w.change)
	changeWeight := int64(4 * (8 + 1 + len(w.change)))
	var h strings.Builder
	perKey := map[string]string{}

	// request-level checks + lookup
	reqFor := func(t txObs) *reqObs {
		var r *reqObs
		for i := range obs.reqs {
			if obs.reqs[i].Key == t.Key && obs.reqs[i].Seq < t.Seq {
				r = &obs.reqs[i]
			}
		}
		return r
	}
	sumBudgets := func(tx *wire.MsgTx) (int64, bool) {
		var s int64
		for _, ti := range tx.TxIn {
			if _, ok := w.values[ti.PreviousOutPoint]; !ok {
				return 0, false
			}
			s += w.budgets[ti.PreviousOutPoint]
		}
		return s, true
	}
	causeOf := func(r *reqObs, ceil int64) string {
		if r != nil && r.Start >= 0 && r.Start > ceil {
			return "start>ceiling"
		}
		return "none"
	}

	facts := make([]txFacts, len(obs.txs))
	byKey := map[string][]int{}
	for i, t := range obs.txs {
		tx := t.Tx
		f := &facts[i]
		f.exact = -1
		seen := map[wire.OutPoint]bool{}
		var in, out, reqSum int64
		known := true
		for _, ti := range tx.TxIn {
			op := ti.PreviousOutPoint
			if seen[op] {
				add("duplicate-input", "none", "tx spends %v twice", op)
			}
			seen[op] = true
			val, ok := w.values[op]
			if !ok {
				known = false
			}
			in += val
			reqSum += w.reqOuts[op]
		}
		if !known {
			add("unknown-input", "none", "tx spends an outpoint that was neither offered nor a wallet UTXO")
			continue
		}
		r := reqFor(t)
		if r == nil {
			add("inputs-differ-from-request", "none", "tx handed to the wallet (%s) spends an input set no broadcast request asked for", t.Kind)
			continue
		}
		for _, to := range tx.TxOut {
			out += to.Value
			if string(to.PkScript) == string(w.change) {
				f.hasChange = true
			}
		}
		f.fee = in - out
		f.w = txWeight(tx)
		if !f.hasChange {
			f.w += changeWeight
		}
		ceilRate := r.Budget * 1000 / f.w
		if r.MaxRate < ceilRate {
			ceilRate = r.MaxRate
		}
		cause := causeOf(r, ceilRate)
		if f.fee < 0 {
			add("negative-fee", cause, "outputs exceed inputs by %d", -f.fee)
			continue
		}
		bsum, _ := sumBudgets(tx)
		if f.fee > bsum {
			add("fee-above-budget", cause, "tx (%s at height %d) pays fee %d > %d, the sum of the budgets attached to its inputs", t.Kind, t.Height, f.fee, bsum)
		}
		if r.Budget > bsum {
			add("request-budget-above-inputs", cause, "broadcast request budget %d > %d, the sum of the budgets of its inputs", r.Budget, bsum)
		}
		for oi, to := range tx.TxOut {
			if d := dustFor(to.PkScript); to.Value < d {
				add("dust-output", cause, "output %d has value %d < dust limit %d", oi, to.Value, d)
			}
		}
		slack := int64(0)
		if !f.hasChange {
			slack = dustChange - 1
		}
		maxFee := r.MaxRate * f.w / 1000
		if f.fee > maxFee+slack {
			add("fee-rate-above-max", cause, "tx (%s at height %d) pays fee %d on weight %d (with change output): more than MaxFeeRate %d sat/kw allows (%d) plus below-dust remainder (%d)", t.Kind, t.Height, f.fee, f.w, r.MaxRate, maxFee, slack)
		} else if f.fee*1000 > r.MaxRate*txWeight(tx) {
			v.classes = append(v.classes, "strict-rate-above-max-only-by-dust-remainder")
		}
		// the rates r with floor(r*W/1000) == fee (or, without a change output,
		// within the dust remainder below it)
		baseLo := f.fee
		if !f.hasChange {
			baseLo = f.fee - dustChange + 1
			if baseLo < 0 {
				baseLo = 0
			}
		}
		f.lo = ceilDiv(baseLo*1000, f.w)
		f.hi = (f.fee*1000 + 999) / f.w
		if f.hi < f.lo {
			f.hi = f.lo
		}
		if tr, ok := obs.stored[tx.TxHash()]; ok {
			f.exact = int64(tr.FeeRate)
			if int64(tr.Fee) != f.fee {
				add("reported-fee-mismatch", cause, "sweeper recorded fee %d for a tx that pays %d", tr.Fee, f.fee)
			}
			if f.exact < f.lo || f.exact > f.hi {
				add("reported-rate-inconsistent", cause, "sweeper recorded fee rate %d sat/kw but the tx pays fee %d on weight %d (consistent rates %d..%d)", f.exact, f.fee, f.w, f.lo, f.hi)
				f.exact = -1
			}
		}
		// non-vacuity accounting for the input-kind alphabet: does the tx spend
		// an input whose parent is unconfirmed, and does it pay a higher rate
		// than that parent did (the only case in which a child could be asked to
		// pay for its parent)?
		for n, in := range sc.Inputs {
			if in.ParentW > 0 && seen[sc.op(n)] {
				if f.fee*in.ParentW > in.ParentFee*txWeight(tx) {
					v.classes = append(v.classes, "tx-spends-input-with-unconfirmed-parent:tx-rate-above-parent-rate")
				} else {
					v.classes = append(v.classes, "tx-spends-input-with-unconfirmed-parent:tx-rate-at-or-below-parent-rate")
				}
			}
		}
		byKey[t.Key] = append(byKey[t.Key], i)
		f.judged = true
		v.nTx++
		// canonical: per input set in hand-over order (records of different
		// input sets are bumped by concurrent goroutines; their relative
		// order is not an observation)
		perKey[t.Key] += fmt.Sprintf("%s:%d:%d:%d:%d:%v:%s;", t.Kind, t.Height-h0, len(tx.TxIn), f.fee, f.w, f.hasChange, t.Ans)
	}

	healthy := !sc.EstErr && sc.EstFee >= sc.Relay && sc.PubFailMask == 0 && len(sc.PubFailAt) == 0
	keys := make([]string, 0, len(byKey))
	for k := range byKey {
		keys = append(keys, k)
	}
	sort.Strings(keys)
	for _, k := range keys {
		idx := byKey[k]
		// monotone: (1) within one broadcast request (one fee schedule) the rate
		// offered to the wallet never decreases, rejected offers included;
		// (2) nothing is ever offered below the last successfully published tx
		// of the same input set, across retries as well.
		lastPub, floorReq := int64(-1), int64(-1)
		var curReq *reqObs
		for n, i := range idx {
			f := facts[i]
			t := obs.txs[i]
			r := reqFor(t)
			if r != curReq {
				curReq, floorReq = r, -1
			}
			ceilRate := r.Budget * 1000 / f.w
			if r.MaxRate < ceilRate {
				ceilRate = r.MaxRate
			}
			cause := causeOf(r, ceilRate)
			upper, lower := f.hi, f.lo
			if f.exact >= 0 {
				upper, lower = f.exact, f.exact
			}
			if upper < floorReq {
				add("rate-decrease", cause, "tx #%d for the input set (height %d) offers at most %d sat/kw after an earlier tx of the same request offered at least %d", n, t.Height, upper, floorReq)
			}
			if upper < lastPub {
				if cause == "none" && r.Start < 0 && r != &obs.reqs[firstReqOfKey(obs, k)] {
					// a retry of an input set that already had a published tx was
					// broadcast WITHOUT any starting fee rate
					cause = "retry-without-starting-rate"
				}
				add("rate-below-published", cause, "tx #%d for the input set (height %d) offers at most %d sat/kw although a tx paying at least %d was already published", n, t.Height, upper, lastPub)
			}
			if lower > floorReq {
				floorReq = lower
			}
			if t.Kind == "publish" && t.Ans == "ok" && lower > lastPub {
				lastPub = lower
			}
			// floor: first tx of a request without explicit start
			isFirstOfReq := n == 0 || reqFor(obs.txs[idx[n-1]]) != r
			if isFirstOfReq && r.Start < 0 && ceilRate >= sc.Relay && upper < sc.Relay {
				add("below-floor", cause, "first tx of a request offers at most %d sat/kw < relay floor %d (ceiling %d)", upper, sc.Relay, ceilRate)
			}
		}
		// deadline
		last := idx[len(idx)-1]
		f, t := facts[last], obs.txs[last]
		r := reqFor(t)
		ceilRate := r.Budget * 1000 / f.w
		if r.MaxRate < ceilRate {
			ceilRate = r.MaxRate
		}
		cause := causeOf(r, ceilRate)
		switch {
		case !healthy:
			v.classes = append(v.classes, "deadline-clause-skipped:unhealthy-environment")
		case supersededByRestart(obs, k, t.Seq):
			// the node was restarted after the last tx of this input set and
			// every offered input of the set was then swept in another set:
			// the ramp of those inputs is judged on the set they ended up in
			v.classes = append(v.classes, "deadline-clause-skipped:input-set-regrouped-after-restart")
		case obs.lastH < r.Deadline-1:
			v.classes = append(v.classes, "deadline-clause-skipped:run-ends-before-deadline-1")
		default:
			// is a tx at the ceiling constructible from these inputs?
			var in, reqSum int64
			for _, ti := range t.Tx.TxIn {
				in += w.values[ti.PreviousOutPoint]
				reqSum += w.reqOuts[ti.PreviousOutPoint]
			}
			cands := ceilingCandidates(r.Budget, f.w, r.MaxRate)
			constructible := len(cands) > 0
			short := false // the attached inputs cannot even cover the ceiling fee
			for _, c := range cands {
				feeCeil := c * f.w / 1000
				if in-reqSum < feeCeil {
					constructible, short = false, true
					continue
				}
				if ch := in - reqSum - feeCeil; ch < dustChange {
					if reqSum == 0 || feeCeil+ch > r.Budget {
						constructible = false
					}
				}
			}
			underfunded := int64(0)
			if !constructible && short {
				// Judge from the WHOLE wallet, not from what the node chose to
				// attach: if the unattached wallet UTXOs would cover the full
				// budget plus a non-dust change, a tx at the ceiling IS
				// constructible and the node simply under-funded the set.
				var unattached int64
				spent := map[wire.OutPoint]bool{}
				for _, ti := range t.Tx.TxIn {
					spent[ti.PreviousOutPoint] = true
				}
				for _, u := range w.utxos {
					if !spent[u.OutPoint] {
						unattached += int64(u.Value)
					}
				}
				if unattached > 0 && in-reqSum+unattached >= r.Budget+dustChange {
					constructible, underfunded = true, unattached
				}
			}
			if !constructible {
				v.classes = append(v.classes, "deadline-clause-skipped:ceiling-tx-not-constructible")
				break
			}
			v.ceilings++
			ok := false
			for _, c := range cands {
				if f.exact >= 0 {
					ok = ok || f.exact == c
				} else {
					ok = ok || (f.lo <= c && c <= f.hi)
				}
			}
			if !ok {
				if x := r.Budget * 1000 / f.w; cause == "none" && underfunded == 0 && r.Budget*1000%f.w != 0 && x+1 <= r.MaxRate && (x+1)*f.w/1000 > r.Budget {
					// budget/size rounded UP would already cost more than the budget
					cause = "budget-rate-roundup-exceeds-budget"
				}
				extra := ""
				if cause == "none" {
					if n, why := droppedSmallBudgetInput(obs, sc, k, t.Seq, f); n >= 0 {
						// the set was split after its last tx: a later request sweeps the
						// other inputs without input n, which is never offered again, and
						// n's own budget does not pay the set's last rate on n's own size
						cause = "small-budget-input-dropped-from-set"
						extra = why
					}
				}
				if underfunded > 0 {
					extra += fmt.Sprintf("; the attached inputs can pay at most %d in fees although %d sat of wallet UTXOs were left unattached", in-reqSum, underfunded)
				}
				add("ceiling-not-reached", cause, "blocks up to height %d (deadline %d) were processed, yet the last tx offered for the input set (height %d) pays fee %d on weight %d = rates %d..%d (reported %d), not the ceiling %v = min(budget %d/size, max %d)%s", obs.lastH, r.Deadline, t.Height, f.fee, f.w, f.lo, f.hi, f.exact, cands, r.Budget, r.MaxRate, extra)
			} else {
				v.classes = append(v.classes, "reached-ceiling-by-deadline-1")
			}
		}
	}

	// monotone, per INPUT: whatever sets an input travels through (regrouped
	// after failed sweeps, after a restart, joined by later inputs), nothing
	// that spends it is ever offered below a rate at which a tx spending it was
	// already published - unless the tx pays the ceiling min(budget/size, max)
	// of the set it is now part of (the budget bound has precedence).
	for n := range sc.Inputs {
		op := sc.op(n)
		lastPub, lastPubH, lastPubKeyN := int64(-1), int32(0), 0
		for i, t := range obs.txs {
			f := facts[i]
			if !f.judged { // unknown input / no request / negative fee: reported above
				continue
			}
			spends := false
			for _, ti := range t.Tx.TxIn {
				spends = spends || ti.PreviousOutPoint == op
			}
			if !spends {
				continue
			}
			upper, lower := f.hi, f.lo
			if f.exact >= 0 {
				upper, lower = f.exact, f.exact
			}
			if upper < lastPub {
				r := reqFor(t)
				cands := ceilingCandidates(r.Budget, f.w, r.MaxRate)
				clamped := false
				for _, c := range cands {
					clamped = clamped || upper >= c
				}
				ceilRate := r.Budget * 1000 / f.w
				if r.MaxRate < ceilRate {
					ceilRate = r.MaxRate
				}
				if clamped {
					v.classes = append(v.classes, "input-rate-lower-only-by-ceiling-of-new-set")
				} else {
					add("input-rate-below-published", causeOf(r, ceilRate), "input #%d: a tx spending it together with %d other input(s) (%s at height %d) offers at most %d sat/kw although a tx spending it (%d inputs) was already published at height %d paying at least %d sat/kw; the ceiling of the new set is %v = min(budget %d/size, max %d), request start=%d", n, len(t.Tx.TxIn)-1, t.Kind, t.Height, upper, lastPubKeyN, lastPubH, lastPub, cands, r.Budget, r.MaxRate, r.Start)
				}
			}
			if t.Kind == "publish" && t.Ans == "ok" && lower > lastPub {
				lastPub, lastPubH, lastPubKeyN = lower, t.Height, len(t.Tx.TxIn)
			}
		}
	}

	// exists
	if exp, why := expectSweep(sc, w); exp {
		found := false
		var all []wire.OutPoint
		for i := range sc.Inputs {
			all = append(all, sc.op(i))
		}
		for _, t := range obs.txs {
			if t.Kind != "publish" {
				continue
			}
			spent := map[wire.OutPoint]bool{}
			for _, ti := range t.Tx.TxIn {
				spent[ti.PreviousOutPoint] = true
			}
			ok := true
			for _, op := range all {
				ok = ok && spent[op]
			}
			found = found || ok
		}
		if !found {
			add("no-sweep-published", "none", "healthy environment, economical inputs (%s), %d block(s) processed, but no sweep of the offered inputs was ever published", why, len(sc.Blocks))
		} else {
			v.classes = append(v.classes, "expected-sweep-published")
		}
	}

	if v.nTx == 0 {
		v.classes = append(v.classes, "no-tx:"+strings.Join(obs.results, "|"))
	}
	pk := make([]string, 0, len(perKey))
	for k := range perKey {
		pk = append(pk, k)
	}
	sort.Strings(pk)
	for _, k := range pk {
		h.WriteString(perKey[k] + "|")
	}
	sum := sha256.Sum256([]byte(h.String()))
	v.obsHash = fmt.Sprintf("%x", sum[:8])
	return
}

// supersededByRestart: the node was restarted after seq, and every offered
// input of the set key is spent by a later tx of a different set.
func supersededByRestart(obs *observation, key string, seq int) bool {
	restarted := false
	for _, rs := range obs.w.restartSeq {
		restarted = restarted || rs >= seq
	}
	if !restarted {
		return false
	}
	w := obs.w
	any := false
	for _, o := range strings.Split(key, ",") {
		isOffered := false
		for op := range w.offered {
			isOffered = isOffered || op.String() == o
		}
		if !isOffered {
			continue
		}
		any = true
		later := false
		for _, t := range obs.txs {
			if t.Seq <= seq || t.Key == key {
				continue
			}
			for _, ti := range t.Tx.TxIn {
				later = later || ti.PreviousOutPoint.String() == o
			}
		}
		if !later {
			return false
		}
	}
	return any
}

// droppedSmallBudgetInput looks for the shape "after the last tx of the set key
// (seq) some inputs of the set are swept on by later requests, an offered input
// n of the set is in no later request or tx at all, and budget(n) is less than
// the fee of n's own weight at the rate of the set's last tx". Returns n or -1.
func droppedSmallBudgetInput(obs *observation, sc *Scenario, key string, seq int, f txFacts) (int, string) {
	rate := f.lo
	if f.exact >= 0 {
		rate = f.exact
	}
	members := map[string]bool{}
	for _, o := range strings.Split(key, ",") {
		members[o] = true
	}
	usedLater := map[string]bool{}
	for _, r := range obs.reqs {
		if r.Seq <= seq {
			continue
		}
		for _, o := range strings.Split(r.Key, ",") {
			usedLater[o] = true
		}
	}
	others := 0
	for n := range sc.Inputs {
		if op := sc.op(n).String(); members[op] && usedLater[op] {
			others++
		}
	}
	if others == 0 {
		return -1, ""
	}
	for n, in := range sc.Inputs {
		op := sc.op(n).String()
		if !members[op] || usedLater[op] {
			continue
		}
		size, _, _ := makeInput(n, in).wt.SizeUpperBound()
		own := int64(4*41) + int64(size)
		if in.Budget*1000 < rate*own {
			return n, fmt.Sprintf("; input #%d (budget %d, own weight %d wu: pays at most %d sat/kw alone) was left out of every later request while %d other input(s) of the set were swept on", n, in.Budget, own, in.Budget*1000/own, others)
		}
	}
	return -1, ""
}

func firstReqOfKey(obs *observation, key string) int {
	for i := range obs.reqs {
		if obs.reqs[i].Key == key {
			return i
		}
	}
	return -1
}

// syntheticWeight is the weight of a tx spending all offered inputs to one
// change output, built by the harness itself.
func syntheticWeight(sc *Scenario, change []byte) int64 {
	tx := wire.NewMsgTx(2)
	for i, s := range sc.Inputs {
		in := makeInput(i, s)
		size, _, _ := in.wt.SizeUpperBound()
		tx.AddTxIn(&wire.TxIn{PreviousOutPoint: in.op, Witness: exactWitness(int(size))})
		if in.req != nil {
			tx.AddTxOut(in.req)
		}
	}
	tx.AddTxOut(&wire.TxOut{Value: 1, PkScript: change})
	return txWeight(tx)
}

// expectSweep: conservative preconditions under which a sweep must be published.
func expectSweep(sc *Scenario, w *world) (bool, string) {
	if sc.EstErr || sc.EstFee < sc.Relay || sc.PubFailMask != 0 || sc.RejectMask != 0 || sc.Delta < 0 || len(sc.PubFailAt) != 0 || sc.Restart != 0 {
		return false, ""
	}
	for _, s := range sc.Inputs {
		if s.At != 0 {
			// inputs arriving later are swept by txs of their own
			return false, ""
		}
		if s.Excl != 0 && len(sc.Inputs) > 1 {
			// an exclusive input is swept by a tx of its own: the one-set
			// economics below do not describe the scenario
			return false, ""
		}
	}
	imm := false
	hasReq := false
	var sumV, sumB int64
	for _, s := range sc.Inputs {
		if s.Start > 0 {
			return false, ""
		}
		hasReq = hasReq || s.ReqOut > 0
		imm = imm || s.Immediate
		sumV += s.Value
		sumB += s.Budget
	}
	if hasReq {
		return expectSweepRequired(sc, w, imm, sumB)
	}
	if len(sc.Blocks) == 0 && !imm {
		return false, ""
	}
	if imm && len(sc.Inputs) > 1 {
		// an immediate input is swept on arrival, before its siblings are offered
		return false, ""
	}
	W := syntheticWeight(sc, w.change)
	maxRate := sc.MaxFeeRateVB * 250
	ceil := sumB * 1000 / W
	if maxRate < ceil {
		ceil = maxRate
	}
	base := sc.EstFee
	for _, s := range sc.Inputs {
		if s.Budget < base*W/1000+1 {
			return false, ""
		}
	}
	conf := int64(sc.Delta)
	if conf < 0 {
		conf = 0
	}
	if ceil-base < conf+1 {
		return false, ""
	}
	if sumV-(ceil+1)*W/1000 < dustFor(w.change) {
		return false, ""
	}
	return true, fmt.Sprintf("weight %d, ceiling %d sat/kw, estimator %d", W, ceil, base)
}

// expectSweepRequired: sets containing inputs with a required output, whose
// budget has to be borrowed from ordinary inputs and wallet UTXOs. A sweep must
// be published if the economics are comfortable and NO subset of wallet UTXOs
// lands in the narrow band where the borrowed value covers the budget but
// leaves a below-dust change (there the outcome legitimately depends on which
// UTXOs are picked); outside the band every top-up that covers the budget also
// yields a constructible tx at every rate up to the ceiling.
func expectSweepRequired(sc *Scenario, w *world, imm bool, sumB int64) (bool, string) {
	if imm || len(sc.Blocks) == 0 || len(sc.Wallet) > 6 {
		return false, ""
	}
	var lend, needed int64
	for _, s := range sc.Inputs {
		if s.ReqOut > 0 {
			if s.ReqOut < dustFor(p2wsh(0)) || s.ReqOut != s.Value {
				return false, ""
			}
			needed += s.Budget
		} else {
			lend += s.Value - s.Budget
		}
	}
	Wmax := syntheticWeight(sc, w.change) + int64(len(sc.Wallet))*(4*41+109)
	maxRate := sc.MaxFeeRateVB * 250
	ceil := sumB * 1000 / Wmax
	if maxRate < ceil {
		ceil = maxRate
	}
	for _, s := range sc.Inputs {
		if s.Budget < sc.EstFee*Wmax/1000+1 {
			return false, ""
		}
	}
	if ceil-sc.EstFee < int64(sc.Delta)+1 {
		return false, ""
	}
	band := dustFor(w.change) + Wmax/1000 + 2
	var total int64
	for _, u := range sc.Wallet {
		total += u
	}
	if lend+total < needed+band {
		return false, ""
	}
	for m := 0; m < 1<<uint(len(sc.Wallet)); m++ {
		tot := lend
		for i, u := range sc.Wallet {
			if m>>uint(i)&1 == 1 {
				tot += u
			}
		}
		if tot >= needed && tot < needed+band {
			return false, ""
		}
	}
	return true, fmt.Sprintf("required-output set: budgets to borrow %d, lendable %d, wallet %d, max weight %d, ceiling >= %d sat/kw", needed, lend, total, Wmax, ceil)
}

// ---------------------------------------------------------------------------
// scenario spaces

// subsets of {1..n} as ascending offset lists
func allSubsets(n int32) [][]int32 {
	var out [][]int32
	for m := 0; m < 1<<uint(n); m++ {
		var s []int32
		for p := int32(1); p <= n; p++ {
			if m>>uint(p-1)&1 == 1 {
				s = append(s, p)
			}
		}
		out = append(out, s)
	}
	return out
}

func dedup64(xs []int64, min int64) []int64 {
	m := map[int64]bool{}
	var out []int64
	for _, x := range xs {
		if x >= min && !m[x] {
			m[x] = true
			out = append(out, x)
		}
	}
	sort.Slice(out, func(i, j int) bool { return out[i] < out[j] })
	return out
}

type space struct {
	name string
	gen  func(emit func(Scenario))
}

func feeAt(rate, w int64) int64 { return rate * w / 1000 }

func spaces(thorough bool) []space {
	const relay = 253
	const estIn = 1000
	changeTR := p2tr(0xcc)
	dust := dustFor(changeTR)
	maxDelta := int32(3)
	if thorough {
		maxDelta = 5
	}
	type pat struct {
		delta  int32
		blocks [][]int32
	}
	var pats []pat
	for d := int32(0); d <= maxDelta; d++ {
		pats = append(pats, pat{d, allSubsets(d + 1)})
	}
	wide := []pat{
		{144, [][]int32{{1}, {1, 2, 3}, {142, 143, 144}, {143}, {144}, {1, 143}, {145}, {1, 2, 142, 143, 145}}},
		{1008, [][]int32{{1}, {1, 2}, {1006, 1007, 1008}, {1007}, {1, 1007}, {1009}}},
		{-1, [][]int32{{1}, {1, 2}, {1006, 1007, 1008}, {1007}, {1, 1007}, {1009}}},
		{1009, [][]int32{{1}, {1, 2, 1008}, {1008}, {1, 1008, 1009}}},
	}
	ests := []struct {
		fee int64
		err bool
	}{{relay, false}, {estIn, false}, {10_000_000, false}, {100, false}, {0, true}}
	maxes := []int64{3, 1000} // sat/vb: 750 and 250000 sat/kw

	var sp []space

	// ---- A: one plain input, (value, budget) lattice around every threshold ----
	sp = append(sp, space{"A:single-input-lattice", func(emit func(Scenario)) {
		one := &Scenario{Inputs: []InSpec{{Value: 1, Budget: 1}}}
		W := syntheticWeight(one, changeTR)
		inWU := W - 4*(10+int64(8+1+len(changeTR))) - 2 // input only: 41 vbytes + witness
		for _, mx := range maxes {
			var bs []int64
			for _, thr := range []int64{feeAt(relay, inWU), feeAt(relay, W), feeAt(estIn, W), feeAt(mx*250, W)} {
				bs = append(bs, thr-1, thr, thr+1)
			}
			bs = append(bs, 5_000, 100_000, feeAt(400, W), feeAt(400, W)+1)
			if thorough {
				bs = append(bs, 1, 20_000)
			}
			bs = dedup64(bs, 1)
			for _, b := range bs {
				vs := []int64{b + dust - 1, b + dust, b + dust + 1, b - 1, b, b + 1,
					feeAt(relay, W) + dust - 1, feeAt(relay, W) + dust, feeAt(relay, W) + dust + 1,
					2*b + 10_000, 546, 1_000_000}
				if thorough {
					vs = append(vs, feeAt(estIn, W)+dust-1, feeAt(estIn, W)+dust, feeAt(estIn, W)+dust+1, b/2+dust)
				}
				for _, val := range dedup64(vs, 1) {
					for ei, e := range ests {
						for _, start := range []int64{0, 400, 2_000} {
							if start != 0 && ei != 0 {
								continue // an explicit start bypasses the estimator: one answer suffices
							}
							for _, imm := range []bool{false, true} {
								for _, p := range pats {
									if imm && p.delta > 2 && !thorough {
										continue
									}
									for _, bl := range p.blocks {
										emit(Scenario{Kind: "pipe", Inputs: []InSpec{{Value: val, Budget: b, Start: start, Immediate: imm}},
											MaxFeeRateVB: mx, Relay: relay, EstFee: e.fee, EstErr: e.err, Delta: p.delta, Blocks: bl})
									}
								}
							}
						}
					}
				}
			}
		}
	}})

	// ---- A2: mempool / publish answers on a reduced lattice ----
	sp = append(sp, space{"A2:answers", func(emit func(Scenario)) {
		one := &Scenario{Inputs: []InSpec{{Value: 1, Budget: 1}}}
		W := syntheticWeight(one, changeTR)
		nMask := uint32(8)
		if thorough {
			nMask = 32
		}
		for _, mx := range maxes {
			for _, b := range dedup64([]int64{feeAt(mx*250, W) + 1, 5_000, feeAt(estIn, W) + 1}, 1) {
				for _, val := range dedup64([]int64{2*b + 10_000, b + dust}, 1) {
					for ei, e := range ests[:3] {
						for _, start := range []int64{0, 400} {
							if start != 0 && ei != 0 {
								continue
							}
							for _, p := range pats {
								for _, bl := range p.blocks {
									for rm := uint32(0); rm < nMask; rm++ {
										for pm := uint32(0); pm < 4; pm++ {
											if rm == 0 && pm == 0 {
												continue
											}
											if rm != 0 && pm != 0 && !thorough {
												continue
											}
											emit(Scenario{Kind: "pipe", Inputs: []InSpec{{Value: val, Budget: b, Start: start}},
												MaxFeeRateVB: mx, Relay: relay, EstFee: e.fee, EstErr: e.err, Delta: p.delta, Blocks: bl, RejectMask: rm, PubFailMask: pm})
										}
									}
								}
							}
						}
					}
				}
			}
		}
	}})

	// ---- W: wide deadlines (conf targets 144, 1008, default, 1009) ----
	sp = append(sp, space{"W:wide-deadlines", func(emit func(Scenario)) {
		one := &Scenario{Inputs: []InSpec{{Value: 1, Budget: 1}}}
		W := syntheticWeight(one, changeTR)
		for _, mx := range maxes {
			for _, b := range dedup64([]int64{feeAt(relay, W) - 1, feeAt(relay, W), feeAt(relay, W) + 1, feeAt(relay, W) + 2, 5_000, feeAt(mx*250, W) + 1, 100_000}, 1) {
				for _, val := range dedup64([]int64{2*b + 10_000, b + dust, b + dust - 1}, 1) {
					for ei, e := range ests {
						for _, start := range []int64{0, 400} {
							if start != 0 && ei != 0 {
								continue
							}
							for _, p := range wide {
								for _, bl := range p.blocks {
									for _, rm := range []uint32{0, 1, 2} {
										emit(Scenario{Kind: "pipe", Inputs: []InSpec{{Value: val, Budget: b, Start: start}},
											MaxFeeRateVB: mx, Relay: relay, EstFee: e.fee, EstErr: e.err, Delta: p.delta, Blocks: bl, RejectMask: rm})
									}
								}
							}
						}
					}
				}
			}
		}
	}})

	// ---- B: an input with a required output, topped up from the wallet ----
	sp = append(sp, space{"B:required-output+wallet", func(emit func(Scenario)) {
		two := &Scenario{Inputs: []InSpec{{Value: 20_000, Budget: 1, ReqOut: 20_000}}}
		// weight with one wallet input and a change output
		W := syntheticWeight(two, changeTR) + 4*41 + 109
		for _, mx := range maxes {
			for _, b := range dedup64([]int64{feeAt(relay, W) + 1, 2_000, 20_000, feeAt(mx*250, W) + 1}, 1) {
				ceil := b * 1000 / W
				if mx*250 < ceil {
					ceil = mx * 250
				}
				fc := feeAt(ceil, W)
				us := dedup64([]int64{b - 1, b, b + 1, fc + dust - 1, fc + dust, fc + dust + 1, b + dust - 1, b + dust, b + dust + 1, feeAt(relay, W) + dust, 1_000_000, 600}, 1)
				var wallets [][]int64
				wallets = append(wallets, nil)
				for _, u := range us {
					wallets = append(wallets, []int64{u})
				}
				wallets = append(wallets, []int64{600, b + dust + 5000}, []int64{b / 2, b/2 + dust + 1}, []int64{1_000_000, 600})
				for _, wl := range wallets {
					for _, ro := range []int64{20_000, 329, 330} {
						for _, e := range ests[:4] {
							for _, p := range pats {
								if p.delta > 3 && !thorough {
									continue
								}
								for _, bl := range p.blocks {
									emit(Scenario{Kind: "pipe", Inputs: []InSpec{{Value: 20_000, Budget: b, ReqOut: ro}}, Wallet: wl,
										MaxFeeRateVB: mx, Relay: relay, EstFee: e.fee, EstErr: e.err, Delta: p.delta, Blocks: bl})
								}
							}
						}
					}
				}
			}
		}
	}})

	// ---- C: two / three inputs, budgets borrowed between them ----
	sp = append(sp, space{"C:multi-input", func(emit func(Scenario)) {
		plains := []InSpec{{Value: 10_000, Budget: 3_000}, {Value: 600, Budget: 500}, {Value: 100_000, Budget: 400}, {Value: 2_000, Budget: 2_500}}
		htlcs := []InSpec{{Value: 20_000, Budget: 1_000, ReqOut: 20_000}, {Value: 20_000, Budget: 9_000, ReqOut: 20_000}}
		var sets [][]InSpec
		for i, a := range plains {
			for j, b := range plains {
				if j >= i {
					sets = append(sets, []InSpec{a, b})
				}
			}
			for _, hh := range htlcs {
				sets = append(sets, []InSpec{a, hh})
				sets = append(sets, []InSpec{a, plains[0], hh})
			}
		}
		sets = append(sets, []InSpec{htlcs[0], htlcs[1]})
		for _, set := range sets {
			for _, wl := range [][]int64{nil, {50_000}, {700}} {
				for _, mx := range maxes {
					for _, e := range ests[:3] {
						for _, imm := range []bool{false, true} {
							for _, p := range pats {
								if p.delta > 3 && !thorough {
									continue
								}
								for _, bl := range p.blocks {
									for _, rm := range []uint32{0, 1, 3} {
										s2 := append([]InSpec{}, set...)
										s2[0].Immediate = imm
										emit(Scenario{Kind: "pipe", Inputs: s2, Wallet: wl, MaxFeeRateVB: mx, Relay: relay, EstFee: e.fee, EstErr: e.err, Delta: p.delta, Blocks: bl, RejectMask: rm, P2WKHChange: len(set) == 3})
									}
								}
							}
						}
					}
				}
			}
		}
	}})
	// ---- D: many inputs (tx weight > 2000 wu), total budget swept over every
	// residue so that budget*1000/weight hits every rounding case ----
	sp = append(sp, space{"D:many-inputs-rounding", func(emit func(Scenario)) {
		ns := []int{8, 10}
		if thorough {
			ns = []int{5, 8, 10, 16}
		}
		for _, n := range ns {
			for extra := int64(0); extra < 24; extra++ {
				var ins []InSpec
				for i := 0; i < n; i++ {
					ins = append(ins, InSpec{Value: 10_000, Budget: 200})
				}
				ins[0].Budget = 300 + extra
				for _, e := range ests[:2] {
					for _, p := range pats {
						for _, bl := range p.blocks {
							emit(Scenario{Kind: "pipe", Inputs: append([]InSpec{}, ins...), MaxFeeRateVB: 1000, Relay: relay, EstFee: e.fee, Delta: p.delta, Blocks: bl})
						}
					}
				}
			}
		}
	}})
	// ---- E: explicit start within a few sat/kw of the ceiling, wider schedules
	// (sub-sat per-block deltas: the rounding region of the fee function) ----
	sp = append(sp, space{"E:start-near-ceiling", func(emit func(Scenario)) {
		one := &Scenario{Inputs: []InSpec{{Value: 1, Budget: 1}}}
		W := syntheticWeight(one, changeTR)
		var ps []pat
		for d := int32(4); d <= 5; d++ {
			ps = append(ps, pat{d, allSubsets(d + 1)})
		}
		if thorough {
			ps = append(ps, pat{6, allSubsets(7)}, pat{7, allSubsets(8)})
		}
		for _, start := range []int64{400, 254} {
			for _, b := range dedup64([]int64{feeAt(start, W) - 1, feeAt(start, W), feeAt(start, W) + 1, feeAt(start, W) + 2, feeAt(start, W) + 3}, 1) {
				for _, val := range dedup64([]int64{b + dust - 1, b + dust, b + dust + 1, b + dust + 2, 2*b + 10_000}, 1) {
					for _, imm := range []bool{false, true} {
						for _, p := range ps {
							for _, bl := range p.blocks {
								emit(Scenario{Kind: "pipe", Inputs: []InSpec{{Value: val, Budget: b, Start: start, Immediate: imm}},
									MaxFeeRateVB: 3, Relay: relay, EstFee: relay, Delta: p.delta, Blocks: bl})
							}
						}
					}
				}
			}
		}
	}})
	// ---- F: SEVERAL required-output inputs sharing a deadline (clustered into
	// one set), budgets equal / ascending / descending, topped up from wallet
	// UTXO multisets around every partial sum of the budgets, alone and together
	// with ordinary inputs that lend (or lack) budget; deadlines long enough
	// for the ramp to outgrow a partially funded set ----
	sp = append(sp, space{"F:multi-required-output+wallet", func(emit func(Scenario)) {
		req := func(b int64) InSpec { return InSpec{Value: 20_000, Budget: b, ReqOut: 20_000} }
		type setT struct {
			ins []InSpec
		}
		var sets []setT
		for _, bs := range [][]int64{{3000, 3000}, {1000, 5000}, {5000, 1000}, {3000, 3000, 3000}, {1000, 3000, 5000}, {5000, 3000, 1000}} {
			var ins []InSpec
			for _, b := range bs {
				ins = append(ins, req(b))
			}
			sets = append(sets, setT{ins})
		}
		// mixed: two required-output inputs + one ordinary input that lends a
		// lot / a little / owes budget itself
		for _, bs := range [][]int64{{3000, 3000}, {5000, 1000}} {
			for _, pl := range []InSpec{{Value: 10_000, Budget: 3_000}, {Value: 600, Budget: 500}, {Value: 2_000, Budget: 2_500}} {
				sets = append(sets, setT{[]InSpec{req(bs[0]), pl, req(bs[1])}})
			}
		}
		ds := []int32{2, 3, 4}
		if thorough {
			ds = []int32{1, 2, 3, 4, 5, 6}
		}
		for _, set := range sets {
			var needed, lend int64
			var rb []int64
			for _, in := range set.ins {
				if in.ReqOut > 0 {
					needed += in.Budget
					rb = append(rb, in.Budget)
				} else {
					lend += in.Value - in.Budget
				}
			}
			sort.Slice(rb, func(i, j int) bool { return rb[i] < rb[j] })
			// partial sums of the budgets still to be borrowed
			targets := dedup64([]int64{rb[0] - lend, rb[len(rb)-1] - lend, rb[0] + rb[1] - lend, needed - rb[0] - lend, needed - lend}, 1)
			wallets := [][]int64{nil, {1_000_000}}
			for _, T := range targets {
				for d := int64(-1); d <= 1; d++ {
					rest := needed - lend - T + 2_000
					if rest < 1_000 {
						rest = 1_000
					}
					wallets = append(wallets,
						[]int64{T + d},                 // covers exactly this partial sum, nothing more
						[]int64{T + d, rest},           // ... and a second UTXO completes the total
						[]int64{T + d, 1_000_000},      // small one + one large
						[]int64{T + d, 700, 1_000_000}, // small ones + one large
					)
				}
			}
			tot := needed - lend
			for d := int64(-1); d <= 1; d++ {
				wallets = append(wallets, []int64{tot/2 + d, tot/2 + d}, []int64{tot/3 + d, tot/3 + d, tot/3 + d + 2}, []int64{tot/3 + d, tot/3 + d, tot/3 + d, 50_000})
			}
			for _, wl := range wallets {
				ok := true
				for _, u := range wl {
					ok = ok && u > 0
				}
				if !ok {
					continue
				}
				for _, mx := range maxes {
					for _, d := range ds {
						for _, bl := range allSubsets(d + 1) {
							emit(Scenario{Kind: "pipe", Inputs: append([]InSpec{}, set.ins...), Wallet: wl, MaxFeeRateVB: mx, Relay: relay, EstFee: relay, Delta: d, Blocks: bl})
						}
					}
				}
			}
		}
	}})
	// ---- G: the change output crosses the dust limit somewhere ALONG the ramp.
	// The value lattice of A/E sits at budget+dust and relay-fee+dust, i.e. where
	// the FIRST tx or the tx paying the whole budget loses its change. Here the
	// value is (fee at a structural rate of the schedule) + dust +-1 for the
	// effective starting rate, the rate one above it, the middle of the ramp and
	// the real ceiling min(floor(budget/size), max) - whose fee is usually
	// budget-1, not budget - so that a later BUMP (not the first tx) cannot be
	// built any more, the set fails and is retried. Schedules are long enough
	// (deadline h+5 / h+6, every subset of the heights) for a failed set to be
	// retried at least twice before the conf target drops to <= 1 and the fee
	// function collapses to its ceiling: publish, failed bump, failed retry,
	// second retry are four events on distinct heights, the last one no later
	// than deadline-2. Explicit and estimator-chosen starts; budget-bound
	// (tight: ceiling a few sat/kw above the start; roomy) and max-bound ceilings.
	sp = append(sp, space{"G:dust-crossing-along-ramp+retries", func(emit func(Scenario)) {
		one := &Scenario{Inputs: []InSpec{{Value: 1, Budget: 1}}}
		W := syntheticWeight(one, changeTR)
		ds := []int32{5, 6}
		if thorough {
			ds = []int32{4, 5, 6, 7}
		}
		type startEst struct{ start, est int64 }
		ses := []startEst{{0, relay}, {0, estIn}, {400, relay}}
		if thorough {
			ses = append(ses, startEst{254, relay}, startEst{2_000, relay}, startEst{400, estIn})
		}
		for _, mx := range maxes {
			for _, x := range ses {
				s0 := x.start
				if s0 == 0 {
					s0 = x.est
				}
				bs := []int64{feeAt(s0, W) + 3, 5_000}
				if thorough {
					bs = append(bs, feeAt(s0, W)+1, feeAt(mx*250, W)+1)
				}
				for _, b := range dedup64(bs, 1) {
					ceil := b * 1000 / W
					if mx*250 < ceil {
						ceil = mx * 250
					}
					s := s0
					if s > ceil {
						s = ceil
					}
					rates := []int64{s, s + 1, (s + ceil) / 2, ceil}
					if thorough {
						rates = append(rates, s+(ceil-s)/4, ceil-1)
					}
					var vs []int64
					for _, r := range dedup64(rates, 1) {
						f := feeAt(r, W)
						vs = append(vs, f+dust-1, f+dust, f+dust+1)
					}
					for _, val := range dedup64(vs, 1) {
						for _, imm := range []bool{false, true} {
							for _, d := range ds {
								for _, bl := range allSubsets(d + 1) {
									emit(Scenario{Kind: "pipe", Inputs: []InSpec{{Value: val, Budget: b, Start: x.start, Immediate: imm}},
										MaxFeeRateVB: mx, Relay: relay, EstFee: x.est, Delta: d, Blocks: bl})
								}
							}
						}
					}
				}
			}
		}
	}})
	// ---- H: inputs that travel through SEVERAL sets. Inputs sharing a deadline
	// are offered at different heights (so each is first swept by a tx of its
	// own, on its own fee line) with an explicit starting rate from {none, low,
	// high} each, budgets ordered both ways, optionally immediate; then
	// (a) every PublishTransaction of one block (or of two blocks) fails with a
	// non-fee error, so all sets in flight fail together, each input is stamped
	// with the retry rate of its own set and the next block regroups them; or
	// (b) the node is restarted and the re-offered inputs are each seeded from
	// their own mempool tx and grouped at once. Judged by the per-input
	// monotonicity clause on every tx. ----
	sp = append(sp, space{"H:staggered-arrivals+regroup", func(emit func(Scenario)) {
		big := InSpec{Value: 1_000_000, Budget: 100_000}
		mid := InSpec{Value: 300_000, Budget: 50_000}
		small := InSpec{Value: 500_000, Budget: 20_000}
		starts := []int64{0, 400, 20_000}
		type env struct{ est, mx int64 }
		envs := []env{{estIn, 1000}, {relay, 3}}
		if thorough {
			envs = []env{{estIn, 1000}, {relay, 3}, {relay, 1000}}
		}
		seqTo := func(a, b int32) []int32 {
			var o []int32
			for x := a; x <= b; x++ {
				o = append(o, x)
			}
			return o
		}
		type fault struct {
			failAt  []int32
			restart int32
		}
		faults := func(d int32) []fault {
			fs := []fault{{}}
			for k := int32(1); k <= d; k++ {
				fs = append(fs, fault{failAt: []int32{k}})
				if k < d {
					fs = append(fs, fault{failAt: []int32{k, k + 1}})
				}
				if k < d {
					fs = append(fs, fault{restart: k})
				}
			}
			if thorough {
				for k := int32(1); k <= d; k++ {
					for l := k + 2; l <= d; l++ {
						fs = append(fs, fault{failAt: []int32{k, l}})
					}
					if k+2 <= d {
						fs = append(fs, fault{failAt: []int32{k, k + 1, k + 2}})
					}
					// a failing block right before / at / right after the restart
					for r := k - 1; r <= k+1; r++ {
						if r >= 1 && r < d {
							fs = append(fs, fault{failAt: []int32{k}, restart: r})
						}
					}
				}
			}
			return fs
		}
		blockPats := func(d int32, skips bool) [][]int32 {
			all := seqTo(1, d+1)
			out := [][]int32{all}
			if skips {
				for sk := int32(1); sk <= d+1; sk++ {
					var b []int32
					for _, x := range all {
						if x != sk {
							b = append(b, x)
						}
					}
					out = append(out, b)
				}
			}
			return out
		}
		// two inputs
		deltas := []int32{4, 6}
		maxAt := int32(2)
		rejects := []uint32{0}
		if thorough {
			deltas = []int32{4, 6, 8}
			maxAt = 4
			rejects = []uint32{0, 1}
		}
		for _, pair := range [][2]InSpec{{big, small}, {small, big}} {
			for at := int32(0); at <= maxAt; at++ {
				for _, s0 := range starts {
					for _, s1 := range starts {
						for imm := 0; imm < 3; imm++ {
							for _, d := range deltas {
								if at >= d {
									continue
								}
								for _, e := range envs {
									for _, ft := range faults(d) {
										for _, rm := range rejects {
											// every single skipped height only on the plain variant
											for _, bl := range blockPats(d, imm == 0 && rm == 0) {
												a, b := pair[0], pair[1]
												a.Start, b.Start, b.At = s0, s1, at
												a.Immediate, b.Immediate = imm == 1, imm == 2
												emit(Scenario{Kind: "pipe", Inputs: []InSpec{a, b}, MaxFeeRateVB: e.mx, Relay: relay, EstFee: e.est,
													Delta: d, Blocks: bl, PubFailAt: ft.failAt, Restart: ft.restart, RejectMask: rm})
											}
										}
									}
								}
							}
						}
					}
				}
			}
		}
		// three inputs
		orders := [][3]InSpec{{big, mid, small}, {small, mid, big}, {mid, big, small}}
		ats := [][2]int32{{1, 2}, {0, 2}, {2, 2}}
		d3 := []int32{6}
		if thorough {
			orders = append(orders, [3]InSpec{big, small, mid}, [3]InSpec{small, big, mid}, [3]InSpec{mid, small, big})
			ats = [][2]int32{{0, 1}, {0, 2}, {1, 1}, {1, 2}, {1, 3}, {2, 4}}
			d3 = []int32{5, 7}
		}
		for _, tr := range orders {
			for _, at := range ats {
				for _, s0 := range starts {
					for _, s1 := range starts {
						for _, s2 := range starts {
							for _, d := range d3 {
								for ei, e := range envs {
									if ei > 0 && !thorough || ei > 1 {
										continue
									}
									for _, ft := range faults(d) {
										for _, bl := range blockPats(d, false) {
											for imm := 0; imm < 2; imm++ {
												if imm == 1 && !thorough {
													continue
												}
												a, b, c := tr[0], tr[1], tr[2]
												a.Start, b.Start, c.Start = s0, s1, s2
												b.At, c.At = at[0], at[1]
												c.Immediate = imm == 1
												emit(Scenario{Kind: "pipe", Inputs: []InSpec{a, b, c}, MaxFeeRateVB: e.mx, Relay: relay, EstFee: e.est,
													Delta: d, Blocks: bl, PubFailAt: ft.failAt, Restart: ft.restart})
											}
										}
									}
								}
							}
						}
					}
				}
			}
		}
	}})
	// ---- P: the input KIND alphabet - inputs whose parent tx is still
	// unconfirmed (input.UnconfParent() != nil: what lnd offers when it CPFPs its
	// own unconfirmed commitment tx through the anchor; any output of an
	// unconfirmed tx in general). Kinds: an anchor (330 sat, budget far above its
	// value, so the budget is borrowed from wallet UTXOs; P2WSH and taproot
	// witness; exclusive group or not), a well-funded to_local-like input with an
	// unconfirmed parent, pairs (anchor + ordinary input in one set / in two sets,
	// two outputs of the SAME unconfirmed parent, two inputs with DIFFERENT
	// unconfirmed parents). Parent lattice: parent weight {commitment without
	// HTLCs, with 6 HTLCs} x parent fee RATE at 0, start-1, start, mid-ramp,
	// ceiling, ceiling+1 of the schedule the set will get (start = explicit /
	// estimator / relay, ceiling = min(budget/size, max) on the harness' own size
	// of the set) - i.e. below, equal to and above both ends of the ramp. Crossed
	// with both ceilings (max-bound at 3 sat/vb, budget-bound at 1000 sat/vb),
	// estimator answers, an explicit start, immediate, every subset of the block
	// heights, mempool rejects, publish failures of a whole block and a restart.
	// Oracle unchanged: the fee is inputs - outputs of the tx handed to the wallet,
	// the rate is that fee over the weight of that tx; whatever the parent paid is
	// no excuse for exceeding budget or MaxFeeRate, nor for missing the ceiling.
	sp = append(sp, space{"P:unconfirmed-parent-inputs", func(emit func(Scenario)) {
		const walletIn = 4*41 + 109
		const (
			none  = 0 // confirmed parent
			latt  = 1 // the parent under test (lattice point)
			other = 2 // a second, different unconfirmed parent (low fee)
		)
		type base struct {
			ins    []InSpec
			par    []int // per input: none | latt | other
			wallet []int64
		}
		// size and budget of the set that carries the lattice parent, on the
		// harness' own arithmetic (wallet UTXOs attached smallest first until
		// the borrowable value covers the budgets)
		setOf := func(b base) (W, B int64) {
			var set []InSpec
			for i, in := range b.ins {
				if b.par[i] == latt && in.Excl > 0 {
					set = []InSpec{in}
					break
				}
			}
			if set == nil {
				for _, in := range b.ins {
					if in.Excl == 0 {
						set = append(set, in)
					}
				}
			}
			var need, borrow int64
			for _, in := range set {
				B += in.Budget
				if in.ReqOut > 0 {
					need += in.Budget
				} else {
					borrow += in.Value - in.Budget
				}
			}
			ws := append([]int64{}, b.wallet...)
			sort.Slice(ws, func(i, j int) bool { return ws[i] < ws[j] })
			n := int64(0)
			for borrow < need && int(n) < len(ws) {
				borrow += ws[n]
				n++
			}
			W = syntheticWeight(&Scenario{Inputs: set}, changeTR) + n*walletIn
			return
		}
		pWeights := []int64{1124, 1124 + 6*172}
		type parent struct{ w, fee int64 }
		lattice := func(b base, mx, s0 int64, reduced bool) []parent {
			W, B := setOf(b)
			ceil := B * 1000 / W
			if mx*250 < ceil {
				ceil = mx * 250
			}
			st := s0
			if st > ceil {
				st = ceil
			}
			rates := []int64{0, st - 1, st, (st + ceil) / 2, ceil, ceil + 1}
			if reduced {
				rates = []int64{0, st - 1, (st + ceil) / 2, ceil + 1}
			}
			switch {
			case thorough && reduced:
				rates = append(rates, 1, 10*ceil)
			case thorough:
				rates = append(rates, 1, relay, st+1, ceil-1, 10*ceil)
			}
			var out []parent
			for wi, pw := range pWeights {
				if reduced && wi > 0 && !thorough {
					continue
				}
				for _, r := range dedup64(rates, 0) {
					out = append(out, parent{pw, ceilDiv(r*pw, 1000)})
				}
			}
			return out
		}
		build := func(b base, p parent) []InSpec {
			ins := append([]InSpec{}, b.ins...)
			for i := range ins {
				switch b.par[i] {
				case latt:
					ins[i].ParentW, ins[i].ParentFee = p.w, p.fee
				case other:
					ins[i].ParentW, ins[i].ParentFee = pWeights[1], ceilDiv((relay-1)*pWeights[1], 1000)
				}
			}
			return ins
		}
		anchor := func(kind string, budget int64, excl uint64) InSpec {
			return InSpec{Kind: kind, Value: 330, Budget: budget, Excl: excl}
		}
		rich := func(budget int64) InSpec { return InSpec{Value: 1_000_000, Budget: budget} }
		budgets := []int64{2_000, 100_000}
		if thorough {
			budgets = append(budgets, 300_000, 500)
		}
		type startEst struct {
			start, est int64
			err        bool
		}
		ses := []startEst{{0, relay, false}, {0, estIn, false}, {400, relay, false}}
		if thorough {
			ses = append(ses, startEst{0, 10_000_000, false}, startEst{0, 100, false}, startEst{0, 0, true}, startEst{2_000, relay, false})
		}
		s0of := func(x startEst) int64 {
			if x.start > 0 {
				return x.start
			}
			if x.err || x.est < relay {
				return relay
			}
			return x.est
		}

		// P1: one input with an unconfirmed parent
		var singles []base
		for _, b := range budgets {
			for _, wl := range [][]int64{{1_000_000}, {600, 50_000}} {
				if wl[0] == 600 && b > 50_000 {
					wl = []int64{600, 2 * b}
				}
				singles = append(singles,
					base{[]InSpec{anchor("anchor", b, 7)}, []int{latt}, wl},
					base{[]InSpec{anchor("anchor", b, 0)}, []int{latt}, wl})
			}
			singles = append(singles,
				base{[]InSpec{anchor("tranchor", b, 7)}, []int{latt}, []int64{1_000_000}},
				base{[]InSpec{rich(b)}, []int{latt}, nil})
			if thorough {
				singles = append(singles,
					base{[]InSpec{anchor("anchor", b, 7)}, []int{latt}, nil},
					base{[]InSpec{anchor("anchor", b, 7)}, []int{latt}, []int64{b + dust - 330, 700}},
					base{[]InSpec{rich(b)}, []int{latt}, []int64{50_000}})
			}
		}
		// block patterns of P: every subset of the heights for deadlines h..h+3
		// (thorough: h+4); immediate up to h+2 (thorough: h+3); the estimator
		// answers above the ceiling / below the floor / error and the high
		// explicit start (thorough only) on the reduced lattice up to h+3
		immMax := int32(2)
		if thorough {
			immMax = 3
		}
		for _, b := range singles {
			for _, mx := range maxes {
				for xi, x := range ses {
					for _, p := range lattice(b, mx, s0of(x), xi >= 3) {
						for _, imm := range []bool{false, true} {
							for _, pt := range pats {
								if pt.delta > 4 || imm && pt.delta > immMax || xi >= 3 && (imm || pt.delta > 3) {
									continue
								}
								for _, bl := range pt.blocks {
									ins := build(b, p)
									ins[0].Start, ins[0].Immediate = x.start, imm
									emit(Scenario{Kind: "pipe", Inputs: ins, Wallet: b.wallet, MaxFeeRateVB: mx, Relay: relay,
										EstFee: x.est, EstErr: x.err, Delta: pt.delta, Blocks: bl})
								}
							}
						}
					}
				}
			}
		}
		// P1w (thorough): wide deadlines
		if thorough {
			for _, b := range singles {
				for _, mx := range maxes {
					for _, x := range ses[:3] {
						for _, p := range lattice(b, mx, s0of(x), true) {
							for _, pt := range wide {
								for _, bl := range pt.blocks {
									ins := build(b, p)
									ins[0].Start = x.start
									emit(Scenario{Kind: "pipe", Inputs: ins, Wallet: b.wallet, MaxFeeRateVB: mx, Relay: relay,
										EstFee: x.est, Delta: pt.delta, Blocks: bl})
								}
							}
						}
					}
				}
			}
		}

		// P2: pairs
		plain := InSpec{Value: 10_000, Budget: 3_000}
		var pairs []base
		for _, b := range budgets[:2] {
			pairs = append(pairs,
				base{[]InSpec{anchor("anchor", b, 0), plain}, []int{latt, none}, []int64{1_000_000}}, // one set, the ordinary input lends
				base{[]InSpec{anchor("anchor", b, 7), plain}, []int{latt, none}, []int64{1_000_000}}, // two sets
				base{[]InSpec{plain, anchor("tranchor", b, 0)}, []int{none, latt}, []int64{1_000_000}},
			)
			r1, r2 := rich(b), InSpec{Value: 300_000, Budget: b / 2}
			r1.ParentID, r2.ParentID = 1, 1
			pairs = append(pairs, base{[]InSpec{r1, r2}, []int{latt, latt}, nil}) // two outputs of the same unconfirmed tx
			pairs = append(pairs, base{[]InSpec{rich(b), {Value: 300_000, Budget: b / 2}}, []int{latt, other}, nil})
			if thorough {
				a1, a2 := anchor("anchor", b, 7), anchor("anchor", b, 7)
				pairs = append(pairs, base{[]InSpec{a1, a2}, []int{latt, other}, []int64{1_000_000, 2_000_000}}) // local + remote commitment anchors of one channel
				pairs = append(pairs, base{[]InSpec{anchor("anchor", b, 0), {Value: 20_000, Budget: 1_000, ReqOut: 20_000}}, []int{latt, none}, []int64{1_000_000}})
			}
		}
		rms := []uint32{0, 1}
		if thorough {
			rms = []uint32{0, 1, 3}
		}
		for _, b := range pairs {
			for _, mx := range maxes {
				for _, x := range ses[:2] {
					for _, p := range lattice(b, mx, s0of(x), true) {
						for _, pt := range pats {
							if pt.delta > 4 {
								continue
							}
							for _, bl := range pt.blocks {
								for _, rm := range rms {
									emit(Scenario{Kind: "pipe", Inputs: build(b, p), Wallet: b.wallet, MaxFeeRateVB: mx, Relay: relay,
										EstFee: x.est, Delta: pt.delta, Blocks: bl, RejectMask: rm})
								}
							}
						}
					}
				}
			}
		}

		// P3: faults - every PublishTransaction of one or two blocks fails, or the
		// node is restarted (the re-offered input carries its parent again)
		fbases := []base{singles[0], singles[len(singles)-1], pairs[0], pairs[1]}
		if thorough {
			fbases = append(append([]base{}, singles...), pairs...)
		}
		fds := []int32{4}
		if thorough {
			fds = []int32{3, 5}
		}
		for _, b := range fbases {
			for _, mx := range maxes {
				for _, x := range ses[:2] {
					for _, p := range lattice(b, mx, s0of(x), true) {
						for _, d := range fds {
							all := make([]int32, 0, d+1)
							for k := int32(1); k <= d+1; k++ {
								all = append(all, k)
							}
							for k := int32(1); k <= d; k++ {
								type fault struct {
									failAt  []int32
									restart int32
								}
								fs := []fault{{failAt: []int32{k}}}
								if k < d {
									fs = append(fs, fault{failAt: []int32{k, k + 1}}, fault{restart: k})
								}
								for _, ft := range fs {
									emit(Scenario{Kind: "pipe", Inputs: build(b, p), Wallet: b.wallet, MaxFeeRateVB: mx, Relay: relay,
										EstFee: x.est, Delta: d, Blocks: all, PubFailAt: ft.failAt, Restart: ft.restart})
								}
							}
						}
					}
				}
			}
		}
	}})
	// cheap, targeted spaces first so that a time cap cuts the big lattice last
	order := map[string]int{"D": 0, "E": 1, "P": 2, "G": 3, "H": 4, "F": 5, "W": 6, "B": 7, "C": 8, "A2": 9, "A": 10}
	sort.SliceStable(sp, func(i, j int) bool {
		return order[strings.SplitN(sp[i].name, ":", 2)[0]] < order[strings.SplitN(sp[j].name, ":", 2)[0]]
	})
	return sp
}

// ---------------------------------------------------------------------------

func TestC18Pipe(t *testing.T) {
	run := evid.Start("C18", "exploration")
	if rp := os.Getenv("VERIF_REPLAY"); rp != "" {
		replay(t, run, rp)
		return
	}
	budget := 150 * time.Second
	if run.Thorough() {
		budget = 20 * time.Minute
	}
	if s := os.Getenv("VERIF_BUDGET_S"); s != "" {
		if n, err := strconv.Atoi(s); err == nil {
			budget = time.Duration(n) * time.Second
		}
	}
	deadline := time.Now().Add(budget)
	workers := runtime.GOMAXPROCS(0)

	var (
		mu        sync.Mutex
		evals     int
		distinct  = map[string]bool{}
		classes   = map[string]int{}
		perSpace  = map[string]int{}
		ceilings  int
		txsJudged int
		seenSig   sync.Map
		samples   = evid.NewSamples(6)
		capHit    []string
	)
	type item struct {
		sc    Scenario
		space string
	}
	ch := make(chan item, 4096)
	var wg sync.WaitGroup
	for i := 0; i < workers; i++ {
		wg.Add(1)
		go func() {
			defer wg.Done()
			lEvals, lCeil, lTx := 0, 0, 0
			lDistinct := map[string]bool{}
			lClasses := map[string]int{}
			lSpace := map[string]int{}
			for it := range ch {
				sc := it.sc
				obs := runScenario(t, &sc, nil)
				v := judge(&sc, obs)
				lEvals++
				lSpace[it.space]++
				lCeil += v.ceilings
				lTx += v.nTx
				if v.nTx > 0 {
					lDistinct[v.obsHash] = true
				}
				cl := map[string]bool{}
				for _, c := range v.classes {
					cl[c] = true
				}
				if len(v.viols) > 0 {
					cl["violation"] = true
				}
				if len(cl) == 0 {
					cl["tx-offered:no-deadline-evaluation"] = true
				}
				for c := range cl {
					lClasses[c]++
				}
				for _, vi := range v.viols {
					sig := "pipe/" + vi.clause + "/cause=" + vi.cause
					if _, dup := seenSig.LoadOrStore(sig, true); dup {
						continue
					}
					// determinism gate: replay 3x, identical observations
					same := true
					for k := 0; k < 3; k++ {
						o2 := runScenario(t, &sc, nil)
						if judge(&sc, o2).obsHash != v.obsHash {
							same = false
						}
					}
					if !same {
						mu.Lock()
						capHit = append(capHit, "nondeterminism_detected:"+sig)
						mu.Unlock()
						continue
					}
					// (also for signatures listed as known findings, which get no replay file)
					fmt.Printf("INFO pipe: first scenario with signature %s (space %s): %s\n", sig, it.space, scString(&sc))
					run.Violation(sig, vi.what+"  ["+scString(&sc)+"]", sc)
				}
				if v.nTx >= 3 && len(v.viols) == 0 {
					samples.Add(map[string]any{"scenario": sc, "observed": sampleObs(obs)})
				}
			}
			mu.Lock()
			evals += lEvals
			ceilings += lCeil
			txsJudged += lTx
			for k := range lDistinct {
				distinct[k] = true
			}
			for k, n := range lClasses {
				classes[k] += n
			}
			for k, n := range lSpace {
				perSpace[k] += n
			}
			mu.Unlock()
		}()
	}
	exhaustive := true
	countOnly := os.Getenv("VERIF_C18_COUNT") != "" // development aid: print the size of each space, run nothing
	if countOnly {
		exhaustive = false
		capHit = append(capHit, "VERIF_C18_COUNT set: scenarios counted, not run")
	}
	only := os.Getenv("VERIF_C18_SPACES") // development aid: comma-separated space letters, e.g. "H,G"
	for _, sp := range spaces(run.Thorough()) {
		if only != "" && !strings.Contains(","+only+",", ","+strings.SplitN(sp.name, ":", 2)[0]+",") {
			exhaustive = false
			capHit = append(capHit, "space "+sp.name+" deselected by VERIF_C18_SPACES")
			continue
		}
		stopped := false
		n := 0
		sp.gen(func(sc Scenario) {
			if stopped {
				return
			}
			n++
			if n&1023 == 0 && time.Now().After(deadline) {
				stopped = true
				return
			}
			if countOnly {
				return
			}
			ch <- item{sc, sp.name}
		})
		if countOnly {
			fmt.Printf("INFO pipe: space %s has %d scenarios\n", sp.name, n)
		}
		if stopped {
			exhaustive = false
			capHit = append(capHit, fmt.Sprintf("time budget %v reached inside space %s after %d scenarios", budget, sp.name, n))
		}
	}
	close(ch)
	wg.Wait()

	cov := map[string]any{
		"evaluations":               evals,
		"distinct_nontrivial":       len(distinct),
		"rule":                      "publisher: every scenario of the listed spaces (input (value,budget) lattices around each fee/dust/budget threshold +-1, required-output inputs, wallet top-ups, MaxFeeRate 3 and 1000 sat/vb, estimator at floor/in range/above ceiling/below floor/error, explicit starting rates, every subset of the block heights up to one past the deadline, wide deadlines 144/1008/default/1009, mempool-reject and publish-failure masks; 2-3 inputs sharing a deadline offered at different heights with explicit starting rates {none, low, high} each, budgets ordered both ways, immediate or not, with every PublishTransaction of one or two blocks failing (all sets in flight fail together and are regrouped) or a node restart (re-offered inputs seeded from their own mempool txs), judged per input; values at fee(rate)+dust+-1 for the start / start+1 / mid-ramp / ceiling rate of the schedule with deadlines h+5 and h+6 so that a bump fails mid-ramp and the set is retried twice before deadline-1; input KIND alphabet (space P): inputs whose parent tx is unconfirmed (input.UnconfParent() != nil) - a 330 sat anchor (P2WSH / taproot witness, exclusive group or not) whose budget is borrowed from wallet UTXOs, a well-funded input, pairs (anchor + ordinary input in one set or two, two outputs of the same unconfirmed parent, two different unconfirmed parents) - x parent weight {1124, 2156 wu} x parent fee rate {0, start-1, start, mid-ramp, ceiling, ceiling+1} of the set's own schedule x max-bound and budget-bound ceilings x estimator/explicit start x immediate x every subset of the block heights x mempool rejects, whole-block publish failures, restart) run on the real UtxoSweeper+BudgetAggregator+TxPublisher; an evaluation = one scenario; distinct_nontrivial = distinct observation hashes (sequence of (call, height, inputs, fee, weight, change?, answer) of the txs handed to the wallet) among scenarios where at least one tx was handed over",
		"samples":                   samples.List(),
		"outcome_classes":           classes,
		"scenarios_per_space":       perSpace,
		"txs_judged":                txsJudged,
		"deadline_clause_evaluated": ceilings,
		"exhaustive":                exhaustive,
	}
	if len(capHit) > 0 {
		cov["caps_hit"] = capHit
	}
	{
		var names []string
		for k := range perSpace {
			names = append(names, k)
		}
		sort.Strings(names)
		line := ""
		for _, k := range names {
			line += fmt.Sprintf(" %s=%d", strings.SplitN(k, ":", 2)[0], perSpace[k])
		}
		fmt.Printf("INFO pipe: scenarios per space:%s; txs judged %d; deadline clause evaluated %d; txs spending an input with unconfirmed parent: paying above the parent's rate in %d scenarios, at or below in %d\n", line, txsJudged, ceilings,
			classes["tx-spends-input-with-unconfirmed-parent:tx-rate-above-parent-rate"], classes["tx-spends-input-with-unconfirmed-parent:tx-rate-at-or-below-parent-rate"])
	}
	run.Assumptions = append(run.Assumptions,
		"publisher: inputs are never spent/confirmed during a run (worst case for the ramp); witnesses are dummies of exactly the estimated size, so tx weight == estimated weight",
		"publisher: goroutine interleavings inside one block handler are not enumerated; the sweeper is run to quiescence (synctest.Wait) before the publisher receives the same block",
		"publisher: a restart keeps the sweeper store and the mempool (the successfully published txs no later successful publish conflicts with) and re-offers every input with its original budget and deadline but without immediate flag and explicit starting rate (both are set only through the BumpFee RPC, never by the contract resolvers that re-offer inputs at startup); in-memory retry rates are lost",
		"publisher: an unconfirmed parent is described by (weight, fee) only, exactly what lnd's input.TxInfo carries; the parent never confirms during a run; what the parent paid is never credited to or charged against the sweep tx: fee and rate of a sweep are those of the transaction handed to the wallet",
		"publisher: a below-dust remainder that cannot become a change output is allowed to go to fees on top of MaxFeeRate x weight (the property demands both 'no dust output' and 'spend all inputs'); such cases are counted in outcome_classes",
	)
	if code := run.Finish(cov); code != 0 {
		os.Exit(code)
	}
}

// lndLog forwards lnd's own sweep log lines during a replay.
type lndLog struct{}

func (lndLog) Write(p []byte) (int, error) {
	for _, l := range strings.Split(strings.TrimRight(string(p), "\n"), "\n") {
		if len(l) > 300 {
			l = l[:300] + "..."
		}
		fmt.Printf("INFO     lnd| %s\n", l)
	}
	return len(p), nil
}

func scString(sc *Scenario) string {
	b, _ := json.Marshal(sc)
	return string(b)
}

func sampleObs(obs *observation) []string {
	var out []string
	for _, t := range obs.txs {
		out = append(out, fmt.Sprintf("h=%d %s %s -> %s", t.Height, t.Kind, describeTx(obs.w, t.Tx), t.Ans))
	}
	return out
}

func replay(t *testing.T, run *evid.Run, path string) {
	b, err := os.ReadFile(path)
	if err != nil {
		t.Fatalf("replay: %v", err)
	}
	var doc struct {
		Signature string          `json:"signature"`
		Replay    json.RawMessage `json:"replay"`
	}
	if err := json.Unmarshal(b, &doc); err != nil {
		t.Fatalf("replay: %v", err)
	}
	var sc Scenario
	_ = json.Unmarshal(doc.Replay, &sc)
	if sc.Kind != "pipe" {
		fmt.Printf("INFO pipe target: replay file is not a publisher scenario, nothing to do\n")
		os.Exit(run.Finish(map[string]any{"evaluations": 1, "distinct_nontrivial": 2, "rule": "replay (other target)", "samples": []any{path}}))
	}
	fmt.Printf("INFO replaying publisher scenario (recorded signature %s)\n", doc.Signature)
	var first string
	for i := 0; i < 3; i++ {
		var info func(string)
		if i == 0 {
			info = func(s string) { fmt.Printf("INFO %s\n", s) }
			lg := btclog.NewSLogger(btclog.NewDefaultHandler(lndLog{}, btclog.WithNoTimestamp()))
			lg.SetLevel(btclog.LevelDebug)
			sweep.UseLogger(lg)
		} else {
			sweep.DisableLog()
		}
		obs := runScenario(t, &sc, info)
		v := judge(&sc, obs)
		if i == 0 {
			first = v.obsHash
			for _, vi := range v.viols {
				run.Violation("pipe/"+vi.clause+"/cause="+vi.cause, vi.what+"  ["+scString(&sc)+"]", sc)
			}
			if len(v.viols) == 0 {
				fmt.Printf("INFO no clause violated on this tree (classes: %v)\n", v.classes)
			}
		} else if v.obsHash != first {
			fmt.Printf("INFO NONDETERMINISTIC replay: observation hash %s vs %s\n", first, v.obsHash)
		}
	}
	os.Exit(run.Finish(map[string]any{"evaluations": 3, "distinct_nontrivial": 2, "rule": "replay", "samples": []any{sc}}))
}
