// C20 — the message catalogue: honest gossip v1 messages of one channel, every
// single-field semantic corruption of them, and the byte-level corruption
// enumerator. Everything is produced as wire bytes (what a peer would send) and
// decoded again with lnwire.ReadMessage before delivery, exactly the path of a
// network message. Signatures are made by the harness over the BOLT 7 digest
// (double-SHA256 of the wire bytes following the signature fields), not through
// lnd's signing helpers.
package discovery

import (
	"bytes"
	"fmt"
	"image/color"
	"net"

	"github.com/btcsuite/btcd/btcec/v2"
	"github.com/btcsuite/btcd/btcec/v2/ecdsa"
	"github.com/btcsuite/btcd/chaincfg/v2"
	"github.com/btcsuite/btcd/chainhash/v2"
	"github.com/lightningnetwork/lnd/lnwire"
)

// c20Msg is one deliverable: wire bytes plus (if decodable) the decoded message.
type c20Msg struct {
	ID      string
	Wire    []byte
	Decoded lnwire.Message // nil: the bytes do not decode (a peer would drop the connection)
	DecErr  string
}

func c20Encode(m lnwire.Message) []byte {
	var b bytes.Buffer
	if _, err := lnwire.WriteMessage(&b, m, 0); err != nil {
		panic(fmt.Sprintf("c20: encode %T: %v", m, err))
	}
	return b.Bytes()
}

func c20FromWire(id string, w []byte) *c20Msg {
	m := &c20Msg{ID: id, Wire: append([]byte{}, w...)}
	dec, err := lnwire.ReadMessage(bytes.NewReader(m.Wire), 0)
	if err != nil {
		m.DecErr = err.Error()
		return m
	}
	m.Decoded = dec
	return m
}

// c20SignOver signs the BOLT 7 digest of wire[off:].
func c20SignOver(k *btcec.PrivateKey, wire []byte, off int) lnwire.Sig {
	digest := chainhash.DoubleHashB(wire[off:])
	s, err := lnwire.NewSigFromSignature(ecdsa.Sign(k, digest))
	if err != nil {
		panic(err)
	}
	return s
}

const (
	c20CAOff = 2 + 4*64 // type + four signatures
	c20CUOff = 2 + 64
	c20NAOff = 2 + 64
)

var c20MainChain = *chaincfg.MainNetParams.GenesisHash
var c20OtherChain = *chaincfg.TestNet3Params.GenesisHash

// ---------------------------------------------------------------------------
// channel_announcement

type c20CASpec struct {
	scid               lnwire.ShortChannelID
	n1, n2, b1, b2     [33]byte
	s1, s2, sb1, sb2   *btcec.PrivateKey // who signs each of the four slots
	chain              chainhash.Hash
	features           *lnwire.RawFeatureVector
	extra              []byte
	post               func(*lnwire.ChannelAnnouncement1) // applied after signing
	swapN, swapB, rotS bool                               // post-sign signature shuffles
}

func c20HonestCA(scid lnwire.ShortChannelID) c20CASpec {
	return c20CASpec{
		scid: scid,
		n1:   c20Pub(c20Node1), n2: c20Pub(c20Node2), b1: c20Pub(c20Btc1), b2: c20Pub(c20Btc2),
		s1: c20Node1, s2: c20Node2, sb1: c20Btc1, sb2: c20Btc2,
		chain: c20MainChain, features: lnwire.NewRawFeatureVector(),
	}
}

func (s c20CASpec) build(id string) *c20Msg {
	a := &lnwire.ChannelAnnouncement1{
		Features: s.features, ChainHash: s.chain, ShortChannelID: s.scid,
		NodeID1: s.n1, NodeID2: s.n2, BitcoinKey1: s.b1, BitcoinKey2: s.b2,
		ExtraOpaqueData: s.extra,
	}
	w := c20Encode(a)
	a.NodeSig1 = c20SignOver(s.s1, w, c20CAOff)
	a.NodeSig2 = c20SignOver(s.s2, w, c20CAOff)
	a.BitcoinSig1 = c20SignOver(s.sb1, w, c20CAOff)
	a.BitcoinSig2 = c20SignOver(s.sb2, w, c20CAOff)
	if s.swapN {
		a.NodeSig1, a.NodeSig2 = a.NodeSig2, a.NodeSig1
	}
	if s.swapB {
		a.BitcoinSig1, a.BitcoinSig2 = a.BitcoinSig2, a.BitcoinSig1
	}
	if s.rotS {
		a.NodeSig1, a.BitcoinSig1 = a.BitcoinSig1, a.NodeSig1
	}
	if s.post != nil {
		s.post(a)
	}
	return c20FromWire(id, c20Encode(a))
}

// ---------------------------------------------------------------------------
// channel_update

type c20CUSpec struct {
	scid       lnwire.ShortChannelID
	ts         uint32
	mflags     lnwire.ChanUpdateMsgFlags
	cflags     lnwire.ChanUpdateChanFlags
	tld        uint16
	min, max   lnwire.MilliSatoshi
	base, rate uint32
	chain      chainhash.Hash
	extra      []byte
	signer     *btcec.PrivateKey
	post       func(*lnwire.ChannelUpdate1)
}

func c20HonestCU(dir int, ts uint32) c20CUSpec {
	s := c20CUSpec{
		scid: c20ScidGood, ts: ts, mflags: lnwire.ChanUpdateRequiredMaxHtlc,
		cflags: lnwire.ChanUpdateChanFlags(dir), tld: 40 + uint16(dir), min: 1000,
		max: lnwire.MilliSatoshi(c20Capacity * 1000 / 2), base: 1000 + uint32(dir), rate: 100 + uint32(ts-c20T)*7,
		chain: c20MainChain, signer: c20Node1,
	}
	if dir == 1 {
		s.signer = c20Node2
	}
	return s
}

func (s c20CUSpec) build(id string) *c20Msg {
	u := &lnwire.ChannelUpdate1{
		ChainHash: s.chain, ShortChannelID: s.scid, Timestamp: s.ts, MessageFlags: s.mflags,
		ChannelFlags: s.cflags, TimeLockDelta: s.tld, HtlcMinimumMsat: s.min, HtlcMaximumMsat: s.max,
		BaseFee: s.base, FeeRate: s.rate,
	}
	// The extra opaque data is the tail of the message. It is appended to the wire
	// bytes by hand: lnwire's ChannelUpdate1.Encode re-packs the extra data from the
	// records it knows (inbound fee) and would drop everything else.
	extra := s.extra
	w := append(c20Encode(u), extra...)
	u.Signature = c20SignOver(s.signer, w, c20CUOff)
	if s.post != nil {
		u.ExtraOpaqueData = nil
		s.post(u)
		if u.ExtraOpaqueData != nil {
			extra, u.ExtraOpaqueData = u.ExtraOpaqueData, nil
		}
	}
	return c20FromWire(id, append(c20Encode(u), extra...))
}

// ---------------------------------------------------------------------------
// node_announcement

type c20NASpec struct {
	node     [33]byte
	signer   *btcec.PrivateKey
	ts       uint32
	alias    string
	rgb      color.RGBA
	addrs    []net.Addr
	features *lnwire.RawFeatureVector
	extra    []byte
	post     func(*lnwire.NodeAnnouncement1)
}

func c20HonestNA(which int, ts uint32) c20NASpec {
	k := c20Node1
	if which == 2 {
		k = c20Node2
	}
	return c20NASpec{
		node: c20Pub(k), signer: k, ts: ts, alias: fmt.Sprintf("node-%d", which),
		rgb:      color.RGBA{R: 0x10 * uint8(which), G: 0x22, B: 0x33},
		addrs:    []net.Addr{&net.TCPAddr{IP: net.IPv4(10, 0, 0, byte(which)), Port: 9735}},
		features: lnwire.NewRawFeatureVector(lnwire.TLVOnionPayloadRequired),
	}
}

func (s c20NASpec) build(id string) *c20Msg {
	alias, err := lnwire.NewNodeAlias(s.alias)
	if err != nil {
		panic(err)
	}
	n := &lnwire.NodeAnnouncement1{
		Features: s.features, Timestamp: s.ts, NodeID: s.node, RGBColor: s.rgb, Alias: alias,
		Addresses: s.addrs, ExtraOpaqueData: s.extra,
	}
	w := c20Encode(n)
	n.Signature = c20SignOver(s.signer, w, c20NAOff)
	if s.post != nil {
		s.post(n)
	}
	return c20FromWire(id, c20Encode(n))
}

// ---------------------------------------------------------------------------
// the catalogue

// a well-formed odd (optional, unknown) TLV record: type 0xfde9 (65001), length 2
var c20ExtraTLV = []byte{0xfd, 0xfd, 0xe9, 0x02, 0xbe, 0xef}

// c20ExtraLens: total extra-data lengths around the store limit (limit-8 .. limit+1).
var c20ExtraLens = func() (l []int) {
	for n := c20StoreExtraLimit - 8; n <= c20StoreExtraLimit+1; n++ {
		l = append(l, n)
	}
	return l
}()

// c20BigTLV is one well-formed TLV record of type 65001 whose encoding is exactly
// total bytes long (3 bytes type, 3 bytes length, total-6 bytes value).
func c20BigTLV(total int) []byte {
	l := total - 6
	b := []byte{0xfd, 0xfd, 0xe9, 0xfd, byte(l >> 8), byte(l)}
	for i := 0; i < l; i++ {
		b = append(b, byte(i*7+3))
	}
	return b
}

type c20Catalogue struct {
	byID map[string]*c20Msg
	// Honest messages, in the order used as context prefixes.
	CA, CU0a, CU0b, CU1a, CU1b, NA1, NA2, NA1b *c20Msg
	// Semantic corruption families (IDs), each judged by the reference model;
	// some of them are *valid* variants, placed there deliberately.
	SemCA, SemCU, SemNA []string
	// KindCA: the channel-kind family, feature vector x funding-output form, every
	// message correctly signed by all four keys (c20KindFeatures x c20KindOutNames).
	KindCA []string
}

// c20KindFeatures: the feature vectors of the channel-kind family. The taproot
// (staging) bits 180/181 select the P2TR MuSig2 funding output; their unknown
// neighbours 179 (odd) and 182 (even), another unknown odd bit and the empty
// vector do not; 80/81 are the final taproot bits (form undecided in gossip v1).
var c20KindFeatures = []struct {
	name string
	bits []lnwire.FeatureBit
}{
	{"0", nil},
	{"181", []lnwire.FeatureBit{181}},
	{"180", []lnwire.FeatureBit{180}},
	{"180+181", []lnwire.FeatureBit{180, 181}},
	{"33+181", []lnwire.FeatureBit{33, 181}},
	{"33", []lnwire.FeatureBit{33}},
	{"179", []lnwire.FeatureBit{179}},
	{"182", []lnwire.FeatureBit{182}},
	{"81", []lnwire.FeatureBit{81}},
	{"80", []lnwire.FeatureBit{80}},
}

func c20KindID(feat, out string) string { return "kCA.f=" + feat + ".out=" + out }

func (c *c20Catalogue) add(m *c20Msg) *c20Msg {
	if _, dup := c.byID[m.ID]; dup {
		panic("c20: duplicate message id " + m.ID)
	}
	c.byID[m.ID] = m
	return m
}

func (c *c20Catalogue) get(id string) *c20Msg {
	m := c.byID[id]
	if m == nil {
		panic("c20: unknown message id " + id)
	}
	return m
}

var c20Cat = c20BuildCatalogue()

func c20BuildCatalogue() *c20Catalogue {
	c := &c20Catalogue{byID: map[string]*c20Msg{}}
	T := c20T
	c.CA = c.add(c20HonestCA(c20ScidGood).build("CA"))
	c.CU0a = c.add(c20HonestCU(0, T).build("CU0a"))
	c.CU0b = c.add(c20HonestCU(0, T+1).build("CU0b"))
	c.CU1a = c.add(c20HonestCU(1, T).build("CU1a"))
	c.CU1b = c.add(c20HonestCU(1, T+1).build("CU1b"))
	c.NA1 = c.add(c20HonestNA(1, T).build("NA1"))
	c.NA2 = c.add(c20HonestNA(2, T).build("NA2"))
	c.NA1b = c.add(c20HonestNA(1, T+1).build("NA1b"))
	// the channel that only exists after the next block
	c.add(c20HonestCA(c20ScidFuture).build("CA3"))
	{
		s := c20HonestCU(0, T)
		s.scid = c20ScidFuture
		c.add(s.build("CU3"))
	}

	sem := func(list *[]string, m *c20Msg) {
		c.add(m)
		*list = append(*list, m.ID)
	}
	evil, evilB := c20Pub(c20Evil), c20Pub(c20EvilBtc)

	// ---- channel_announcement ------------------------------------------------
	ca := func(f func(*c20CASpec)) c20CASpec { s := c20HonestCA(c20ScidGood); f(&s); return s }
	// each of the four signatures made by somebody else
	sem(&c.SemCA, ca(func(s *c20CASpec) { s.s1 = c20Evil }).build("xCA.sigN1=evil"))
	sem(&c.SemCA, ca(func(s *c20CASpec) { s.s2 = c20Evil }).build("xCA.sigN2=evil"))
	sem(&c.SemCA, ca(func(s *c20CASpec) { s.sb1 = c20EvilBtc }).build("xCA.sigB1=evil"))
	sem(&c.SemCA, ca(func(s *c20CASpec) { s.sb2 = c20EvilBtc }).build("xCA.sigB2=evil"))
	// each slot signed by each of the other three honest keys
	{
		honest := []struct {
			n string
			k *btcec.PrivateKey
		}{{"node1", c20Node1}, {"node2", c20Node2}, {"btc1", c20Btc1}, {"btc2", c20Btc2}}
		for slot, sn := range []string{"N1", "N2", "B1", "B2"} {
			for hi, h := range honest {
				if hi == slot {
					continue
				}
				slot, h := slot, h
				sem(&c.SemCA, ca(func(s *c20CASpec) {
					switch slot {
					case 0:
						s.s1 = h.k
					case 1:
						s.s2 = h.k
					case 2:
						s.sb1 = h.k
					case 3:
						s.sb2 = h.k
					}
				}).build("xCA.sig"+sn+"=by-"+h.n))
			}
		}
	}
	// right signers, wrong slots
	sem(&c.SemCA, ca(func(s *c20CASpec) { s.swapN = true }).build("xCA.sigN1<->sigN2"))
	sem(&c.SemCA, ca(func(s *c20CASpec) { s.swapB = true }).build("xCA.sigB1<->sigB2"))
	sem(&c.SemCA, ca(func(s *c20CASpec) { s.rotS = true }).build("xCA.sigN1<->sigB1"))
	// a signature over a different announcement (other scid) transplanted
	{
		other := c20HonestCA(c20ScidTiny).build("tmp").Decoded.(*lnwire.ChannelAnnouncement1)
		for i, name := range []string{"N1", "N2", "B1", "B2"} {
			i := i
			sem(&c.SemCA, ca(func(s *c20CASpec) {
				s.post = func(a *lnwire.ChannelAnnouncement1) {
					switch i {
					case 0:
						a.NodeSig1 = other.NodeSig1
					case 1:
						a.NodeSig2 = other.NodeSig2
					case 2:
						a.BitcoinSig1 = other.BitcoinSig1
					case 3:
						a.BitcoinSig2 = other.BitcoinSig2
					}
				}
			}).build("xCA.sig"+name+"=of-other-msg"))
		}
	}
	// each key replaced after signing (signatures no longer cover the message)
	sem(&c.SemCA, ca(func(s *c20CASpec) { s.post = func(a *lnwire.ChannelAnnouncement1) { a.NodeID1 = evil } }).build("xCA.node1:=evil,unsigned"))
	sem(&c.SemCA, ca(func(s *c20CASpec) { s.post = func(a *lnwire.ChannelAnnouncement1) { a.NodeID2 = evil } }).build("xCA.node2:=evil,unsigned"))
	sem(&c.SemCA, ca(func(s *c20CASpec) { s.post = func(a *lnwire.ChannelAnnouncement1) { a.BitcoinKey1 = evilB } }).build("xCA.btc1:=evil,unsigned"))
	sem(&c.SemCA, ca(func(s *c20CASpec) { s.post = func(a *lnwire.ChannelAnnouncement1) { a.BitcoinKey2 = evilB } }).build("xCA.btc2:=evil,unsigned"))
	// each key replaced and the slot signed by the replacement key (all four
	// signatures verify): a replaced *bitcoin* key no longer matches the funding
	// output; a replaced *node* key is attested by the bitcoin keys -> authentic
	sem(&c.SemCA, ca(func(s *c20CASpec) { s.n1, s.s1 = evil, c20Evil }).build("xCA.node1:=evil,resigned"))
	sem(&c.SemCA, ca(func(s *c20CASpec) { s.n2, s.s2 = evil, c20Evil }).build("xCA.node2:=evil,resigned"))
	sem(&c.SemCA, ca(func(s *c20CASpec) { s.b1, s.sb1 = evilB, c20EvilBtc }).build("xCA.btc1:=evil,resigned"))
	sem(&c.SemCA, ca(func(s *c20CASpec) { s.b2, s.sb2 = evilB, c20EvilBtc }).build("xCA.btc2:=evil,resigned"))
	// keys swapped together with their signers
	sem(&c.SemCA, ca(func(s *c20CASpec) { s.n1, s.n2, s.s1, s.s2 = s.n2, s.n1, s.s2, s.s1 }).build("xCA.node1<->node2,resigned"))
	sem(&c.SemCA, ca(func(s *c20CASpec) { s.b1, s.b2, s.sb1, s.sb2 = s.b2, s.b1, s.sb2, s.sb1 }).build("xCA.btc1<->btc2,resigned"))
	sem(&c.SemCA, ca(func(s *c20CASpec) { s.n1, s.n2 = s.n2, s.n1 }).build("xCA.node1<->node2,signers-not-swapped"))
	// a key that is not a curve point
	sem(&c.SemCA, ca(func(s *c20CASpec) { s.post = func(a *lnwire.ChannelAnnouncement1) { a.BitcoinKey1[0] = 0x05 } }).build("xCA.btc1=not-a-point"))
	// the scid: every way the funding output can be wrong (all correctly signed)
	for _, v := range []struct {
		n string
		s lnwire.ShortChannelID
	}{{"spent", c20ScidSpent}, {"wrong-script", c20ScidScript}, {"tiny-amount", c20ScidTiny},
		{"no-such-output", c20ScidNoOut}, {"no-such-tx", c20ScidNoTx}, {"future-block", c20ScidFuture}} {
		v := v
		sem(&c.SemCA, ca(func(s *c20CASpec) { s.scid = v.s }).build("xCA.scid="+v.n))
	}
	sem(&c.SemCA, ca(func(s *c20CASpec) {
		s.post = func(a *lnwire.ChannelAnnouncement1) { a.ShortChannelID = c20ScidTiny }
	}).build("xCA.scid:=tiny,unsigned"))
	// chain hash
	sem(&c.SemCA, ca(func(s *c20CASpec) { s.chain = c20OtherChain }).build("xCA.chain=testnet,signed"))
	sem(&c.SemCA, ca(func(s *c20CASpec) {
		s.post = func(a *lnwire.ChannelAnnouncement1) { a.ChainHash = c20OtherChain }
	}).build("xCA.chain:=testnet,unsigned"))
	// feature bits and extra data
	sem(&c.SemCA, ca(func(s *c20CASpec) {
		s.post = func(a *lnwire.ChannelAnnouncement1) { a.Features = lnwire.NewRawFeatureVector(lnwire.FeatureBit(33)) }
	}).build("xCA.features:=bit33,unsigned"))
	sem(&c.SemCA, ca(func(s *c20CASpec) { s.features = lnwire.NewRawFeatureVector(lnwire.FeatureBit(33)) }).build("xCA.features=bit33,signed"))
	sem(&c.SemCA, ca(func(s *c20CASpec) {
		s.post = func(a *lnwire.ChannelAnnouncement1) { a.ExtraOpaqueData = c20ExtraTLV }
	}).build("xCA.extra:=tlv,unsigned"))
	sem(&c.SemCA, ca(func(s *c20CASpec) { s.extra = c20ExtraTLV }).build("xCA.extra=tlv,signed"))

	// ---- channel kinds ---------------------------------------------------------
	// every feature vector x every funding-output form: bitcoin keys btc-1/btc-2, all
	// four signatures valid; only the (features, output) pair decides
	for _, f := range c20KindFeatures {
		for _, o := range c20KindOutNames() {
			f, o := f, o
			sem(&c.KindCA, ca(func(s *c20CASpec) {
				s.scid = c20KindScid(o)
				s.features = lnwire.NewRawFeatureVector(f.bits...)
			}).build(c20KindID(f.name, o)))
		}
	}
	// honest updates of the taproot channel (scid of the tr2of2 output)
	for dir := 0; dir < 2; dir++ {
		for i, ts := range []uint32{T, T + 1} {
			sp := c20HonestCU(dir, ts)
			sp.scid = c20KindScid("tr2of2")
			sp.base = 5000 + uint32(10*dir+i)
			c.add(sp.build(fmt.Sprintf("kCU%d%c.tr2of2", dir, 'a'+i)))
		}
	}

	// ---- channel_update ------------------------------------------------------
	// base: the direction-0 update with timestamp t+1 (fresh after CU0a)
	cu := func(f func(*c20CUSpec)) c20CUSpec { s := c20HonestCU(0, T+1); s.base = 7777; f(&s); return s }
	capMsat := lnwire.MilliSatoshi(c20Capacity * 1000)
	sem(&c.SemCU, cu(func(s *c20CUSpec) { s.signer = c20Evil }).build("xCU.sig=evil"))
	sem(&c.SemCU, cu(func(s *c20CUSpec) { s.signer = c20Node2 }).build("xCU.sig=other-node"))
	sem(&c.SemCU, cu(func(s *c20CUSpec) { s.signer = c20Btc1 }).build("xCU.sig=bitcoin-key"))
	sem(&c.SemCU, cu(func(s *c20CUSpec) {
		s.post = func(u *lnwire.ChannelUpdate1) { u.ChannelFlags ^= lnwire.ChanUpdateDirection }
	}).build("xCU.dir:=1,unsigned"))
	sem(&c.SemCU, cu(func(s *c20CUSpec) { s.cflags = 1 }).build("xCU.dir=1,signed-by-node1"))
	sem(&c.SemCU, cu(func(s *c20CUSpec) { s.cflags = 1; s.signer = c20Node2 }).build("xCU.dir=1,signed-by-node2"))
	sem(&c.SemCU, cu(func(s *c20CUSpec) { s.cflags = lnwire.ChanUpdateDisabled }).build("xCU.disabled,signed"))
	sem(&c.SemCU, cu(func(s *c20CUSpec) {
		s.post = func(u *lnwire.ChannelUpdate1) { u.ChannelFlags |= lnwire.ChanUpdateDisabled }
	}).build("xCU.disabled,unsigned"))
	sem(&c.SemCU, cu(func(s *c20CUSpec) { s.mflags = 0 }).build("xCU.no-max-htlc-flag,signed"))
	sem(&c.SemCU, cu(func(s *c20CUSpec) { s.max = capMsat }).build("xCU.max=capacity,signed"))
	sem(&c.SemCU, cu(func(s *c20CUSpec) { s.max = capMsat + 1 }).build("xCU.max=capacity+1,signed"))
	sem(&c.SemCU, cu(func(s *c20CUSpec) { s.max = s.min }).build("xCU.max=min,signed"))
	sem(&c.SemCU, cu(func(s *c20CUSpec) { s.max = s.min - 1 }).build("xCU.max=min-1,signed"))
	sem(&c.SemCU, cu(func(s *c20CUSpec) { s.max = 0 }).build("xCU.max=0,signed"))
	sem(&c.SemCU, cu(func(s *c20CUSpec) {
		s.post = func(u *lnwire.ChannelUpdate1) { u.HtlcMaximumMsat++ }
	}).build("xCU.max+1,unsigned"))
	sem(&c.SemCU, cu(func(s *c20CUSpec) { s.ts = 0 }).build("xCU.ts=0,signed"))
	sem(&c.SemCU, cu(func(s *c20CUSpec) { s.ts = T }).build("xCU.ts=t(equal),signed"))
	sem(&c.SemCU, cu(func(s *c20CUSpec) { s.ts = T - 1 }).build("xCU.ts=t-1(stale),signed"))
	sem(&c.SemCU, cu(func(s *c20CUSpec) { s.ts = T + 2 }).build("xCU.ts=t+2,signed"))
	sem(&c.SemCU, cu(func(s *c20CUSpec) {
		s.post = func(u *lnwire.ChannelUpdate1) { u.Timestamp = T + 5 }
	}).build("xCU.ts:=t+5,unsigned"))
	sem(&c.SemCU, cu(func(s *c20CUSpec) { s.ts = uint32(c20Epoch + 365*24*3600) }).build("xCU.ts=+1y,signed"))
	sem(&c.SemCU, cu(func(s *c20CUSpec) { s.ts = uint32(c20Epoch + 7*24*3600) }).build("xCU.ts=+7d,signed"))
	sem(&c.SemCU, cu(func(s *c20CUSpec) { s.chain = c20OtherChain }).build("xCU.chain=testnet,signed"))
	sem(&c.SemCU, cu(func(s *c20CUSpec) {
		s.post = func(u *lnwire.ChannelUpdate1) { u.ChainHash = c20OtherChain }
	}).build("xCU.chain:=testnet,unsigned"))
	sem(&c.SemCU, cu(func(s *c20CUSpec) { s.scid = c20ScidTiny }).build("xCU.scid=tiny,signed"))
	sem(&c.SemCU, cu(func(s *c20CUSpec) { s.scid = c20ScidNoTx }).build("xCU.scid=no-such-tx,signed"))
	sem(&c.SemCU, cu(func(s *c20CUSpec) { s.scid = c20ScidFuture }).build("xCU.scid=future-block,signed"))
	sem(&c.SemCU, cu(func(s *c20CUSpec) {
		s.post = func(u *lnwire.ChannelUpdate1) { u.ShortChannelID = c20ScidTiny }
	}).build("xCU.scid:=tiny,unsigned"))
	sem(&c.SemCU, cu(func(s *c20CUSpec) {
		s.post = func(u *lnwire.ChannelUpdate1) { u.BaseFee++ }
	}).build("xCU.base+1,unsigned"))
	sem(&c.SemCU, cu(func(s *c20CUSpec) {
		s.post = func(u *lnwire.ChannelUpdate1) { u.FeeRate = 0 }
	}).build("xCU.rate:=0,unsigned"))
	sem(&c.SemCU, cu(func(s *c20CUSpec) {
		s.post = func(u *lnwire.ChannelUpdate1) { u.TimeLockDelta = 1 }
	}).build("xCU.tld:=1,unsigned"))
	sem(&c.SemCU, cu(func(s *c20CUSpec) {
		s.post = func(u *lnwire.ChannelUpdate1) { u.HtlcMinimumMsat = 0 }
	}).build("xCU.min:=0,unsigned"))
	sem(&c.SemCU, cu(func(s *c20CUSpec) {
		s.post = func(u *lnwire.ChannelUpdate1) { u.ExtraOpaqueData = c20ExtraTLV }
	}).build("xCU.extra:=tlv,unsigned"))
	sem(&c.SemCU, cu(func(s *c20CUSpec) { s.extra = c20ExtraTLV }).build("xCU.extra=tlv,signed"))
	// the same for the second node's direction (lnd has one branch per direction)
	cu1 := func(f func(*c20CUSpec)) c20CUSpec { s := c20HonestCU(1, T+1); s.base = 8888; f(&s); return s }
	sem(&c.SemCU, cu1(func(s *c20CUSpec) {}).build("xCU1.fresh,signed"))
	sem(&c.SemCU, cu1(func(s *c20CUSpec) { s.signer = c20Evil }).build("xCU1.sig=evil"))
	sem(&c.SemCU, cu1(func(s *c20CUSpec) { s.signer = c20Node1 }).build("xCU1.sig=other-node"))
	sem(&c.SemCU, cu1(func(s *c20CUSpec) { s.ts = T }).build("xCU1.ts=t(equal),signed"))
	sem(&c.SemCU, cu1(func(s *c20CUSpec) { s.ts = T - 1 }).build("xCU1.ts=t-1(stale),signed"))
	sem(&c.SemCU, cu1(func(s *c20CUSpec) { s.max = capMsat + 1 }).build("xCU1.max=capacity+1,signed"))
	sem(&c.SemCU, cu1(func(s *c20CUSpec) { s.max = capMsat + 999 }).build("xCU1.max=capacity+999msat,signed"))
	sem(&c.SemCU, cu1(func(s *c20CUSpec) { s.mflags = 0 }).build("xCU1.no-max-htlc-flag,signed"))
	sem(&c.SemCU, cu1(func(s *c20CUSpec) {
		s.post = func(u *lnwire.ChannelUpdate1) { u.ChannelFlags ^= lnwire.ChanUpdateDirection }
	}).build("xCU1.dir:=0,unsigned"))
	// the tiny channel: an update that is fine for the big channel exceeds its capacity
	{
		s := c20HonestCU(0, T)
		s.scid = c20ScidTiny
		sem(&c.SemCU, s.build("xCU.tiny-channel,max>capacity"))
		s.max, s.min = lnwire.MilliSatoshi(c20TinyCapacity*1000), 1
		sem(&c.SemCU, s.build("xCU.tiny-channel,max=capacity"))
	}

	// lnd knows one record of the extra data (inbound fee, type 55555): alone, and
	// followed by a record it does not know -- all signed; the message must be
	// stored and relayed exactly as received
	inFee := []byte{0xfd, 0xd9, 0x03, 0x08, 0xff, 0xff, 0xff, 0x9c, 0x00, 0x00, 0x00, 0x07} // base -100, rate 7
	sem(&c.SemCU, cu(func(s *c20CUSpec) { s.extra = inFee; s.base = 7801 }).build("xCU.extra=inbound-fee,signed"))
	sem(&c.SemCU, cu(func(s *c20CUSpec) { s.extra = append(append([]byte{}, inFee...), c20ExtraTLV...); s.base = 7802 }).build("xCU.extra=inbound-fee+tlv,signed"))
	sem(&c.SemCU, cu1(func(s *c20CUSpec) { s.extra = c20ExtraTLV; s.base = 8803 }).build("xCU1.extra=tlv,signed"))

	// extra opaque data around the graph store's documented limit of 10 000 bytes
	// (the KV store keeps htlc_maximum_msat in the same blob): one well-formed odd
	// TLV record (type 65001) of total length N, correctly signed, otherwise the
	// fresh direction-0 update
	for _, n := range c20ExtraLens {
		n := n
		sem(&c.SemCU, cu(func(s *c20CUSpec) { s.extra = c20BigTLV(n); s.base = 7000 + uint32(n-c20StoreExtraLimit) }).build(fmt.Sprintf("xCU.extra=%dB,signed", n)))
	}

	// ---- zombie life cycle ---------------------------------------------------
	// honest updates whose timestamps lie beyond the two-week horizon (a channel
	// that has only such policies is pruned by the next prune tick) ...
	day := uint32(24 * 3600)
	E := uint32(c20Epoch)
	old := func(id string, dir int, ts uint32, base uint32) {
		sp := c20HonestCU(dir, T)
		sp.ts, sp.base, sp.rate = ts, base, 50
		c.add(sp.build(id))
	}
	old("oCU0.-16d", 0, E-16*day, 6016)
	old("oCU0.-15d", 0, E-15*day, 6015)
	old("oCU1.-15d12h", 1, E-15*day-day/2, 6115)
	// ... and updates newer than those, yet still beyond the horizon
	old("oCU0.-14d12h", 0, E-14*day-day/2, 6014)
	old("oCU1.-14d12h", 1, E-14*day-day/2, 6114)

	// ---- node_announcement ---------------------------------------------------
	na := func(f func(*c20NASpec)) c20NASpec { s := c20HonestNA(1, T+1); s.alias = "node-1-new"; f(&s); return s }
	sem(&c.SemNA, na(func(s *c20NASpec) { s.signer = c20Evil }).build("xNA.sig=evil"))
	sem(&c.SemNA, na(func(s *c20NASpec) { s.signer = c20Node2 }).build("xNA.sig=other-node"))
	sem(&c.SemNA, na(func(s *c20NASpec) { s.node, s.signer = evil, c20Evil }).build("xNA.node=evil,signed-by-evil"))
	sem(&c.SemNA, na(func(s *c20NASpec) { s.node = c20Pub(c20Node2) }).build("xNA.node=node2,signed-by-node1"))
	sem(&c.SemNA, na(func(s *c20NASpec) {
		s.post = func(n *lnwire.NodeAnnouncement1) { n.NodeID = c20Pub(c20Node2) }
	}).build("xNA.node:=node2,unsigned"))
	sem(&c.SemNA, na(func(s *c20NASpec) { s.ts = 0 }).build("xNA.ts=0,signed"))
	sem(&c.SemNA, na(func(s *c20NASpec) { s.ts = T }).build("xNA.ts=t(equal),signed"))
	sem(&c.SemNA, na(func(s *c20NASpec) { s.ts = T - 1 }).build("xNA.ts=t-1(stale),signed"))
	sem(&c.SemNA, na(func(s *c20NASpec) { s.ts = T + 2 }).build("xNA.ts=t+2,signed"))
	sem(&c.SemNA, na(func(s *c20NASpec) { s.ts = uint32(c20Epoch + 365*24*3600) }).build("xNA.ts=+1y,signed"))
	sem(&c.SemNA, na(func(s *c20NASpec) {
		s.post = func(n *lnwire.NodeAnnouncement1) { n.Timestamp = T + 9 }
	}).build("xNA.ts:=t+9,unsigned"))
	sem(&c.SemNA, na(func(s *c20NASpec) {
		s.post = func(n *lnwire.NodeAnnouncement1) { n.Alias, _ = lnwire.NewNodeAlias("mallory") }
	}).build("xNA.alias,unsigned"))
	sem(&c.SemNA, na(func(s *c20NASpec) {
		s.post = func(n *lnwire.NodeAnnouncement1) { n.RGBColor.B ^= 1 }
	}).build("xNA.color,unsigned"))
	sem(&c.SemNA, na(func(s *c20NASpec) {
		s.post = func(n *lnwire.NodeAnnouncement1) {
			n.Addresses = []net.Addr{&net.TCPAddr{IP: net.IPv4(6, 6, 6, 6), Port: 666}}
		}
	}).build("xNA.address,unsigned"))
	sem(&c.SemNA, na(func(s *c20NASpec) {
		s.post = func(n *lnwire.NodeAnnouncement1) {
			n.Features = lnwire.NewRawFeatureVector(lnwire.TLVOnionPayloadRequired, lnwire.FeatureBit(35))
		}
	}).build("xNA.features,unsigned"))
	sem(&c.SemNA, na(func(s *c20NASpec) {
		s.features = lnwire.NewRawFeatureVector(lnwire.TLVOnionPayloadRequired, lnwire.FeatureBit(35))
	}).build("xNA.features=bit35,signed"))
	sem(&c.SemNA, na(func(s *c20NASpec) {
		s.post = func(n *lnwire.NodeAnnouncement1) { n.ExtraOpaqueData = c20ExtraTLV }
	}).build("xNA.extra:=tlv,unsigned"))
	sem(&c.SemNA, na(func(s *c20NASpec) { s.extra = c20ExtraTLV }).build("xNA.extra=tlv,signed"))

	// ---- flag / content lattice ---------------------------------------------------
	// Every dimension of a channel_update that does not bear on authenticity or on
	// which policy slot it addresses (disable bit, a reserved high channel-flag bit,
	// an extra message-flag bit) crossed with timestamps {older, equal, newer}
	// relative to the honest policy at t, for both directions, all correctly signed.
	// Freshness is a matter of (scid, direction bit, timestamp) only.
	tsNames := []struct {
		n  string
		ts uint32
	}{{"older", T - 1}, {"equal", T}, {"newer", T + 1}}
	n := uint32(0)
	for dir := 0; dir < 2; dir++ {
		for _, cf := range []lnwire.ChanUpdateChanFlags{0, lnwire.ChanUpdateDisabled, 0x80, lnwire.ChanUpdateDisabled | 0x40} {
			for _, mf := range []lnwire.ChanUpdateMsgFlags{lnwire.ChanUpdateRequiredMaxHtlc, lnwire.ChanUpdateRequiredMaxHtlc | 0x02} {
				for _, tn := range tsNames {
					n++
					sp := c20HonestCU(dir, tn.ts)
					sp.cflags = lnwire.ChanUpdateChanFlags(dir) | cf
					sp.mflags = mf
					sp.base = 9000 + n
					sem(&c.SemCU, sp.build(fmt.Sprintf("lCU%d.cf=%02x.mf=%02x.ts=%s", dir, uint8(cf), uint8(mf), tn.n)))
				}
			}
		}
	}
	// node_announcement: each content field changed (and signed), for both nodes,
	// at {older, equal, newer} timestamps
	for which := 1; which <= 2; which++ {
		for _, fld := range []string{"alias", "addr", "features", "color"} {
			for _, tn := range tsNames {
				sp := c20HonestNA(which, tn.ts)
				switch fld {
				case "alias":
					sp.alias = fmt.Sprintf("renamed-%d", which)
				case "addr":
					sp.addrs = []net.Addr{&net.TCPAddr{IP: net.IPv4(10, 9, 9, byte(which)), Port: 9736}}
				case "features":
					sp.features = lnwire.NewRawFeatureVector(lnwire.TLVOnionPayloadRequired, lnwire.FeatureBit(37))
				case "color":
					sp.rgb = color.RGBA{R: 0xaa, G: 0xbb, B: byte(which)}
				}
				sem(&c.SemNA, sp.build(fmt.Sprintf("lNA%d.%s.ts=%s", which, fld, tn.n)))
			}
		}
	}

	for id, m := range c.byID {
		if m.Decoded == nil {
			panic(fmt.Sprintf("c20: catalogue message %s does not decode: %s", id, m.DecErr))
		}
	}
	return c
}

// c20ByteVariants enumerates every single-byte XOR corruption of m's wire bytes.
var c20XorMasks = []byte{0x01, 0x80, 0xff}

func c20ByteVariant(base *c20Msg, pos int, mask byte) *c20Msg {
	w := append([]byte{}, base.Wire...)
	w[pos] ^= mask
	return c20FromWire(fmt.Sprintf("%s@%d^%02x", base.ID, pos, mask), w)
}
