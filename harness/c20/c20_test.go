// C20 — only authentic, fresh gossip changes the channel graph.
//
// What is explored (all on the real code: a started AuthenticatedGossiper driven
// through ProcessRemoteAnnouncement, a real graph.Builder, a real graphdb
// ChannelGraph on bbolt or sqlite, inside a testing/synctest bubble):
//
//	bytes     every single-byte corruption (XOR 0x01, 0x80, 0xff at every offset)
//	          of the wire encoding of a valid channel_announcement, channel_update
//	          and node_announcement, each delivered in the state in which the
//	          pristine message would be applied;
//	semantic  every single-field corruption of the catalogue (msgs_test.go: each
//	          signature by another signer / transplanted / in the wrong slot, each
//	          key replaced with and without re-signing, every way the scid can
//	          point at a wrong output, direction bit, message flags, htlc_maximum
//	          around the capacity, timestamps zero / equal / stale / far future,
//	          chain hash, feature bits, extra data ...), each in three graph states;
//	kinds     channel kinds: every feature vector of c20KindFeatures (empty, simple
//	          taproot optional / required / both / with another bit, unknown odd and
//	          even neighbours, final taproot bits) x every funding-output form of the
//	          universe (the 2-of-2 of both bitcoin keys as P2WSH and as P2TR MuSig2;
//	          one key twice, one key alone, 1-of-2, tweak left out, keys unsorted,
//	          bare multisig, a foreign key, spent, tiny amount), all four signatures
//	          valid, on both stores; thorough: each followed by a restart and the
//	          same announcement again, byte corruptions of the taproot announcement,
//	          and an ordering space mixing announcements of both kinds for the same
//	          outputs with updates and a restart (order/chan-kind);
//	order     all sequences up to the depth bound over an alphabet of valid messages
//	          and corrupted twins (duplicates, updates before their channel, stale
//	          and equal timestamps, a block event releasing held messages, bursts of
//	          2-3 messages handed over back to back and processed concurrently),
//	          explored breadth-first with canonical-state de-duplication (engine
//	          seqmc) on the bbolt and on the sqlite store; once with a fresh peer per
//	          message, once with one peer for everything (reject cache and ban score
//	          in play; no de-duplication there);
//	lifecycle the events that are not messages: "restart" (lnd stopped and started on
//	          the same database: reject cache, channel cache, graph cache, premature
//	          and future-message caches, recent rejects all empty), one-entry store
//	          caches (every lookup of another scid evicts), and the zombie life cycle
//	          with and without StrictZombiePruning: honest updates beyond the two-week
//	          horizon, a "prune" tick of the Builder, then updates of either direction
//	          signed by the right node / the other channel node / a stranger, fresh and
//	          stale, the announcement again (c20LifecycleSpaces).
//
// Oracle (reference model in model_test.go), evaluated after every message at
// quiescence:
//
//	safety        the routable graph (channels, per-direction policies, nodes) read
//	              back through the store's iteration API differs from the state
//	              before the message  =>  the model judges the message authentic,
//	              fresh and consistent, and the new graph is exactly the one the
//	              model predicts;
//	relay         every message handed to Config.Broadcast during the step is
//	              byte-identical to a message the model accepted in that step;
//	completeness  a message the model accepts is applied, unless one of lnd's
//	              documented spam defences explains the drop (scid marked after a
//	              failed funding check; "recently rejected" for the same peer and
//	              scid; banned peer) — this half is not in the property text ("only
//	              if") and exists to keep the check from passing vacuously;
//	views         pointed lookups (FetchChannelEdgesByID, HasV1ChannelEdge: reject
//	              and channel caches) and the in-memory graph cache that pathfinding
//	              reads agree with the iteration (not in the LazyViews spaces, where
//	              the observer must not warm the caches);
//	readable      after every message, accepted or rejected, the whole graph can be
//	              read back (an iteration error is a violation) and lnd can be
//	              restarted on its database;
//	zombie index  an entry made by a prune tick is removed only by a fresh update
//	              signed by the node owning the update's direction that is allowed to
//	              resurrect (strict pruning: the node whose policy was older/missing);
//	              an entry appears only through a prune tick or a failed funding
//	              check. The converse (an authorised update DOES resurrect, a stale
//	              channel IS pruned) is not demanded by C20 ("only if"): it is counted
//	              and printed as an INFO note, never as a violation.
//
// The zombie / closed-scid marking of an scid whose announcement failed the funding
// check is observed but never counted as a graph change.
package discovery

import (
	"bufio"
	"bytes"
	"encoding/json"
	"fmt"
	"os"
	"os/exec"
	"path/filepath"
	"reflect"
	"runtime"
	"runtime/pprof"
	"sort"
	"strconv"
	"strings"
	"sync"
	"sync/atomic"
	"testing"
	"time"

	"github.com/lightningnetwork/lnd/lnwire"
	"github.com/lightningnetwork/lnd/verifmc/evid"
	"github.com/lightningnetwork/lnd/verifmc/seqmc"
)

// ---------------------------------------------------------------------------
// one execution: a world plus the model that shadows it

// c20Case is the replay artefact: everything needed to re-run one execution.
type c20Case struct {
	Space string   `json:"space"`
	Cfg   c20Cfg   `json:"cfg"`
	Ops   []string `json:"ops"`
}

type c20Finding struct {
	Sig, What string
	Case      c20Case
}

type c20Stats struct {
	mu       sync.Mutex
	classes  map[string]int // outcome classes
	clauses  map[string]int // oracle clauses exercised non-vacuously
	samples  map[string]any
	steps    int64
	worlds   int64
	findings []c20Finding
	nondet   []string
	harness  []string // harness-level failures (never verdicts)
	// completeness observations that are NOT violations of C20 (an "only if"
	// property): an authorised resurrection that lnd refused, a stale channel a
	// prune tick left in place. Counted and printed as INFO, never as VIOLATION.
	notes     map[string]int
	noteCases map[string]c20Case
}

func newC20Stats() *c20Stats {
	return &c20Stats{classes: map[string]int{}, clauses: map[string]int{}, samples: map[string]any{},
		notes: map[string]int{}, noteCases: map[string]c20Case{}}
}

func (s *c20Stats) note(sig string, c c20Case) {
	s.mu.Lock()
	s.notes[sig]++
	if old, ok := s.noteCases[sig]; !ok || len(c.Ops) < len(old.Ops) ||
		(len(c.Ops) == len(old.Ops) && strings.Join(c.Ops, ",") < strings.Join(old.Ops, ",")) {
		s.noteCases[sig] = c
	}
	s.mu.Unlock()
}

func (s *c20Stats) class(k string, sample func() any) {
	s.mu.Lock()
	s.classes[k]++
	if _, ok := s.samples[k]; !ok && sample != nil && len(s.samples) < 400 {
		s.samples[k] = sample()
	}
	s.mu.Unlock()
}

func (s *c20Stats) clause(k string) {
	s.mu.Lock()
	s.clauses[k]++
	s.mu.Unlock()
}

// c20Exec is a live execution.
type c20Exec struct {
	t      *testing.T
	space  string
	cfg    c20Cfg
	stats  *c20Stats
	w      *c20World
	model  *c20Model
	ops    []string
	dead   string // non-empty: a violation was observed; the state is not expanded
	quiet  bool   // replaying a prefix: oracles run, but nothing is counted twice
	info   func(string, ...any)
	viols  []c20Finding
	track  string // in-flight marker file
	noHist bool
	// maxRestarts bounds the number of "restart" events of one history (exploration
	// budget; 0 = the event is never enabled). Replays of recorded cases have no bound.
	maxRestarts int
}

func c20NewExec(t *testing.T, space string, cfg c20Cfg, stats *c20Stats) (*c20Exec, error) {
	w, err := c20NewWorld(t, cfg)
	if err != nil {
		return nil, err
	}
	atomic.AddInt64(&stats.worlds, 1)
	return &c20Exec{t: t, space: space, cfg: cfg, stats: stats, w: w, model: c20NewModel(cfg), maxRestarts: 1 << 30}, nil
}

func (e *c20Exec) Close() {
	e.w.Close()
	if e.track != "" {
		_ = os.Remove(e.track)
	}
}

// c20Resolve turns an op name into a message: a catalogue id or "<id>@<pos>^<mask>".
func c20Resolve(op string) (*c20Msg, error) {
	if i := strings.LastIndex(op, "@"); i > 0 && strings.Contains(op[i:], "^") {
		base := c20Cat.byID[op[:i]]
		if base == nil {
			return nil, fmt.Errorf("unknown base message %q", op[:i])
		}
		var pos int
		var mask uint
		if _, err := fmt.Sscanf(op[i:], "@%d^%x", &pos, &mask); err != nil || pos < 0 || pos >= len(base.Wire) || mask == 0 || mask > 255 {
			return nil, fmt.Errorf("bad byte variant %q", op)
		}
		return c20ByteVariant(base, pos, byte(mask)), nil
	}
	m := c20Cat.byID[op]
	if m == nil {
		return nil, fmt.Errorf("unknown op %q", op)
	}
	return m, nil
}

// c20FreshDecode decodes the wire bytes again: every delivery hands lnd its own
// message object, as a peer connection does (lnd mutates messages, e.g.
// ChannelUpdate1.Encode rewrites ExtraOpaqueData); the catalogue's decoded copy is
// only ever read by the reference model.
func c20FreshDecode(m *c20Msg) lnwire.Message {
	dec, err := lnwire.ReadMessage(bytes.NewReader(m.Wire), 0)
	if err != nil {
		return m.Decoded
	}
	return dec
}

func c20Kind(m lnwire.Message) string {
	switch m.(type) {
	case *lnwire.ChannelAnnouncement1:
		return "ca"
	case *lnwire.ChannelUpdate1:
		return "cu"
	case *lnwire.NodeAnnouncement1:
		return "na"
	case nil:
		return "undecodable"
	}
	return "other:" + m.MsgType().String()
}

func c20VerdictClass(v string) string {
	if parts := strings.Split(v, " & "); len(parts) > 1 {
		set := map[string]bool{}
		for _, p := range parts {
			set[c20VerdictClass(p)] = true
		}
		var ks []string
		for k := range set {
			ks = append(ks, k)
		}
		sort.Strings(ks)
		return strings.Join(ks, "+")
	}
	switch {
	case v == "ok" || v == "pending":
		return v
	case strings.Contains(v, "recently rejected"):
		return "err:recently-rejected"
	case strings.Contains(v, "banned") || strings.Contains(v, "ban threshold"):
		return "err:banned"
	}
	return "err"
}

func (e *c20Exec) violate(clause, opClass, what string) {
	c := c20Case{Space: e.space, Cfg: e.cfg, Ops: append([]string{}, e.ops...)}
	sig := fmt.Sprintf("%s|%s|%s", clause, e.space, opClass)
	e.viols = append(e.viols, c20Finding{Sig: sig, What: what, Case: c})
	e.dead = clause
}

// c20OpClass abstracts an op for violation signatures: byte variants of one
// message collapse into one class per message.
func c20OpClass(op string) string {
	if i := strings.LastIndex(op, "@"); i > 0 {
		return op[:i] + "@byte"
	}
	if strings.HasPrefix(op, "xCU.extra=") && strings.HasSuffix(op, "B,signed") {
		return "xCU.extra=<N>B,signed"
	}
	return op
}

// Do performs one op and judges it.
func (e *c20Exec) Do(op string) error {
	if e.dead != "" {
		return nil
	}
	e.ops = append(e.ops, op)
	if e.track != "" {
		b, _ := json.Marshal(c20Case{Space: e.space, Cfg: e.cfg, Ops: e.ops})
		_ = os.WriteFile(e.track, b, 0o644)
	}
	step := len(e.ops) - 1
	pre := e.model.render()

	var (
		obs  *c20Obs
		v    *c20Verdict
		kind string
		err  error
	)
	switch {
	case op == "restart":
		kind = "restart"
		if e.model.restarts >= e.maxRestarts {
			// budget used up: the event is not enabled (and not recorded)
			e.ops = e.ops[:len(e.ops)-1]
			return nil
		}
		if obs, err = e.w.Restart(); err != nil {
			return err
		}
		v = e.model.stepRestart()
	case op == "prune":
		kind = "prune"
		if obs, err = e.w.Prune(); err != nil {
			return err
		}
		// the tick falls somewhere inside the hour that passes; every timestamp of
		// the alphabets is at least half a day away from the two-week horizon
		v = e.model.stepPrune(obs.Now + int64(c20PruneInterval/time.Second)/2)
	case op == "blk":
		kind = "blk"
		if e.model.tip >= c20HeightFut {
			// the universe has no further block: the event is not enabled
			if e.info != nil {
				e.info("step %d %s: no further block in the universe (no-op)", step, op)
			}
			return nil
		}
		if obs, err = e.w.Block(); err != nil {
			return err
		}
		v = e.model.stepBlock(obs.Now)
	case strings.Contains(op, "&"):
		// a burst: several messages handed to the gossiper back to back, processed
		// concurrently (validation barrier, per-channel mutex); the outcome must be
		// that of some serial order
		kind = "burst"
		var msgs []*c20Msg
		var dec []lnwire.Message
		for _, id := range strings.Split(op, "&") {
			m, rerr := c20Resolve(id)
			if rerr != nil {
				return rerr
			}
			if k := c20Kind(m.Decoded); k != "ca" && k != "cu" && k != "na" {
				return fmt.Errorf("burst member %s is not deliverable", id)
			}
			msgs = append(msgs, m)
			dec = append(dec, c20FreshDecode(m))
		}
		if obs, err = e.w.DeliverBurst(dec, 1000+8*step); err != nil {
			return err
		}
		v = e.model.stepBurst(msgs, obs.Now)
	default:
		msg, rerr := c20Resolve(op)
		if rerr != nil {
			return rerr
		}
		kind = c20Kind(msg.Decoded)
		if kind != "ca" && kind != "cu" && kind != "na" {
			// not something a peer connection hands to the gossiper
			if !e.quiet {
				e.stats.class(e.space+"|"+kind+"|not-delivered", nil)
			}
			if e.info != nil {
				e.info("step %d %s: %s (%s) — not delivered to the gossiper", step, op, kind, msg.DecErr)
			}
			return nil
		}
		if obs, err = e.w.Deliver(c20FreshDecode(msg), step); err != nil {
			return err
		}
		v = e.model.step(msg, obs.Now)
	}
	atomic.AddInt64(&e.stats.steps, 1)

	// The model returns the set of acceptable graphs after the step (one, unless
	// lnd processes several messages concurrently in this step).
	changed := !reflect.DeepEqual(obs.Graph, pre)
	var matches, graphMatches []int
	mayChange, mustChange := false, true
	for i, f := range v.Finals {
		if reflect.DeepEqual(obs.Graph, f) {
			graphMatches = append(graphMatches, i)
			if v.After[i].zombiesConsistent(obs.Zombies) == "" {
				matches = append(matches, i)
			}
		}
		if reflect.DeepEqual(f, pre) {
			mustChange = false
		} else {
			mayChange = true
		}
	}
	vclass := c20VerdictClass(obs.Verdict)
	outcome := "unchanged"
	opc := c20OpClass(op)
	diff := func() string { return c20Diff(pre, obs.Graph, v.Finals[0]) }

	unreadable := ""
	for _, l := range obs.Graph {
		if strings.HasPrefix(l, "ERR ") {
			unreadable = l
		}
	}
	switch {
	case kind == "restart" && strings.HasPrefix(obs.Verdict, "err"):
		e.violate("restart-failed", opc,
			fmt.Sprintf("lnd cannot be started again on its own graph database after %v: %s", e.ops[:len(e.ops)-1], c20Cut(obs.Verdict)))
		outcome = "VIOLATION"
	case unreadable != "":
		e.violate("graph-unreadable", opc,
			fmt.Sprintf("after %s (model: %s; gossiper verdict %q) the graph can no longer be read back from the store: %s", op, v.Why, c20Cut(obs.Verdict), unreadable))
		outcome = "VIOLATION"
	case changed && !mayChange:
		e.violate("graph-changed-by-rejectable-message", opc,
			fmt.Sprintf("%s (model: %s) changed the graph; gossiper verdict %q. %s", op, v.Why, c20Cut(obs.Verdict), diff()))
		outcome = "VIOLATION"
	case changed && len(graphMatches) == 0:
		e.violate("applied-differently", opc,
			fmt.Sprintf("%s (model: %s) changed the graph, but not into the predicted state; gossiper verdict %q. %s", op, v.Why, c20Cut(obs.Verdict), diff()))
		outcome = "VIOLATION"
	case changed:
		outcome = "applied"
		if kind == "prune" {
			outcome = "pruned"
		}
		e.stats.clause("safety:applied-exactly-as-predicted")
	case !mayChange:
		e.stats.clause("safety:rejectable-left-graph-unchanged")
	case len(graphMatches) > 0:
		// unchanged, and an acceptable outcome (a block without held messages; a
		// burst in which some serial order applies nothing)
		outcome = "unchanged(acceptable)"
	default:
		// unchanged although every acceptable outcome changes the graph
		_ = mustChange
		why := v.Suppressed
		if why == "" && vclass == "err:recently-rejected" && e.cfg.SamePeer {
			why = "recently rejected (same peer, same scid)"
		}
		if why == "" && vclass == "err:banned" && e.cfg.SamePeer {
			why = "peer banned"
		}
		if kind == "prune" {
			// completeness of pruning is not part of C20: noted, and the model
			// follows lnd (nothing was pruned)
			outcome = "not-pruned(note)"
			if !e.quiet {
				e.stats.note("note:stale-channel-not-pruned|"+e.space, c20Case{Space: e.space, Cfg: e.cfg, Ops: append([]string{}, e.ops...)})
			}
		} else if why == "" {
			e.violate("valid-message-not-applied", opc,
				fmt.Sprintf("%s is authentic, fresh and consistent (model: %s) but the graph did not change and no documented spam defence explains it; gossiper verdict %q. %s", op, v.Why, c20Cut(obs.Verdict), diff()))
			outcome = "VIOLATION"
		} else {
			outcome = "suppressed"
			e.stats.clause("completeness:drop-explained-by-documented-defence")
		}
	}

	// zombie-index clause: the graph is as predicted; is the zombie index?
	if outcome != "VIOLATION" && outcome != "suppressed" && len(graphMatches) > 0 {
		if len(matches) == 0 {
			clause, what := e.model.zombieVerdict(v, graphMatches, obs.Zombies)
			if clause == "authorised-resurrection-refused" {
				// C20 is an "only if" property: it does not demand that an authorised
				// update IS applied. Noted (INFO + coverage counter), never a violation;
				// the model follows lnd: the entry stayed, nothing was held.
				outcome = "resurrection-refused(note)"
				if !e.quiet {
					e.stats.note("note:authorised-resurrection-refused|"+e.space+"|"+opc, c20Case{Space: e.space, Cfg: e.cfg, Ops: append([]string{}, e.ops...)})
				}
				if e.info != nil {
					e.info("        note (not a violation): %s", what)
				}
			} else {
				e.violate(clause, opc, fmt.Sprintf("%s (model: %s; gossiper verdict %q): %s; zombie index now %v", op, v.Why, c20Cut(obs.Verdict), what, obs.ZombieKey))
				outcome = "VIOLATION"
			}
		} else {
			was, is := len(e.model.zombies), len(v.After[matches[0]].zombies)
			switch {
			case is < was:
				if outcome == "unchanged" || outcome == "unchanged(acceptable)" {
					outcome = "resurrected"
				}
				e.stats.clause("zombie:entry-removed-only-by-authorised-fresh-update")
			case was > 0 && kind == "cu":
				e.stats.clause("zombie:entry-kept")
			case is > was:
				e.stats.clause("zombie:entry-added-by-prune-tick")
			}
		}
	}

	// relay clause
	relayOK := map[string]bool{}
	if outcome == "applied" {
		for _, r := range v.Relayable {
			relayOK[string(r)] = true
		}
	}
	for _, b := range obs.Broadcast {
		if !relayOK[string(b)] && outcome != "VIOLATION" {
			dec := c20FromWire("", b)
			// how does the relayed message relate to what was accepted in this step?
			// (part of the signature, so that one class of defect does not hide another)
			rel, relWhat := "", ""
			if outcome == "applied" {
				rel, relWhat = c20RelayRelation(b, v.Relayable)
			}
			roc := opc
			if rel != "" {
				roc = opc + "|" + rel
			}
			e.violate("relayed-message-that-was-not-accepted", roc,
				fmt.Sprintf("after %s (model: %s, outcome %s) the gossiper broadcast a %s that the model did not accept in this step%s: %x", op, v.Why, outcome, c20Kind(dec.Decoded), relWhat, b))
			outcome = "VIOLATION"
		}
	}
	if len(obs.Broadcast) > 0 && outcome == "applied" {
		e.stats.clause("relay:only-accepted-messages-broadcast")
	}
	if len(obs.Broadcast) == 0 && outcome != "applied" {
		e.stats.clause("relay:nothing-broadcast-for-unapplied")
	}
	if obs.CacheDiff != "" && outcome != "VIOLATION" {
		e.violate("graph-views-disagree", opc,
			fmt.Sprintf("after %s the store's iteration, its pointed lookups and the pathfinding cache disagree: %s", op, obs.CacheDiff))
		outcome = "VIOLATION"
	}

	if e.info != nil {
		e.info("step %d %s: model=%s must-change=%v | gossiper verdict=%q graph-changed=%v outcome=%s broadcast=%d zombies=%v now=%d",
			step, op, v.Why, mayChange && mustChange, c20Cut(obs.Verdict), changed, outcome, len(obs.Broadcast), obs.ZombieKey, obs.Now)
		if changed {
			e.info("        graph now: %s", strings.Join(obs.Graph, " ; "))
		}
	}
	if !e.quiet {
		cls := fmt.Sprintf("%s|%s|%s|%s|%s|bcast=%d", e.space, kind, v.Why, outcome, vclass, len(obs.Broadcast))
		e.stats.class(cls, func() any {
			return map[string]any{"class": cls, "case": c20Case{Space: e.space, Cfg: e.cfg, Ops: append([]string{}, e.ops...)}, "gossiper_verdict": c20Cut(obs.Verdict)}
		})
	}

	// follow the implementation
	switch outcome {
	case "resurrection-refused(note)", "not-pruned(note)":
		// lnd left everything as it was; only the lookup provenance moves on
		if kind == "cu" {
			if m, rerr := c20Resolve(op); rerr == nil {
				if u, ok := m.Decoded.(*lnwire.ChannelUpdate1); ok {
					e.model = e.model.withTouch(u.ShortChannelID.ToUint64())
				}
			}
		}
	}
	switch outcome {
	case "applied", "pruned", "resurrected", "unchanged", "unchanged(acceptable)":
		if outcome == "unchanged" && e.cfg.SamePeer && vclass == "err:recently-rejected" {
			// a message the gossiper refused to look at is neither held nor does
			// it mark anything: the model stays where it was
			break
		}
		if len(matches) == 0 {
			break
		}
		e.model = v.After[matches[0]]
		for _, i := range matches[1:] {
			if v.After[i].key() != e.model.key() {
				// several serial orders explain the observed graph but leave
				// different bookkeeping behind (which update is still held ...):
				// the execution is not continued (never the case for single messages)
				e.dead = "ambiguous-bookkeeping"
				if !e.quiet {
					e.stats.class(e.space+"|"+kind+"|ambiguous-bookkeeping(not expanded)", nil)
				}
				break
			}
		}
	}
	return nil
}

// c20Cut shortens a gossiper verdict (lnd dumps whole messages into its errors).
func c20Cut(v string) string {
	if i := strings.Index(v, "(*lnwire."); i > 0 {
		v = v[:i] + "..."
	}
	if len(v) > 240 {
		v = v[:240] + "..."
	}
	return v
}

// c20RelayRelation relates a broadcast message that is not byte-identical to any
// accepted message to the accepted ones: is it an accepted channel_update whose
// fixed part is untouched but whose extra data lost some TLV records? (Own parser:
// BOLT 7 layout, BOLT 1 BigSize.)
func c20RelayRelation(b []byte, accepted [][]byte) (rel, what string) {
	const flagsOff = 2 + 64 + 32 + 8 + 4
	fixedLen := func(w []byte) int {
		if len(w) < flagsOff+1 || w[0] != 0x01 || w[1] != 0x02 {
			return -1
		}
		n := flagsOff + 1 + 1 + 2 + 8 + 4 + 4
		if w[flagsOff]&1 != 0 {
			n += 8
		}
		if len(w) < n {
			return -1
		}
		return n
	}
	fb := fixedLen(b)
	if fb < 0 {
		return "", ""
	}
	rb, ok := c20TLVRecords(b[fb:])
	if !ok {
		return "", ""
	}
	for _, r := range accepted {
		fr := fixedLen(r)
		if fr != fb || !bytes.Equal(r[:fr], b[:fb]) {
			continue
		}
		rr, ok := c20TLVRecords(r[fr:])
		if !ok || len(rb) >= len(rr) {
			continue
		}
		// rb must be a subsequence of rr
		var dropped []uint64
		i := 0
		for _, rec := range rr {
			if i < len(rb) && rb[i].typ == rec.typ && bytes.Equal(rb[i].raw, rec.raw) {
				i++
				continue
			}
			dropped = append(dropped, rec.typ)
		}
		if i != len(rb) {
			continue
		}
		known := false
		for _, t := range dropped {
			if t == 55555 { // inbound fee: the one record of the extra data lnd knows
				known = true
			}
		}
		if known {
			return "accepted-update-minus-extra-records(known-ones-too)", fmt.Sprintf(" (it is the accepted channel_update without its extra-data records of types %v)", dropped)
		}
		return "accepted-update-minus-unknown-extra-records", fmt.Sprintf(" (it is the accepted channel_update without its extra-data records of types %v, which lnd does not know; the signature no longer covers the relayed bytes)", dropped)
	}
	return "", ""
}

type c20TLVRec struct {
	typ uint64
	raw []byte
}

// c20TLVRecords splits a TLV stream into records (no canonicity checks).
func c20TLVRecords(s []byte) (recs []c20TLVRec, ok bool) {
	bigsize := func(p []byte) (uint64, int) {
		if len(p) == 0 {
			return 0, -1
		}
		switch {
		case p[0] < 0xfd:
			return uint64(p[0]), 1
		case p[0] == 0xfd && len(p) >= 3:
			return uint64(p[1])<<8 | uint64(p[2]), 3
		case p[0] == 0xfe && len(p) >= 5:
			return uint64(p[1])<<24 | uint64(p[2])<<16 | uint64(p[3])<<8 | uint64(p[4]), 5
		case p[0] == 0xff && len(p) >= 9:
			var v uint64
			for _, x := range p[1:9] {
				v = v<<8 | uint64(x)
			}
			return v, 9
		}
		return 0, -1
	}
	for len(s) > 0 {
		t, n := bigsize(s)
		if n < 0 {
			return nil, false
		}
		l, m := bigsize(s[n:])
		if m < 0 || uint64(len(s)-n-m) < l {
			return nil, false
		}
		end := n + m + int(l)
		recs = append(recs, c20TLVRec{typ: t, raw: s[:end]})
		s = s[end:]
	}
	return recs, true
}

func c20Diff(pre, got, want []string) string {
	set := func(l []string) map[string]bool {
		m := map[string]bool{}
		for _, x := range l {
			m[x] = true
		}
		return m
	}
	p, g := set(pre), set(got)
	var b strings.Builder
	for _, x := range got {
		if !p[x] {
			fmt.Fprintf(&b, " +[%s]", x)
		}
	}
	for _, x := range pre {
		if !g[x] {
			fmt.Fprintf(&b, " -[%s]", x)
		}
	}
	for _, x := range want {
		if !g[x] {
			fmt.Fprintf(&b, " expected[%s]", x)
		}
	}
	if b.Len() == 0 {
		return "graph delta: none"
	}
	return "graph delta:" + b.String()
}

// Key: see the "same key => same futures" argument at c20OrderSpace.
func (e *c20Exec) Key() string {
	if e.dead != "" {
		return "dead:" + strings.Join(e.ops, ",")
	}
	if e.noHist {
		return e.model.key()
	}
	return e.model.key() + "|" + strings.Join(e.ops, ",")
}

// ---------------------------------------------------------------------------
// running one case with the determinism gate

// c20RunCase executes ops on a fresh world and returns the findings plus a digest
// of everything observed.
func c20RunCase(t *testing.T, c c20Case, stats *c20Stats, quiet bool, info func(string, ...any)) (viols []c20Finding, err error) {
	e, err := c20NewExec(t, c.Space, c.Cfg, stats)
	if err != nil {
		return nil, err
	}
	defer e.Close()
	e.quiet, e.info = quiet, info
	e.track = c20Track()
	for _, op := range c.Ops {
		if err := e.Do(op); err != nil {
			return e.viols, err
		}
		if e.dead != "" {
			if info != nil && os.Getenv("VERIF_C20_CONTINUE") != "" {
				// replay aid: keep going after a violation to show what follows (the
				// model no longer shadows the implementation faithfully from here on)
				e.dead = ""
				continue
			}
			break
		}
	}
	return e.viols, nil
}

var c20TrackSeq atomic.Int64

func c20Track() string {
	d := os.Getenv("VERIF_C20_INFLIGHT")
	if d == "" {
		return ""
	}
	return filepath.Join(d, fmt.Sprintf("w%d.json", c20TrackSeq.Add(1)))
}

// c20Confirm is the determinism gate: a finding is reported only if three fresh
// re-executions of its op list produce it again.
func c20Confirm(t *testing.T, f c20Finding, stats *c20Stats) bool {
	for i := 0; i < 3; i++ {
		scratch := newC20Stats()
		viols, err := c20RunCase(t, f.Case, scratch, true, nil)
		ok := false
		if err == nil {
			for _, v := range viols {
				if v.Sig == f.Sig {
					ok = true
				}
			}
		}
		if !ok {
			stats.mu.Lock()
			stats.nondet = append(stats.nondet, fmt.Sprintf("%s did not reproduce on re-run %d of %v", f.Sig, i+1, f.Case.Ops))
			stats.mu.Unlock()
			return false
		}
	}
	return true
}

// ---------------------------------------------------------------------------
// spaces

type c20Tier struct {
	orderDepth, orderDepthSQL, samePeerDepth int
	orderAlphabet, samePeerAlphabet          []string
	wideAlphabet                             []string // optional second fresh-peers space: more letters, one level shallower
	wideDepth                                int
	flagsDepth                               int
	flagsSQL                                 bool
	byteBases                                []string // messages whose every byte is corrupted
	byteStride                               int      // 1 = every offset
	semSQL, bytesSQL                         bool
	deadline                                 time.Duration
	// life-cycle spaces (c20LifecycleSpaces); depth 0 = not run in this tier
	restartDepth, restartDepthSQL, restarts int
	tinyDepth, tinyDepthSQL                 int
	zombieDepth, zombieDepthSQL             int
	zombieLooseDepthSQL                     int // non-strict pruning on sqlite (differs from strict by one branch)
	// zombie x corruption family (semantic/zombie-*): always on bbolt with and without
	// strict pruning; zombieSemSQL adds sqlite, zombieSemThenCA the follow-up announcement
	zombieSemSQL, zombieSemThenCA bool
	zombieNodesDepth              int // order/zombie-nodes/kv
	// channel-kind family: the single-step cross product always runs (both stores);
	kindRestart             bool // each announcement, a restart, the announcement again
	kindDepth, kindDepthSQL int  // order/chan-kind spaces
}

var c20AlphabetCore = []string{
	"CA", "CU0a", "CU0b", "CU1a", "NA1",
	"xCA.sigB2=evil", "xCU.sig=other-node", "xCU.max=capacity+1,signed", "xCU.dir=1,signed-by-node1", "xNA.sig=evil",
}

func c20Tiers(thorough bool) c20Tier {
	var tr c20Tier
	if thorough {
		base := append(append([]string{}, c20AlphabetCore...), "xCA.btc2:=evil,resigned", "CA3", "blk",
			"CA&CU0a&NA1", "CU0b&CA", "CU0a&CU0b")
		tr = c20Tier{
			orderDepth: 6, orderDepthSQL: 5, samePeerDepth: 4,
			orderAlphabet: base,
			wideAlphabet: append(append([]string{}, base...),
				"NA1b", "CU1b", "CU3", "xCA.node1:=evil,resigned", "xCA.scid=tiny-amount", "xCU.tiny-channel,max>capacity",
				"xCA.sigB2=evil&CA", "CU1a&xCU1.sig=other-node&CA"),
			wideDepth:        5,
			flagsDepth:       6,
			flagsSQL:         true,
			samePeerAlphabet: append(append([]string{}, c20AlphabetCore...), "xCA.btc2:=evil,resigned"),
			byteBases:        []string{"CA", "CU0b", "CU1b", "NA1b", "NA2", c20KindID("181", "tr2of2")},
			byteStride:       1, semSQL: true, bytesSQL: true, deadline: 26 * time.Minute,
			restartDepth: 7, restartDepthSQL: 6, restarts: 2, tinyDepth: 6, tinyDepthSQL: 5,
			zombieDepth: 6, zombieDepthSQL: 5, zombieLooseDepthSQL: 5,
			zombieSemSQL: true, zombieSemThenCA: true, zombieNodesDepth: 6,
			kindRestart: true, kindDepth: 5, kindDepthSQL: 4,
		}
	} else {
		tr = c20Tier{
			orderDepth: 5, orderDepthSQL: 4, samePeerDepth: 3, flagsDepth: 5,
			orderAlphabet: append(append([]string{}, c20AlphabetCore...), "xCA.btc2:=evil,resigned", "CA3", "blk",
				"CA&CU0a&NA1", "CU0b&CA", "CU0a&CU0b"),
			samePeerAlphabet: c20AlphabetCore,
			byteBases:        []string{"CA", "CU0b", "NA1b"},
			byteStride:       1, semSQL: true, deadline: 180 * time.Second,
			restartDepth: 5, restartDepthSQL: 4, restarts: 1, tinyDepth: 4, tinyDepthSQL: 0,
			zombieDepth: 4, zombieDepthSQL: 3, zombieLooseDepthSQL: 3,
			zombieSemSQL: true, zombieNodesDepth: 4,
			kindDepth: 3,
		}
	}
	geti := func(k string, d *int) {
		if v, err := strconv.Atoi(os.Getenv(k)); err == nil && v > 0 {
			*d = v
		}
	}
	geti("VERIF_C20_DEPTH", &tr.orderDepth)
	geti("VERIF_C20_DEPTH_SQL", &tr.orderDepthSQL)
	geti("VERIF_C20_DEPTH_SAMEPEER", &tr.samePeerDepth)
	geti("VERIF_C20_DEPTH_FLAGS", &tr.flagsDepth)
	geti("VERIF_C20_DEPTH_RESTART", &tr.restartDepth)
	geti("VERIF_C20_DEPTH_ZOMBIE", &tr.zombieDepth)
	geti("VERIF_C20_DEPTH_KIND", &tr.kindDepth)
	geti("VERIF_C20_DEPTH_ZOMBIE_NODES", &tr.zombieNodesDepth)
	return tr
}

// c20LifecycleSpaces: restarts (every in-memory cache cold), one-entry store caches
// (evictions) and the zombie life cycle.
//
// restart spaces: the channel is known (prefix); honest, correctly signed updates of
// both directions at {older, equal, newer} timestamps (distinct content each), so
// that every order relation between the two stored timestamps and the incoming one
// occurs before and after a restart; a duplicate announcement and an update for
// another scid (another cache entry). Freshness must be judged against the stored
// policy whatever lnd has in memory.
//
// zombie spaces (with and without strict pruning): honest updates beyond the
// two-week horizon (node_1 older / node_2 older / one side missing / one side
// fresh), a prune tick, then updates of either direction signed by the right node,
// by the other channel node and by a stranger, fresh and beyond the horizon; the
// announcement again; a restart.
func c20LifecycleSpaces(tier c20Tier) []c20SpaceDef {
	restartAlphabet := []string{
		"lCU0.cf=00.mf=01.ts=older", "lCU0.cf=00.mf=01.ts=equal", "lCU0.cf=00.mf=01.ts=newer",
		"lCU1.cf=00.mf=01.ts=older", "lCU1.cf=00.mf=01.ts=equal", "lCU1.cf=00.mf=01.ts=newer",
		"restart", "CA", "xCU.scid=tiny,signed",
	}
	zombieAlphabet := []string{
		"oCU0.-16d", "oCU0.-15d", "oCU1.-15d12h", "CU0a", "CU1a", "prune",
		"CU0b", "CU1b", "xCU.sig=other-node", "xCU.dir=1,signed-by-node1", "xCU.sig=evil", "xCU1.sig=evil",
		"oCU0.-14d12h", "oCU1.-14d12h", "CA", "restart",
	}
	pre := []string{"CA"}
	var sp []c20SpaceDef
	add := func(name string, cfg c20Cfg, alphabet []string, depth, restarts int) {
		if depth > 0 {
			sp = append(sp, c20SpaceDef{name: name, cfg: cfg, alphabet: alphabet, depth: depth, dedup: true, prefix: pre, maxRestarts: restarts})
		}
	}
	add("order/restart/kv", c20Cfg{Backend: "kv", LazyViews: true}, restartAlphabet, tier.restartDepth, tier.restarts)
	add("order/restart-views/kv", c20Cfg{Backend: "kv"}, restartAlphabet, tier.restartDepth-1, 1)
	add("order/restart/sql", c20Cfg{Backend: "sql", LazyViews: true}, restartAlphabet, tier.restartDepthSQL, 1)
	add("order/tiny-cache/kv", c20Cfg{Backend: "kv", LazyViews: true, CacheSize: 1}, restartAlphabet, tier.tinyDepth, 1)
	add("order/tiny-cache/sql", c20Cfg{Backend: "sql", LazyViews: true, CacheSize: 1}, restartAlphabet, tier.tinyDepthSQL, 1)
	add("order/zombie-strict/kv", c20Cfg{Backend: "kv", Strict: true}, zombieAlphabet, tier.zombieDepth, 1)
	add("order/zombie/kv", c20Cfg{Backend: "kv"}, zombieAlphabet, tier.zombieDepth, 1)
	add("order/zombie-strict/sql", c20Cfg{Backend: "sql", Strict: true}, zombieAlphabet, tier.zombieDepthSQL, 1)
	add("order/zombie/sql", c20Cfg{Backend: "sql"}, zombieAlphabet, tier.zombieLooseDepthSQL, 1)
	// the nodes in the zombie life cycle: node announcements of both nodes before and
	// after the prune tick (a node left without a channel leaves the graph and its
	// announcement is refused until a channel is known again), a second channel of
	// the same two nodes (they survive the prune tick), the resurrecting update and
	// the announcement again, a restart.
	zombieNodesAlphabet := []string{
		"oCU0.-16d", "oCU1.-15d12h", "prune", "NA1", "NA2", "NA1b", "xCA.scid=tiny-amount",
		"CU0b", "CA", "restart",
	}
	add("order/zombie-nodes/kv", c20Cfg{Backend: "kv"}, zombieNodesAlphabet, tier.zombieNodesDepth, 1)
	// channel kinds: announcements of both kinds for the taproot and the legacy
	// output (the right kind, the other kind, a single-key output), the same channel
	// announced again with the other taproot bit, updates of both channels, a restart.
	// No prefix: the graph starts empty.
	kindAlphabet := []string{
		c20KindID("181", "tr2of2"), c20KindID("0", "tr2of2"), c20KindID("181", "wsh2of2"), "CA",
		c20KindID("181", "tr-k1k1"), "kCU0a.tr2of2", "kCU1a.tr2of2", "restart",
	}
	if tier.kindDepthSQL > 0 {
		// thorough: the same channel announced again with the other taproot bit, a
		// newer update, an update of the legacy channel
		kindAlphabet = append(kindAlphabet, c20KindID("180", "tr2of2"), "kCU0b.tr2of2", "CU0a")
	}
	if tier.kindDepth > 0 {
		sp = append(sp, c20SpaceDef{name: "order/chan-kind/kv", cfg: c20Cfg{Backend: "kv"}, alphabet: kindAlphabet, depth: tier.kindDepth, dedup: true, maxRestarts: 1})
	}
	if tier.kindDepthSQL > 0 {
		sp = append(sp, c20SpaceDef{name: "order/chan-kind/sql", cfg: c20Cfg{Backend: "sql"}, alphabet: kindAlphabet, depth: tier.kindDepthSQL, dedup: true, maxRestarts: 1})
	}
	return sp
}

// contexts in which corruptions are delivered
var c20Contexts = map[string][]string{
	"empty":   {},
	"channel": {"CA"},
	"full":    {"CA", "CU0a", "CU1a", "NA1", "NA2"},
	// node_1's policy older than node_2's, then a restart
	"restarted": {"CA", "CU0a", "CU1b", "NA1", "NA2", "restart"},
	// the channel is a zombie (both policies beyond the two-week horizon, one prune
	// tick; the two node announcements went with it): node_1's policy the older one /
	// node_2's the older one / node_1's never received. Without strict pruning the
	// zombie entry carries both node keys, with it only the key of the node whose
	// policy was older or missing.
	"zombie-1older":   {"CA", "NA1", "NA2", "oCU0.-16d", "oCU1.-15d12h", "prune"},
	"zombie-2older":   {"CA", "NA1", "NA2", "oCU0.-15d", "oCU1.-15d12h", "prune"},
	"zombie-1missing": {"CA", "NA1", "NA2", "oCU1.-15d12h", "prune"},
}

// c20ZombieContexts: the zombie contexts of the zombie x corruption family.
var c20ZombieContexts = []string{"zombie-1older", "zombie-2older", "zombie-1missing"}

func c20Workers() int {
	n := runtime.NumCPU()
	if n > 16 {
		n = 16
	}
	if v, err := strconv.Atoi(os.Getenv("VERIF_WORKERS")); err == nil && v > 0 {
		n = v
	}
	return n
}

// c20RunCases runs independent cases on a worker pool.
func c20RunCases(t *testing.T, cases []c20Case, stats *c20Stats, deadline time.Time) (done int, capped bool) {
	var (
		idx  int64 = -1
		wg   sync.WaitGroup
		nrun int64
		cap_ atomic.Bool
	)
	for wk := c20Workers(); wk > 0; wk-- {
		wg.Add(1)
		go func() {
			defer wg.Done()
			for {
				i := int(atomic.AddInt64(&idx, 1))
				if i >= len(cases) {
					return
				}
				if time.Now().After(deadline) {
					cap_.Store(true)
					return
				}
				c := cases[i]
				func() {
					defer func() {
						if r := recover(); r != nil {
							stats.panicked(c.Space, c.Cfg, c.Ops, r)
						}
					}()
					viols, err := c20RunCase(t, c, stats, false, nil)
					if err != nil {
						panic(err)
					}
					if len(viols) > 0 {
						stats.mu.Lock()
						stats.findings = append(stats.findings, viols...)
						stats.mu.Unlock()
					}
				}()
				atomic.AddInt64(&nrun, 1)
			}
		}()
	}
	wg.Wait()
	return int(nrun), cap_.Load()
}

// c20Sys adapts an execution to the seqmc engine.
type c20Sys struct{ *c20Exec }

func (s c20Sys) Replay(hist []string) error {
	s.quiet = true
	defer func() { s.c20Exec.quiet = false }()
	for _, op := range hist {
		if err := s.Do(op); err != nil {
			return err
		}
	}
	return nil
}

// c20SpaceDef is one ordering space.
type c20SpaceDef struct {
	name        string
	cfg         c20Cfg
	alphabet    []string
	depth       int
	dedup       bool
	prefix      []string // executed on every fresh world before the explored history
	maxRestarts int      // "restart" events per history
}

// c20OrderSpace explores all op sequences up to depth.
//
// Canonical key and the "same key => same futures" argument (dedup == true, one
// fresh peer per step): the key is a hash of the model state — the routable graph
// (which the oracle has just found identical to the implementation's), the tip, the
// multiset of held updates per scid, the held future-block messages and the set of
// scids marked after a failed funding check. What lnd keeps beyond that:
//   - reject cache and ban scores are keyed by the sending peer; every step is
//     delivered by a peer that has never sent anything before, so no entry is ever
//     consulted again (the same-peer space covers them, with the full history as key);
//   - the per-channel update rate limiter allows a burst of 10 non-keep-alive
//     updates per direction; a sequence of <= 6 messages cannot exhaust it, and no
//     two accepted updates of the alphabet are keep-alive twins (they differ in fee);
//   - the store's reject/channel caches and the graph cache are functions of the
//     stored graph; the "views" clause compares them with it after every step;
//   - the virtual clock: all timestamps of the ordering alphabet are more than a day
//     away from the two time-dependent thresholds (two weeks ahead / two weeks old),
//     a sequence lasts < 3 virtual minutes;
//   - the order inside the held-update list is not part of the key because the
//     replay is concurrent in lnd; the model accepts every order's outcome;
//   - the zombie entries made by prune ticks (with the resurrection rights) are part
//     of the key; lnd's stored keys are a function of them (and compared through
//     behaviour: who can resurrect);
//   - restarts: the number of restarts and the set of scids the gossip path has looked
//     up since the last one are part of the key (provenance of the store's caches:
//     "reloaded from disk after restart n" vs "built incrementally"), so the state
//     right after a restart, the state after the first (cold) lookup and the states
//     before the restart are three different states even if graph and bookkeeping are
//     equal; with a one-entry cache the last scid looked up is part of the key too;
//   - "prune" advances the clock by one hour, so two histories reaching one key may
//     differ by a few hours of virtual time: every timestamp of the life-cycle
//     alphabets is at least half a day away from the two-week horizon on either side.
//
// Each space is explored twice and the state/transition counts compared
// (determinism re-check); seqmc additionally verifies on every replay that the
// recorded key is reached again.
func c20OrderSpace(t *testing.T, sp c20SpaceDef, depth int, stats *c20Stats, deadline time.Time) seqmc.Result {
	name, cfg := sp.name, sp.cfg
	opts := seqmc.Options{
		New: func(int) (seqmc.Sys, error) {
			e, err := c20NewExec(t, name, cfg, stats)
			if err != nil {
				return nil, err
			}
			e.noHist = sp.dedup
			e.maxRestarts = sp.maxRestarts
			e.track = c20Track()
			// the space starts from the state its prefix leads to (the prefix is
			// judged like any other history; it is part of every recorded case)
			e.quiet = true
			for _, op := range sp.prefix {
				if err := e.Do(op); err != nil {
					e.Close()
					return nil, err
				}
			}
			e.quiet = false
			return c20Sys{e}, nil
		},
		Alphabet: sp.alphabet, MaxDepth: depth, Workers: c20Workers(), Deadline: deadline,
		Expandable: func(key string) bool { return !strings.HasPrefix(key, "dead:") },
		OnState: func(s seqmc.Sys, _ []string) {
			e := s.(c20Sys).c20Exec
			if len(e.viols) > 0 {
				stats.mu.Lock()
				stats.findings = append(stats.findings, e.viols...)
				stats.mu.Unlock()
			}
		},
	}
	return seqmc.Run(opts, func(hist []string, v any) { stats.panicked(name, cfg, hist, v) })
}

// panicked files a recovered panic: a panic raised by lnd while it processed a
// message is a finding; a harness-level failure (bubble died, watchdog) is not.
func (s *c20Stats) panicked(space string, cfg c20Cfg, hist []string, v any) {
	s.mu.Lock()
	defer s.mu.Unlock()
	msg := fmt.Sprint(v)
	if strings.Contains(msg, errC20Harness.Error()) || !strings.Contains(msg, "lnd panicked") {
		if len(msg) > 600 {
			msg = msg[:600]
		}
		s.harness = append(s.harness, fmt.Sprintf("%s %v: %s", space, hist, msg))
		return
	}
	op := "?"
	if len(hist) > 0 {
		op = hist[len(hist)-1]
	}
	if len(msg) > 3000 {
		msg = msg[:3000]
	}
	s.findings = append(s.findings, c20Finding{
		Sig:  "panic|" + space + "|" + c20OpClass(op),
		What: fmt.Sprintf("panic while executing %v: %s", hist, msg),
		Case: c20Case{Space: space, Cfg: cfg, Ops: append([]string{}, hist...)}})
}

// ---------------------------------------------------------------------------
// the test

func TestC20(t *testing.T) {
	switch os.Getenv("VERIF_C20_ROLE") {
	case "worker":
		c20Worker(t)
	case "probe":
		c20CrashProbe(t)
	default:
		c20Parent(t)
	}
}

func c20Info(f string, a ...any) { fmt.Printf("INFO "+f+"\n", a...) }

func c20Worker(t *testing.T) {
	if hp := os.Getenv("VERIF_C20_HEAPPROF"); hp != "" {
		go func() {
			for i := 0; ; i++ {
				time.Sleep(40 * time.Second)
				f, err := os.Create(fmt.Sprintf("%s.%d", hp, i))
				if err == nil {
					runtime.GC()
					_ = pprof.WriteHeapProfile(f)
					f.Close()
				}
			}
		}()
	}
	if cp := os.Getenv("VERIF_C20_CPUPROF"); cp != "" {
		if f, err := os.Create(cp); err == nil {
			_ = pprof.StartCPUProfile(f) // development aid; stopped before the worker exits
		}
	}
	run := evid.Start("C20", "model_checking")
	if rp := os.Getenv("VERIF_REPLAY"); rp != "" {
		os.Exit(c20Replay(t, run, rp))
	}
	tier := c20Tiers(run.Thorough())
	if v, err := strconv.Atoi(os.Getenv("VERIF_C20_DEADLINE_S")); err == nil && v > 0 {
		tier.deadline = time.Duration(v) * time.Second
	}
	deadline := time.Now().Add(tier.deadline)
	stats := newC20Stats()
	var caps []string
	exhaustive := true
	cov := map[string]any{}
	c20Info("C20 tier=%s workers=%d deadline=%s", run.Tier(), c20Workers(), tier.deadline)

	// ---- corruption enumeration -------------------------------------------
	var semCases, byteCases []c20Case
	backends := []string{"kv"}
	if tier.semSQL {
		backends = append(backends, "sql")
	}
	ctxNames := []string{"empty", "channel", "full"}
	for _, be := range backends {
		for _, cn := range ctxNames {
			for _, fam := range [][]string{c20Cat.SemCA, c20Cat.SemCU, c20Cat.SemNA} {
				for _, id := range fam {
					semCases = append(semCases, c20Case{Space: "semantic/" + cn + "/" + be, Cfg: c20Cfg{Backend: be},
						Ops: append(append([]string{}, c20Contexts[cn]...), id)})
				}
			}
		}
	}
	// ... and each corruption delivered *before* the honest messages: a corrupted
	// update is held and replayed when the channel arrives, a corrupted
	// announcement must not poison the honest one that follows
	for _, be := range backends {
		for _, fam := range [][]string{c20Cat.SemCA, c20Cat.SemCU, c20Cat.SemNA} {
			for _, id := range fam {
				semCases = append(semCases, c20Case{Space: "semantic/before-channel/" + be, Cfg: c20Cfg{Backend: be},
					Ops: []string{id, "CA", "CU0a", "NA1"}})
			}
		}
	}
	// ... and each corruption delivered to an lnd that was restarted on the populated
	// database (every in-memory cache cold; no pointed lookups by the observer
	// before the message)
	for _, be := range backends {
		if be == "sql" && !tier.bytesSQL {
			continue // thorough only
		}
		for _, fam := range [][]string{c20Cat.SemCA, c20Cat.SemCU, c20Cat.SemNA} {
			for _, id := range fam {
				semCases = append(semCases, c20Case{Space: "semantic/restarted/" + be, Cfg: c20Cfg{Backend: be, LazyViews: true},
					Ops: append(append([]string{}, c20Contexts["restarted"]...), id)})
			}
		}
	}
	// ---- zombie x corruption: every semantic corruption of an update (both
	// directions; signer, direction bit, timestamps, fields, scid, chain, extra data)
	// delivered to a channel that sits in the zombie index, for every way the entry
	// can have been made (both keys / node_1's key / node_2's key stored: pruning mode
	// x which policy was older or missing), on both stores; announcement and
	// node-announcement corruptions once per pruning mode. Crossing rule: every
	// (store, pruning mode, zombie context) cell gets the whole update family
	// (quick: every (store, distinct stored-key outcome) cell: loose/both keys,
	// strict/node_1 older, strict/node_2 older, strict/node_1's policy missing).
	nZombieSem := 0
	{
		zBackends := []string{"kv"}
		if tier.zombieSemSQL {
			zBackends = append(zBackends, "sql")
		}
		for _, be := range zBackends {
			for _, strict := range []bool{false, true} {
				mode := "loose"
				if strict {
					mode = "strict"
				}
				for ci, cn := range c20ZombieContexts {
					if !strict && ci > 0 && !tier.zombieSemThenCA {
						// quick: without strict pruning every context stores the same
						// entry (both keys); one context stands for the cell
						continue
					}
					fams := [][]string{c20Cat.SemCU}
					if ci == 0 && be == "kv" {
						fams = append(fams, c20Cat.SemCA, c20Cat.SemNA)
					}
					for _, fam := range fams {
						for _, id := range fam {
							space := "semantic/" + cn + "," + mode + "/" + be
							semCases = append(semCases, c20Case{Space: space, Cfg: c20Cfg{Backend: be, Strict: strict},
								Ops: append(append([]string{}, c20Contexts[cn]...), id)})
							nZombieSem++
							if tier.zombieSemThenCA && c20Kind(c20Cat.get(id).Decoded) == "cu" {
								// ... and the honest announcement after it: ignored while the
								// entry stands, accepted (with the held update) once it is gone
								semCases = append(semCases, c20Case{Space: space + "+CA", Cfg: c20Cfg{Backend: be, Strict: strict},
									Ops: append(append([]string{}, c20Contexts[cn]...), id, "CA")})
								nZombieSem++
							}
						}
					}
				}
			}
		}
	}
	cov["zombie_corruption_cases"] = nZombieSem
	// ---- channel kinds: feature vector x funding-output form ------------------
	// (part of the corruption enumeration, which runs first: a deadline never cuts it)
	nKind := 0
	for _, be := range backends {
		for _, id := range c20Cat.KindCA {
			semCases = append(semCases, c20Case{Space: "kind/empty/" + be, Cfg: c20Cfg{Backend: be}, Ops: []string{id}})
			nKind++
			if tier.kindRestart {
				// accepted stays known, refused stays refused across a restart
				semCases = append(semCases, c20Case{Space: "kind/restart/" + be, Cfg: c20Cfg{Backend: be, LazyViews: true}, Ops: []string{id, "restart", id}})
				nKind++
			}
		}
	}
	byteBackends := []string{"kv"}
	if tier.bytesSQL {
		byteBackends = append(byteBackends, "sql")
	}
	for _, be := range byteBackends {
		for _, id := range tier.byteBases {
			base := c20Cat.get(id)
			kind := c20Kind(base.Decoded)
			cn := "full"
			if kind == "ca" {
				cn = "empty"
			}
			for pos := 0; pos < len(base.Wire); pos += tier.byteStride {
				for _, mask := range c20XorMasks {
					op := fmt.Sprintf("%s@%d^%02x", id, pos, mask)
					byteCases = append(byteCases, c20Case{Space: "bytes/" + cn + "/" + be, Cfg: c20Cfg{Backend: be},
						Ops: append(append([]string{}, c20Contexts[cn]...), op)})
					if kind == "cu" && be == "kv" {
						// the corrupted update arrives before its channel
						byteCases = append(byteCases, c20Case{Space: "bytes/held/" + be, Cfg: c20Cfg{Backend: be},
							Ops: []string{op, "CA"}})
					}
				}
			}
		}
	}
	// development aid: VERIF_C20_SPACES=<substring> runs only the matching spaces
	// (the run is then reported as not exhaustive)
	only := os.Getenv("VERIF_C20_SPACES")
	if only != "" {
		exhaustive = false
		caps = append(caps, "VERIF_C20_SPACES="+only+": only the matching spaces were run")
		filter := func(in []c20Case) (out []c20Case) {
			for _, c := range in {
				if strings.Contains(c.Space, only) {
					out = append(out, c)
				}
			}
			return out
		}
		semCases, byteCases = filter(semCases), filter(byteCases)
	}
	t0 := time.Now()
	nSem, capped := c20RunCases(t, semCases, stats, deadline)
	if capped {
		exhaustive = false
		caps = append(caps, fmt.Sprintf("deadline %s reached during the semantic corruption enumeration (%d of %d cases)", tier.deadline, nSem, len(semCases)))
	}
	c20Info("semantic corruptions: %d cases (%d variants; of these channel kinds: %d cases = %d feature vectors x %d funding outputs per store) in %.1fs", nSem,
		len(c20Cat.SemCA)+len(c20Cat.SemCU)+len(c20Cat.SemNA)+len(c20Cat.KindCA), nKind, len(c20KindFeatures), len(c20KindOutNames()), time.Since(t0).Seconds())
	t0 = time.Now()
	nByte, capped := c20RunCases(t, byteCases, stats, deadline)
	if capped {
		exhaustive = false
		caps = append(caps, fmt.Sprintf("deadline %s reached during the byte corruption enumeration (%d of %d cases)", tier.deadline, nByte, len(byteCases)))
	}
	c20Info("byte corruptions: %d cases in %.1fs", nByte, time.Since(t0).Seconds())

	// ---- orderings ---------------------------------------------------------
	type spaceDef = c20SpaceDef
	// cheapest first, so that a deadline (if any) cuts the largest space
	spaces := []spaceDef{
		{name: "order/same-peer/kv", cfg: c20Cfg{Backend: "kv", SamePeer: true}, alphabet: tier.samePeerAlphabet, depth: tier.samePeerDepth},
		{name: "order/fresh-peers/sql", cfg: c20Cfg{Backend: "sql"}, alphabet: tier.orderAlphabet, depth: tier.orderDepthSQL, dedup: true},
	}
	// the flag / content lattice as an ordering alphabet: updates of both directions
	// with and without the disable bit (and a reserved bit) at t and t+1, node
	// announcements with different content at t and t+1
	flagsAlphabet := []string{"CA",
		"lCU0.cf=00.mf=01.ts=equal", "lCU0.cf=00.mf=01.ts=newer", "lCU0.cf=02.mf=01.ts=equal", "lCU0.cf=02.mf=01.ts=newer",
		"lCU1.cf=00.mf=01.ts=equal", "lCU1.cf=00.mf=01.ts=newer", "lCU1.cf=02.mf=01.ts=equal", "lCU1.cf=02.mf=01.ts=newer",
		"lCU0.cf=80.mf=03.ts=older", "lCU1.cf=42.mf=03.ts=older",
		"NA1", "lNA1.alias.ts=equal", "lNA1.alias.ts=newer", "lNA1.addr.ts=older"}
	spaces = append(spaces, spaceDef{name: "order/flags/kv", cfg: c20Cfg{Backend: "kv"}, alphabet: flagsAlphabet, depth: tier.flagsDepth, dedup: true})
	if tier.flagsSQL {
		spaces = append(spaces, spaceDef{name: "order/flags/sql", cfg: c20Cfg{Backend: "sql"}, alphabet: flagsAlphabet, depth: tier.flagsDepth - 1, dedup: true})
	}
	spaces = append(spaces, c20LifecycleSpaces(tier)...)
	if len(tier.wideAlphabet) > 0 {
		spaces = append(spaces, spaceDef{name: "order/fresh-peers-wide/kv", cfg: c20Cfg{Backend: "kv"}, alphabet: tier.wideAlphabet, depth: tier.wideDepth, dedup: true})
	}
	spaces = append(spaces, spaceDef{name: "order/fresh-peers/kv", cfg: c20Cfg{Backend: "kv"}, alphabet: tier.orderAlphabet, depth: tier.orderDepth, dedup: true})
	var states, transitions, replays int64
	spaceCov := map[string]any{}
	if only != "" {
		var keep []spaceDef
		for _, sp := range spaces {
			if strings.Contains(sp.name, only) {
				keep = append(keep, sp)
			}
		}
		spaces = keep
	}
	// The spaces are independent of each other and individually latency-bound (a
	// level-synchronous search over a few hundred states keeps few workers busy), so
	// several are explored at the same time; every space is deterministic on its own
	// (sorted frontier, canonical keys), the results are accounted in list order.
	type spaceRun struct {
		res  seqmc.Result
		wall float64
	}
	runs := make([]spaceRun, len(spaces))
	{
		par := 4
		if v, err := strconv.Atoi(os.Getenv("VERIF_C20_PAR")); err == nil && v > 0 {
			par = v
		}
		sem := make(chan struct{}, par)
		var wg sync.WaitGroup
		// the largest spaces first
		order := make([]int, len(spaces))
		for i := range order {
			order[i] = len(spaces) - 1 - i
		}
		for _, i := range order {
			wg.Add(1)
			sem <- struct{}{}
			go func(i int) {
				defer wg.Done()
				defer func() { <-sem }()
				t1 := time.Now()
				runs[i].res = c20OrderSpace(t, spaces[i], spaces[i].depth, stats, deadline)
				runs[i].wall = time.Since(t1).Seconds()
			}(i)
		}
		wg.Wait()
	}
	for i, sp := range spaces {
		res := runs[i].res
		states += res.States
		transitions += res.Transitions
		replays += res.Replays
		entry := map[string]any{
			"alphabet": sp.alphabet, "prefix": sp.prefix, "max_restarts": sp.maxRestarts, "cfg": sp.cfg, "depth": sp.depth, "states": res.States, "transitions": res.Transitions,
			"self_loops": res.SelfLoops, "fresh_worlds": res.Replays, "per_depth": res.PerDepth,
			"exhaustive": res.Exhaustive, "dedup": sp.dedup, "wall_s": runs[i].wall,
		}
		if !res.Exhaustive {
			exhaustive = false
			caps = append(caps, fmt.Sprintf("%s: %s", sp.name, res.CapHit))
			entry["cap"] = res.CapHit
		}
		if res.ReplayMismatches > 0 {
			entry["replay_mismatches"] = res.ReplayMismatches
			caps = append(caps, "nondeterminism_detected in "+sp.name)
		}
		// determinism re-check on the first (de-duplicated) space, one level shallower
		if i == len(spaces)-1 && res.Exhaustive && sp.depth >= 2 && only == "" {
			scratch := newC20Stats()
			a := c20OrderSpace(t, sp, sp.depth-1, scratch, deadline)
			var want int64
			for d := 0; d < len(res.PerDepth) && d <= sp.depth-1; d++ {
				want += res.PerDepth[d]
			}
			ok := a.Exhaustive && a.States == want
			entry["determinism_recheck"] = map[string]any{"depth": sp.depth - 1, "states": a.States, "expected": want, "completed": a.Exhaustive, "ok": ok || !a.Exhaustive}
			if a.Exhaustive && a.States != want {
				exhaustive = false
				caps = append(caps, "nondeterminism_detected: re-exploration of "+sp.name+" found a different number of states")
			}
			atomic.AddInt64(&stats.worlds, atomic.LoadInt64(&scratch.worlds))
		}
		spaceCov[sp.name] = entry
		c20Info("%s: depth %d, %d states, %d transitions, %d worlds, exhaustive=%v, %.1fs", sp.name, sp.depth, res.States, res.Transitions, res.Replays, res.Exhaustive, runs[i].wall)
	}

	// ---- findings: determinism gate, then report --------------------------------
	sort.Slice(stats.findings, func(i, j int) bool {
		a, b := stats.findings[i], stats.findings[j]
		if a.Sig != b.Sig {
			return a.Sig < b.Sig
		}
		if len(a.Case.Ops) != len(b.Case.Ops) {
			return len(a.Case.Ops) < len(b.Case.Ops)
		}
		return strings.Join(a.Case.Ops, ",") < strings.Join(b.Case.Ops, ",")
	})
	// One signature per (clause, space, op class). A single defect shows up under many
	// signatures (every context, every length ...): at most 3 signatures per clause are
	// confirmed and reported (shortest histories first), at most 18 altogether; the
	// number of further signatures is stated.
	seen := map[string]bool{}
	perClause := map[string]int{}
	more := map[string]int{}
	confirmed := 0
	sort.SliceStable(stats.findings, func(i, j int) bool {
		return len(stats.findings[i].Case.Ops) < len(stats.findings[j].Case.Ops)
	})
	for _, f := range stats.findings {
		if seen[f.Sig] {
			continue
		}
		seen[f.Sig] = true
		// clause, plus the fourth signature component where there is one (the
		// relation of a relayed message to the accepted ones): a family of its own
		clause := f.Sig
		if parts := strings.Split(f.Sig, "|"); len(parts) > 1 {
			clause = parts[0]
			if len(parts) > 3 {
				clause += "|" + parts[3]
			}
		}
		if perClause[clause] >= 3 || confirmed >= 18 {
			more[clause]++
			continue
		}
		if strings.HasPrefix(f.Sig, "panic|") || c20Confirm(t, f, stats) {
			run.Violation(f.Sig, f.What, f.Case)
			perClause[clause]++
			confirmed++
		}
	}
	{
		var ks []string
		for k := range more {
			ks = append(ks, k)
		}
		sort.Strings(ks)
		for _, k := range ks {
			c20Info("%s: %d further signatures of this clause were observed and not reported separately", k, more[k])
		}
	}
	if len(stats.harness) > 0 {
		c20Info("harness errors: %d executions abandoned, first: %s", len(stats.harness), stats.harness[0])
		exhaustive = false
		caps = append(caps, fmt.Sprintf("harness_errors: %d executions were abandoned (see harness_errors)", len(stats.harness)))
		h := stats.harness
		if len(h) > 10 {
			h = h[:10]
		}
		cov["harness_errors"] = h
	}
	if len(stats.notes) > 0 {
		var ks []string
		for k := range stats.notes {
			ks = append(ks, k)
		}
		sort.Strings(ks)
		notes := map[string]any{}
		for _, k := range ks {
			c20Info("%s: %d executions (completeness only, not demanded by C20, no violation), e.g. %v", k, stats.notes[k], stats.noteCases[k].Ops)
			notes[k] = map[string]any{"executions": stats.notes[k], "shortest_case": stats.noteCases[k]}
		}
		cov["completeness_notes"] = notes
	}
	if len(stats.nondet) > 0 {
		c20Info("alarms that did not reproduce on re-execution: %d, first: %s", len(stats.nondet), stats.nondet[0])
		exhaustive = false
		caps = append(caps, "nondeterminism_detected: an alarm did not reproduce on re-execution (see unreproduced_alarms)")
		cov["unreproduced_alarms"] = stats.nondet
	}

	nontrivial := 0
	var classKeys []string
	for k := range stats.classes {
		classKeys = append(classKeys, k)
		// non-trivial: the message reached the gossiper and a clause had teeth:
		// it was applied, or it was a decodable gossip message that was refused
		if strings.Contains(k, "|applied|") || strings.Contains(k, "|suppressed|") || strings.Contains(k, "|pruned|") || strings.Contains(k, "|resurrected|") ||
			(strings.Contains(k, "|unchanged|") && !strings.Contains(k, "not-delivered")) {
			nontrivial++
		}
	}
	sort.Strings(classKeys)
	var samples []any
	for _, k := range classKeys {
		if s, ok := stats.samples[k]; ok && len(samples) < 24 {
			samples = append(samples, s)
		}
	}
	run.Assumptions = append(run.Assumptions,
		"gossip v1 messages only (channel_announcement, channel_update, node_announcement); announcement_signatures, gossip queries and gossip v2 are outside the alphabet",
		"fixed key material (two node keys, two bitcoin keys, one attacker node key, one attacker bitcoin key); one honest channel plus a tiny-capacity and a future-block channel on a 4-block universe",
		"channel kinds: the feature bits 180/181 announce a simple taproot channel whose 2-of-2 form is P2TR of the BIP 86-tweaked MuSig2 (BIP 327, keys sorted) aggregate of the two bitcoin keys (computed with btcd's musig2 package, not lnd's helpers); every other vector announces a BOLT 3 P2WSH 2-of-2; the right keys in the other kind's form, untweaked, unsorted or as bare multisig do not count; for the final taproot bits 80/81 (not defined for gossip v1) either 2-of-2 form of both keys is accepted and a refusal is too; tapscript roots (custom channels) are outside the alphabet; feature vectors are minimally encoded",
		"messages are delivered by ProcessRemoteAnnouncement one at a time, each run to quiescence in virtual time (synctest) before the next; concurrent delivery of several messages is not enumerated (lnd serialises per channel id)",
		"AssumeChannelValid=false, no alias scids, graph marked synced (broadcast enabled); the store's lazy timer-driven batch scheduler runs with interval 0 (as the repo's test stores): with a positive interval a synctest bubble freezes when one replayed update waits for the gossiper's per-channel sync.Mutex while its holder waits for the virtual batch timer",
		"bursts (ops joined by '&') hand several messages over back to back; lnd processes them concurrently under the Go scheduler; handler interleavings inside a burst are not enumerated, the outcome must equal that of some serial order",
		"completeness clause (valid => applied unless a documented spam defence explains the drop) is stronger than the property text and is reported under its own signature",
		"zombie / closed-scid marking after a failed funding check is observed but not counted as a graph change",
		"zombie index: judged for the entries made by prune ticks of the Builder (GraphPruneInterval 1 h and ChannelPruneExpiry 14 d as in production; a 'prune' event is exactly one tick of the virtual clock); resurrection rights under StrictZombiePruning follow the rule 'the node whose policy was older or missing'; a tie of the two timestamps and updates with inconsistent fields are left undecided (either outcome accepted); a channel that is stale only because a policy was never received MAY be pruned",
		"completeness observations (an authorised fresh update does resurrect; a stale channel is pruned) are not demanded by C20 and are reported as INFO notes / coverage counters (completeness_notes), never as violations",
		"restart = Stop of gossiper, Builder, ChannelGraph, close of the database handle, then a new store/graph/Builder/gossiper on the same files inside the same synctest bubble; the chain backend (and its tip) survives; at most 1 (thorough 2) restarts per explored history",
		"cache sizes: 256 entries (reject and channel cache) except in the tiny-cache spaces (1 entry, the only size with deterministic eviction); LazyViews spaces observe by iteration only so that the first lookup after a restart/eviction is the gossip path's",
		"channel_update extra data is appended to hand-assembled wire bytes (lnwire's ChannelUpdate1.Encode re-packs extra data from the records it knows); every delivery hands lnd a freshly decoded message object",
	)
	cov["states"] = states
	cov["transitions"] = transitions
	cov["traces_validated_against_impl"] = atomic.LoadInt64(&stats.worlds)
	cov["evaluations"] = atomic.LoadInt64(&stats.steps)
	cov["semantic_corruption_cases"] = nSem
	cov["byte_corruption_cases"] = nByte
	cov["catalogue"] = map[string]int{"semantic_ca": len(c20Cat.SemCA), "semantic_cu": len(c20Cat.SemCU), "semantic_na": len(c20Cat.SemNA),
		"kind_ca": len(c20Cat.KindCA), "kind_feature_vectors": len(c20KindFeatures), "kind_funding_outputs": len(c20KindOutNames())}
	cov["channel_kind_cases"] = nKind
	{
		// per-cell outcome of the channel-kind cross product (kv, empty graph): a cell
		// that is empty or a row with one outcome only would be visible here
		cells := map[string]int{}
		for k, n := range stats.classes {
			if strings.HasPrefix(k, "kind/empty/") {
				p := strings.Split(k, "|")
				if len(p) >= 4 {
					cells[p[2]+" -> "+p[3]] += n
				}
			}
		}
		cov["channel_kind_outcomes"] = cells
	}
	cov["spaces"] = spaceCov
	cov["distinct_outcome_classes"] = len(stats.classes)
	cov["distinct_nontrivial"] = nontrivial
	cov["rule"] = "distinct (space, event kind, model verdict reason, outcome applied/unchanged/suppressed/pruned/resurrected, gossiper verdict class, broadcast count) classes in which a decodable gossip message reached the gossiper (or a prune tick / restart happened) and an oracle clause was evaluated on the graph and zombie index read back"
	cov["outcome_classes"] = stats.classes
	cov["oracle_clauses_exercised"] = stats.clauses
	cov["samples"] = samples
	cov["exhaustive"] = exhaustive
	cov["bubbles_with_leaked_goroutines"] = c20LeakedBubbles.Load()
	if len(caps) > 0 {
		cov["caps_hit"] = caps
	}
	if !exhaustive && only == "" {
		c20Info("not exhaustive: %v", caps)
	}
	pprof.StopCPUProfile()
	os.Exit(run.Finish(cov))
}

// c20Replay re-runs one replay artefact step by step, explorer-free.
func c20Replay(t *testing.T, run *evid.Run, path string) int {
	b, err := os.ReadFile(path)
	if err != nil {
		fmt.Printf("cannot read replay file: %v\n", err)
		return 2
	}
	var art struct {
		Signature string  `json:"signature"`
		Replay    c20Case `json:"replay"`
	}
	if err := json.Unmarshal(b, &art); err != nil || len(art.Replay.Ops) == 0 {
		fmt.Printf("cannot parse replay file: %v\n", err)
		return 2
	}
	c20Info("replaying %s: space=%s backend=%s same_peer=%v ops=%v", filepath.Base(path), art.Replay.Space, art.Replay.Cfg.Backend, art.Replay.Cfg.SamePeer, art.Replay.Ops)
	stats := newC20Stats()
	viols, err := c20RunCase(t, art.Replay, stats, false, c20Info)
	if err != nil {
		fmt.Printf("replay failed: %v\n", err)
		return 2
	}
	for _, v := range viols {
		run.Violation(v.Sig, v.What, v.Case)
	}
	if len(viols) == 0 {
		c20Info("replay: no oracle clause failed")
	}
	return run.Finish(map[string]any{
		"states": len(art.Replay.Ops) + 1, "transitions": len(art.Replay.Ops), "traces_validated_against_impl": 1,
		"evaluations": len(art.Replay.Ops), "distinct_nontrivial": len(stats.classes), "rule": "replay of one recorded case",
		"samples": []any{art.Replay}, "exhaustive": true,
	})
}

// ---------------------------------------------------------------------------
// parent: supervises the worker subprocess (a panic in one of lnd's own goroutines
// cannot be recovered by the harness; the parent turns it into a violation with a
// replay artefact instead of a dead check)

func c20Parent(t *testing.T) {
	self := os.Getenv("VERIF_SELF")
	if self == "" {
		self = os.Args[0]
	}
	scratch := os.Getenv("VERIF_SCRATCH")
	if scratch == "" {
		scratch = t.TempDir()
	}
	inflight := filepath.Join(scratch, "c20-inflight")
	_ = os.MkdirAll(inflight, 0o755)
	code, tail := c20Spawn(self, []string{"VERIF_C20_ROLE=worker", "VERIF_C20_INFLIGHT=" + inflight}, true)
	evFile := filepath.Join(os.Getenv("VERIF_EVIDENCE_DIR"), "C20.json")
	if _, err := os.Stat(evFile); err == nil && (code == 0 || code == 1) {
		os.Exit(code)
	}
	if rp := os.Getenv("VERIF_REPLAY"); rp != "" {
		// the replayed case kills the process: that is the reproduction
		var art struct {
			Signature string  `json:"signature"`
			Replay    c20Case `json:"replay"`
		}
		b, err := os.ReadFile(rp)
		if err != nil || json.Unmarshal(b, &art) != nil || len(art.Replay.Ops) == 0 {
			os.Exit(2)
		}
		first := c20PanicLine(tail)
		fmt.Printf("INFO the process died while replaying %v: %s\n", art.Replay.Ops, first)
		run := evid.Start("C20", "model_checking")
		sig := art.Signature
		if !strings.HasPrefix(sig, "crash|") {
			sig = "crash|" + art.Replay.Space + "|" + c20OpClass(art.Replay.Ops[len(art.Replay.Ops)-1])
		}
		run.Violation(sig, fmt.Sprintf("the node process dies while processing %v: %s", art.Replay.Ops, first), art.Replay)
		os.Exit(run.Finish(map[string]any{
			"states": 1, "transitions": 1, "traces_validated_against_impl": 1, "evaluations": 1, "distinct_nontrivial": 2,
			"rule": "replay of one recorded case", "samples": []any{art.Replay}, "exhaustive": true,
		}))
	}
	// the worker died: find the execution that kills it
	fmt.Printf("INFO C20 worker process died (exit %d); probing the executions that were in flight\n", code)
	run := evid.Start("C20", "model_checking")
	files, _ := filepath.Glob(filepath.Join(inflight, "w*.json"))
	found := 0
	for _, f := range files {
		b, err := os.ReadFile(f)
		var c c20Case
		if err != nil || json.Unmarshal(b, &c) != nil || len(c.Ops) == 0 {
			continue
		}
		died := 0
		var ptail string
		for i := 0; i < 3; i++ {
			pc, pt := c20Spawn(self, []string{"VERIF_C20_ROLE=probe", "VERIF_C20_PROBE_CASE=" + f}, false)
			if pc != 0 {
				died++
				ptail = pt
			}
		}
		if died == 3 {
			found++
			first := c20PanicLine(ptail)
			run.Violation("crash|"+c.Space+"|"+c20OpClass(c.Ops[len(c.Ops)-1]),
				fmt.Sprintf("the node process dies while processing %v: %s", c.Ops, first), c)
		}
	}
	if found == 0 {
		fmt.Printf("C20: worker died and no in-flight execution reproduces the crash; last output:\n%s\n", tail)
		os.Exit(2)
	}
	os.Exit(run.Finish(map[string]any{
		"states": 1, "transitions": 1, "traces_validated_against_impl": found, "evaluations": found, "distinct_nontrivial": 2,
		"rule": "crash triage only: the exploration worker died", "samples": []any{"crash triage"}, "exhaustive": false,
		"caps_hit": []string{"exploration worker process died; only crash triage was performed"},
	}))
}

func c20PanicLine(tail string) string {
	for _, l := range strings.Split(tail, "\n") {
		if strings.HasPrefix(l, "panic:") || strings.HasPrefix(l, "fatal error:") {
			return l
		}
	}
	return "process died"
}

func c20CrashProbe(t *testing.T) {
	b, err := os.ReadFile(os.Getenv("VERIF_C20_PROBE_CASE"))
	var c c20Case
	if err != nil || json.Unmarshal(b, &c) != nil {
		os.Exit(0)
	}
	_, _ = c20RunCase(t, c, newC20Stats(), true, nil)
	os.Exit(0)
}

// c20Spawn runs the test binary again with extra environment; relay forwards the
// child's verdict lines.
func c20Spawn(self string, env []string, relay bool) (int, string) {
	cmd := exec.Command(self, "-test.run", "^TestC20$", "-test.count=1", "-test.timeout", "12h")
	cmd.Env = append(os.Environ(), env...)
	pr, pw, err := os.Pipe()
	if err != nil {
		return 2, err.Error()
	}
	cmd.Stdout, cmd.Stderr = pw, pw
	if err := cmd.Start(); err != nil {
		return 2, err.Error()
	}
	pw.Close()
	var tail []string
	sc := bufio.NewScanner(pr)
	sc.Buffer(make([]byte, 1<<20), 1<<24)
	for sc.Scan() {
		l := sc.Text()
		tail = append(tail, l)
		if len(tail) > 200 {
			tail = tail[1:]
		}
		if relay && (strings.HasPrefix(l, "VIOLATION ") || strings.HasPrefix(l, "KNOWN-FINDING:") || strings.HasPrefix(l, "RESULT ") ||
			strings.HasPrefix(l, "INFO ") || strings.HasPrefix(l, "  signature:") || strings.HasPrefix(l, "  what:")) {
			fmt.Println(l)
		}
	}
	err = cmd.Wait()
	code := 0
	if err != nil {
		code = 2
		if ee, ok := err.(*exec.ExitError); ok && ee.ExitCode() >= 0 {
			code = ee.ExitCode()
		}
	}
	var out bytes.Buffer
	for _, l := range tail {
		out.WriteString(l + "\n")
	}
	return code, out.String()
}
