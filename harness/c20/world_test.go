// C20 — the world: one real, started AuthenticatedGossiper wired to a real
// graph.Builder over a real graphdb.ChannelGraph (bbolt KV store or sqlite SQL
// store, lazy timer-driven batch commits as in production) and a harness-owned
// block chain, all living inside one testing/synctest bubble.
//
// Every network message is handed to ProcessRemoteAnnouncement exactly as
// peer.Brontide does; the bubble's virtual clock is then advanced far enough for the
// batch-commit timers, the premature-update replay and the trickle (broadcast)
// timer to fire, and synctest.Wait() establishes quiescence before the graph is
// read back. No wall-clock waits anywhere.
//
// The world is driven from outside the bubble through a command channel (created
// outside the bubble, so the bubble's root goroutine is never "durably blocked" on
// it and the bubble's deadlock detector stays quiet while the explorer thinks).
package discovery

import (
	"bytes"
	"context"
	"crypto/sha256"
	"database/sql"
	"encoding/hex"
	"errors"
	"fmt"
	"image/color"
	"os"
	"path/filepath"
	"runtime/debug"
	"sort"
	"strings"
	"sync"
	"sync/atomic"
	"testing"
	"testing/synctest"
	"time"

	"github.com/btcsuite/btcd/address/v2"
	"github.com/btcsuite/btcd/btcec/v2"
	"github.com/btcsuite/btcd/btcec/v2/ecdsa"
	"github.com/btcsuite/btcd/btcec/v2/schnorr"
	"github.com/btcsuite/btcd/btcec/v2/schnorr/musig2"
	"github.com/btcsuite/btcd/chaincfg/v2"
	"github.com/btcsuite/btcd/chainhash/v2"
	"github.com/btcsuite/btcd/wire/v2"
	"github.com/lightningnetwork/lnd/actor"
	"github.com/lightningnetwork/lnd/chainntnfs"
	"github.com/lightningnetwork/lnd/chanstate"
	"github.com/lightningnetwork/lnd/graph"
	graphdb "github.com/lightningnetwork/lnd/graph/db"
	"github.com/lightningnetwork/lnd/graph/db/models"
	"github.com/lightningnetwork/lnd/keychain"
	"github.com/lightningnetwork/lnd/kvdb"
	"github.com/lightningnetwork/lnd/lnpeer"
	"github.com/lightningnetwork/lnd/lntest/mock"
	"github.com/lightningnetwork/lnd/lnwallet/btcwallet"
	"github.com/lightningnetwork/lnd/lnwire"
	"github.com/lightningnetwork/lnd/routing/chainview"
	"github.com/lightningnetwork/lnd/routing/route"
	"github.com/lightningnetwork/lnd/sqldb"
	"github.com/lightningnetwork/lnd/ticker"
)

// ---------------------------------------------------------------------------
// fixed key material (assumption: "all key pairs" is covered structurally only)

func c20Key(label string) *btcec.PrivateKey {
	h := sha256.Sum256([]byte("verif/c20/" + label))
	k, _ := btcec.PrivKeyFromBytes(h[:])
	return k
}

func c20Pub(k *btcec.PrivateKey) (out [33]byte) {
	if v, ok := c20PubMemo.Load(k); ok {
		return v.([33]byte)
	}
	copy(out[:], k.PubKey().SerializeCompressed())
	c20PubMemo.Store(k, out)
	return out
}

// c20PubMemo: the key material is fixed (package-level private keys, never mutated).
var c20PubMemo sync.Map

var (
	c20Self = c20Key("self")
	// node keys of the honest channel, ordered so that node_id_1 < node_id_2
	c20Node1, c20Node2 = func() (*btcec.PrivateKey, *btcec.PrivateKey) {
		a, b := c20Key("node-a"), c20Key("node-b")
		pa, pb := c20Pub(a), c20Pub(b)
		if bytes.Compare(pa[:], pb[:]) > 0 {
			a, b = b, a
		}
		return a, b
	}()
	c20Btc1, c20Btc2 = c20Key("btc-1"), c20Key("btc-2")
	// the attacker's keys
	c20Evil    = c20Key("evil-node")
	c20EvilBtc = c20Key("evil-btc")
)

// c20PeerKey is the identity of the peer that delivers the message of step i.
func c20PeerKey(i int) *btcec.PrivateKey { return c20Key(fmt.Sprintf("peer-%d", i)) }

// ---------------------------------------------------------------------------
// the block universe

const (
	// c20Epoch is the virtual clock at the start of every synctest bubble
	// (2000-01-01T00:00:00Z).
	c20Epoch = int64(946684800)
	// c20T is the base timestamp "t" of the honest messages: slightly in the past.
	c20T = uint32(c20Epoch - 1000)

	c20Height0   = uint32(100) // block holding the funding transaction
	c20TipStart  = uint32(102) // best height at start: a 3-block universe 100..102
	c20HeightFut = uint32(103) // block that only exists after the "blk" event

	c20Capacity     = int64(1_000_000) // sat
	c20TinyCapacity = int64(150)       // sat: the "wrong amount" output
)

// c20P2WSH2of2 is the BOLT 3 funding output script of two bitcoin keys, written
// out by hand (the reference does not use lnd's script helpers).
func c20P2WSH2of2(k1, k2 [33]byte) []byte {
	a, b := k1[:], k2[:]
	if bytes.Compare(a, b) > 0 {
		a, b = b, a
	}
	ws := []byte{0x52, 0x21}
	ws = append(ws, a...)
	ws = append(ws, 0x21)
	ws = append(ws, b...)
	ws = append(ws, 0x52, 0xae)
	h := sha256.Sum256(ws)
	return append([]byte{0x00, 0x20}, h[:]...)
}

// c20WSH wraps a witness script into its P2WSH output script.
func c20WSH(ws []byte) []byte {
	h := sha256.Sum256(ws)
	return append([]byte{0x00, 0x20}, h[:]...)
}

// c20Multisig is the bare "m <a> <b> 2 OP_CHECKMULTISIG" script, keys in the order given.
func c20Multisig(m byte, a, b [33]byte) []byte {
	ws := []byte{0x50 + m, 0x21}
	ws = append(ws, a[:]...)
	ws = append(ws, 0x21)
	ws = append(ws, b[:]...)
	return append(ws, 0x52, 0xae)
}

// c20P2TR is the segwit v1 output script of an output key.
func c20P2TR(outputKey *btcec.PublicKey) []byte {
	return append([]byte{0x51, 0x20}, schnorr.SerializePubKey(outputKey)...)
}

// c20P2TRMuSig2 is the funding output script of a simple taproot channel (simple
// taproot channels proposal, "Funding Output"): P2TR whose output key is the
// MuSig2 (BIP 327) aggregate of the two funding keys, sorted, with the BIP 86 tweak
// (key-path spend only). Computed with btcd's musig2 package directly (lnd's script
// helpers are not used); bip86 == false leaves the tweak out.
func c20P2TRMuSig2(k1, k2 [33]byte, bip86 bool) []byte {
	p1, err1 := btcec.ParsePubKey(k1[:])
	p2, err2 := btcec.ParsePubKey(k2[:])
	if err1 != nil || err2 != nil {
		return nil // not a 2-of-2 of two keys: matches no output
	}
	var opts []musig2.KeyAggOption
	if bip86 {
		opts = append(opts, musig2.WithBIP86KeyTweak())
	}
	agg, _, _, err := musig2.AggregateKeys([]*btcec.PublicKey{p1, p2}, true, opts...)
	if err != nil {
		return nil
	}
	return c20P2TR(agg.FinalKey)
}

// c20KindOut is one output of the "kinds" transaction: every funding-output form a
// channel_announcement of either channel kind can point at.
type c20KindOut struct {
	name   string
	script func(k1, k2, other [33]byte) []byte
	value  int64
	spent  bool
}

// c20KindOuts: the correct 2-of-2 of (bitcoin_key_1, bitcoin_key_2) in the form of
// each channel kind, and everything "near" it: single-key variants (one key twice,
// one key alone), 1-of-2, the right keys in the wrong form (tweak left out, keys
// unsorted, bare multisig), a foreign key, spent, tiny amount. (The legacy-form
// correct / spent / tiny outputs are the outputs 0, 1, 3 of the first transaction.)
var c20KindOuts = []c20KindOut{
	{name: "tr2of2", script: func(a, b, _ [33]byte) []byte { return c20P2TRMuSig2(a, b, true) }},
	{name: "tr-k1k1", script: func(a, _, _ [33]byte) []byte { return c20P2TRMuSig2(a, a, true) }},
	{name: "tr-k2k2", script: func(_, b, _ [33]byte) []byte { return c20P2TRMuSig2(b, b, true) }},
	{name: "tr-k1-raw", script: func(a, _, _ [33]byte) []byte { p, _ := btcec.ParsePubKey(a[:]); return c20P2TR(p) }},
	{name: "tr-k2-bip86", script: func(_, b, _ [33]byte) []byte {
		// BIP 86 single-key output: Q = P + H_TapTweak(P)G, P with even y
		p, _ := schnorr.ParsePubKey(b[1:])
		t := chainhash.TaggedHash(chainhash.TagTapTweak, schnorr.SerializePubKey(p))
		var ts btcec.ModNScalar
		ts.SetByteSlice(t[:])
		var pj, tg, q btcec.JacobianPoint
		p.AsJacobian(&pj)
		btcec.ScalarBaseMultNonConst(&ts, &tg)
		btcec.AddNonConst(&pj, &tg, &q)
		q.ToAffine()
		return c20P2TR(btcec.NewPublicKey(&q.X, &q.Y))
	}},
	{name: "tr2of2-untweaked", script: func(a, b, _ [33]byte) []byte { return c20P2TRMuSig2(a, b, false) }},
	{name: "tr2of2-spent", script: func(a, b, _ [33]byte) []byte { return c20P2TRMuSig2(a, b, true) }, spent: true},
	{name: "tr2of2-tiny", script: func(a, b, _ [33]byte) []byte { return c20P2TRMuSig2(a, b, true) }, value: c20TinyCapacity},
	{name: "tr-k1-other", script: func(a, _, o [33]byte) []byte { return c20P2TRMuSig2(a, o, true) }},
	{name: "wsh-k1k1", script: func(a, _, _ [33]byte) []byte { return c20WSH(c20Multisig(2, a, a)) }},
	{name: "wsh-k2k2", script: func(_, b, _ [33]byte) []byte { return c20WSH(c20Multisig(2, b, b)) }},
	{name: "wpkh-k1", script: func(a, _, _ [33]byte) []byte { return append([]byte{0x00, 0x14}, address.Hash160(a[:])...) }},
	{name: "wsh-1of2", script: func(a, b, _ [33]byte) []byte {
		if bytes.Compare(a[:], b[:]) > 0 {
			a, b = b, a
		}
		return c20WSH(c20Multisig(1, a, b))
	}},
	{name: "wsh-2of2-unsorted", script: func(a, b, _ [33]byte) []byte {
		if bytes.Compare(a[:], b[:]) < 0 {
			a, b = b, a
		}
		return c20WSH(c20Multisig(2, a, b))
	}},
	{name: "bare-2of2", script: func(a, b, _ [33]byte) []byte {
		if bytes.Compare(a[:], b[:]) > 0 {
			a, b = b, a
		}
		return c20Multisig(2, a, b)
	}},
}

// c20KindTxIndex: position of the "kinds" transaction in block c20Height0.
const c20KindTxIndex = 2

// c20KindScid returns the scid of the funding-output variant `name`: one of
// c20KindOuts, or "wsh2of2" / "wsh2of2-spent" / "wsh2of2-tiny" (first transaction).
func c20KindScid(name string) lnwire.ShortChannelID {
	switch name {
	case "wsh2of2":
		return c20ScidGood
	case "wsh2of2-spent":
		return c20ScidSpent
	case "wsh2of2-tiny":
		return c20ScidTiny
	}
	for i, o := range c20KindOuts {
		if o.name == name {
			return lnwire.ShortChannelID{BlockHeight: c20Height0, TxIndex: c20KindTxIndex, TxPosition: uint16(i)}
		}
	}
	panic("c20: unknown funding output variant " + name)
}

// c20KindOutNames: every funding-output variant of the channel-kind family.
func c20KindOutNames() []string {
	names := []string{"wsh2of2", "wsh2of2-spent", "wsh2of2-tiny"}
	for _, o := range c20KindOuts {
		names = append(names, o.name)
	}
	return names
}

// scids of the universe
var (
	c20ScidGood   = lnwire.ShortChannelID{BlockHeight: c20Height0, TxIndex: 1, TxPosition: 0}
	c20ScidSpent  = lnwire.ShortChannelID{BlockHeight: c20Height0, TxIndex: 1, TxPosition: 1}
	c20ScidScript = lnwire.ShortChannelID{BlockHeight: c20Height0, TxIndex: 1, TxPosition: 2}
	c20ScidTiny   = lnwire.ShortChannelID{BlockHeight: c20Height0, TxIndex: 1, TxPosition: 3}
	c20ScidNoOut  = lnwire.ShortChannelID{BlockHeight: c20Height0, TxIndex: 1, TxPosition: 9}
	c20ScidNoTx   = lnwire.ShortChannelID{BlockHeight: c20Height0 + 1, TxIndex: 7, TxPosition: 0}
	c20ScidFuture = lnwire.ShortChannelID{BlockHeight: c20HeightFut, TxIndex: 1, TxPosition: 0}
)

type c20Output struct {
	pkScript []byte
	value    int64
	spent    bool
}

// c20Universe is the immutable description of the chain; the reference model reads
// it directly, the implementation reads it through c20Chain (BlockChainIO).
type c20Universe struct {
	blocks map[uint32]*wire.MsgBlock
	spent  map[wire.OutPoint]bool
}

func c20BlockHash(h uint32) chainhash.Hash {
	return chainhash.Hash(sha256.Sum256([]byte(fmt.Sprintf("verif/c20/block/%d", h))))
}

func c20NewUniverse() *c20Universe {
	u := &c20Universe{blocks: map[uint32]*wire.MsgBlock{}, spent: map[wire.OutPoint]bool{}}
	dummy := func(tag byte) *wire.MsgTx {
		tx := wire.NewMsgTx(2)
		tx.AddTxIn(&wire.TxIn{PreviousOutPoint: wire.OutPoint{Index: uint32(tag)}})
		tx.AddTxOut(&wire.TxOut{Value: 5000, PkScript: []byte{0x51}})
		return tx
	}
	good := c20P2WSH2of2(c20Pub(c20Btc1), c20Pub(c20Btc2))
	other := c20P2WSH2of2(c20Pub(c20Btc1), c20Pub(c20EvilBtc))

	fund := wire.NewMsgTx(2)
	fund.AddTxIn(&wire.TxIn{PreviousOutPoint: wire.OutPoint{Index: 77}})
	fund.AddTxOut(&wire.TxOut{Value: c20Capacity, PkScript: good})     // 0: the honest channel
	fund.AddTxOut(&wire.TxOut{Value: c20Capacity, PkScript: good})     // 1: same script, already spent
	fund.AddTxOut(&wire.TxOut{Value: c20Capacity, PkScript: other})    // 2: pays to other keys
	fund.AddTxOut(&wire.TxOut{Value: c20TinyCapacity, PkScript: good}) // 3: right script, tiny amount
	// the "kinds" transaction: one output per funding-output form (c20KindOuts)
	kinds := wire.NewMsgTx(2)
	kinds.AddTxIn(&wire.TxIn{PreviousOutPoint: wire.OutPoint{Index: 79}})
	for _, o := range c20KindOuts {
		v := o.value
		if v == 0 {
			v = c20Capacity
		}
		sc := o.script(c20Pub(c20Btc1), c20Pub(c20Btc2), c20Pub(c20EvilBtc))
		if len(sc) == 0 {
			panic("c20: no script for funding output variant " + o.name)
		}
		kinds.AddTxOut(&wire.TxOut{Value: v, PkScript: sc})
	}
	u.blocks[c20Height0] = &wire.MsgBlock{Transactions: []*wire.MsgTx{dummy(1), fund, kinds}}
	u.spent[wire.OutPoint{Hash: fund.TxHash(), Index: 1}] = true
	for i, o := range c20KindOuts {
		if o.spent {
			u.spent[wire.OutPoint{Hash: kinds.TxHash(), Index: uint32(i)}] = true
		}
	}

	u.blocks[c20Height0+1] = &wire.MsgBlock{Transactions: []*wire.MsgTx{dummy(2)}}
	u.blocks[c20Height0+2] = &wire.MsgBlock{Transactions: []*wire.MsgTx{dummy(3)}}

	fut := wire.NewMsgTx(2)
	fut.AddTxIn(&wire.TxIn{PreviousOutPoint: wire.OutPoint{Index: 78}})
	fut.AddTxOut(&wire.TxOut{Value: c20Capacity, PkScript: good})
	u.blocks[c20HeightFut] = &wire.MsgBlock{Transactions: []*wire.MsgTx{dummy(4), fut}}
	return u
}

var c20U = c20NewUniverse()

// lookup returns the output an scid points at (nil if it does not exist at tip).
func (u *c20Universe) lookup(scid lnwire.ShortChannelID, tip uint32) (*c20Output, wire.OutPoint) {
	if scid.BlockHeight > tip {
		return nil, wire.OutPoint{}
	}
	b := u.blocks[scid.BlockHeight]
	if b == nil || int(scid.TxIndex) >= len(b.Transactions) {
		return nil, wire.OutPoint{}
	}
	tx := b.Transactions[scid.TxIndex]
	if int(scid.TxPosition) >= len(tx.TxOut) {
		return nil, wire.OutPoint{}
	}
	op := wire.OutPoint{Hash: tx.TxHash(), Index: uint32(scid.TxPosition)}
	o := tx.TxOut[scid.TxPosition]
	return &c20Output{pkScript: o.PkScript, value: o.Value, spent: u.spent[op]}, op
}

// c20Chain is the lnwallet.BlockChainIO the gossiper and the builder query.
type c20Chain struct {
	u   *c20Universe
	tip atomic.Uint32
}

func (c *c20Chain) GetBestBlock() (*chainhash.Hash, int32, error) {
	h := c.tip.Load()
	hash := c20BlockHash(h)
	return &hash, int32(h), nil
}

func (c *c20Chain) GetBlockHash(height int64) (*chainhash.Hash, error) {
	if height < 0 || height > int64(c.tip.Load()) {
		// btcd's wording (rpcserver.go): the gossiper string-matches it
		return nil, errors.New("-1: Block number out of range")
	}
	hash := c20BlockHash(uint32(height))
	return &hash, nil
}

func (c *c20Chain) heightOf(hash *chainhash.Hash) (uint32, bool) {
	for h := uint32(0); h <= c.tip.Load(); h++ {
		if c20BlockHash(h) == *hash {
			return h, true
		}
	}
	return 0, false
}

func (c *c20Chain) GetBlock(hash *chainhash.Hash) (*wire.MsgBlock, error) {
	h, ok := c.heightOf(hash)
	if !ok {
		return nil, errors.New("-5: Block not found")
	}
	if b := c.u.blocks[h]; b != nil {
		return b, nil
	}
	// heights below the universe: a block with one unrelated transaction
	tx := wire.NewMsgTx(2)
	tx.AddTxIn(&wire.TxIn{PreviousOutPoint: wire.OutPoint{Index: h}})
	tx.AddTxOut(&wire.TxOut{Value: 1, PkScript: []byte{0x51}})
	return &wire.MsgBlock{Transactions: []*wire.MsgTx{tx}}, nil
}

func (c *c20Chain) GetBlockHeader(hash *chainhash.Hash) (*wire.BlockHeader, error) {
	if _, ok := c.heightOf(hash); !ok {
		return nil, errors.New("-5: Block not found")
	}
	return &wire.BlockHeader{}, nil
}

func (c *c20Chain) GetUtxo(op *wire.OutPoint, _ []byte, _ uint32, _ <-chan struct{}) (*wire.TxOut, error) {
	for h, b := range c.u.blocks {
		if h > c.tip.Load() {
			continue
		}
		for _, tx := range b.Transactions {
			if tx.TxHash() != op.Hash || int(op.Index) >= len(tx.TxOut) {
				continue
			}
			if c.u.spent[*op] {
				return nil, btcwallet.ErrOutputSpent
			}
			return tx.TxOut[op.Index], nil
		}
	}
	return nil, btcwallet.ErrOutputSpent
}

// ---------------------------------------------------------------------------
// small doubles (exported interfaces only)

type c20ChainView struct {
	nb, sb chan *chainview.FilteredBlock
}

func (v *c20ChainView) FilteredBlocks() <-chan *chainview.FilteredBlock     { return v.nb }
func (v *c20ChainView) DisconnectedBlocks() <-chan *chainview.FilteredBlock { return v.sb }
func (v *c20ChainView) UpdateFilter([]graphdb.EdgePoint, uint32) error      { return nil }
func (v *c20ChainView) FilterBlock(h *chainhash.Hash) (*chainview.FilteredBlock, error) {
	return &chainview.FilteredBlock{Hash: *h}, nil
}
func (v *c20ChainView) Start() error { return nil }
func (v *c20ChainView) Stop() error  { return nil }

type c20Notifier struct {
	mu      sync.Mutex
	clients []chan *chainntnfs.BlockEpoch
}

func (n *c20Notifier) RegisterConfirmationsNtfn(*chainhash.Hash, []byte, uint32, uint32,
	...chainntnfs.NotifierOption) (*chainntnfs.ConfirmationEvent, error) {
	return nil, errors.New("c20: not used")
}
func (n *c20Notifier) RegisterSpendNtfn(*wire.OutPoint, []byte, uint32) (*chainntnfs.SpendEvent, error) {
	return nil, errors.New("c20: not used")
}
func (n *c20Notifier) RegisterBlockEpochNtfn(*chainntnfs.BlockEpoch) (*chainntnfs.BlockEpochEvent, error) {
	n.mu.Lock()
	defer n.mu.Unlock()
	c := make(chan *chainntnfs.BlockEpoch, 8)
	n.clients = append(n.clients, c)
	cancel := func() {
		n.mu.Lock()
		defer n.mu.Unlock()
		for i, x := range n.clients {
			if x == c {
				n.clients = append(n.clients[:i:i], n.clients[i+1:]...)
				break
			}
		}
	}
	return &chainntnfs.BlockEpochEvent{Epochs: c, Cancel: cancel}, nil
}
func (n *c20Notifier) Start() error  { return nil }
func (n *c20Notifier) Started() bool { return true }
func (n *c20Notifier) Stop() error   { return nil }
func (n *c20Notifier) notify(h uint32) {
	n.mu.Lock()
	defer n.mu.Unlock()
	hash := c20BlockHash(h)
	for _, c := range n.clients {
		c <- &chainntnfs.BlockEpoch{Height: int32(h), Hash: &hash}
	}
}

type c20MsgStore struct{}

func (c20MsgStore) AddMessage(lnwire.Message, [33]byte) error        { return nil }
func (c20MsgStore) DeleteMessage(lnwire.Message, [33]byte) error     { return nil }
func (c20MsgStore) Messages() (map[[33]byte][]lnwire.Message, error) { return nil, nil }
func (c20MsgStore) Peers() (map[[33]byte]struct{}, error)            { return nil, nil }
func (c20MsgStore) MessagesForPeer([33]byte) ([]lnwire.Message, error) {
	return nil, nil
}

type c20NoChannels struct{}

func (c20NoChannels) FetchOpenChannels(*btcec.PublicKey) ([]*chanstate.OpenChannel, error) {
	return nil, nil
}

// ---------------------------------------------------------------------------
// scratch space and the sqlite template

var c20Seq atomic.Int64

func c20ScratchRoot() string {
	if d := os.Getenv("VERIF_SCRATCH"); d != "" {
		return d
	}
	return os.TempDir()
}

func c20ScratchDir(prefix string) (string, error) {
	d := filepath.Join(c20ScratchRoot(), fmt.Sprintf("%s-%d-%d", prefix, os.Getpid(), c20Seq.Add(1)))
	return d, os.MkdirAll(d, 0o755)
}

var (
	c20SQLOnce sync.Once
	c20SQLTpl  []byte
	c20SQLErr  error
)

// c20SQLTemplate migrates one sqlite file once; fresh databases are byte copies.
func c20SQLTemplate() ([]byte, error) {
	c20SQLOnce.Do(func() {
		dir, err := c20ScratchDir("c20-sqltpl")
		if err != nil {
			c20SQLErr = err
			return
		}
		defer os.RemoveAll(dir)
		p := filepath.Join(dir, "tpl.db")
		st, err := sqldb.NewSqliteStore(&sqldb.SqliteConfig{SkipMigrations: false}, p)
		if err != nil {
			c20SQLErr = err
			return
		}
		if err := st.ApplyAllMigrations(context.Background(), sqldb.GetMigrations()); err != nil {
			c20SQLErr = err
			return
		}
		if _, err := st.DB.Exec("PRAGMA wal_checkpoint(TRUNCATE)"); err != nil {
			c20SQLErr = err
			return
		}
		if err := st.DB.Close(); err != nil {
			c20SQLErr = err
			return
		}
		c20SQLTpl, c20SQLErr = os.ReadFile(p)
	})
	return c20SQLTpl, c20SQLErr
}

// ---------------------------------------------------------------------------
// the world

const (
	c20StepSleep = 20 * time.Second // virtual time allowed for one message to settle
	// The batch schedulers of the graph store commit lazily through a timer. With
	// lnd's production interval (500 ms) a bubble freezes whenever two held updates
	// of one channel are replayed concurrently: the first holds the gossiper's
	// per-channel mutex while it waits for the (virtual) batch timer, the second
	// waits for that sync.Mutex — which synctest does not count as durably blocked,
	// so virtual time can never advance to fire the timer. An interval of 0 (what
	// the repo's own test stores use) keeps the timer-driven path (time.AfterFunc)
	// but needs no clock advance.
	c20BatchCommit  = 0 * time.Millisecond
	c20TrickleDelay = 2 * time.Second
	// c20PruneInterval is the Builder's GraphPruneInterval (lnd's production value).
	// The zombie-prune ticker is the only way a Builder without AssumeChannelValid
	// prunes zombies; the "prune" event advances the virtual clock by exactly one
	// interval. Message steps take c20StepSleep each, so fewer than
	// c20PruneInterval/c20StepSleep = 180 of them never reach a tick on their own:
	// a tick falls inside a "prune" event and nowhere else (the ticker restarts with
	// the Builder on a "restart" event).
	c20PruneInterval = time.Hour
	// c20PruneExpiry is lnd's two-week zombie horizon (graph.DefaultChannelPruneExpiry).
	c20PruneExpiry = 14 * 24 * time.Hour
)

type c20Cfg struct {
	Backend string `json:"backend"` // "kv" | "sql"
	// SamePeer: every message is delivered by one and the same peer (reject cache
	// and ban score in play). Otherwise step i is delivered by the fresh peer i.
	SamePeer bool `json:"same_peer,omitempty"`
	// Strict: graph.Config.StrictZombiePruning (lnd's routing.strictgraphpruning).
	Strict bool `json:"strict_zombie_pruning,omitempty"`
	// CacheSize: entries of the store's reject cache and channel cache (0: 256).
	// With 1 every lookup of another scid evicts the entry (eviction is random in
	// lnd, so only size 1 is deterministic).
	CacheSize int `json:"cache_size,omitempty"`
	// LazyViews: the observation after a step only iterates the store; it performs
	// no pointed lookups, so the store's reject/channel caches are touched by the
	// gossip path alone (after a restart the first lookup of a channel is the one
	// made for a gossip message, not the observer's).
	LazyViews bool `json:"lazy_views,omitempty"`
}

// c20Obs is what one step let us observe.
type c20Obs struct {
	Verdict   string   // "ok" | "pending" | "err: ..."
	Broadcast [][]byte // wire encodings handed to Config.Broadcast during the step
	Graph     []string // canonical routable graph after the step
	Zombies   []uint64 // zombie index restricted to the universe's scids
	ZombieKey []string // the node keys stored with each zombie entry (reporting only, never an oracle input)
	CacheDiff string   // disagreement between the DB view and the pathfinding cache, if any
	Now       int64    // virtual unix time at which the message was injected
}

type c20Req struct {
	kind  string // "msg" | "burst" | "blk" | "restart" | "prune" | "close"
	msg   lnwire.Message
	msgs  []lnwire.Message
	peer  int
	reply chan c20Resp
}

type c20Resp struct {
	obs   *c20Obs
	panic string
}

// c20World is the handle used from outside the bubble.
type c20World struct {
	cfg    c20Cfg
	reqs   chan c20Req
	done   chan struct{}
	fatal  string // bubble-level failure (deadlock / leaked goroutines)
	closed bool
}

// inside-the-bubble state
type c20Inner struct {
	cfg      c20Cfg
	dir      string
	chain    *c20Chain
	notifier *c20Notifier
	gdb      *graphdb.ChannelGraph
	v1       *graphdb.VersionedGraph
	builder  *graph.Builder
	goss     *AuthenticatedGossiper
	closers  []func() // stop the running stack and close the database handle (restart + teardown)
	rmDir    func()   // remove the scratch directory (teardown only)
	opens    int      // how many times the stack was started on this database
	// watch: scids outside c20UniverseScids that a delivered message referred to; the
	// zombie index is read back for them as well
	watch []lnwire.ShortChannelID

	bmu   sync.Mutex
	bcast [][]byte
}

var c20LeakedBubbles atomic.Int64

// c20NewWorld builds a world in a fresh bubble and returns once it is quiescent.
func c20NewWorld(t *testing.T, cfg c20Cfg) (*c20World, error) {
	w := &c20World{cfg: cfg, reqs: make(chan c20Req), done: make(chan struct{})}
	ready := make(chan error, 1)
	go func() {
		defer close(w.done)
		defer func() {
			// a bubble whose goroutines do not all exit panics here ("deadlock")
			if r := recover(); r != nil {
				w.fatal = fmt.Sprint(r)
				c20LeakedBubbles.Add(1)
				select {
				case ready <- fmt.Errorf("bubble: %v", r):
				default:
				}
			}
		}()
		synctest.Test(t, func(*testing.T) { c20BubbleMain(w, ready) })
	}()
	if err := <-ready; err != nil {
		return nil, err
	}
	return w, nil
}

func c20BubbleMain(w *c20World, ready chan error) {
	in := &c20Inner{cfg: w.cfg}
	var setupErr error
	func() {
		defer func() {
			if r := recover(); r != nil {
				setupErr = fmt.Errorf("setup panic: %v\n%s", r, debug.Stack())
			}
		}()
		setupErr = in.setup()
	}()
	if setupErr != nil {
		in.teardown()
		ready <- setupErr
		return
	}
	ready <- nil
	for req := range w.reqs {
		if req.kind == "close" {
			break
		}
		var resp c20Resp
		func() {
			defer func() {
				if r := recover(); r != nil {
					resp.panic = fmt.Sprintf("%v\n%s", r, debug.Stack())
				}
			}()
			resp.obs = in.step(req)
		}()
		req.reply <- resp
	}
	in.teardown()
	synctest.Wait()
}

func (in *c20Inner) setup() error {
	dir, err := c20ScratchDir("c20-w")
	if err != nil {
		return err
	}
	in.dir = dir
	in.rmDir = func() { _ = os.RemoveAll(dir) }
	if in.cfg.Backend == "sql" {
		tpl, err := c20SQLTemplate()
		if err != nil {
			return err
		}
		if err := os.WriteFile(filepath.Join(dir, "graph.db"), tpl, 0o600); err != nil {
			return err
		}
	}
	in.chain = &c20Chain{u: c20U}
	in.chain.tip.Store(c20TipStart)
	in.notifier = &c20Notifier{}
	if err := in.open(); err != nil {
		return err
	}
	in.takeBroadcast()
	return nil
}

// open starts one "process lifetime" of lnd's gossip intake on the database in
// in.dir: graph store (all in-memory caches empty), ChannelGraph, Builder,
// gossiper. Called once by setup and again by every "restart" event; the chain
// (and its tip) is the environment and survives.
func (in *c20Inner) open() error {
	dir := in.dir
	cacheSize := 256
	if in.cfg.CacheSize > 0 {
		cacheSize = in.cfg.CacheSize
	}
	var (
		store graphdb.Store
		err   error
	)
	switch in.cfg.Backend {
	case "sql":
		p := filepath.Join(dir, "graph.db")
		st, err := sqldb.NewSqliteStore(&sqldb.SqliteConfig{SkipMigrations: true}, p)
		if err != nil {
			return err
		}
		in.closers = append(in.closers, func() { _ = st.DB.Close() })
		exec := sqldb.NewTransactionExecutor(st.BaseDB, func(tx *sql.Tx) graphdb.SQLQueries {
			return st.BaseDB.WithTx(tx)
		})
		store, err = graphdb.NewSQLStore(&graphdb.SQLStoreConfig{
			ChainHash: *chaincfg.MainNetParams.GenesisHash,
			QueryCfg:  sqldb.DefaultSQLiteConfig(),
		}, exec, graphdb.WithBatchCommitInterval(c20BatchCommit),
			// the defaults pre-allocate ~15 MB per store (50k-entry reject cache,
			// 15k-node graph cache); thousands of short-lived worlds do not need that
			graphdb.WithRejectCacheSize(cacheSize), graphdb.WithChannelCacheSize(cacheSize))
		if err != nil {
			return err
		}
	default:
		// creates the bbolt file the first time, opens the existing one afterwards
		backend, cleanup, err := kvdb.GetTestBackend(dir, "cgr")
		if err != nil {
			return err
		}
		// (for bbolt the returned cleanup is a no-op: close the handle ourselves,
		// or every world leaks an mmap of its deleted file)
		in.closers = append(in.closers, cleanup, func() { _ = backend.Close() })
		store, err = graphdb.NewKVStore(backend, graphdb.WithBatchCommitInterval(c20BatchCommit),
			graphdb.WithRejectCacheSize(cacheSize), graphdb.WithChannelCacheSize(cacheSize))
		if err != nil {
			return err
		}
	}
	gdb, err := graphdb.NewChannelGraph(store, graphdb.WithSyncGraphCachePopulation(),
		graphdb.WithPreAllocCacheNumNodes(16))
	if err != nil {
		return err
	}
	if err := gdb.Start(); err != nil {
		return fmt.Errorf("graph start: %w", err)
	}
	in.gdb = gdb
	in.v1 = graphdb.NewVersionedGraph(gdb, lnwire.GossipVersion1)
	in.closers = append(in.closers, func() { _ = gdb.Stop() })

	ctx := context.Background()
	selfPub := c20Pub(c20Self)
	// (lnd writes its source node at every start as well)
	if err := gdb.SetSourceNode(ctx, models.NewV1Node(selfPub, &models.NodeV1Fields{
		LastUpdate: time.Unix(c20Epoch-5000, 0), Alias: "self",
		Features: lnwire.NewRawFeatureVector(),
		// any non-empty signature: the source node counts as announced
		AuthSigBytes: bytes.Repeat([]byte{1}, 64),
	})); err != nil {
		return fmt.Errorf("source node: %w", err)
	}

	noAlias := func(lnwire.ShortChannelID) bool { return false }

	in.builder, err = graph.NewBuilder(&graph.Config{
		SelfNode:            selfPub,
		Graph:               gdb,
		Chain:               in.chain,
		ChainView:           &c20ChainView{nb: make(chan *chainview.FilteredBlock), sb: make(chan *chainview.FilteredBlock)},
		Notifier:            in.notifier,
		ChannelPruneExpiry:  graph.DefaultChannelPruneExpiry,
		GraphPruneInterval:  c20PruneInterval,
		FirstTimePruneDelay: graph.DefaultFirstTimePruneDelay,
		StrictZombiePruning: in.cfg.Strict,
		IsAlias:             noAlias,
	})
	if err != nil {
		return err
	}
	if err := in.builder.Start(); err != nil {
		return fmt.Errorf("builder start: %w", err)
	}
	builder := in.builder
	in.closers = append(in.closers, func() { _ = builder.Stop() })

	selfAnn := lnwire.NodeAnnouncement1{Timestamp: uint32(c20Epoch - 5000), NodeID: selfPub, Features: lnwire.NewRawFeatureVector()}
	in.goss = New(Config{
		ChainParams: &chaincfg.MainNetParams,
		Graph:       in.builder,
		ChainIO:     in.chain,
		ChanSeries:  NewChanSeries(in.v1),
		Notifier:    in.notifier,
		Broadcast: func(_ map[route.Vertex]struct{}, msgs ...lnwire.Message) error {
			for _, m := range msgs {
				var b bytes.Buffer
				if _, err := lnwire.WriteMessage(&b, m, 0); err != nil {
					return err
				}
				in.bmu.Lock()
				in.bcast = append(in.bcast, b.Bytes())
				in.bmu.Unlock()
			}
			return nil
		},
		NotifyWhenOnline:       func([33]byte, chan<- lnpeer.Peer) {},
		NotifyWhenOffline:      func([33]byte) <-chan struct{} { return make(chan struct{}) },
		FetchSelfAnnouncement:  func() lnwire.NodeAnnouncement1 { return selfAnn },
		UpdateSelfAnnouncement: func() (lnwire.NodeAnnouncement1, error) { return selfAnn, nil },
		ProofMatureDelta:       0,
		TrickleDelay:           c20TrickleDelay,
		RetransmitTicker:       ticker.NewForce(time.Hour),
		RebroadcastInterval:    24 * time.Hour,
		MessageStore:           c20MsgStore{},
		AnnSigner:              &mock.SingleSigner{Privkey: c20Self},
		ScidCloser:             NewScidCloserMan(gdb, c20NoChannels{}),
		NumActiveSyncers:       3,
		RotateTicker:           ticker.NewForce(DefaultSyncerRotationInterval),
		HistoricalSyncTicker:   ticker.NewForce(DefaultHistoricalSyncInterval),
		MinimumBatchSize:       10,
		SubBatchDelay:          5 * time.Millisecond,
		MaxChannelUpdateBurst:  DefaultMaxChannelUpdateBurst,
		ChannelUpdateInterval:  DefaultChannelUpdateInterval,
		IsAlias:                noAlias,
		SignAliasUpdate: func(*lnwire.ChannelUpdate1) (*ecdsa.Signature, error) {
			return nil, errors.New("c20: no alias")
		},
		FindBaseByAlias: func(lnwire.ShortChannelID) (lnwire.ShortChannelID, error) {
			return lnwire.ShortChannelID{}, errors.New("no base scid")
		},
		GetAlias: func(lnwire.ChannelID) (lnwire.ShortChannelID, error) {
			return lnwire.ShortChannelID{}, errors.New("no peer alias")
		},
		FindChannel: func(*btcec.PublicKey, lnwire.ChannelID) (*chanstate.OpenChannel, error) {
			return nil, nil
		},
		IsStillZombieChannel: in.builder.IsZombieChannel,
		BanThreshold:         DefaultBanThreshold,
	}, &keychain.KeyDescriptor{PubKey: c20Self.PubKey(), KeyLocator: keychain.KeyLocator{Family: keychain.KeyFamilyNodeKey}})
	if err := in.goss.Start(); err != nil {
		return fmt.Errorf("gossiper start: %w", err)
	}
	goss := in.goss
	in.closers = append(in.closers, func() { _ = goss.Stop() })
	// as the repo's own fixture does: messages received while the initial graph
	// sync is still running are never broadcast
	in.goss.syncMgr.markGraphSynced()
	in.opens++

	time.Sleep(c20StepSleep)
	synctest.Wait()
	return nil
}

// shutdown stops the running stack (gossiper, builder, graph) and closes the
// database handle; the files stay.
func (in *c20Inner) shutdown() {
	for i := len(in.closers) - 1; i >= 0; i-- {
		func() {
			defer func() { _ = recover() }()
			in.closers[i]()
		}()
	}
	in.closers = nil
}

func (in *c20Inner) teardown() {
	in.shutdown()
	if in.rmDir != nil {
		in.rmDir()
		in.rmDir = nil
	}
}

func (in *c20Inner) takeBroadcast() [][]byte {
	in.bmu.Lock()
	defer in.bmu.Unlock()
	b := in.bcast
	in.bcast = nil
	return b
}

func (in *c20Inner) step(req c20Req) *c20Obs {
	obs := &c20Obs{Now: time.Now().Unix()}
	switch req.kind {
	case "blk":
		h := in.chain.tip.Load() + 1
		in.chain.tip.Store(h)
		in.notifier.notify(h)
		obs.Verdict = "ok"
		time.Sleep(c20StepSleep)
		synctest.Wait()
	case "prune":
		// one tick of the Builder's zombie-prune ticker (see c20PruneInterval)
		time.Sleep(c20PruneInterval)
		synctest.Wait()
		obs.Verdict = "ok"
	case "restart":
		// lnd is stopped and started again on the same database: every in-memory
		// structure (the store's reject and channel caches, the graph cache, the
		// gossiper's premature-update and future-message caches, recent rejects,
		// ban scores, rate limiters) starts empty
		in.shutdown()
		synctest.Wait()
		obs.Verdict = "ok"
		var err error
		func() {
			defer func() {
				if r := recover(); r != nil {
					err = fmt.Errorf("panic: %v", r)
				}
			}()
			err = in.open()
		}()
		if err != nil {
			in.shutdown()
			obs.Verdict = "err: restart failed: " + err.Error()
			obs.Graph = []string{"ERR restart: " + err.Error()}
			return obs
		}
		obs.Broadcast = in.takeBroadcast()
		// never pointed lookups in the restart step itself: the first lookup of a
		// channel after a restart is to be made by a gossip message
		obs.Graph, obs.Zombies, obs.ZombieKey, obs.CacheDiff = in.observe(true)
		return obs
	default:
		msgs := req.msgs
		if req.kind == "msg" {
			msgs = []lnwire.Message{req.msg}
		}
		var futs []actor.Future[error]
		for _, m := range msgs {
			in.watchScid(m)
		}
		for i, m := range msgs {
			pk := c20PeerKey(req.peer + i)
			if in.cfg.SamePeer {
				pk = c20PeerKey(0)
			}
			peer := &mockPeer{pk: pk.PubKey()}
			// returns as soon as the gossiper's network handler has taken the
			// message: the next one is handed over while this one is processed
			futs = append(futs, in.goss.ProcessRemoteAnnouncement(context.Background(), m, peer))
		}
		time.Sleep(c20StepSleep)
		synctest.Wait()
		done, cancel := context.WithCancel(context.Background())
		cancel()
		var verdicts []string
		for _, fut := range futs {
			gerr, ctxErr := actor.AwaitFuture[error](done, fut)
			switch {
			case ctxErr != nil:
				verdicts = append(verdicts, "pending")
			case gerr != nil:
				verdicts = append(verdicts, "err: "+gerr.Error())
			default:
				verdicts = append(verdicts, "ok")
			}
		}
		obs.Verdict = strings.Join(verdicts, " & ")
	}
	obs.Broadcast = in.takeBroadcast()
	obs.Graph, obs.Zombies, obs.ZombieKey, obs.CacheDiff = in.observe(in.cfg.LazyViews)
	return obs
}

// ---------------------------------------------------------------------------
// reading the graph back (the same exported reads the router and the RPC use)

func c20PolicyLine(p *models.ChannelEdgePolicy) string {
	if p == nil {
		return "-"
	}
	return fmt.Sprintf("{ts=%d mf=%d cf=%d tld=%d min=%d max=%d base=%d rate=%d extra=%x sig=%x}",
		p.LastUpdate.Unix(), p.MessageFlags, p.ChannelFlags, p.TimeLockDelta, p.MinHTLC, p.MaxHTLC,
		p.FeeBaseMSat, p.FeeProportionalMillionths, []byte(p.ExtraOpaqueData), c20SigPrefix(p.SigBytes))
}

func c20Short(b []byte) []byte {
	if len(b) > 6 {
		return b[:6]
	}
	return b
}

// c20SigPrefix renders the first bytes of a stored (DER) signature in the compact
// r||s form used on the wire.
func c20SigPrefix(der []byte) []byte {
	if len(der) == 0 {
		return nil
	}
	s, err := lnwire.NewSigFromECDSARawSignature(der)
	if err != nil {
		return append([]byte("der:"), c20Short(der)...)
	}
	return s.RawBytes()[:6]
}

// c20FeatureBits lists the bits set in an encoded feature vector (BOLT 9: bit 0 is
// the least significant bit of the last byte).
func c20FeatureBits(enc []byte) []int {
	bits := []int{}
	for i := 0; i < len(enc)*8; i++ {
		if enc[len(enc)-1-i/8]&(1<<(i%8)) != 0 {
			bits = append(bits, i)
		}
	}
	return bits
}

func c20ChanLine(info *models.ChannelEdgeInfo, p1, p2 *models.ChannelEdgePolicy) string {
	var feat []byte
	if info.Features != nil && info.Features.RawFeatureVector != nil {
		var fb bytes.Buffer
		// (EncodeBase256: the bytes only, no length prefix)
		_ = info.Features.RawFeatureVector.EncodeBase256(&fb)
		feat = fb.Bytes()
	}
	var b1, b2 []byte
	info.BitcoinKey1Bytes.WhenSome(func(v route.Vertex) { b1 = v[:] })
	info.BitcoinKey2Bytes.WhenSome(func(v route.Vertex) { b2 = v[:] })
	return fmt.Sprintf("ch %d n1=%x n2=%x b1=%x b2=%x cap=%d op=%x:%d proof=%v feat=%v extra=%x p1=%s p2=%s",
		info.ChannelID, info.NodeKey1Bytes[:6], info.NodeKey2Bytes[:6], c20Short(b1), c20Short(b2),
		int64(info.Capacity), info.ChannelPoint.Hash[:4], info.ChannelPoint.Index, info.AuthProof != nil,
		c20FeatureBits(feat), info.ExtraOpaqueData, c20PolicyLine(p1), c20PolicyLine(p2))
}

func c20NodeLine(n *models.Node) string {
	var addrs []string
	for _, a := range n.Addresses {
		addrs = append(addrs, a.String())
	}
	var feat []byte
	if n.Features != nil && n.Features.RawFeatureVector != nil {
		var fb bytes.Buffer
		_ = n.Features.RawFeatureVector.Encode(&fb)
		feat = fb.Bytes()
	}
	col := ""
	n.Color.WhenSome(func(c color.RGBA) { col = fmt.Sprintf("%02x%02x%02x", c.R, c.G, c.B) })
	return fmt.Sprintf("nd %x ts=%d ann=%v alias=%q color=%s feat=%x addrs=%s extra=%x sig=%x",
		n.PubKeyBytes[:6], n.LastUpdate.Unix(), n.HaveAnnouncement(), n.Alias.UnwrapOr(""), col, feat,
		strings.Join(addrs, ","), n.ExtraOpaqueData, c20SigPrefix(n.AuthSigBytes))
}

var c20UniverseScids = []lnwire.ShortChannelID{c20ScidGood, c20ScidSpent, c20ScidScript, c20ScidTiny, c20ScidNoOut, c20ScidNoTx, c20ScidFuture}

// watchScid adds the scid a message refers to to the scids whose zombie-index entry
// is read back after every step.
func (in *c20Inner) watchScid(m lnwire.Message) {
	var s lnwire.ShortChannelID
	switch d := m.(type) {
	case *lnwire.ChannelAnnouncement1:
		s = d.ShortChannelID
	case *lnwire.ChannelUpdate1:
		s = d.ShortChannelID
	default:
		return
	}
	for _, k := range c20UniverseScids {
		if k == s {
			return
		}
	}
	for _, k := range in.watch {
		if k == s {
			return
		}
	}
	in.watch = append(in.watch, s)
}

func (in *c20Inner) observe(lazy bool) (lines []string, zombies []uint64, zombieKeys []string, cacheDiff string) {
	ctx := context.Background()
	type dirKey struct {
		scid uint64
		from route.Vertex
	}
	type dirView struct {
		to      route.Vertex
		cap     int64
		pol     *models.ChannelEdgePolicy // policy of the direction from -> to
		inverse *models.ChannelEdgePolicy
	}
	dbDirs := map[dirKey]dirView{}
	var nodes []route.Vertex
	err := in.v1.ForEachChannel(ctx, func(info *models.ChannelEdgeInfo, p1, p2 *models.ChannelEdgePolicy) error {
		lines = append(lines, c20ChanLine(info, p1, p2))
		dbDirs[dirKey{info.ChannelID, info.NodeKey1Bytes}] = dirView{info.NodeKey2Bytes, int64(info.Capacity), p1, p2}
		dbDirs[dirKey{info.ChannelID, info.NodeKey2Bytes}] = dirView{info.NodeKey1Bytes, int64(info.Capacity), p2, p1}
		return nil
	}, func() { lines = nil })
	if err != nil {
		lines = append(lines, "ERR ForEachChannel: "+err.Error())
	}
	var nlines []string
	self := c20Pub(c20Self)
	err = in.v1.ForEachNode(ctx, func(n *models.Node) error {
		if n.PubKeyBytes == self {
			return nil
		}
		if n.HaveAnnouncement() {
			nlines = append(nlines, c20NodeLine(n))
		} else {
			nlines = append(nlines, fmt.Sprintf("nd %x shell", n.PubKeyBytes[:6]))
		}
		nodes = append(nodes, n.PubKeyBytes)
		return nil
	}, func() { nlines = nil; nodes = nil })
	if err != nil {
		nlines = append(nlines, "ERR ForEachNode: "+err.Error())
	}
	lines = append(lines, nlines...)
	sort.Strings(lines)

	// pointed lookups (these go through the store's reject / channel caches) must
	// tell the same story as the iteration
	var diffs []string
	inGraph := map[uint64]bool{}
	for _, l := range lines {
		var id uint64
		if _, err := fmt.Sscanf(l, "ch %d ", &id); err != nil {
			continue
		}
		inGraph[id] = true
		if lazy {
			continue
		}
		info, p1, p2, err := in.gdb.FetchChannelEdgesByID(ctx, id)
		if err != nil {
			diffs = append(diffs, fmt.Sprintf("FetchChannelEdgesByID(%d): %v", id, err))
			continue
		}
		if got := c20ChanLine(info, p1, p2); got != l {
			diffs = append(diffs, fmt.Sprintf("FetchChannelEdgesByID(%d) = %s, iteration = %s", id, got, l))
		}
		t1, t2, exists, zombie, err := in.gdb.HasV1ChannelEdge(ctx, id)
		w1, w2 := int64(0), int64(0)
		if p1 != nil {
			w1 = p1.LastUpdate.Unix()
		}
		if p2 != nil {
			w2 = p2.LastUpdate.Unix()
		}
		g1, g2 := t1.Unix(), t2.Unix()
		if t1.IsZero() || g1 < 0 {
			g1 = 0
		}
		if t2.IsZero() || g2 < 0 {
			g2 = 0
		}
		if err != nil || !exists || zombie || g1 != w1 || g2 != w2 {
			diffs = append(diffs, fmt.Sprintf("HasV1ChannelEdge(%d) = (%d,%d,exists=%v,zombie=%v,%v), stored policies (%d,%d)", id, g1, g2, exists, zombie, err, w1, w2))
		}
	}
	// the in-memory cache pathfinding reads from
	seen := map[dirKey]bool{}
	for _, n := range nodes {
		err := in.gdb.ForEachNodeDirectedChannel(ctx, n, func(dc *graphdb.DirectedChannel) error {
			k := dirKey{dc.ChannelID, n}
			seen[k] = true
			want, ok := dbDirs[k]
			if !ok {
				diffs = append(diffs, fmt.Sprintf("cache has channel %d at node %x, the store does not", dc.ChannelID, n[:6]))
				return nil
			}
			if dc.OtherNode != want.to || int64(dc.Capacity) != want.cap || dc.OutPolicySet != (want.pol != nil) ||
				(dc.InPolicy != nil) != (want.inverse != nil) {
				diffs = append(diffs, fmt.Sprintf("cache channel %d at %x: other=%x cap=%d out=%v in=%v, store: other=%x cap=%d out=%v in=%v",
					dc.ChannelID, n[:6], dc.OtherNode[:6], dc.Capacity, dc.OutPolicySet, dc.InPolicy != nil,
					want.to[:6], want.cap, want.pol != nil, want.inverse != nil))
				return nil
			}
			if ip, w := dc.InPolicy, want.inverse; ip != nil {
				if ip.TimeLockDelta != w.TimeLockDelta || ip.MinHTLC != w.MinHTLC || ip.MaxHTLC != w.MaxHTLC ||
					ip.FeeBaseMSat != w.FeeBaseMSat || ip.FeeProportionalMillionths != w.FeeProportionalMillionths ||
					ip.IsDisabled != w.ChannelFlags.IsDisabled() || ip.HasMaxHTLC != w.MessageFlags.HasMaxHtlc() {
					diffs = append(diffs, fmt.Sprintf("cache in-policy of channel %d at %x = %+v, store = %s", dc.ChannelID, n[:6], *ip, c20PolicyLine(w)))
				}
			}
			return nil
		}, func() {})
		if err != nil {
			diffs = append(diffs, fmt.Sprintf("ForEachNodeDirectedChannel(%x): %v", n[:6], err))
		}
	}
	for k := range dbDirs {
		if !seen[k] {
			diffs = append(diffs, fmt.Sprintf("store has channel %d at node %x, the cache does not", k.scid, k.from[:6]))
		}
	}

	for _, s := range append(append([]lnwire.ShortChannelID{}, c20UniverseScids...), in.watch...) {
		z, k1, k2, zerr := in.v1.IsZombieEdge(ctx, s.ToUint64())
		if zerr != nil {
			diffs = append(diffs, fmt.Sprintf("IsZombieEdge(%d): %v", s.ToUint64(), zerr))
		}
		if z {
			zombies = append(zombies, s.ToUint64())
			zombieKeys = append(zombieKeys, fmt.Sprintf("%d:[%s,%s]", s.ToUint64(), c20KeyName(k1), c20KeyName(k2)))
		}
		if z && inGraph[s.ToUint64()] {
			diffs = append(diffs, fmt.Sprintf("channel %d is in the graph and in the zombie index", s.ToUint64()))
		}
		if lazy || inGraph[s.ToUint64()] || zerr != nil {
			continue
		}
		// the pointed lookup the gossiper uses (reject cache) must tell the same
		// story as the zombie index on disk
		_, _, exists, zombie, err := in.gdb.HasV1ChannelEdge(ctx, s.ToUint64())
		if err != nil || exists || zombie != z {
			diffs = append(diffs, fmt.Sprintf("HasV1ChannelEdge(%d) = (exists=%v,zombie=%v,%v), the store has no such channel, zombie index: %v", s.ToUint64(), exists, zombie, err, z))
		}
	}
	sort.Strings(diffs)
	cacheDiff = strings.Join(diffs, "; ")
	return lines, zombies, zombieKeys, cacheDiff
}

// c20KeyName names a node key stored in the zombie index (reporting only).
func c20KeyName(k [33]byte) string {
	switch k {
	case [33]byte{}:
		return "blank"
	case c20Pub(c20Node1):
		return "node_1"
	case c20Pub(c20Node2):
		return "node_2"
	case c20Pub(c20Evil):
		return "evil"
	}
	return fmt.Sprintf("%x", k[:6])
}

// ---------------------------------------------------------------------------
// outside-the-bubble API

func (w *c20World) call(req c20Req) (*c20Obs, error) {
	if w.closed {
		return nil, fmt.Errorf("%w: world closed", errC20Harness)
	}
	req.reply = make(chan c20Resp, 1)
	// Real-time watchdog: never an oracle, only a guard against a bubble that can
	// no longer make progress (e.g. a goroutine waiting for a sync.Mutex whose
	// holder waits for virtual time). The execution is abandoned and counted as a
	// harness error (exhaustive:false), never as a verdict.
	watchdog := time.NewTimer(c20Watchdog)
	defer watchdog.Stop()
	select {
	case w.reqs <- req:
	case <-w.done:
		return nil, fmt.Errorf("%w: bubble died: %s", errC20Harness, w.fatal)
	case <-watchdog.C:
		w.closed = true
		return nil, fmt.Errorf("%w: world did not accept a request within %s", errC20Harness, c20Watchdog)
	}
	select {
	case r := <-req.reply:
		if r.panic != "" {
			panic("lnd panicked while processing a gossip message: " + r.panic)
		}
		return r.obs, nil
	case <-w.done:
		return nil, fmt.Errorf("%w: bubble died: %s", errC20Harness, w.fatal)
	case <-watchdog.C:
		w.closed = true
		return nil, fmt.Errorf("%w: step did not reach quiescence within %s of real time", errC20Harness, c20Watchdog)
	}
}

const c20Watchdog = 3 * time.Minute

var errC20Harness = errors.New("c20 harness error")

// Deliver hands one decoded message to the gossiper as peer number `peer`.
func (w *c20World) Deliver(msg lnwire.Message, peer int) (*c20Obs, error) {
	return w.call(c20Req{kind: "msg", msg: msg, peer: peer})
}

// DeliverBurst hands several messages over back to back, without waiting for the
// first to be processed; message i comes from peer number peer+i.
func (w *c20World) DeliverBurst(msgs []lnwire.Message, peer int) (*c20Obs, error) {
	return w.call(c20Req{kind: "burst", msgs: msgs, peer: peer})
}

// Block connects the next block of the universe.
func (w *c20World) Block() (*c20Obs, error) { return w.call(c20Req{kind: "blk"}) }

// Restart stops lnd's gossip intake and starts it again on the same database.
func (w *c20World) Restart() (*c20Obs, error) { return w.call(c20Req{kind: "restart"}) }

// Prune lets one tick of the Builder's zombie-prune ticker pass.
func (w *c20World) Prune() (*c20Obs, error) { return w.call(c20Req{kind: "prune"}) }

func (w *c20World) Close() {
	if w.closed {
		return
	}
	w.closed = true
	t := time.NewTimer(c20Watchdog)
	defer t.Stop()
	select {
	case w.reqs <- c20Req{kind: "close"}:
	case <-w.done:
		return
	case <-t.C:
		return
	}
	select {
	case <-w.done:
	case <-t.C:
	}
}

func c20Hex(b []byte) string { return hex.EncodeToString(b) }
