// C20 — the reference model, written from the property statement and BOLT 7; it
// shares no validation code with lnd (signatures are checked over the raw wire
// bytes with btcec directly, the funding script is rebuilt by hand, the chain is
// read from the harness' own universe).
//
//	channel_announcement enters the graph  <=>  chain_hash is ours
//	    and all four signatures verify over double-SHA256(wire bytes after the
//	        signatures) under node_id_1, node_id_2, bitcoin_key_1, bitcoin_key_2
//	    and the output the scid points at exists, is unspent and its script is the
//	        2-of-2 of the two bitcoin keys in the form the announced channel kind
//	        uses: the simple-taproot feature bits 180/181 in `features` announce a
//	        simple taproot channel (P2TR of the BIP 86-tweaked MuSig2 aggregate of
//	        the two sorted keys), any other vector (empty, unknown odd or even
//	        bits) a BOLT 3 channel (P2WSH of "2 <k_lo> <k_hi> 2 OP_CHECKMULTISIG");
//	        for the final taproot bits 80/81, which gossip v1 does not define, either
//	        2-of-2 form is acceptable (c20FundingForms)
//	    and the channel is not known yet (a duplicate changes nothing)
//	channel_update is applied  <=>  chain_hash is ours, the channel is known,
//	    the signature verifies under the node owning the direction bit,
//	    timestamp != 0 and strictly newer than the stored one of that direction,
//	    fields are consistent: option_channel_htlc_max set, 0 < htlc_maximum,
//	    htlc_minimum <= htlc_maximum <= capacity, timestamp not more than two
//	    weeks ahead of the clock
//	node_announcement is applied  <=>  the node has a known channel, the signature
//	    verifies under node_id, timestamp != 0 and strictly newer than the stored one
//	anything else: graph unchanged, nothing relayed.
//
// The zombie index is graph state as well ("pathfinding trusts" that a pruned
// channel stays away until its owner speaks up again):
//
//	an entry of the zombie index is removed (the channel may be announced again)
//	    only by a channel_update whose signature verifies under the node owning
//	    the update's direction bit, that is fresh (not older than the two-week
//	    horizon the channel was pruned for, timestamp != 0, not more than two weeks
//	    ahead) and whose signer is allowed to resurrect: either node normally; with
//	    strict zombie pruning only the node whose own policy was the older (or
//	    missing) one when the channel was pruned.
//	an entry is added only by a prune tick (channels whose policies are both --
//	    strict: either -- missing or older than two weeks) or by an announcement
//	    that failed the funding check.
//
// restart (lnd stopped and started on the same database) changes nothing in the
// graph or the zombie index; updates held in memory for a not-yet-known channel or
// block are gone.
//
// Beyond validity the model keeps the bookkeeping needed to predict *later*
// verdicts: updates held back for a channel that is not known yet (replayed when
// its announcement is accepted), messages about blocks beyond the tip (replayed
// when the block arrives), and the scids lnd refuses to look at again after a
// failed funding check (zombie / closed-scid index). The last one is never used to
// excuse a graph change; it only excuses dropping an otherwise valid message.
package discovery

import (
	"bytes"
	"crypto/sha256"
	"fmt"
	"sort"
	"strings"
	"sync"

	"github.com/btcsuite/btcd/btcec/v2"
	"github.com/btcsuite/btcd/btcec/v2/ecdsa"
	"github.com/btcsuite/btcd/chainhash/v2"
	"github.com/btcsuite/btcd/wire/v2"
	"github.com/lightningnetwork/lnd/lnwire"
)

const c20FutureSkew = int64(14 * 24 * 3600)

// c20ZombieHorizon: a policy older than this is stale (BOLT 7: two weeks).
const c20ZombieHorizon = int64(14 * 24 * 3600)

// c20StoreExtraLimit is the documented limit of the graph store for the extra
// opaque data of one record (graphdb.MaxAllowedExtraOpaqueBytes): a message with
// more may be dropped although it is authentic.
const c20StoreExtraLimit = 10000

// resurrection rights of a node
const (
	c20MayNot    = int8(0)
	c20May       = int8(1)
	c20MayEither = int8(2) // the statement does not decide (tie of the two policy timestamps)
)

// c20MZombie is an entry of the zombie index made by a prune tick.
type c20MZombie struct {
	n   [2][33]byte // the nodes owning direction 0 / 1 of the pruned channel
	may [2]int8
}

type c20MChan struct {
	scid           uint64
	n1, n2, b1, b2 [33]byte
	capSat         int64
	op             wire.OutPoint
	feat           []int // the feature bits of the announcement
	extra          []byte
	pol            [2]*c20MPol
}

type c20MPol struct {
	ts   uint32
	line string
}

type c20MNode struct {
	ts   uint32 // 0: known only through a channel (no announcement)
	line string
}

type c20Held struct {
	id  string
	msg *c20Msg
}

type c20Model struct {
	tip        uint32
	chans      map[uint64]*c20MChan
	nodes      map[[33]byte]*c20MNode
	suppressed map[uint64]string // scid -> why lnd will not look at it again
	stash      map[uint64][]c20Held
	deferred   []c20Held
	zombies    map[uint64]*c20MZombie // entries made by prune ticks

	// configuration
	strict    bool // StrictZombiePruning
	tinyCache bool // reject/channel cache of one entry

	// provenance of lnd's in-memory caches (part of the explorer's key only, never
	// of a verdict): how often lnd was restarted, which scids the gossip path has
	// looked up in the store since the last restart, and the last one looked up
	restarts int
	warm     map[uint64]bool
	last     uint64
}

func c20NewModel(cfg c20Cfg) *c20Model {
	return &c20Model{tip: c20TipStart, chans: map[uint64]*c20MChan{}, nodes: map[[33]byte]*c20MNode{},
		suppressed: map[uint64]string{}, stash: map[uint64][]c20Held{}, zombies: map[uint64]*c20MZombie{},
		warm: map[uint64]bool{}, strict: cfg.Strict, tinyCache: cfg.CacheSize == 1}
}

func (m *c20Model) clone() *c20Model {
	c := c20NewModel(c20Cfg{})
	c.tip = m.tip
	c.strict, c.tinyCache, c.restarts, c.last = m.strict, m.tinyCache, m.restarts, m.last
	for k, v := range m.zombies {
		cp := *v
		c.zombies[k] = &cp
	}
	for k := range m.warm {
		c.warm[k] = true
	}
	for k, v := range m.chans {
		cp := *v
		c.chans[k] = &cp
	}
	for k, v := range m.nodes {
		cp := *v
		c.nodes[k] = &cp
	}
	for k, v := range m.suppressed {
		c.suppressed[k] = v
	}
	for k, v := range m.stash {
		c.stash[k] = append([]c20Held{}, v...)
	}
	c.deferred = append([]c20Held{}, m.deferred...)
	return c
}

// render is the canonical routable graph, in the format of c20Inner.observe.
func (m *c20Model) render() []string {
	var lines []string
	for _, ch := range m.chans {
		p := [2]string{"-", "-"}
		for i := range ch.pol {
			if ch.pol[i] != nil {
				p[i] = ch.pol[i].line
			}
		}
		lines = append(lines, fmt.Sprintf("ch %d n1=%x n2=%x b1=%x b2=%x cap=%d op=%x:%d proof=%v feat=%v extra=%x p1=%s p2=%s",
			ch.scid, ch.n1[:6], ch.n2[:6], ch.b1[:6], ch.b2[:6], ch.capSat, ch.op.Hash[:4], ch.op.Index, true,
			ch.feat, ch.extra, p[0], p[1]))
	}
	for pub, n := range m.nodes {
		if n.ts == 0 {
			lines = append(lines, fmt.Sprintf("nd %x shell", pub[:6]))
		} else {
			lines = append(lines, n.line)
		}
	}
	sort.Strings(lines)
	return lines
}

// key is the canonical state key of the explorer (see the argument in c20_test.go).
func (m *c20Model) key() string {
	var b strings.Builder
	fmt.Fprintf(&b, "tip=%d\n", m.tip)
	b.WriteString(strings.Join(m.render(), "\n"))
	var sup []string
	for s, why := range m.suppressed {
		sup = append(sup, fmt.Sprintf("%d:%s", s, why))
	}
	sort.Strings(sup)
	fmt.Fprintf(&b, "\nsuppressed=%v", sup)
	var st []string
	for s, l := range m.stash {
		var ids []string
		for _, h := range l {
			ids = append(ids, h.id)
		}
		// the order in which held updates are replayed is not observable (they
		// are re-injected concurrently), so the stash is a multiset
		sort.Strings(ids)
		st = append(st, fmt.Sprintf("%d:%v", s, ids))
	}
	sort.Strings(st)
	fmt.Fprintf(&b, "\nstash=%v", st)
	var df []string
	for _, h := range m.deferred {
		df = append(df, h.id)
	}
	sort.Strings(df)
	fmt.Fprintf(&b, "\ndeferred=%v", df)
	fmt.Fprintf(&b, "\nzombies=%v", m.zrender())
	if m.restarts > 0 {
		var wm []uint64
		for s := range m.warm {
			wm = append(wm, s)
		}
		sort.Slice(wm, func(i, j int) bool { return wm[i] < wm[j] })
		fmt.Fprintf(&b, "\nrestarts=%d warm=%v", m.restarts, wm)
	}
	if m.tinyCache {
		fmt.Fprintf(&b, "\nlast=%d", m.last)
	}
	h := sha256.Sum256([]byte(b.String()))
	return fmt.Sprintf("%x", h[:12])
}

// zrender lists the zombie entries made by prune ticks, with the rights.
func (m *c20Model) zrender() []string {
	var z []string
	for s, e := range m.zombies {
		z = append(z, fmt.Sprintf("%d:may=%v", s, e.may))
	}
	sort.Strings(z)
	return z
}

// zombiesConsistent compares the observed zombie index (restricted to the scids of
// the universe) with the model: an entry made by a prune tick must be there; an
// scid marked after a failed funding check may or may not be there (lnd uses the
// zombie index or the closed-scid index, depending on the failure); nothing else
// may be there. Returns "" or the first difference.
func (m *c20Model) zombiesConsistent(observed []uint64) string {
	obs := map[uint64]bool{}
	for _, s := range observed {
		obs[s] = true
	}
	for _, s := range c20ZombieScids(observed, m) {
		_, z := m.zombies[s]
		_, sup := m.suppressed[s]
		switch {
		case z && !obs[s]:
			return fmt.Sprintf("scid %d is missing from the zombie index", s)
		case !z && !sup && obs[s]:
			return fmt.Sprintf("scid %d is in the zombie index", s)
		}
	}
	return ""
}

// c20ZombieScids: the scids of the universe plus every scid that is in the observed
// zombie index or in the zombie bookkeeping of one of the models, ascending.
func c20ZombieScids(observed []uint64, models ...*c20Model) []uint64 {
	set := map[uint64]bool{}
	for _, sc := range c20UniverseScids {
		set[sc.ToUint64()] = true
	}
	for _, s := range observed {
		set[s] = true
	}
	for _, m := range models {
		for s := range m.zombies {
			set[s] = true
		}
		for s := range m.suppressed {
			set[s] = true
		}
	}
	var out []uint64
	for s := range set {
		out = append(out, s)
	}
	sort.Slice(out, func(i, j int) bool { return out[i] < out[j] })
	return out
}

// zombieVerdict names the zombie-index clause that failed: the graph matches the
// candidates cands of v, the zombie index matches none of them.
func (m *c20Model) zombieVerdict(v *c20Verdict, cands []int, observed []uint64) (clause, what string) {
	obs := map[uint64]bool{}
	for _, s := range observed {
		obs[s] = true
	}
	for _, s := range c20ZombieScids(observed, append([]*c20Model{m}, v.After...)...) {
		_, was := m.zombies[s]
		all, none := true, true
		for _, i := range cands {
			if _, z := v.After[i].zombies[s]; z {
				none = false
			} else {
				all = false
			}
		}
		_, sup := v.After[cands[0]].suppressed[s]
		switch {
		case was && all && !obs[s]:
			return "zombie-resurrected-by-unauthorised-update", fmt.Sprintf("the zombie-index entry of channel %d was removed (the channel can be announced again), but the message is not a fresh update signed by the node owning its direction and allowed to resurrect the channel", s)
		case was && none && obs[s]:
			return "authorised-resurrection-refused", fmt.Sprintf("the update is fresh, signed by the node owning its direction, and that node is allowed to resurrect channel %d, but the zombie-index entry stayed", s)
		case !was && all && !obs[s]:
			return "pruned-channel-not-in-zombie-index", fmt.Sprintf("channel %d was pruned as a zombie but has no zombie-index entry", s)
		case !was && none && !sup && obs[s]:
			return "zombie-index-entry-added", fmt.Sprintf("a zombie-index entry for scid %d appeared, though no prune tick and no failed funding check explains it", s)
		}
	}
	return "zombie-index-differs", v.After[cands[0]].zombiesConsistent(observed)
}

// ---------------------------------------------------------------------------
// primitive checks

// c20SigOK verifies a 64-byte compact signature over double-SHA256(data). It is a
// pure function of its arguments; results are memoised (the explorer judges the
// same catalogue messages many thousand times).
func c20SigOK(sig []byte, pub [33]byte, data []byte) bool {
	if len(sig) != 64 {
		return false
	}
	h := sha256.New()
	h.Write(sig)
	h.Write(pub[:])
	h.Write(data)
	var k [32]byte
	h.Sum(k[:0])
	if v, ok := c20SigMemo.Load(k); ok {
		return v.(bool)
	}
	ok := c20SigVerify(sig, pub, data)
	c20SigMemo.Store(k, ok)
	return ok
}

var c20SigMemo sync.Map

func c20SigVerify(sig []byte, pub [33]byte, data []byte) bool {
	var r, s btcec.ModNScalar
	if r.SetByteSlice(sig[:32]) || s.SetByteSlice(sig[32:]) || r.IsZero() || s.IsZero() {
		return false
	}
	pk, err := btcec.ParsePubKey(pub[:])
	if err != nil {
		return false
	}
	return ecdsa.NewSignature(&r, &s).Verify(chainhash.DoubleHashB(data), pk)
}

// c20Verdict is the model's judgement of one message in one state.
type c20Verdict struct {
	Valid      bool        // authentic, fresh and consistent: the graph must change
	Why        string      // outcome class
	Suppressed string      // a documented rule under which lnd may drop this valid message
	Finals     [][]string  // acceptable renderings of the graph after the step (len 1 unless replay order matters)
	After      []*c20Model // the model states matching Finals
	Relayable  [][]byte    // wire encodings that may be handed to peers in this step
}

func (m *c20Model) unchanged(why string) *c20Verdict {
	return &c20Verdict{Why: why, Finals: [][]string{m.render()}, After: []*c20Model{m}}
}

// step judges msg (delivered at virtual time now) and returns the verdict; the
// receiver is not modified (the successor states are in After).
func (m *c20Model) step(msg *c20Msg, now int64) *c20Verdict {
	switch d := msg.Decoded.(type) {
	case *lnwire.ChannelAnnouncement1:
		v := m.stepCA(msg, d, now)
		if d.ChainHash == c20MainChain && d.ShortChannelID.BlockHeight <= m.tip {
			m.touched(v, d.ShortChannelID.ToUint64())
		}
		return v
	case *lnwire.ChannelUpdate1:
		v := m.stepCU(msg, d, now)
		if d.ChainHash == c20MainChain && d.ShortChannelID.BlockHeight <= m.tip && d.Timestamp != 0 {
			m.touched(v, d.ShortChannelID.ToUint64())
		}
		return v
	case *lnwire.NodeAnnouncement1:
		return m.stepNA(msg, d)
	}
	return m.unchanged("not-a-gossip-message")
}

// withTouch returns m with the lookup provenance of scid recorded (m itself if
// nothing changes).
func (m *c20Model) withTouch(scid uint64) *c20Model {
	if (m.restarts == 0 && !m.tinyCache) || (m.warm[scid] && m.last == scid) {
		return m
	}
	c := m.clone()
	c.warm[scid] = true
	c.last = scid
	return c
}

// touched records in the successor states that the gossip path has looked scid up
// in the store (cache provenance for the explorer's key; no verdict depends on it).
func (m *c20Model) touched(v *c20Verdict, scid uint64) {
	if m.restarts == 0 && !m.tinyCache {
		return
	}
	for i, a := range v.After {
		if a.warm[scid] && a.last == scid {
			continue
		}
		c := a.clone()
		c.warm[scid] = true
		c.last = scid
		v.After[i] = c
	}
}

func (m *c20Model) stepCA(msg *c20Msg, a *lnwire.ChannelAnnouncement1, now int64) *c20Verdict {
	scid := a.ShortChannelID.ToUint64()
	if a.ChainHash != c20MainChain {
		return m.unchanged("ca:other-chain")
	}
	if a.ShortChannelID.BlockHeight > m.tip {
		n := m.clone()
		n.deferred = append(n.deferred, c20Held{msg.ID, msg})
		v := n.unchanged("ca:block-not-yet-known(held)")
		return v
	}
	if _, known := m.chans[scid]; known {
		return m.unchanged("ca:duplicate")
	}
	if _, z := m.zombies[scid]; z {
		// pruned for being stale: stays away until resurrected by an update
		return m.unchanged("ca:zombie-channel")
	}
	w := msg.Wire
	if len(w) < c20CAOff {
		return m.unchanged("ca:short")
	}
	data := w[c20CAOff:]
	sigs := [4][]byte{w[2:66], w[66:130], w[130:194], w[194:258]}
	keys := [4][33]byte{a.NodeID1, a.NodeID2, a.BitcoinKey1, a.BitcoinKey2}
	names := [4]string{"node1", "node2", "btc1", "btc2"}
	for i := range sigs {
		if !c20SigOK(sigs[i], keys[i], data) {
			return m.unchanged("ca:bad-sig:" + names[i])
		}
	}
	// authentic from here on; now the chain
	out, op := c20U.lookup(a.ShortChannelID, m.tip)
	feat := c20CAFeatureBits(w)
	forms, kind := c20FundingForms(feat, a.BitcoinKey1, a.BitcoinKey2)
	fundingWhy := ""
	switch {
	case out == nil:
		fundingWhy = "ca:no-such-output"
	case !c20ScriptIn(out.pkScript, forms):
		fundingWhy = "ca:wrong-script"
	case out.spent:
		fundingWhy = "ca:spent"
	}
	refused := func(why string) *c20Model {
		n := m.clone()
		if _, already := n.suppressed[scid]; !already {
			n.suppressed[scid] = why
		}
		return n
	}
	if fundingWhy != "" {
		return refused(fundingWhy + kind).unchanged(fundingWhy + kind)
	}
	v := &c20Verdict{Valid: true, Why: "ca:valid" + kind}
	if len(forms) > 1 {
		// the statement does not say which 2-of-2 form such an announcement refers
		// to: accepting it and refusing it (as a funding-check failure) are both fine
		v.Why = "ca:2-of-2-of-the-keys,form-undecided" + kind
		r := refused(v.Why)
		defer func() {
			v.Finals = append(v.Finals, r.render())
			v.After = append(v.After, r)
		}()
	}
	if why, sup := m.suppressed[scid]; sup {
		v.Suppressed = "scid was marked after an earlier announcement failed the funding check (" + why + ")"
	}
	if len(a.ExtraOpaqueData) > c20StoreExtraLimit {
		v.Suppressed = "extra opaque data above the graph store's documented limit"
	}
	n := m.clone()
	n.chans[scid] = &c20MChan{scid: scid, n1: a.NodeID1, n2: a.NodeID2, b1: a.BitcoinKey1, b2: a.BitcoinKey2,
		capSat: out.value, op: op, feat: feat, extra: a.ExtraOpaqueData}
	for _, id := range [][33]byte{a.NodeID1, a.NodeID2} {
		if _, ok := n.nodes[id]; !ok {
			n.nodes[id] = &c20MNode{}
		}
	}
	held := n.stash[scid]
	delete(n.stash, scid)
	v.Relayable = append(v.Relayable, msg.Wire)
	n.replayHeld(held, now, v)
	return v
}

// c20CAFeatureBits reads the feature bits of a channel_announcement from its wire
// bytes (type, four signatures, u16 length, feature bytes).
func c20CAFeatureBits(w []byte) []int {
	if len(w) < c20CAOff+2 {
		return []int{}
	}
	l := int(w[c20CAOff])<<8 | int(w[c20CAOff+1])
	if len(w) < c20CAOff+2+l {
		return []int{}
	}
	return c20FeatureBits(w[c20CAOff+2 : c20CAOff+2+l])
}

// c20FundingForms: the funding output scripts that count as "the 2-of-2 of the two
// bitcoin keys" for an announcement with these feature bits, and the channel kind
// as a suffix for outcome classes.
func c20FundingForms(feat []int, k1, k2 [33]byte) (forms [][]byte, kind string) {
	has := func(b int) bool {
		for _, f := range feat {
			if f == b {
				return true
			}
		}
		return false
	}
	switch {
	case has(180) || has(181):
		return [][]byte{c20P2TRMuSig2(k1, k2, true)}, "[taproot]"
	case has(80) || has(81):
		return [][]byte{c20P2WSH2of2(k1, k2), c20P2TRMuSig2(k1, k2, true)}, "[taproot-final-bits]"
	case len(feat) > 0:
		return [][]byte{c20P2WSH2of2(k1, k2)}, "[legacy,features]"
	}
	return [][]byte{c20P2WSH2of2(k1, k2)}, ""
}

func c20ScriptIn(script []byte, forms [][]byte) bool {
	for _, f := range forms {
		if len(f) > 0 && bytes.Equal(script, f) {
			return true
		}
	}
	return false
}

// replayHeld applies the held updates in every order and collects the distinct
// outcomes (lnd re-injects them concurrently; with distinct timestamps per
// direction all orders agree).
func (n *c20Model) replayHeld(held []c20Held, now int64, v *c20Verdict) {
	seen := map[string]bool{}
	relay := map[string]bool{}
	var perm func(k int)
	// a message held twice is replayed twice; the second replay is a duplicate
	// (equal timestamp, same content) and cannot change anything
	{
		dup := map[string]bool{}
		var uniq []c20Held
		for _, h := range held {
			if !dup[h.id] {
				dup[h.id] = true
				uniq = append(uniq, h)
			}
		}
		held = uniq
	}
	idx := make([]int, len(held))
	for i := range idx {
		idx[i] = i
	}
	finish := func(cur *c20Model) {
		r := cur.render()
		k := strings.Join(r, "\n") + "|" + cur.key()
		if !seen[k] {
			seen[k] = true
			v.Finals = append(v.Finals, r)
			v.After = append(v.After, cur)
		}
	}
	var walk func(cur *c20Model, pos int)
	walk = func(cur *c20Model, pos int) {
		if pos == len(idx) {
			finish(cur)
			return
		}
		sub := cur.step(held[idx[pos]].msg, now)
		if sub.Valid {
			for _, r := range sub.Relayable {
				if !relay[string(r)] {
					relay[string(r)] = true
					v.Relayable = append(v.Relayable, r)
				}
			}
			if sub.Suppressed != "" {
				// a documented defence may drop this one held message
				walk(cur, pos+1)
			}
		}
		walk(sub.After[0], pos+1)
	}
	apply := func() { walk(n, 0) }
	perm = func(k int) {
		if k == len(idx) {
			apply()
			return
		}
		for i := k; i < len(idx); i++ {
			idx[k], idx[i] = idx[i], idx[k]
			perm(k + 1)
			idx[k], idx[i] = idx[i], idx[k]
		}
	}
	if len(idx) <= 5 {
		perm(0)
		return
	}
	// More than five distinct held messages: 6! orders and up are not worth
	// enumerating. The order only matters between two valid updates of one
	// direction with equal timestamps and different content, which no alphabet
	// contains; ascending and descending timestamp order are evaluated.
	sort.SliceStable(idx, func(a, b int) bool { return c20HeldTS(held[idx[a]]) < c20HeldTS(held[idx[b]]) })
	apply()
	for i, j := 0, len(idx)-1; i < j; i, j = i+1, j-1 {
		idx[i], idx[j] = idx[j], idx[i]
	}
	apply()
}

func c20HeldTS(h c20Held) uint32 {
	if u, ok := h.msg.Decoded.(*lnwire.ChannelUpdate1); ok {
		return u.Timestamp
	}
	return 0
}

func (m *c20Model) stepCU(msg *c20Msg, u *lnwire.ChannelUpdate1, now int64) *c20Verdict {
	scid := u.ShortChannelID.ToUint64()
	if u.ChainHash != c20MainChain {
		return m.unchanged("cu:other-chain")
	}
	if u.ShortChannelID.BlockHeight > m.tip {
		n := m.clone()
		n.deferred = append(n.deferred, c20Held{msg.ID, msg})
		return n.unchanged("cu:block-not-yet-known(held)")
	}
	if u.Timestamp == 0 {
		return m.unchanged("cu:zero-timestamp")
	}
	ch := m.chans[scid]
	if z := m.zombies[scid]; z != nil && ch == nil {
		return m.stepZombieCU(msg, u, z, now)
	}
	if ch == nil {
		if _, sup := m.suppressed[scid]; sup {
			return m.unchanged("cu:channel-failed-funding-check")
		}
		if int64(u.Timestamp)-now > c20FutureSkew {
			return m.unchanged("cu:unknown-channel,too-far-in-future")
		}
		n := m.clone()
		n.stash[scid] = append(n.stash[scid], c20Held{msg.ID, msg})
		return n.unchanged("cu:unknown-channel(held)")
	}
	dir := int(u.ChannelFlags & lnwire.ChanUpdateDirection)
	if p := ch.pol[dir]; p != nil && u.Timestamp <= p.ts {
		if u.Timestamp == p.ts {
			return m.unchanged("cu:equal-timestamp")
		}
		return m.unchanged("cu:stale")
	}
	if int64(u.Timestamp)-now > c20FutureSkew {
		return m.unchanged("cu:too-far-in-future")
	}
	switch {
	case u.MessageFlags&lnwire.ChanUpdateRequiredMaxHtlc == 0:
		return m.unchanged("cu:no-max-htlc")
	case u.HtlcMaximumMsat == 0:
		return m.unchanged("cu:max-htlc=0")
	case u.HtlcMaximumMsat < u.HtlcMinimumMsat:
		return m.unchanged("cu:max<min")
	case int64(u.HtlcMaximumMsat) > ch.capSat*1000:
		return m.unchanged("cu:max>capacity")
	}
	signer := ch.n1
	if dir == 1 {
		signer = ch.n2
	}
	w := msg.Wire
	if len(w) < c20CUOff || !c20SigOK(w[2:66], signer, w[c20CUOff:]) {
		return m.unchanged("cu:bad-sig")
	}
	n := m.clone()
	nc := n.chans[scid]
	nc.pol[dir] = &c20MPol{ts: u.Timestamp, line: fmt.Sprintf("{ts=%d mf=%d cf=%d tld=%d min=%d max=%d base=%d rate=%d extra=%x sig=%x}",
		u.Timestamp, u.MessageFlags, u.ChannelFlags, u.TimeLockDelta, u.HtlcMinimumMsat, u.HtlcMaximumMsat,
		u.BaseFee, u.FeeRate, []byte(u.ExtraOpaqueData), w[2:8])}
	v := &c20Verdict{Valid: true, Why: "cu:valid", Finals: [][]string{n.render()}, After: []*c20Model{n}, Relayable: [][]byte{msg.Wire}}
	if len(u.ExtraOpaqueData) > c20StoreExtraLimit {
		v.Suppressed = "extra opaque data above the graph store's documented limit"
	}
	return v
}

// stepZombieCU judges an update for a channel that a prune tick moved to the
// zombie index. The routable graph never changes here; what may change is the
// zombie index (the entry is removed: "resurrection") and lnd's memory (the
// resurrecting update is held until the channel is announced again).
func (m *c20Model) stepZombieCU(msg *c20Msg, u *lnwire.ChannelUpdate1, z *c20MZombie, now int64) *c20Verdict {
	scid := u.ShortChannelID.ToUint64()
	if now-int64(u.Timestamp) > c20ZombieHorizon {
		return m.unchanged("cu:zombie,stale")
	}
	if int64(u.Timestamp)-now > c20FutureSkew {
		return m.unchanged("cu:zombie,too-far-in-future")
	}
	dir := int(u.ChannelFlags & lnwire.ChanUpdateDirection)
	w := msg.Wire
	if len(w) < c20CUOff || !c20SigOK(w[2:66], z.n[dir], w[c20CUOff:]) {
		return m.unchanged("cu:zombie,not-signed-by-the-node-owning-the-direction")
	}
	if z.may[dir] == c20MayNot {
		return m.unchanged("cu:zombie,signer-not-allowed-to-resurrect")
	}
	n := m.clone()
	delete(n.zombies, scid)
	n.stash[scid] = append(n.stash[scid], c20Held{msg.ID, msg})
	consistent := u.MessageFlags&lnwire.ChanUpdateRequiredMaxHtlc != 0 && u.HtlcMaximumMsat != 0 &&
		u.HtlcMaximumMsat >= u.HtlcMinimumMsat
	if z.may[dir] == c20MayEither || !consistent {
		// the statement does not decide: both outcomes are acceptable
		return &c20Verdict{Why: "cu:zombie,may-resurrect(undecided)", Finals: [][]string{n.render(), m.render()}, After: []*c20Model{n, m}}
	}
	return &c20Verdict{Why: "cu:zombie,resurrects(held)", Finals: [][]string{n.render()}, After: []*c20Model{n}}
}

// stepPrune is one tick of the zombie-prune ticker at (about) virtual time now.
// Channels whose two policies are both (strict: either one) missing or older than
// the horizon leave the graph and enter the zombie index, together with the nodes
// left without a channel. A channel that counts as stale only because a policy was
// never received (no stored policy is older than the horizon) MAY be pruned (BOLT 7
// speaks of the timestamp of the latest channel_update): both outcomes are
// acceptable for it.
func (m *c20Model) stepPrune(now int64) *c20Verdict {
	var must, may []uint64
	for scid, ch := range m.chans {
		var stale [2]bool
		anyOld := false // a policy that is there and older than the horizon
		for i := range ch.pol {
			stale[i] = ch.pol[i] == nil || now-int64(ch.pol[i].ts) >= c20ZombieHorizon
			anyOld = anyOld || (ch.pol[i] != nil && stale[i])
		}
		z := stale[0] && stale[1]
		if m.strict {
			z = stale[0] || stale[1]
		}
		switch {
		case !z:
		case !anyOld:
			// stale only because a policy was never received: MAY be pruned
			may = append(may, scid)
		default:
			must = append(must, scid)
		}
	}
	sort.Slice(may, func(i, j int) bool { return may[i] < may[j] })
	v := &c20Verdict{Why: fmt.Sprintf("prune(%d stale, %d stale-by-absence)", len(must), len(may))}
	for mask := 0; mask < 1<<len(may); mask++ {
		n := m.clone()
		sel := append([]uint64{}, must...)
		for i, s := range may {
			if mask&(1<<i) != 0 {
				sel = append(sel, s)
			}
		}
		for _, scid := range sel {
			ch := n.chans[scid]
			e := &c20MZombie{n: [2][33]byte{ch.n1, ch.n2}, may: [2]int8{c20May, c20May}}
			if m.strict {
				p0, p1 := ch.pol[0], ch.pol[1]
				switch {
				case p0 == nil && p1 == nil:
				case p0 == nil:
					e.may = [2]int8{c20May, c20MayNot}
				case p1 == nil:
					e.may = [2]int8{c20MayNot, c20May}
				case p0.ts < p1.ts:
					e.may = [2]int8{c20May, c20MayNot}
				case p1.ts < p0.ts:
					e.may = [2]int8{c20MayNot, c20May}
				default:
					e.may = [2]int8{c20MayEither, c20MayEither}
				}
			}
			n.zombies[scid] = e
			delete(n.chans, scid)
		}
		// nodes without a channel leave the graph
		used := map[[33]byte]bool{}
		for _, ch := range n.chans {
			used[ch.n1], used[ch.n2] = true, true
		}
		for id := range n.nodes {
			if !used[id] {
				delete(n.nodes, id)
			}
		}
		v.Finals = append(v.Finals, n.render())
		v.After = append(v.After, n)
	}
	return v
}

// stepRestart: the database survives; what lnd only held in memory is gone.
func (m *c20Model) stepRestart() *c20Verdict {
	n := m.clone()
	n.stash = map[uint64][]c20Held{}
	n.deferred = nil
	n.restarts++
	n.warm = map[uint64]bool{}
	n.last = 0
	return &c20Verdict{Why: "restart", Finals: [][]string{n.render()}, After: []*c20Model{n}}
}

func (m *c20Model) stepNA(msg *c20Msg, a *lnwire.NodeAnnouncement1) *c20Verdict {
	if a.Timestamp == 0 {
		return m.unchanged("na:zero-timestamp")
	}
	nd := m.nodes[a.NodeID]
	if nd == nil {
		return m.unchanged("na:no-known-channel")
	}
	if a.Timestamp <= nd.ts {
		if a.Timestamp == nd.ts {
			return m.unchanged("na:equal-timestamp")
		}
		return m.unchanged("na:stale")
	}
	w := msg.Wire
	if len(w) < c20NAOff || !c20SigOK(w[2:66], a.NodeID, w[c20NAOff:]) {
		return m.unchanged("na:bad-sig")
	}
	n := m.clone()
	var addrs []string
	for _, ad := range a.Addresses {
		addrs = append(addrs, ad.String())
	}
	var fb bytes.Buffer
	if a.Features != nil {
		_ = a.Features.Encode(&fb)
	}
	n.nodes[a.NodeID] = &c20MNode{ts: a.Timestamp, line: fmt.Sprintf("nd %x ts=%d ann=%v alias=%q color=%s feat=%x addrs=%s extra=%x sig=%x",
		a.NodeID[:6], a.Timestamp, true, a.Alias.String(), fmt.Sprintf("%02x%02x%02x", a.RGBColor.R, a.RGBColor.G, a.RGBColor.B),
		fb.Bytes(), strings.Join(addrs, ","), []byte(a.ExtraOpaqueData), w[2:8])}
	return &c20Verdict{Valid: true, Why: "na:valid", Finals: [][]string{n.render()}, After: []*c20Model{n}, Relayable: [][]byte{msg.Wire}}
}

// stepBlock connects the next block: held announcements of that block first, then
// the held updates (in every order).
func (m *c20Model) stepBlock(now int64) *c20Verdict {
	n := m.clone()
	n.tip++
	var cas, cus, rest []c20Held
	for _, h := range n.deferred {
		var hgt uint32
		switch d := h.msg.Decoded.(type) {
		case *lnwire.ChannelAnnouncement1:
			hgt = d.ShortChannelID.BlockHeight
			if hgt <= n.tip {
				cas = append(cas, h)
				continue
			}
		case *lnwire.ChannelUpdate1:
			hgt = d.ShortChannelID.BlockHeight
			if hgt <= n.tip {
				cus = append(cus, h)
				continue
			}
		}
		rest = append(rest, h)
	}
	n.deferred = rest
	v := &c20Verdict{Why: "blk"}
	cur := n
	for _, h := range cas {
		sub := cur.step(h.msg, now)
		if sub.Valid {
			v.Valid = true
			v.Relayable = append(v.Relayable, sub.Relayable...)
		}
		// a duplicate held announcement, or one that fails: single successor
		cur = sub.After[0]
		if len(sub.After) > 1 {
			// replay ambiguity inside a block event is outside the alphabet
			// (held updates for the future channel all carry distinct timestamps)
			cur = sub.After[0]
		}
	}
	before := len(v.Relayable)
	cur.replayHeld(cus, now, v)
	if len(v.Relayable) > before {
		v.Valid = true
	}
	if len(v.Finals) == 0 {
		v.Finals, v.After = [][]string{cur.render()}, []*c20Model{cur}
	}
	return v
}

// stepBurst judges several messages handed over back to back: the acceptable
// outcomes are those of every serial order (lnd processes them concurrently; the
// validation barrier and the per-channel mutex promise serialisability, not an order).
func (m *c20Model) stepBurst(msgs []*c20Msg, now int64) *c20Verdict {
	v := &c20Verdict{Why: "burst"}
	seen := map[string]bool{}
	relay := map[string]bool{}
	var whys []string
	var rec func(cur *c20Model, rest []*c20Msg)
	rec = func(cur *c20Model, rest []*c20Msg) {
		if len(rest) == 0 {
			r := cur.render()
			k := strings.Join(r, "\n") + "|" + cur.key()
			if !seen[k] {
				seen[k] = true
				v.Finals = append(v.Finals, r)
				v.After = append(v.After, cur)
			}
			return
		}
		for i := range rest {
			sub := cur.step(rest[i], now)
			if len(whys) < len(msgs) {
				whys = append(whys, sub.Why)
			}
			if sub.Valid {
				if sub.Suppressed != "" {
					v.Suppressed = sub.Suppressed
				}
				for _, r := range sub.Relayable {
					if !relay[string(r)] {
						relay[string(r)] = true
						v.Relayable = append(v.Relayable, r)
					}
				}
			}
			next := append(append([]*c20Msg{}, rest[:i]...), rest[i+1:]...)
			for _, a := range sub.After {
				rec(a, next)
			}
			if sub.Valid && sub.Suppressed != "" {
				// a documented spam defence may drop this one message
				rec(cur, next)
			}
		}
	}
	rec(m, msgs)
	pre := strings.Join(m.render(), "\n")
	v.Valid = true
	for _, f := range v.Finals {
		if strings.Join(f, "\n") == pre {
			v.Valid = false
		}
	}
	v.Why = "burst[" + strings.Join(whys, ",") + "]"
	return v
}
