// C02: state reloaded after a crash is complete, consistent and safe.
package c02

import (
	"context"
	"encoding/json"
	"fmt"
	"os"
	"runtime"
	"sort"
	"strconv"
	"strings"
	"sync/atomic"
	"testing"
	"time"

	"github.com/lightningnetwork/lnd/verifmc/chanmc"
	"github.com/lightningnetwork/lnd/verifmc/evid"
)

var ctxb = context.Background()

func sat(s int64, extraMsat uint64) uint64 { return uint64(s)*1000 + extraMsat }

var diskStates atomic.Int64

// diskHook judges, once per distinct canonical state, the durable lists of both
// parties read through a fresh handle (diskinv_test.go).
func diskHook(w *chanmc.World) {
	// terminal probes (side writers re-key the channel, live-object probes stop half-way
	// through a step) leave the world in a state no link would continue from
	if h := w.Hist(); len(h) > 0 && (strings.HasPrefix(h[len(h)-1], "side>") || strings.HasPrefix(h[len(h)-1], "probe>")) {
		return
	}
	for i := 0; i < 2; i++ {
		var fs []diskFinding
		func() {
			defer func() {
				if v := recover(); v != nil {
					fs = append(fs, diskFinding{"disk:read-panic", fmt.Sprintf("reading the durable state panicked: %v", v)})
				}
			}()
			ident := w.Chan(i).State().IdentityPub
			chans, err := w.DB(i).ChannelStateDB().FetchOpenChannels(ident)
			if err != nil || len(chans) != 1 {
				fs = append(fs, diskFinding{"disk:unreadable", fmt.Sprintf("FetchOpenChannels: %d channels, %v", len(chans), err)})
				return
			}
			fs = diskInvariants(string(rune('A'+i)), chans[0])
		}()
		for _, f := range fs {
			w.Violate(f.sig, f.what)
		}
	}
	diskStates.Add(1)
}

func spaces(thorough bool) []chanmc.Space {
	var out []chanmc.Space
	types := []string{"legacy", "lease", "taproot"}
	if thorough {
		types = chanmc.AllTypes
	}
	// What is on disk is also written by components that hold their own, older handle of
	// the channel (chain watcher, arbitrator, funding manager): in every state of a small
	// space, each auxiliary channeldb writer called through a handle loaded at start-up
	// must leave everything but its own field as it was (terminal `side>X` probes).
	{
		sideTypes, sideCuts := []string{"legacy"}, 0
		if thorough {
			sideTypes, sideCuts = chanmc.AllTypes, 1
		}
		for ti, typ := range sideTypes {
			out = append(out, chanmc.Space{Dev: -1, P: chanmc.Params{Type: typ, OpenerB: ti%2 == 1, MaxCuts: sideCuts, CutOnlyInSync: true, SideWriters: true, Fees: []int64{6600},
				Script: []chanmc.Intent{{By: 1, Amt: sat(45000, 3), Fate: "settle"}}}})
		}
	}
	// Kind pair of two pipelined removals in one direction (shape b): which two update kinds
	// share the durable lists (unsigned-acked, remote-unsigned-local, commit-diff updates) and
	// in which order. Rotated over the channel types; thorough adds every ordered pair on legacy.
	kinds := []string{"settle", "fail", "malformed"}
	pair := func(n int) (string, string) { return kinds[n%3], kinds[(n/3+n)%3] }
	for ti, typ := range types {
		th := chanmc.Thresholds(typ, 6000, 200, 1300)
		openerB := ti%2 == 0
		// Shapes (every one with a crash = both sides reload after every state-machine call):
		//  a: one HTLC each way (fail / settle), a second crash during resynchronisation
		//  b: two HTLCs in the same direction, removed with the kind pair of this type
		//     (legacy settle+settle, lease fail+malformed, taproot malformed+fail, ...)
		//  c: two consecutive fee updates by the opener plus one HTLC the other way
		//  d: fee update + malformed failure
		//  e: two consecutive fee updates, no HTLC
		a := chanmc.Space{Dev: -1, P: chanmc.Params{Type: typ, OpenerB: openerB, MaxCuts: 2, CutOnlyInSync: !thorough, CrashPoints: true, Script: []chanmc.Intent{
			{By: 0, Amt: sat(th[0], 0), Fate: "fail"}, {By: 1, Amt: sat(th[2]-1, 999), Fate: "settle"},
		}}}
		k1, k2 := pair(4 * ti)
		b := chanmc.Space{Dev: -1, P: chanmc.Params{Type: typ, OpenerB: openerB, MaxCuts: 1, CrashPoints: true, Script: []chanmc.Intent{
			{By: 0, Amt: sat(35000, 0), Fate: k1}, {By: 0, Amt: sat(th[1]+1, 0), Fate: k2},
		}}}
		// Second fee value of the two-fee shapes (base rate is 6000): a NEW rate (5400) or a
		// REVERT to the rate already in use on the commitments (6000) - "same rate as
		// before" is singled out only implicitly by the restore code and by the fee
		// coalescing of the update log, so it is an alphabet value. Rotated over the channel
		// types so that c and e of one type differ. (A REPEAT of the first update, {6600, 6600},
		// cannot be used: chanmc labels a retransmitted update_fee by its VALUE, so two equal
		// values make its own retransmission reference model report fee1 for fee0.)
		fee2 := []int64{6000, 5400}
		c := chanmc.Space{Dev: -1, P: chanmc.Params{Type: typ, OpenerB: openerB, MaxCuts: 1, CrashPoints: true, Fees: []int64{6600, fee2[(ti+1)%2]},
			Script: []chanmc.Intent{{By: 0, Amt: sat(45000, 0), Fate: "settle"}}}}
		sc := []chanmc.Intent{{By: 1, Amt: sat(40000, 7), Fate: "malformed"}}
		if thorough {
			sc = append(sc, chanmc.Intent{By: 0, Amt: sat(th[1], 0), Fate: "settle"})
		}
		d := chanmc.Space{Dev: -1, P: chanmc.Params{Type: typ, OpenerB: !openerB, MaxCuts: 1, CrashPoints: true, Fees: []int64{7500}, Script: sc}}
		e := chanmc.Space{Dev: -1, P: chanmc.Params{Type: typ, OpenerB: !openerB, MaxCuts: 1, CrashPoints: true, Fees: []int64{6600, fee2[ti%2]}}}
		// fees-only spaces are tiny (~350 states): every type gets both second values
		var eAll []chanmc.Space
		for k, f2 := range fee2 {
			if f2 != fee2[ti%2] {
				eAll = append(eAll, chanmc.Space{Dev: -1, P: chanmc.Params{Type: typ, OpenerB: (k%2 == 0) == openerB, MaxCuts: 1, CrashPoints: true, Fees: []int64{6600, f2}}})
			}
		}
		switch {
		case thorough:
			out = append(out, e, d, b, c, a)
		case ti == 0:
			out = append(out, e, d, a)
		case ti == 1:
			out = append(out, e, b, c)
		default:
			out = append(out, e, d, b)
		}
		out = append(out, eAll...)
	}
	if thorough {
		th := chanmc.Thresholds("legacy", 6000, 200, 1300)
		for n := 0; n < 9; n++ {
			k1, k2 := kinds[n/3], kinds[n%3]
			if k1 == "settle" && k2 == "settle" {
				continue // legacy's own shape b
			}
			out = append(out, chanmc.Space{Dev: -1, P: chanmc.Params{Type: "legacy", OpenerB: n%2 == 1, MaxCuts: 1, CrashPoints: true, Script: []chanmc.Intent{
				{By: 0, Amt: sat(35000, 0), Fate: k1}, {By: 0, Amt: sat(th[1]+1, 0), Fate: k2},
			}}})
		}
		// three removals of three kinds plus a fee update and an HTLC the other way: lists of
		// length up to 4, every execution within two deviations of the eager schedule
		for _, ob := range []bool{false, true} {
			out = append(out, chanmc.Space{Dev: 2, P: chanmc.Params{Type: "legacy", OpenerB: ob, MaxCuts: 1, CrashPoints: true, Fees: []int64{6450},
				Script: []chanmc.Intent{
					{By: 0, Amt: sat(41000, 1), Fate: "settle"}, {By: 0, Amt: sat(42000, 2), Fate: "fail"}, {By: 0, Amt: sat(43000, 3), Fate: "malformed"},
					{By: 1, Amt: sat(44000, 4), Fate: "settle"},
				}}})
		}
	}
	// Every channel type, cheaply: the eager schedule of a 1+1-HTLC + fee-update
	// script with one cut at every point (deviation bound 2, the cut being one of the deviations).
	for _, typ := range chanmc.AllTypes {
		th := chanmc.Thresholds(typ, 6000, 200, 1300)
		for _, openerB := range []bool{false, true} {
			out = append(out, chanmc.Space{Dev: 2, P: chanmc.Params{Type: typ, OpenerB: openerB, MaxCuts: 1, CrashPoints: true, Fees: []int64{6300}, Script: []chanmc.Intent{
				{By: 0, Amt: sat(th[1], 0), Fate: "settle"}, {By: 1, Amt: sat(th[3]+5000, 1), Fate: "malformed"},
			}}})
		}
	}
	// Cheapest spaces first (stable), by the state counts measured for each class of space in
	// this harness: on a loaded machine the deadline then cuts depth in the few large
	// full-interleaving spaces instead of dropping whole shapes or the all-types breadth pass.
	cost := func(sp chanmc.Space) int {
		n, f, c := len(sp.P.Script), len(sp.P.Fees), sp.P.MaxCuts
		switch {
		case sp.Dev >= 0 && n <= 2:
			// all-types breadth pass: 3744 states with B as opener, 4348 with A
			if sp.P.OpenerB {
				return 3744
			}
			return 4348
		case sp.Dev >= 0:
			return 38000 // three removals + fee + one HTLC back, two deviations
		case n == 0:
			return 350 // fee updates only
		case c == 0:
			return 700 // side-writer space
		case n == 1 && f <= 1:
			return 2100 // d
		case n == 2 && f == 0 && c == 1:
			return 4167 // b
		case n == 1:
			return 12400 // c
		case n == 2 && f == 0:
			return 17000 * c / 2 // a (two cuts)
		default:
			return 30000 // thorough-only d with two HTLCs
		}
	}
	sort.SliceStable(out, func(i, j int) bool { return cost(out[i]) < cost(out[j]) })
	for i := range out {
		out[i].OnState = diskHook
	}
	return out
}

// replayChanmc re-executes a chanmc history with this harness's hooks installed
// (chanmc.Replay does not install hooks).
func replayChanmc(run *evid.Run, p chanmc.Params, hist []string) error {
	report := func(sig, what string, h []string, pp chanmc.Params) {
		fmt.Printf("INFO   !! %s: %s\n", sig, what)
		run.Violation(pp.Type+":"+sig, what, map[string]any{"params": pp, "history": h})
	}
	w, err := chanmc.New(p, report, nil)
	if err != nil {
		return err
	}
	defer w.Close()
	fmt.Printf("INFO replaying %d steps on %s\n", len(hist), p.Name())
	diskHook(w)
	for i, a := range hist {
		fmt.Printf("INFO step %d: %s   (enabled: %v)\n", i, a, w.Enabled())
		if err := w.Do(a); err != nil {
			return fmt.Errorf("step %d (%s): %w", i, a, err)
		}
		fmt.Printf("INFO    -> %s\n", w.Key())
		diskHook(w)
	}
	if len(w.Enabled()) == 0 {
		w.Terminal()
	}
	return nil
}

func replay(run *evid.Run, path string) error {
	b, err := os.ReadFile(path)
	if err != nil {
		return err
	}
	var doc struct {
		Replay struct {
			Params  *chanmc.Params `json:"params"`
			History []string       `json:"history"`
			Lattice *latCfg        `json:"lattice"`
			Static  *statPoint     `json:"static"`
		} `json:"replay"`
	}
	if err := json.Unmarshal(b, &doc); err != nil {
		return err
	}
	switch {
	case doc.Replay.Lattice != nil:
		cfg := *doc.Replay.Lattice
		fmt.Printf("INFO replaying payload-lattice point %s cut=%d cut2=%d\n", cfg.name(), cfg.Cut, cfg.Cut2)
		runLat(cfg, &latStats{}, func(sig, what string) {
			fmt.Printf("INFO   !! %s: %s\n", sig, what)
			run.Violation(sig, what, map[string]any{"lattice": cfg})
		}, true)
	case doc.Replay.Static != nil:
		pt := *doc.Replay.Static
		fmt.Printf("INFO replaying channel-record point %s initiator=%v variant=%d\n", pt.Name, pt.Initiator, pt.Variant)
		base := os.Getenv("VERIF_SCRATCH")
		if base == "" {
			base = os.TempDir()
		}
		var n atomic.Int64
		runStatPoint(pt, base, 0, func(sig, what string) {
			fmt.Printf("INFO   !! %s: %s\n", sig, what)
			run.Violation(sig, what, map[string]any{"static": pt})
		}, &n, true)
	case doc.Replay.Params != nil:
		return replayChanmc(run, *doc.Replay.Params, doc.Replay.History)
	default:
		return fmt.Errorf("replay artefact has no params/lattice/static section")
	}
	return nil
}

func TestC02(t *testing.T) {
	run := evid.Start("C02", "fault_enumeration")
	if rp := os.Getenv("VERIF_REPLAY"); rp != "" {
		if err := replay(run, rp); err != nil {
			t.Fatalf("replay: %v", err)
		}
		os.Exit(run.Finish(map[string]any{"evaluations": 1, "distinct_nontrivial": 2, "states": 1, "transitions": 1, "traces_validated_against_impl": 1, "samples": []any{rp}}))
	}
	budget := 300 * time.Second
	if run.Thorough() {
		budget = 35 * time.Minute
	}
	if s := os.Getenv("VERIF_BUDGET_S"); s != "" {
		if n, err := strconv.Atoi(s); err == nil {
			budget = time.Duration(n) * time.Second
		}
	}
	only := os.Getenv("VERIF_C02_ONLY") // development aid: static | lattice | chanmc
	start := time.Now()
	deadline := start.Add(budget)
	workers := runtime.GOMAXPROCS(0)
	if workers > 16 {
		workers = 16
	}
	// The two harness-owned families run first with a bounded share of the budget.
	var statCov, latCov map[string]any
	if only == "" || only == "static" {
		statCov = runStatic(run, start.Add(budget/10))
	}
	if only == "" || only == "lattice" {
		latCov = runLattice(run, run.Thorough(), start.Add(budget*3/10), workers)
	}
	sp := spaces(run.Thorough())
	if only != "" && only != "chanmc" {
		sp = sp[:1]
	}
	agg := chanmc.RunSpaces(run, sp, deadline, 0)
	cov := agg.Coverage("crash point = after every state-machine call (each call performs at most one kvdb write transaction: measured per step and reported as durable_writes_table; a step with W>=2 writes would add W-1 interior crash points automatically); at each crash both in-memory channels are discarded and rebuilt from disk; oracles: reload succeeds without panic, reloaded state equals the pre-crash disk-mirrored projection, reloaded local height > every released revocation height, resynchronisation and the rest of the schedule complete with all C01 oracles; built on C01 plus the action `cut` at every state (both wires dropped having delivered exactly the consumed prefixes, both sides reload from disk with FetchOpenChannels+NewLightningChannel, both send channel_reestablish); oracles: ProcessChanSyncMsg returns no error, its message list equals the reference model of undelivered revoke_and_ack / commitment_signed(+covered updates) in original relative order, every retransmission is accepted, C01 oracles on every later state, mirror + exactly-once at terminal states; in every distinct state the durable lists read through a fresh handle (forwarding packages, unsigned-acked, remote-unsigned-local, commit-diff updates) satisfy the five range/exactly-once invariants of diskinv_test.go; plus the payload lattice (lattice_test.go) and the channel-record lattice (static_test.go), see their `rule`")
	cov["durable_list_states_checked"] = diskStates.Load()
	exh := cov["exhaustive"] == true
	caps, _ := cov["caps_hit"].([]string)
	if latCov != nil {
		cov["payload_lattice"] = latCov
		if latCov["exhaustive"] != true {
			exh = false
			caps = append(caps, fmt.Sprintf("deadline in payload lattice (%v of %v runs)", latCov["runs"], latCov["runs_enumerated"]))
		}
		cov["evaluations"] = cov["evaluations"].(int64) + latCov["steps_on_impl"].(int64)
	}
	if statCov != nil {
		cov["channel_record_lattice"] = statCov
		if statCov["exhaustive"] != true {
			exh = false
			caps = append(caps, fmt.Sprintf("deadline in channel-record lattice (%v of %v points)", statCov["points_done"], statCov["points"]))
		}
		cov["evaluations"] = cov["evaluations"].(int64) + statCov["loads_compared"].(int64)
	}
	cov["exhaustive"] = exh
	cov["caps_hit"] = caps
	run.Assumptions = append(run.Assumptions, "kvdb transactions are atomic; a cut discards undelivered suffixes (FIFO wires)", "no forwarding package is ever removed in these worlds (no switch), so the packages on disk are the complete hand-over history")
	if code := run.Finish(cov); code != 0 {
		os.Exit(code)
	}
}
