// C03: reconnection always resynchronises.
package c02

import (
	"os"
	"strconv"
	"testing"
	"time"

	"github.com/lightningnetwork/lnd/verifmc/chanmc"
	"github.com/lightningnetwork/lnd/verifmc/evid"
)

func sat(s int64, extraMsat uint64) uint64 { return uint64(s)*1000 + extraMsat }

func spaces(thorough bool) []chanmc.Space {
	var out []chanmc.Space
	types := []string{"legacy", "lease", "taproot"}
	if thorough {
		types = chanmc.AllTypes
	}
	// What is on disk is also written by components that hold their own, older handle of
	// the channel (chain watcher, arbitrator, funding manager): in every state of a small
	// space, each auxiliary channeldb writer called through a handle loaded at start-up
	// must leave everything but its own field as it was (terminal `side>X` probes).
	{
		sideTypes, sideCuts := []string{"legacy"}, 0
		if thorough {
			sideTypes, sideCuts = chanmc.AllTypes, 1
		}
		for ti, typ := range sideTypes {
			out = append(out, chanmc.Space{Dev: -1, P: chanmc.Params{Type: typ, OpenerB: ti%2 == 1, MaxCuts: sideCuts, CutOnlyInSync: true, SideWriters: true, Fees: []int64{6600},
				Script: []chanmc.Intent{{By: 1, Amt: sat(45000, 3), Fate: "settle"}}}})
		}
	}
	for ti, typ := range types {
		th := chanmc.Thresholds(typ, 6000, 200, 1300)
		openerB := ti%2 == 0
		// Shapes (every one with a crash = both sides reload after every state-machine call):
		//  a: one HTLC each way (fail / settle), a second crash during resynchronisation
		//  b: two HTLCs in the same direction, both settled (pipelined removals)
		//  c: two consecutive fee updates by the opener plus one HTLC the other way
		//  d: fee update + malformed failure
		//  e: two consecutive fee updates, no HTLC
		a := chanmc.Space{Dev: -1, P: chanmc.Params{Type: typ, OpenerB: openerB, MaxCuts: 2, CutOnlyInSync: !thorough, CrashPoints: true, Script: []chanmc.Intent{
			{By: 0, Amt: sat(th[0], 0), Fate: "fail"}, {By: 1, Amt: sat(th[2]-1, 999), Fate: "settle"},
		}}}
		b := chanmc.Space{Dev: -1, P: chanmc.Params{Type: typ, OpenerB: openerB, MaxCuts: 1, CrashPoints: true, Script: []chanmc.Intent{
			{By: 0, Amt: sat(35000, 0), Fate: "settle"}, {By: 0, Amt: sat(th[1]+1, 0), Fate: "settle"},
		}}}
		c := chanmc.Space{Dev: -1, P: chanmc.Params{Type: typ, OpenerB: openerB, MaxCuts: 1, CrashPoints: true, Fees: []int64{6600, 5400},
			Script: []chanmc.Intent{{By: 0, Amt: sat(45000, 0), Fate: "settle"}}}}
		sc := []chanmc.Intent{{By: 1, Amt: sat(40000, 7), Fate: "malformed"}}
		if thorough {
			sc = append(sc, chanmc.Intent{By: 0, Amt: sat(th[1], 0), Fate: "settle"})
		}
		d := chanmc.Space{Dev: -1, P: chanmc.Params{Type: typ, OpenerB: !openerB, MaxCuts: 1, CrashPoints: true, Fees: []int64{7500}, Script: sc}}
		e := chanmc.Space{Dev: -1, P: chanmc.Params{Type: typ, OpenerB: !openerB, MaxCuts: 1, CrashPoints: true, Fees: []int64{6600, 5400}}}
		switch {
		case thorough:
			out = append(out, a, b, c, d, e)
		case ti == 0:
			out = append(out, a, d, e)
		case ti == 1:
			out = append(out, b, c)
		default:
			out = append(out, b, d, e)
		}
	}
	// Every channel type, cheaply: the eager schedule of a 1+1-HTLC + fee-update
	// script with one cut at every point (deviation bound 2, the cut being one of the deviations).
	for _, typ := range chanmc.AllTypes {
		th := chanmc.Thresholds(typ, 6000, 200, 1300)
		for _, openerB := range []bool{false, true} {
			out = append(out, chanmc.Space{Dev: 2, P: chanmc.Params{Type: typ, OpenerB: openerB, MaxCuts: 1, CrashPoints: true, Fees: []int64{6300}, Script: []chanmc.Intent{
				{By: 0, Amt: sat(th[1], 0), Fate: "settle"}, {By: 1, Amt: sat(th[3]+5000, 1), Fate: "malformed"},
			}}})
		}
	}
	return out
}

func TestC02(t *testing.T) {
	run := evid.Start("C02", "fault_enumeration")
	if rp := os.Getenv("VERIF_REPLAY"); rp != "" {
		if err := chanmc.Replay(run, rp); err != nil {
			t.Fatalf("replay: %v", err)
		}
		os.Exit(run.Finish(map[string]any{"evaluations": 1, "distinct_nontrivial": 2, "states": 1, "transitions": 1, "traces_validated_against_impl": 1, "samples": []any{rp}}))
	}
	budget := 300 * time.Second
	if run.Thorough() {
		budget = 35 * time.Minute
	}
	if s := os.Getenv("VERIF_BUDGET_S"); s != "" {
		if n, err := strconv.Atoi(s); err == nil {
			budget = time.Duration(n) * time.Second
		}
	}
	agg := chanmc.RunSpaces(run, spaces(run.Thorough()), time.Now().Add(budget), 0)
	cov := agg.Coverage("crash point = after every state-machine call (each call performs at most one kvdb write transaction: measured per step and reported as durable_writes_table; a step with W>=2 writes would add W-1 interior crash points automatically); at each crash both in-memory channels are discarded and rebuilt from disk; oracles: reload succeeds without panic, reloaded state equals the pre-crash disk-mirrored projection, reloaded local height > every released revocation height, resynchronisation and the rest of the schedule complete with all C01 oracles; built on C01 plus the action `cut` at every state (both wires dropped having delivered exactly the consumed prefixes, both sides reload from disk with FetchOpenChannels+NewLightningChannel, both send channel_reestablish); oracles: ProcessChanSyncMsg returns no error, its message list equals the reference model of undelivered revoke_and_ack / commitment_signed(+covered updates) in original relative order, every retransmission is accepted, C01 oracles on every later state, mirror + exactly-once at terminal states")
	run.Assumptions = append(run.Assumptions, "kvdb transactions are atomic; a cut discards undelivered suffixes (FIFO wires)")
	if code := run.Finish(cov); code != 0 {
		os.Exit(code)
	}
}
