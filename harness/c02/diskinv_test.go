package c02

// Durable-list invariants: what a restart reconstructs the update logs and the
// switch's work list from, read DIRECTLY from disk through a fresh handle (the
// chanmc engine only ever sees these lists through NewLightningChannel's restore
// code, and forwarding packages only as the in-memory return value of
// ReceiveRevocation). Every invariant relates one durable list to the two durable
// commitments next to it; none depends on the scenario.
//
// Derivation (X = the party whose disk is read; L = its LocalCommitment, R = its
// RemoteCommitment = the remote chain TAIL, T = pending CommitDiff if any):
//
//	I1 fwd-pkg Adds.   A peer HTLC is handed to the switch exactly when it becomes
//	   irrevocable on both chains, which is when the remote tail first contains it (X
//	   can only sign it after having revoked into a local commitment holding it).
//	   R.RemoteHtlcIndex counts the peer's adds R covers and HTLC ids are dense, so the
//	   ids over all packages' Adds are exactly 0..R.RemoteHtlcIndex-1, each once.
//	   (No package is ever removed in these worlds.)
//	I2 fwd-pkg SettleFails.  Same for the removal of X's own HTLCs: ids
//	   0..R.LocalHtlcIndex-1 minus those still outgoing on R, each exactly once.
//	I3 unsignedAckedUpdates = the peer's updates X has acked (L covers them) but not yet
//	   signed into the remote TAIL: log indices are dense, so the index set is exactly
//	   [R.RemoteLogIndex, L.RemoteLogIndex).
//	I4 remoteUnsignedLocalUpdates = X's own non-add updates that the remote tail covers
//	   and L does not: index set = [L.LocalLogIndex, R.LocalLogIndex) minus the log
//	   indices of the adds in that range (which are outgoing HTLCs on R).
//	I5 CommitDiff.LogUpdates = X's updates first covered by T: [R.LocalLogIndex, T.LocalLogIndex).
import (
	"fmt"
	"sort"

	"github.com/lightningnetwork/lnd/channeldb"
	"github.com/lightningnetwork/lnd/lnwire"
)

type diskFinding struct{ sig, what string }

func rangeSet(lo, hi uint64) []uint64 {
	var o []uint64
	for i := lo; i < hi; i++ {
		o = append(o, i)
	}
	return o
}

func sortedU(s []uint64) []uint64 {
	o := append([]uint64{}, s...)
	sort.Slice(o, func(i, j int) bool { return o[i] < o[j] })
	return o
}

func minus(a []uint64, drop map[uint64]bool) []uint64 {
	var o []uint64
	for _, x := range a {
		if !drop[x] {
			o = append(o, x)
		}
	}
	return o
}

func updIdx(us []channeldb.LogUpdate) []uint64 {
	var o []uint64
	for _, u := range us {
		o = append(o, u.LogIndex)
	}
	return sortedU(o)
}

func resolvedID(m lnwire.Message) (uint64, bool) {
	switch mm := m.(type) {
	case *lnwire.UpdateFulfillHTLC:
		return mm.ID, true
	case *lnwire.UpdateFailHTLC:
		return mm.ID, true
	case *lnwire.UpdateFailMalformedHTLC:
		return mm.ID, true
	}
	return 0, false
}

// diskInvariants judges one party's durable state (d must have been fetched from
// disk just now). who is only used for messages.
func diskInvariants(who string, d *channeldb.OpenChannel) (out []diskFinding) {
	defer func() {
		if v := recover(); v != nil {
			out = append(out, diskFinding{"disk:read-panic", fmt.Sprintf("%s: reading the durable lists panicked: %v", who, v)})
		}
	}()
	L, R := &d.LocalCommitment, &d.RemoteCommitment
	bad := func(sig, f string, a ...any) {
		out = append(out, diskFinding{sig, who + ": " + fmt.Sprintf(f, a...) + fmt.Sprintf(" [local h%d li%d/%d ri%d/%d; remote h%d li%d/%d ri%d/%d]",
			L.CommitHeight, L.LocalLogIndex, L.LocalHtlcIndex, L.RemoteLogIndex, L.RemoteHtlcIndex, R.CommitHeight, R.LocalLogIndex, R.LocalHtlcIndex, R.RemoteLogIndex, R.RemoteHtlcIndex)})
	}
	pkgs, err := d.LoadFwdPkgs()
	if err != nil {
		bad("disk:fwdpkg-unreadable", "LoadFwdPkgs: %v", err)
		return
	}
	var adds, sfs []uint64
	for _, p := range pkgs {
		for _, u := range p.Adds {
			a, ok := u.UpdateMsg.(*lnwire.UpdateAddHTLC)
			if !ok {
				bad("disk:fwdpkg-add-kind", "forwarding package %d lists a %T among its adds", p.Height, u.UpdateMsg)
				continue
			}
			adds = append(adds, a.ID)
		}
		for _, u := range p.SettleFails {
			id, ok := resolvedID(u.UpdateMsg)
			if !ok {
				bad("disk:fwdpkg-settlefail-kind", "forwarding package %d lists a %T among its settle/fails", p.Height, u.UpdateMsg)
				continue
			}
			sfs = append(sfs, id)
		}
	}
	if got, want := sortedU(adds), rangeSet(0, R.RemoteHtlcIndex); fmt.Sprint(got) != fmt.Sprint(want) {
		bad("disk:fwdpkg-adds", "peer HTLC ids handed to the switch by the forwarding packages on disk are %v; the remote tail covers the peer's adds %v (each must be there exactly once)", got, want)
	}
	stillOut := map[uint64]bool{}
	addLogIdx := map[uint64]bool{}
	for _, h := range R.Htlcs {
		if !h.Incoming {
			stillOut[h.HtlcIndex] = true
			addLogIdx[h.LogIndex] = true
		}
	}
	if got, want := sortedU(sfs), minus(rangeSet(0, R.LocalHtlcIndex), stillOut); fmt.Sprint(got) != fmt.Sprint(want) {
		bad("disk:fwdpkg-settlefails", "own HTLC ids reported as resolved by the forwarding packages on disk are %v; own HTLCs covered by the remote tail and no longer on it are %v (each must be there exactly once)", got, want)
	}
	ua, err := d.UnsignedAckedUpdates()
	if err != nil {
		bad("disk:unsigned-acked-unreadable", "UnsignedAckedUpdates: %v", err)
	} else if got, want := updIdx(ua), rangeSet(R.RemoteLogIndex, L.RemoteLogIndex); fmt.Sprint(got) != fmt.Sprint(want) {
		bad("disk:unsigned-acked-range", "stored peer updates acked but not yet signed have log indices %v; acked (local commitment) minus signed (remote tail) is %v", got, want)
	}
	ru, err := d.RemoteUnsignedLocalUpdates()
	if err != nil {
		bad("disk:remote-unsigned-unreadable", "RemoteUnsignedLocalUpdates: %v", err)
	} else {
		for _, u := range ru {
			if _, isAdd := u.UpdateMsg.(*lnwire.UpdateAddHTLC); isAdd {
				bad("disk:remote-unsigned-add", "an update_add_htlc (log index %d) is stored among the own updates awaiting the peer's signature", u.LogIndex)
			}
		}
		if got, want := updIdx(ru), minus(rangeSet(L.LocalLogIndex, R.LocalLogIndex), addLogIdx); fmt.Sprint(got) != fmt.Sprint(want) {
			bad("disk:remote-unsigned-range", "stored own updates awaiting the peer's signature have log indices %v; covered by the remote tail and not by the local commitment (adds excluded) is %v", got, want)
		}
	}
	if tip, err := d.RemoteCommitChainTip(); err == nil && tip != nil {
		if got, want := updIdx(tip.LogUpdates), rangeSet(R.LocalLogIndex, tip.Commitment.LocalLogIndex); fmt.Sprint(got) != fmt.Sprint(want) {
			bad("disk:commit-diff-range", "the pending commit diff (height %d) carries own updates with log indices %v; first covered by it are %v", tip.Commitment.CommitHeight, got, want)
		}
	}
	return out
}
