package c02

// Channel-record lattice: the part of "what a restart reloads" that is decided by
// the channel's TYPE BITS and by optional / special-valued fields, which the chanmc
// worlds never vary (seven fixed type values, one fixture for every other field).
// For every lattice point
//
//	type bits : 15 realistic combinations incl. frozen without lease, lease without frozen,
//	            both, no-funding-tx, dual funder, zero-conf + scid-alias, scid-alias feature,
//	            taproot, taproot-final, taproot + tapscript root
//	role      : initiator / non-initiator (the funding tx is only stored for the former)
//	variant   : minimal (every optional absent, zeros) / full (every field a distinct
//	            non-zero value) / boundary (maxima, thaw height at threshold-1)
//
// a channel record is written through the real writer chain of a channel's life
// (SyncPending, MarkAsOpen, UpdateCommitment, AppendRemoteCommitChain,
// InsertNextRevocation, AdvanceCommitChainTail) on a real bbolt channeldb, and after
// EVERY writer the record is loaded again through every loader (FetchOpenChannels,
// FetchChannel, FetchChannelByID, FetchAllOpenChannels, FetchAllChannels and Refresh of
// an older handle). Oracle (differential, no expected values): each loaded record
// equals the live handle the writers were called on, field by field, incl. the HTLC
// payload (blinding point, custom records), key locators and the durable lists.
import (
	"bytes"
	"crypto/sha256"
	"fmt"
	"math"
	"net"
	"os"
	"path/filepath"
	"strings"
	"sync/atomic"
	"time"

	"github.com/btcsuite/btcd/btcec/v2"
	"github.com/btcsuite/btcd/btcutil/v2"
	"github.com/btcsuite/btcd/chainhash/v2"
	"github.com/btcsuite/btcd/wire/v2"
	"github.com/lightningnetwork/lnd/channeldb"
	"github.com/lightningnetwork/lnd/chanstate"
	"github.com/lightningnetwork/lnd/fn/v2"
	"github.com/lightningnetwork/lnd/graph/db/models"
	"github.com/lightningnetwork/lnd/keychain"
	"github.com/lightningnetwork/lnd/kvdb"
	"github.com/lightningnetwork/lnd/lnwire"
	"github.com/lightningnetwork/lnd/shachain"
	"github.com/lightningnetwork/lnd/tlv"
	"github.com/lightningnetwork/lnd/verifmc/evid"
)

type statPoint struct {
	Name      string `json:"name"`
	TypeBits  uint64 `json:"type_bits"`
	Initiator bool   `json:"initiator"`
	Variant   int    `json:"variant"` // 0 minimal 1 full 2 boundary
}

var statTypes = []struct {
	name string
	bits chanstate.ChannelType
}{
	{"legacy", chanstate.SingleFunderBit},
	{"dual", chanstate.DualFunderBit},
	{"tweakless", chanstate.SingleFunderTweaklessBit},
	{"tweakless-nofundingtx", chanstate.SingleFunderTweaklessBit | chanstate.NoFundingTxBit},
	{"tweakless-frozen", chanstate.SingleFunderTweaklessBit | chanstate.FrozenBit},
	{"anchors", chanstate.SingleFunderTweaklessBit | chanstate.AnchorOutputsBit},
	{"zerofee", chanstate.SingleFunderTweaklessBit | chanstate.AnchorOutputsBit | chanstate.ZeroHtlcTxFeeBit},
	{"zerofee-frozen", chanstate.SingleFunderTweaklessBit | chanstate.AnchorOutputsBit | chanstate.ZeroHtlcTxFeeBit | chanstate.FrozenBit},
	{"lease", chanstate.SingleFunderTweaklessBit | chanstate.AnchorOutputsBit | chanstate.ZeroHtlcTxFeeBit | chanstate.LeaseExpirationBit},
	{"lease-frozen", chanstate.SingleFunderTweaklessBit | chanstate.AnchorOutputsBit | chanstate.ZeroHtlcTxFeeBit | chanstate.LeaseExpirationBit | chanstate.FrozenBit},
	{"zeroconf-alias", chanstate.SingleFunderTweaklessBit | chanstate.AnchorOutputsBit | chanstate.ZeroHtlcTxFeeBit | chanstate.ZeroConfBit | chanstate.ScidAliasChanBit},
	{"alias-feature", chanstate.SingleFunderTweaklessBit | chanstate.AnchorOutputsBit | chanstate.ZeroHtlcTxFeeBit | chanstate.ScidAliasFeatureBit},
	{"taproot", chanstate.SingleFunderTweaklessBit | chanstate.AnchorOutputsBit | chanstate.ZeroHtlcTxFeeBit | chanstate.SimpleTaprootFeatureBit},
	{"taprootfinal", chanstate.SingleFunderTweaklessBit | chanstate.AnchorOutputsBit | chanstate.ZeroHtlcTxFeeBit | chanstate.SimpleTaprootFeatureBit | chanstate.TaprootFinalBit},
	{"taproot-tapscriptroot", chanstate.SingleFunderTweaklessBit | chanstate.AnchorOutputsBit | chanstate.ZeroHtlcTxFeeBit | chanstate.SimpleTaprootFeatureBit | chanstate.TapscriptRootBit},
}

func statPoints() []statPoint {
	var out []statPoint
	for _, t := range statTypes {
		for _, init := range []bool{true, false} {
			for v := 0; v < 3; v++ {
				out = append(out, statPoint{Name: t.name, TypeBits: uint64(t.bits), Initiator: init, Variant: v})
			}
		}
	}
	return out
}

func keyDesc(seed byte, fam, idx uint32) keychain.KeyDescriptor {
	var sk [32]byte
	sk[0], sk[31] = 0x11, seed
	_, pub := btcec.PrivKeyFromBytes(sk[:])
	return keychain.KeyDescriptor{KeyLocator: keychain.KeyLocator{Family: keychain.KeyFamily(fam), Index: idx}, PubKey: pub}
}

func pubOf(seed byte) *btcec.PublicKey { return keyDesc(seed, 0, 0).PubKey }

func cfgProj(c *channeldb.ChannelConfig) string {
	var b strings.Builder
	fmt.Fprintf(&b, "cfg{d%d r%d csv%d min%d maxp%d maxh%d", c.DustLimit, c.ChanReserve, c.CsvDelay, c.MinHTLC, c.MaxPendingAmount, c.MaxAcceptedHtlcs)
	for _, k := range []*keychain.KeyDescriptor{&c.MultiSigKey, &c.RevocationBasePoint, &c.PaymentBasePoint, &c.DelayBasePoint, &c.HtlcBasePoint} {
		if k.PubKey != nil {
			fmt.Fprintf(&b, " %x@%d/%d", k.PubKey.SerializeCompressed()[:6], k.KeyLocator.Family, k.KeyLocator.Index)
		} else {
			fmt.Fprintf(&b, " nil@%d/%d", k.KeyLocator.Family, k.KeyLocator.Index)
		}
	}
	b.WriteString("}")
	return b.String()
}

// staticProj: the fields decided at funding time plus the slowly changing ones.
func staticProj(st *channeldb.OpenChannel) string {
	var b strings.Builder
	fmt.Fprintf(&b, " type%d chain%x fo%v scid%v real%v pend%v init%v fbh%d conf%d ncr%d flags%d cap%d sent%d rcvd%d il%d ir%d thaw%d revloc%d/%d",
		st.ChanType, st.ChainHash[:4], st.FundingOutpoint, st.ShortChannelID.ToUint64(), st.ConfirmedScidForStore().ToUint64(), st.IsPending, st.IsInitiator,
		st.FundingBroadcastHeight, st.ConfirmationHeight, st.NumConfsRequired, st.ChannelFlags, st.Capacity, st.TotalMSatSent, st.TotalMSatReceived,
		st.InitialLocalBalance, st.InitialRemoteBalance, st.ThawHeight, st.RevocationKeyLocator.Family, st.RevocationKeyLocator.Index)
	if st.IdentityPub != nil {
		fmt.Fprintf(&b, " id%x", st.IdentityPub.SerializeCompressed()[:6])
	}
	fmt.Fprintf(&b, " ccf%v", st.CloseConfirmationHeight)
	fmt.Fprintf(&b, " memo%x lss%x rss%x", st.Memo, []byte(st.LocalShutdownScript), []byte(st.RemoteShutdownScript))
	st.TapscriptRoot.WhenSome(func(h chainhash.Hash) { fmt.Fprintf(&b, " tap%x", h[:]) })
	st.CustomBlob.WhenSome(func(bl tlv.Blob) { fmt.Fprintf(&b, " cblob%x", bl) })
	if st.FundingTxn != nil {
		var x bytes.Buffer
		_ = st.FundingTxn.Serialize(&x)
		fmt.Fprintf(&b, " ftx%x", sha256.Sum256(x.Bytes()))
	}
	b.WriteString(" " + cfgProj(&st.LocalChanCfg) + " " + cfgProj(&st.RemoteChanCfg))
	return b.String()
}

func updProj(tag string, us []channeldb.LogUpdate, err error) string {
	var b strings.Builder
	fmt.Fprintf(&b, " %s[", tag)
	if err != nil {
		fmt.Fprintf(&b, "err:%v", err)
	}
	for _, u := range us {
		var x bytes.Buffer
		if u.UpdateMsg != nil {
			_ = u.UpdateMsg.Encode(&x, 0)
		}
		fmt.Fprintf(&b, "%d:%T:%x,", u.LogIndex, u.UpdateMsg, x.Bytes()[:min(x.Len(), 90)])
	}
	b.WriteString("]")
	return b.String()
}

func diffProj(tip *channeldb.CommitDiff) string {
	var b strings.Builder
	fmt.Fprintf(&b, " tip{h%d", tip.Commitment.CommitHeight)
	b.WriteString(updProj("lu", tip.LogUpdates, nil))
	// AddAcks / SettleFailAcks are documented as not serialised: they are applied to the
	// forwarding packages in the same transaction (judged through the ack bits)
	fmt.Fprintf(&b, " open%v closed%v", tip.OpenedCircuitKeys, tip.ClosedCircuitKeys)
	if tip.CommitSig != nil {
		var x bytes.Buffer
		_ = tip.CommitSig.Encode(&x, 0)
		fmt.Fprintf(&b, " sig%x", sha256.Sum256(x.Bytes()))
	}
	for i := range tip.Commitment.Htlcs {
		fmt.Fprintf(&b, "[%s]", htlcPayload(&tip.Commitment.Htlcs[i]))
	}
	b.WriteString("}")
	return b.String()
}

func pkgProj(p *channeldb.FwdPkg) string {
	return fmt.Sprintf(" pkg{%d s%d%s%s}", p.Height, p.State, updProj("a", p.Adds, nil), updProj("sf", p.SettleFails, nil))
}

func listProj(st *channeldb.OpenChannel) string {
	var b strings.Builder
	upd := func(tag string, us []channeldb.LogUpdate, err error) { b.WriteString(updProj(tag, us, err)) }
	ua, err := st.UnsignedAckedUpdates()
	upd("ua", ua, err)
	ru, err := st.RemoteUnsignedLocalUpdates()
	upd("ru", ru, err)
	if tip, err := st.RemoteCommitChainTip(); err == nil && tip != nil {
		b.WriteString(diffProj(tip))
	}
	if pk, err := st.LoadFwdPkgs(); err == nil {
		for _, p := range pk {
			b.WriteString(pkgProj(p))
		}
	}
	return b.String()
}

type statWorld struct {
	pt   statPoint
	dir  string
	db   *channeldb.DB
	live *channeldb.OpenChannel
	old  *channeldb.OpenChannel // an older handle, refreshed at every stage
	bad  func(sig, what string)
	n    *atomic.Int64
	// written: what the last writer was handed for the durable lists, as
	// (reader, projection of the value written)
	written []wrote
}

type wrote struct {
	what string
	read func(c *channeldb.OpenChannel) string
	want string
}

func testTx(seed byte, outs int) *wire.MsgTx {
	tx := wire.NewMsgTx(2)
	tx.AddTxIn(wire.NewTxIn(&wire.OutPoint{Hash: chainhash.Hash(sha256.Sum256([]byte{seed})), Index: uint32(seed)}, nil, nil))
	for i := 0; i < outs; i++ {
		tx.AddTxOut(wire.NewTxOut(int64(1000*(i+1))+int64(seed), []byte{0x00, 0x14, seed, byte(i), 3, 4, 5, 6, 7, 8, 9, 10, 11, 12, 13, 14, 15, 16, 17, 18, 19, 20}))
	}
	return tx
}

func statHTLC(k int, incoming bool, extras int) channeldb.HTLC {
	h := channeldb.HTLC{Signature: bytes.Repeat([]byte{byte(0x40 + k)}, 64), Amt: lnwire.MilliSatoshi(7_000_000 + 1001*k), RefundTimeout: uint32(700 + k),
		OutputIndex: int32(k%3) - 1, Incoming: incoming, HtlcIndex: uint64(3 + k), LogIndex: uint64(11 + k)}
	h.RHash = sha256.Sum256([]byte{byte(k), 0x77})
	for j := range h.OnionBlob {
		h.OnionBlob[j] = byte(j*3 + k)
	}
	if extras&1 != 0 {
		h.BlindingPoint = tlv.SomeRecordT(tlv.NewPrimitiveRecord[lnwire.BlindingPointTlvType](pubOf(byte(0x60 + k))))
	}
	if extras&2 != 0 {
		h.CustomRecords = lnwire.CustomRecords{lnwire.MinCustomRecordsTlvType + uint64(k): {byte(k), 1, 2}, lnwire.MinCustomRecordsTlvType + 77: bytes.Repeat([]byte{9}, 33)}
	}
	return h
}

func statCommit(height uint64, variant int, seed byte) channeldb.ChannelCommitment {
	c := channeldb.ChannelCommitment{CommitHeight: height, LocalLogIndex: 21 + height, LocalHtlcIndex: 5 + height, RemoteLogIndex: 31 + height, RemoteHtlcIndex: 7 + height,
		LocalBalance: lnwire.MilliSatoshi(400_000_000 + uint64(seed)), RemoteBalance: lnwire.MilliSatoshi(500_000_000 + uint64(seed)), CommitFee: btcutil.Amount(1234 + int64(seed)), FeePerKw: btcutil.Amount(6000 + int64(seed)),
		CommitTx: testTx(seed, 4), CommitSig: bytes.Repeat([]byte{seed}, 64)}
	switch variant {
	case 1:
		for k := 0; k < 4; k++ {
			c.Htlcs = append(c.Htlcs, statHTLC(k+int(seed%3), k%2 == 0, k))
		}
		c.CustomBlob = fn.Some[tlv.Blob]([]byte{seed, 0xcb, 1})
	case 2:
		c.LocalLogIndex, c.RemoteLogIndex = math.MaxUint64-1, math.MaxUint64-2
		c.LocalHtlcIndex, c.RemoteHtlcIndex = math.MaxUint64-3, math.MaxUint64-4
		c.Htlcs = append(c.Htlcs, statHTLC(1, true, 3))
		c.Htlcs[0].Amt = lnwire.MilliSatoshi(math.MaxInt64)
		c.Htlcs[0].RefundTimeout = math.MaxUint32
		c.Htlcs[0].OutputIndex = math.MaxUint16
		c.Htlcs[0].HtlcIndex, c.Htlcs[0].LogIndex = math.MaxUint64, math.MaxUint64
	}
	return c
}

func newStatWorld(pt statPoint, base string, seq int64, bad func(sig, what string), n *atomic.Int64) (*statWorld, error) {
	w := &statWorld{pt: pt, bad: bad, n: n}
	w.dir = filepath.Join(base, fmt.Sprintf("stat%d.%d", os.Getpid(), seq))
	if err := os.MkdirAll(w.dir, 0o755); err != nil {
		return nil, err
	}
	backend, err := kvdb.GetBoltBackend(&kvdb.BoltBackendConfig{DBPath: w.dir, DBFileName: "channel.db", NoFreelistSync: true,
		AutoCompact: false, AutoCompactMinAge: kvdb.DefaultBoltAutoCompactMinAge, DBTimeout: kvdb.DefaultDBTimeout})
	if err != nil {
		return nil, err
	}
	w.db, err = channeldb.CreateWithBackend(backend)
	if err != nil {
		return nil, err
	}
	ct := chanstate.ChannelType(pt.TypeBits)
	v := pt.Variant
	mk := func(base byte, dust, reserve btcutil.Amount, csv uint16) channeldb.ChannelConfig {
		c := channeldb.ChannelConfig{
			ChannelStateBounds: channeldb.ChannelStateBounds{MaxPendingAmount: lnwire.MilliSatoshi(900_000_000 + uint64(base)), ChanReserve: reserve, MinHTLC: lnwire.MilliSatoshi(1000 + uint64(base)), MaxAcceptedHtlcs: uint16(200 + uint16(base))},
			CommitmentParams:   channeldb.CommitmentParams{DustLimit: dust, CsvDelay: csv},
			MultiSigKey:        keyDesc(base+1, uint32(base)+10, uint32(base)+100), RevocationBasePoint: keyDesc(base+2, uint32(base)+11, uint32(base)+101),
			PaymentBasePoint: keyDesc(base+3, uint32(base)+12, uint32(base)+102), DelayBasePoint: keyDesc(base+4, uint32(base)+13, uint32(base)+103),
			HtlcBasePoint: keyDesc(base+5, uint32(base)+14, uint32(base)+104),
		}
		switch v {
		case 0:
			c.MinHTLC, c.ChanReserve = 0, 0
			for _, k := range []*keychain.KeyDescriptor{&c.MultiSigKey, &c.RevocationBasePoint, &c.PaymentBasePoint, &c.DelayBasePoint, &c.HtlcBasePoint} {
				k.KeyLocator = keychain.KeyLocator{}
			}
		case 2:
			c.CsvDelay, c.MaxAcceptedHtlcs = math.MaxUint16, math.MaxUint16
			c.MaxPendingAmount, c.MinHTLC = lnwire.MilliSatoshi(math.MaxInt64), lnwire.MilliSatoshi(math.MaxInt64-1)
			c.MultiSigKey.KeyLocator = keychain.KeyLocator{Family: math.MaxUint32, Index: math.MaxUint32}
		}
		return c
	}
	producer := shachain.NewRevocationProducer(chainhash.Hash(sha256.Sum256([]byte("c02-static-producer"))))
	st := &chanstate.OpenChannel{
		ChanType: ct, ChainHash: chainhash.Hash(sha256.Sum256([]byte("c02-chain"))),
		FundingOutpoint: wire.OutPoint{Hash: chainhash.Hash(sha256.Sum256([]byte("c02-static-funding"))), Index: 3},
		ShortChannelID:  lnwire.NewShortChanIDFromInt(uint64(611_000)<<40 | 5<<16 | 1),
		IsPending:       true, IsInitiator: pt.Initiator, IdentityPub: pubOf(0x90), Capacity: 1_000_000,
		LocalChanCfg: mk(0x20, 354, 10_000, 144), RemoteChanCfg: mk(0x40, 573, 10_001, 145),
		LocalCommitment: statCommit(0, v, 0x51), RemoteCommitment: statCommit(0, v, 0x52),
		RemoteCurrentRevocation: pubOf(0x91), RevocationProducer: producer, RevocationStore: shachain.NewRevocationStore(),
		Db: w.db.ChannelStateDB(),
	}
	if pt.Initiator && ct.IsSingleFunder() && ct.HasFundingTx() {
		st.FundingTxn = testTx(0x33, 2)
	}
	switch v {
	case 1:
		st.NumConfsRequired, st.ChannelFlags = 4, lnwire.FFAnnounceChannel
		st.TotalMSatSent, st.TotalMSatReceived = 123_456, 654_321
		st.InitialLocalBalance, st.InitialRemoteBalance = 400_000_111, 500_000_222
		st.RevocationKeyLocator = keychain.KeyLocator{Family: 8, Index: 19}
		st.Memo = []byte("c02 memo")
		st.LocalShutdownScript = lnwire.DeliveryAddress{0x00, 0x14, 1, 1, 1, 1, 1, 1, 1, 1, 1, 1, 1, 1, 1, 1, 1, 1, 1, 1, 1, 1}
		st.RemoteShutdownScript = lnwire.DeliveryAddress{0x00, 0x14, 2, 2, 2, 2, 2, 2, 2, 2, 2, 2, 2, 2, 2, 2, 2, 2, 2, 2, 2, 2}
		st.CustomBlob = fn.Some[tlv.Blob]([]byte{0xc0, 0xff, 0xee})
		st.ConfirmationHeight = 611_000
	case 2:
		st.NumConfsRequired = math.MaxUint16
		st.TotalMSatSent, st.TotalMSatReceived = lnwire.MilliSatoshi(math.MaxInt64), lnwire.MilliSatoshi(math.MaxInt64-7)
		st.InitialLocalBalance, st.InitialRemoteBalance = lnwire.MilliSatoshi(math.MaxInt64-1), lnwire.MilliSatoshi(math.MaxInt64-2)
		st.RevocationKeyLocator = keychain.KeyLocator{Family: math.MaxUint32, Index: math.MaxUint32}
		st.Memo = bytes.Repeat([]byte{0x6d}, 500)
		st.RemoteShutdownScript = lnwire.DeliveryAddress(bytes.Repeat([]byte{0x51}, 34))
		st.ConfirmationHeight = math.MaxUint32
		st.Capacity = btcutil.Amount(math.MaxInt64)
	}
	if ct.IsFrozen() || ct.HasLeaseExpiration() {
		switch v {
		case 0:
			st.ThawHeight = 1 // relative for frozen, the smallest non-zero
		case 1:
			st.ThawHeight = 612_345
		case 2:
			st.ThawHeight = chanstate.AbsoluteThawHeightThreshold - 1
			if !ct.IsFrozen() {
				st.ThawHeight = math.MaxUint32
			}
		}
	}
	if ct.HasTapscriptRoot() && v != 0 {
		st.TapscriptRoot = fn.Some(chainhash.Hash(sha256.Sum256([]byte("c02-tapscript-root"))))
	}
	w.live = st
	return w, nil
}

func (w *statWorld) close() {
	if w.db != nil {
		_ = w.db.Close()
	}
	_ = os.RemoveAll(w.dir)
}

func (w *statWorld) violate(sig, what string) {
	w.bad("static:"+sig, fmt.Sprintf("%s | point %s initiator=%v variant=%d", what, w.pt.Name, w.pt.Initiator, w.pt.Variant))
}

// compare loads the record through every loader and compares with the live handle.
func (w *statWorld) compare(stage string) bool {
	cdb := w.db.ChannelStateDB()
	want := deepProj(w.live) + listProj(w.live)
	loaders := []struct {
		name string
		f    func() (*channeldb.OpenChannel, error)
	}{
		{"FetchOpenChannels", func() (*channeldb.OpenChannel, error) {
			cs, err := cdb.FetchOpenChannels(w.live.IdentityPub)
			if err != nil || len(cs) != 1 {
				return nil, fmt.Errorf("%d channels, %v", len(cs), err)
			}
			return cs[0], nil
		}},
		{"FetchChannel", func() (*channeldb.OpenChannel, error) { return cdb.FetchChannel(w.live.FundingOutpoint) }},
		{"FetchChannelByID", func() (*channeldb.OpenChannel, error) {
			return cdb.FetchChannelByID(lnwire.NewChanIDFromOutPoint(w.live.FundingOutpoint))
		}},
		{"FetchAllOpenChannels", func() (*channeldb.OpenChannel, error) {
			cs, err := cdb.FetchAllOpenChannels()
			if w.live.IsPending {
				cs, err = cdb.FetchPendingChannels()
			}
			if err != nil || len(cs) != 1 {
				return nil, fmt.Errorf("%d channels, %v", len(cs), err)
			}
			return cs[0], nil
		}},
		{"FetchAllChannels", func() (*channeldb.OpenChannel, error) {
			cs, err := cdb.FetchAllChannels()
			if err != nil || len(cs) != 1 {
				return nil, fmt.Errorf("%d channels, %v", len(cs), err)
			}
			return cs[0], nil
		}},
		{"Refresh", func() (*channeldb.OpenChannel, error) {
			if w.old == nil {
				return nil, nil
			}
			return w.old, w.old.Refresh()
		}},
	}
	ok := true
	for _, l := range loaders {
		var c *channeldb.OpenChannel
		var err error
		func() {
			defer func() {
				if v := recover(); v != nil {
					err = fmt.Errorf("panic: %v", v)
				}
			}()
			c, err = l.f()
		}()
		if err != nil {
			w.violate("load-failed:"+l.name+":"+stage, fmt.Sprintf("after %s: %s: %v", stage, l.name, err))
			ok = false
			continue
		}
		if c == nil {
			continue
		}
		w.n.Add(1)
		if got := deepProj(c) + listProj(c); got != want {
			w.violate("record-differs:"+l.name+":"+stage, fmt.Sprintf("after %s the record loaded with %s differs from the live handle:\n live   %s\n loaded %s", stage, l.name, clipDiff(want, got), clipDiff(got, want)))
			ok = false
		}
		for _, wr := range w.written {
			if got := wr.read(c); got != wr.want {
				w.violate("list-differs:"+wr.what+":"+l.name+":"+stage, fmt.Sprintf("after %s the %s read through a record loaded with %s is not what was written:\n written %s\n read    %s", stage, wr.what, l.name, clipDiff(wr.want, got), clipDiff(got, wr.want)))
				ok = false
			}
		}
		if l.name == "FetchChannel" && w.old == nil {
			w.old = c
		}
	}
	return ok
}

// clipDiff shows a against b around their first difference.
func clipDiff(a, b string) string {
	i := 0
	for i < len(a) && i < len(b) && a[i] == b[i] {
		i++
	}
	lo := i - 160
	if lo < 0 {
		lo = 0
	}
	hi := i + 240
	if hi > len(a) {
		hi = len(a)
	}
	return fmt.Sprintf("...%s... (first difference at byte %d)", a[lo:hi], i)
}

func runStatPoint(pt statPoint, base string, seq int64, bad func(sig, what string), n *atomic.Int64, trace bool) {
	w, err := newStatWorld(pt, base, seq, bad, n)
	if err != nil {
		bad("static:harness:world", err.Error())
		return
	}
	defer w.close()
	st := w.live
	v := pt.Variant
	stage := func(name string, f func() error) bool {
		if trace {
			fmt.Printf("INFO stage %s\n", name)
		}
		var err error
		func() {
			defer func() {
				if r := recover(); r != nil {
					err = fmt.Errorf("panic: %v", r)
				}
			}()
			err = f()
		}()
		if err != nil {
			w.violate("writer-failed:"+name, fmt.Sprintf("%s: %v", name, err))
			return false
		}
		ok := w.compare(name)
		w.written = nil
		return ok
	}
	if !stage("SyncPending", func() error { return st.SyncPending(&net.TCPAddr{IP: net.ParseIP("127.0.0.1"), Port: 18555}, 610_990) }) {
		return
	}
	scid := lnwire.NewShortChanIDFromInt(uint64(611_001)<<40 | 6<<16 | 2)
	if !stage("MarkAsOpen", func() error { return st.MarkAsOpen(scid) }) {
		return
	}
	upd := func(base uint64) []channeldb.LogUpdate {
		chanID := lnwire.NewChanIDFromOutPoint(st.FundingOutpoint)
		if v == 0 {
			return nil
		}
		add := &lnwire.UpdateAddHTLC{ChanID: chanID, ID: base, Amount: 5_000_000 + lnwire.MilliSatoshi(base), Expiry: 800, PaymentHash: sha256.Sum256([]byte{byte(base)})}
		add.BlindingPoint = tlv.SomeRecordT(tlv.NewPrimitiveRecord[lnwire.BlindingPointTlvType](pubOf(byte(0x70 + base))))
		add.CustomRecords = lnwire.CustomRecords{lnwire.MinCustomRecordsTlvType + base: {1, byte(base)}}
		return []channeldb.LogUpdate{
			{LogIndex: base, UpdateMsg: add},
			{LogIndex: base + 1, UpdateMsg: &lnwire.UpdateFulfillHTLC{ChanID: chanID, ID: base + 1, PaymentPreimage: sha256.Sum256([]byte{byte(base), 1})}},
			{LogIndex: base + 2, UpdateMsg: &lnwire.UpdateFailHTLC{ChanID: chanID, ID: base + 2, Reason: []byte{byte(base), 2, 2}}},
			{LogIndex: base + 3, UpdateMsg: &lnwire.UpdateFailMalformedHTLC{ChanID: chanID, ID: base + 3, ShaOnionBlob: sha256.Sum256([]byte{byte(base), 3}), FailureCode: lnwire.CodeInvalidOnionKey}},
			{LogIndex: base + 4, UpdateMsg: &lnwire.UpdateFee{ChanID: chanID, FeePerKw: 7000 + uint32(base)}},
		}
	}
	if !stage("UpdateCommitment", func() error {
		c := statCommit(1, v, 0x53)
		_, err := st.UpdateCommitment(&c, upd(40))
		w.written = []wrote{{"unsigned acked updates", func(c *channeldb.OpenChannel) string {
			us, err := c.UnsignedAckedUpdates()
			return updProj("ua", us, err)
		}, updProj("ua", upd(40), nil)}}
		return err
	}) {
		return
	}
	// the forwarding packages the references of the commit diff point into (the own
	// channel's package that locked the resolved add in, and the downstream channel's
	// package the settle/fail came from) exist before a link can pass such references
	if v != 0 {
		var five []channeldb.LogUpdate
		for len(five) < 6 {
			five = append(five, upd(50)[1])
		}
		err := kvdb.Update(w.db.Backend, func(tx kvdb.RwTx) error {
			if err := channeldb.NewChannelPackager(st.ShortChannelID).AddFwdPkg(tx, channeldb.NewFwdPkg(st.ShortChannelID, 91, []channeldb.LogUpdate{upd(50)[0], upd(51)[0], upd(52)[0]}, nil)); err != nil {
				return err
			}
			down := lnwire.NewShortChanIDFromInt(93)
			return channeldb.NewChannelPackager(down).AddFwdPkg(tx, channeldb.NewFwdPkg(down, 94, nil, five))
		}, func() {})
		if err != nil {
			w.violate("harness:prior-packages", err.Error())
			return
		}
	}
	if !stage("AppendRemoteCommitChain", func() error {
		d := &channeldb.CommitDiff{Commitment: statCommit(1, v, 0x54), LogUpdates: upd(60),
			CommitSig: &lnwire.CommitSig{ChanID: lnwire.NewChanIDFromOutPoint(st.FundingOutpoint), HtlcSigs: []lnwire.Sig{}}}
		if v != 0 {
			d.OpenedCircuitKeys = []models.CircuitKey{{ChanID: lnwire.NewShortChanIDFromInt(81), HtlcID: 82}}
			d.ClosedCircuitKeys = []models.CircuitKey{{ChanID: lnwire.NewShortChanIDFromInt(83), HtlcID: 84}, {ChanID: lnwire.NewShortChanIDFromInt(85), HtlcID: 86}}
			d.AddAcks = []channeldb.AddRef{{Height: 91, Index: 2}}
			d.SettleFailAcks = []channeldb.SettleFailRef{{Source: lnwire.NewShortChanIDFromInt(93), Height: 94, Index: 5}}
		}
		w.written = []wrote{{"pending commit diff", func(c *channeldb.OpenChannel) string {
			tip, err := c.RemoteCommitChainTip()
			if err != nil || tip == nil {
				return fmt.Sprintf("none (%v)", err)
			}
			return diffProj(tip)
		}, diffProj(d)}}
		if v != 0 {
			w.written = append(w.written, wrote{"ack bits of the referenced forwarding packages", func(c *channeldb.OpenChannel) string {
				out := ""
				pk, _ := c.LoadFwdPkgs()
				for _, p := range pk {
					if p.Height == 91 {
						out += fmt.Sprintf("own[%v %v %v]", p.AckFilter.Contains(0), p.AckFilter.Contains(1), p.AckFilter.Contains(2))
					}
				}
				_ = kvdb.View(w.db.Backend, func(tx kvdb.RTx) error {
					ps, err := channeldb.NewChannelPackager(lnwire.NewShortChanIDFromInt(93)).LoadFwdPkgs(tx)
					for _, p := range ps {
						out += fmt.Sprintf(" down[%v %v]", p.SettleFailFilter.Contains(4), p.SettleFailFilter.Contains(5))
					}
					return err
				}, func() {})
				return out
			}, "own[false false true] down[false true]"})
		}
		return st.AppendRemoteCommitChain(d)
	}) {
		return
	}
	if !stage("InsertNextRevocation", func() error { return st.InsertNextRevocation(pubOf(0x92)) }) {
		return
	}
	stage("AdvanceCommitChainTail", func() error {
		// what ReceiveRevocation does to the handle before the write
		var secret chainhash.Hash
		producer := shachain.NewRevocationProducer(chainhash.Hash(sha256.Sum256([]byte("c02-static-peer"))))
		s, err := producer.AtIndex(0)
		if err != nil {
			return err
		}
		secret = *s
		if err := st.RevocationStore.AddNextEntry(&secret); err != nil {
			return err
		}
		st.RemoteCurrentRevocation, st.RemoteNextRevocation = st.RemoteNextRevocation, pubOf(0x93)
		pkg := channeldb.NewFwdPkg(st.ShortChannelID, 1, upd(70)[:min(1, len(upd(70)))], nil)
		if v != 0 {
			pkg = channeldb.NewFwdPkg(st.ShortChannelID, 1, upd(70)[:1], upd(70)[1:4])
		}
		w.written = []wrote{
			{"own updates awaiting the peer's signature", func(c *channeldb.OpenChannel) string {
				us, err := c.RemoteUnsignedLocalUpdates()
				return updProj("ru", us, err)
			}, updProj("ru", upd(80), nil)},
			{"forwarding package", func(c *channeldb.OpenChannel) string {
				pk, err := c.LoadFwdPkgs()
				for _, p := range pk {
					if p.Height == 1 {
						return pkgProj(p)
					}
				}
				return fmt.Sprintf("not among %d packages (%v)", len(pk), err)
			}, pkgProj(pkg)},
			{"pending commit diff", func(c *channeldb.OpenChannel) string {
				tip, err := c.RemoteCommitChainTip()
				return fmt.Sprintf("%v %v", tip == nil, err)
			}, fmt.Sprintf("%v %v", true, channeldb.ErrNoPendingCommit)},
		}
		return st.AdvanceCommitChainTail(pkg, upd(80), 1, 2)
	})
}

func runStatic(run *evid.Run, deadline time.Time) map[string]any {
	base := os.Getenv("VERIF_SCRATCH")
	if base == "" {
		base = os.TempDir()
	}
	var n atomic.Int64
	pts := statPoints()
	done := 0
	t0 := time.Now()
	for i, pt := range pts {
		if time.Now().After(deadline) || run.Violations() >= 3 {
			break
		}
		pt := pt
		runStatPoint(pt, base, int64(i), func(sig, what string) { run.Violation(sig, what, map[string]any{"static": pt}) }, &n, false)
		done++
	}
	return map[string]any{
		"rule":              "channel-record lattice: 15 type-bit combinations x initiator x {minimal, full, boundary}; six writers, six loaders after each",
		"points":            len(pts),
		"points_done":       done,
		"loads_compared":    n.Load(),
		"wall_s":            time.Since(t0).Seconds(),
		"exhaustive":        done == len(pts),
	}
}
