package c02

// Payload lattice: the parts of the durable channel state the chanmc alphabet leaves
// blank. chanmc's HTLCs all carry the same onion, no blinding point, no custom
// records, and its AddHTLC/SettleHTLC/FailHTLC calls pass nil for the link's
// references (open/closed circuit keys, forwarding-package source and destination
// references), and its databases are opened with default options. Here two real
// channels (built by chanmc.New, so same fixture, same deterministic keys) are driven
// by a small deterministic driver whose HTLCs carry
//
//	payload  : distinct onion per HTLC x {no extras, blinding point, custom records, both}
//	           x {regular, dust} amount
//	refs     : {nil, present} - circuit keys on add and on settle/fail, the AddRef of
//	           the forwarding package that locked the HTLC in, and a SettleFailRef into
//	           the forwarding package of a second ("downstream") channel in the same DB
//	db opts  : {default, store-final-htlc-resolutions + no-revlog-amt-data}
//	fate     : settle / fail / malformed, both directions, plus two update_fee by the opener
//	           (second one: revert to the base rate / repeat of the first / new rate)
//	schedule : lock-step (deliver first) and batched (all updates first, crossed signatures)
//	type     : quick legacy+taproot, thorough all seven
//
// crossed as a Latin square (every pair payload x fate, payload x direction,
// fate x direction occurs), and for every lattice point a cut (both sides reload
// from disk through FetchOpenChannels + NewLightningChannel, channel_reestablish,
// retransmission) is inserted BEFORE EVERY step of the uninterrupted run (thorough:
// a second cut at each of the next steps as well). Exhaustive within these bounds.
//
// Oracles (none scenario-specific):
//
//	api      every call between the two honest peers succeeds; reload does not fail/panic
//	payload  every HTLC on every commitment either side holds (local, remote tail,
//	         pending diff) and every add in a forwarding package on disk carries exactly
//	         the payload of the intent with that payment hash
//	reload   deep projection of State() before == after reload; four loaders + Refresh agree;
//	         reloaded local height > every height whose secret was released
//	refs     commit diff on disk: Opened/ClosedCircuitKeys are exactly the circuit keys
//	         passed with the updates in its LogUpdates; ack bit of
//	         an add / of a downstream settle-fail is set iff the resolution was covered by
//	         a signature of the resolver
//	durable  the five durable-list invariants of diskinv_test.go after every step
//	final    quiescence is reached, every HTLC removed, balances moved by exactly the
//	         settled amounts, final-HTLC record per resolved incoming HTLC iff the option is on
import (
	"bytes"
	"crypto/sha256"
	"errors"
	"fmt"
	"sort"
	"strings"
	"sync"
	"sync/atomic"
	"time"

	"github.com/btcsuite/btcd/btcec/v2"
	"github.com/btcsuite/btcd/chainhash/v2"
	"github.com/lightningnetwork/lnd/channeldb"
	"github.com/lightningnetwork/lnd/graph/db/models"
	"github.com/lightningnetwork/lnd/kvdb"
	"github.com/lightningnetwork/lnd/lnwallet"
	"github.com/lightningnetwork/lnd/lnwallet/chainfee"
	"github.com/lightningnetwork/lnd/lnwire"
	"github.com/lightningnetwork/lnd/tlv"
	"github.com/lightningnetwork/lnd/verifmc/chanmc"
	"github.com/lightningnetwork/lnd/verifmc/evid"
)

// latCfg is one lattice point (and the replay artefact).
type latCfg struct {
	Type    string `json:"type"`
	OpenerB bool   `json:"opener_b"`
	Rot     int    `json:"rotation"` // Latin-square rotation 0..2
	DBOpts  bool   `json:"db_opts"`
	Sched   int    `json:"schedule"` // 0 lock-step, 1 batched/crossed
	Cut     int    `json:"cut"`      // cut before this step of the uninterrupted run (-1: none)
	Cut2    int    `json:"cut2"`     // second cut this many steps after the first (0: none)
}

func (c latCfg) name() string {
	return fmt.Sprintf("%s/openB=%v/rot%d/opts=%v/sched%d", c.Type, c.OpenerB, c.Rot, c.DBOpts, c.Sched)
}

type lIntent struct {
	By     int
	Amt    uint64
	Fate   string
	Extras int // 0 none 1 blinding point 2 custom records 3 both
	Refs   bool

	hash, preimage [32]byte
	expiry         uint32
	onion          [lnwire.OnionPacketSize]byte
	blind          *btcec.PublicKey
	custom         lnwire.CustomRecords
	openKey        models.CircuitKey
	closeKey       models.CircuitKey
	dest           channeldb.SettleFailRef

	sent, addSigned, locked, resolved, resSigned, removed bool
	id                                                    uint64
	src                                                   *channeldb.AddRef
}

type lParty struct {
	i              int
	name           string
	ch             *lnwallet.LightningChannel
	db             *channeldb.DB
	pool           *lnwallet.SigPool
	ident          *btcec.PublicKey
	needSync       bool
	awaitingRevoke bool
	lastRevoked    int64
}

type lWorld struct {
	cfg     latCfg
	base    *chanmc.World
	pt      [2]*lParty
	wire    [2][]lnwire.Message
	h       []*lIntent
	// two update_fee by the opener: a new rate, then (by rotation) a revert to the base
	// rate 6000 / a repeat of the first update / another new rate
	fees    []int64
	feeSent int
	feeSig  int
	opener  int
	steps   int
	log     []string
	trace   bool
	bad     func(sig, what string)
	failed  bool
	st      *latStats
}

type latStats struct {
	worlds, steps, reloads, payloadChecks, diskChecks, refChecks, quiescent, fwdAdds, ackBits atomic.Int64
}

var synthScid = lnwire.NewShortChanIDFromInt(uint64(654_321)<<40 | 9<<16 | 2)

const synthHeight = 7

func (w *lWorld) violate(sig, what string) {
	w.failed = true
	w.bad(w.cfg.Type+":lattice:"+sig, what+" | point "+w.cfg.name()+fmt.Sprintf(" cut=%d cut2=%d", w.cfg.Cut, w.cfg.Cut2)+" | history: "+strings.Join(w.log, " "))
}

func latIntents(rot int, typ string) []*lIntent {
	th := chanmc.Thresholds(typ, 6000, 200, 1300)
	fates := []string{"settle", "fail", "malformed"}
	extras := []int{1, 2, 3}
	by := []int{0, 1, 0}
	var out []*lIntent
	for k := 0; k < 3; k++ {
		in := &lIntent{By: by[k], Fate: fates[(k+rot)%3], Extras: extras[(k+2*rot)%3], Refs: true,
			Amt: uint64(40_000_000 + k*1_000_003)}
		if k == 2 {
			// dust on both commitments: below the smallest threshold
			lo := th[0]
			for _, t := range th {
				if t < lo {
					lo = t
				}
			}
			in.Amt = uint64(lo-1)*1000 + 7
		}
		out = append(out, in)
	}
	// a plain HTLC (what chanmc sends) in the same lists as the decorated ones
	out = append(out, &lIntent{By: 1, Fate: "settle", Extras: 0, Refs: false, Amt: 33_000_000 + 11})
	for k, in := range out {
		in.preimage = sha256.Sum256([]byte(fmt.Sprintf("c02-lattice-preimage-%d", k)))
		in.hash = sha256.Sum256(in.preimage[:])
		in.expiry = 200 + uint32(13*k)
		for j := range in.onion {
			in.onion[j] = byte(7*k + j + 1)
		}
		if in.Extras&1 != 0 {
			var sk [32]byte
			sk[31], sk[0] = byte(k+1), 0x5a
			_, pub := btcec.PrivKeyFromBytes(sk[:])
			in.blind = pub
		}
		if in.Extras&2 != 0 {
			in.custom = lnwire.CustomRecords{
				lnwire.MinCustomRecordsTlvType + uint64(k):      []byte{byte(k + 1), 0xee, 0x01},
				lnwire.MinCustomRecordsTlvType + 500 + uint64(k): bytes.Repeat([]byte{byte(0x30 + k)}, 40),
			}
		}
		in.openKey = models.CircuitKey{ChanID: lnwire.NewShortChanIDFromInt(uint64(0x7100 + k)), HtlcID: uint64(900 + k)}
		in.closeKey = models.CircuitKey{ChanID: lnwire.NewShortChanIDFromInt(uint64(0x7200 + k)), HtlcID: uint64(950 + k)}
		in.dest = channeldb.SettleFailRef{Source: synthScid, Height: synthHeight, Index: uint16(k)}
	}
	return out
}

func (in *lIntent) addMsg(chanID lnwire.ChannelID) *lnwire.UpdateAddHTLC {
	m := &lnwire.UpdateAddHTLC{ChanID: chanID, Amount: lnwire.MilliSatoshi(in.Amt), Expiry: in.expiry, PaymentHash: in.hash, OnionBlob: in.onion}
	if in.blind != nil {
		m.BlindingPoint = tlv.SomeRecordT(tlv.NewPrimitiveRecord[lnwire.BlindingPointTlvType](in.blind))
	}
	if in.custom != nil {
		m.CustomRecords = in.custom.Copy()
	}
	return m
}

func blindOf(r lnwire.BlindingPointRecord) string {
	s := "-"
	r.WhenSome(func(b tlv.RecordT[lnwire.BlindingPointTlvType, *btcec.PublicKey]) {
		if b.Val != nil {
			s = fmt.Sprintf("%x", b.Val.SerializeCompressed())
		} else {
			s = "nil"
		}
	})
	return s
}

func customOf(c lnwire.CustomRecords) string {
	var ks []uint64
	for k := range c {
		ks = append(ks, k)
	}
	sort.Slice(ks, func(i, j int) bool { return ks[i] < ks[j] })
	var b strings.Builder
	for _, k := range ks {
		fmt.Fprintf(&b, "%d=%x;", k, c[k])
	}
	if b.Len() == 0 {
		return "-"
	}
	return b.String()
}

func (in *lIntent) payload() string {
	b := "-"
	if in.blind != nil {
		b = fmt.Sprintf("%x", in.blind.SerializeCompressed())
	}
	return fmt.Sprintf("amt%d exp%d onion%x blind%s custom%s", in.Amt, in.expiry, sha256.Sum256(in.onion[:]), b, customOf(in.custom))
}

func htlcPayload(h *channeldb.HTLC) string {
	return fmt.Sprintf("amt%d exp%d onion%x blind%s custom%s", h.Amt, h.RefundTimeout, sha256.Sum256(h.OnionBlob[:]), blindOf(h.BlindingPoint), customOf(h.CustomRecords))
}

func addPayload(a *lnwire.UpdateAddHTLC) string {
	return fmt.Sprintf("amt%d exp%d onion%x blind%s custom%s", a.Amount, a.Expiry, sha256.Sum256(a.OnionBlob[:]), blindOf(a.BlindingPoint), customOf(a.CustomRecords))
}

// deepProj: everything State() mirrors from disk, including the HTLC payload.
func deepProj(st *channeldb.OpenChannel) string {
	var b strings.Builder
	full := func(tag string, c *channeldb.ChannelCommitment) {
		fmt.Fprintf(&b, "%s{h%d l%d r%d f%d k%d li%d lh%d ri%d rh%d sig%x", tag, c.CommitHeight, c.LocalBalance, c.RemoteBalance, c.CommitFee, c.FeePerKw, c.LocalLogIndex, c.LocalHtlcIndex, c.RemoteLogIndex, c.RemoteHtlcIndex, c.CommitSig)
		if c.CommitTx != nil {
			var x bytes.Buffer
			_ = c.CommitTx.SerializeNoWitness(&x)
			fmt.Fprintf(&b, " tx%x", sha256.Sum256(x.Bytes()))
		}
		c.CustomBlob.WhenSome(func(bl tlv.Blob) { fmt.Fprintf(&b, " blob%x", bl) })
		var hs []string
		for i := range c.Htlcs {
			h := &c.Htlcs[i]
			hs = append(hs, fmt.Sprintf("[%v id%d li%d out%d %x s%x %s]", h.Incoming, h.HtlcIndex, h.LogIndex, h.OutputIndex, h.RHash[:4], h.Signature, htlcPayload(h)))
		}
		sort.Strings(hs)
		b.WriteString(strings.Join(hs, ""))
		b.WriteString("}")
	}
	full("L", &st.LocalCommitment)
	full("R", &st.RemoteCommitment)
	if st.RemoteCurrentRevocation != nil {
		fmt.Fprintf(&b, " cur%x", st.RemoteCurrentRevocation.SerializeCompressed())
	}
	if st.RemoteNextRevocation != nil {
		fmt.Fprintf(&b, " nxt%x", st.RemoteNextRevocation.SerializeCompressed())
	}
	var rs bytes.Buffer
	if st.RevocationStore != nil {
		_ = st.RevocationStore.Encode(&rs)
	}
	fmt.Fprintf(&b, " store%x status%v", sha256.Sum256(rs.Bytes()), st.ChanStatus())
	b.WriteString(staticProj(st))
	return b.String()
}

func newLWorld(cfg latCfg, st *latStats, bad func(sig, what string)) (*lWorld, error) {
	base, err := chanmc.New(chanmc.Params{Type: cfg.Type, OpenerB: cfg.OpenerB}, func(sig, what string, hist []string, p chanmc.Params) {
		bad(cfg.Type+":lattice:fixture:"+sig, what)
	}, nil)
	if err != nil {
		return nil, err
	}
	w := &lWorld{cfg: cfg, base: base, bad: bad, st: st, fees: []int64{6900, []int64{6000, 6900, 7100}[cfg.Rot%3]}}
	if cfg.OpenerB {
		w.opener = 1
	}
	w.h = latIntents(cfg.Rot, cfg.Type)
	var mods []channeldb.OptionModifier
	if cfg.DBOpts {
		mods = append(mods, channeldb.OptionStoreFinalHtlcResolutions(true), channeldb.OptionNoRevLogAmtData(true))
	}
	for i := 0; i < 2; i++ {
		// a second channeldb.DB over the same backend, opened with this point's options:
		// every handle fetched through it writes with those options.
		db, err := channeldb.CreateWithBackend(base.CrashDB(i), mods...)
		if err != nil {
			base.Close()
			return nil, err
		}
		p := &lParty{i: i, name: string(rune('A' + i)), db: db, ident: base.Chan(i).State().IdentityPub, lastRevoked: -1}
		p.pool = lnwallet.NewSigPool(1, base.Signer(i))
		if err := p.pool.Start(); err != nil {
			base.Close()
			return nil, err
		}
		w.pt[i] = p
		// the downstream channel's forwarding package the SettleFailRefs point into
		var sf []channeldb.LogUpdate
		for k := range w.h {
			sf = append(sf, channeldb.LogUpdate{LogIndex: uint64(k), UpdateMsg: &lnwire.UpdateFulfillHTLC{ID: uint64(k), PaymentPreimage: w.h[k].preimage}})
		}
		err = kvdb.Update(base.CrashDB(i), func(tx kvdb.RwTx) error {
			return channeldb.NewChannelPackager(synthScid).AddFwdPkg(tx, channeldb.NewFwdPkg(synthScid, synthHeight, nil, sf))
		}, func() {})
		if err != nil {
			w.close()
			return nil, fmt.Errorf("synthetic downstream package: %w", err)
		}
	}
	st.worlds.Add(1)
	// start of a session: both sides load the channel and resynchronise
	w.log = append(w.log, "connect")
	w.cut(true)
	return w, nil
}

func (w *lWorld) close() {
	for _, p := range w.pt {
		if p != nil && p.pool != nil {
			_ = p.pool.Stop()
		}
	}
	w.base.Close()
}

func guard(w *lWorld, what string, f func()) {
	defer func() {
		if v := recover(); v != nil {
			w.violate("panic:"+what, fmt.Sprintf("%s panicked: %v", what, v))
		}
	}()
	f()
}

func (w *lWorld) fetchAll(p *lParty) (*channeldb.OpenChannel, bool) {
	cdb := p.db.ChannelStateDB()
	chans, err := cdb.FetchOpenChannels(p.ident)
	if err != nil || len(chans) != 1 {
		w.violate("reload-fetch-failed", fmt.Sprintf("%s: FetchOpenChannels: %d channels, %v", p.name, len(chans), err))
		return nil, false
	}
	return chans[0], true
}

// cut: connection drops, both sides rebuild from disk and exchange channel_reestablish.
func (w *lWorld) cut(first bool) {
	w.wire[0], w.wire[1] = nil, nil
	for _, h := range w.h {
		if h.sent && !h.addSigned {
			h.sent, h.id = false, 0
		}
		if h.resolved && !h.resSigned {
			h.resolved = false
		}
	}
	w.feeSent = w.feeSig
	for _, p := range w.pt {
		p := p
		guard(w, "reload", func() { w.reload(p, first) })
		if w.failed {
			return
		}
	}
	for i, p := range w.pt {
		msg, err := p.ch.State().ChanSyncMsg()
		if err != nil {
			w.violate("chansync-msg-failed", fmt.Sprintf("%s.ChanSyncMsg after reload: %v", p.name, err))
			return
		}
		w.wire[1-i] = append(w.wire[1-i], msg)
	}
}

func (w *lWorld) reload(p *lParty, first bool) {
	w.st.reloads.Add(1)
	var pre string
	var old *channeldb.OpenChannel
	if !first && p.ch != nil {
		old = p.ch.State()
		pre = deepProj(old)
	}
	cdb := p.db.ChannelStateDB()
	st, ok := w.fetchAll(p)
	if !ok {
		return
	}
	post := deepProj(st)
	if pre != "" && pre != post {
		w.violate("reload-projection-differs", fmt.Sprintf("%s: state reloaded from disk differs from the pre-crash state it should mirror:\n pre  %s\n post %s", p.name, clip(pre), clip(post)))
		return
	}
	// every loader must hand out the same channel
	cp := st.FundingOutpoint
	alt := map[string]*channeldb.OpenChannel{}
	if c, err := cdb.FetchChannel(cp); err == nil {
		alt["FetchChannel"] = c
	} else {
		w.violate("loader-failed:FetchChannel", fmt.Sprintf("%s: %v", p.name, err))
	}
	if c, err := cdb.FetchChannelByID(lnwire.NewChanIDFromOutPoint(cp)); err == nil {
		alt["FetchChannelByID"] = c
	} else {
		w.violate("loader-failed:FetchChannelByID", fmt.Sprintf("%s: %v", p.name, err))
	}
	if cs, err := cdb.FetchAllOpenChannels(); err == nil && len(cs) == 1 {
		alt["FetchAllOpenChannels"] = cs[0]
	} else {
		w.violate("loader-failed:FetchAllOpenChannels", fmt.Sprintf("%s: %d channels, %v", p.name, len(cs), err))
	}
	if old != nil {
		if err := old.Refresh(); err == nil {
			alt["Refresh(old handle)"] = old
		} else {
			w.violate("loader-failed:Refresh", fmt.Sprintf("%s: %v", p.name, err))
		}
	}
	for n, c := range alt {
		if got := deepProj(c); got != post {
			w.violate("loader-differs:"+strings.SplitN(n, "(", 2)[0], fmt.Sprintf("%s: %s returns a channel different from FetchOpenChannels:\n %s\n %s", p.name, n, clip(got), clip(post)))
			return
		}
	}
	if int64(st.LocalCommitment.CommitHeight) <= p.lastRevoked {
		w.violate("reload-revoked-commitment", fmt.Sprintf("%s reloaded local commitment height %d but already released the secret of height %d", p.name, st.LocalCommitment.CommitHeight, p.lastRevoked))
	}
	ch, err := lnwallet.NewLightningChannel(w.base.Signer(p.i), st, p.pool, lnwallet.WithLeafStore(&lnwallet.MockAuxLeafStore{}))
	if err != nil {
		w.violate("reload-failed", fmt.Sprintf("%s: NewLightningChannel on the reloaded state: %v", p.name, err))
		return
	}
	p.ch = ch
	p.needSync = true
	tip, terr := st.RemoteCommitChainTip()
	p.awaitingRevoke = terr == nil && tip != nil
}

func clip(s string) string {
	if len(s) > 1800 {
		return s[:1800] + "..."
	}
	return s
}

// next returns the action the schedule picks, "" at quiescence.
func (w *lWorld) next() string {
	dl := func(i int) string {
		if len(w.wire[i]) > 0 {
			return "dl>" + w.pt[i].name
		}
		return ""
	}
	sign := func(i int) string {
		p := w.pt[i]
		if !p.needSync && !p.awaitingRevoke && p.ch.OweCommitment() {
			return p.name + ".sign"
		}
		return ""
	}
	resolve := func() string {
		for k, h := range w.h {
			r := w.pt[1-h.By]
			if h.sent && h.locked && !h.resolved && !r.needSync {
				return fmt.Sprintf("%s.%s%d", r.name, h.Fate, k)
			}
		}
		return ""
	}
	add := func() string {
		for k, h := range w.h {
			if !h.sent && !w.pt[h.By].needSync {
				return fmt.Sprintf("%s.add%d", w.pt[h.By].name, k)
			}
		}
		return ""
	}
	fee := func() string {
		if w.feeSent < len(w.fees) && !w.pt[w.opener].needSync {
			return fmt.Sprintf("%s.fee%d", w.pt[w.opener].name, w.feeSent)
		}
		return ""
	}
	var order []string
	if w.cfg.Sched == 0 {
		order = []string{dl(0), dl(1), sign(0), sign(1), resolve(), add(), fee()}
	} else {
		order = []string{add(), fee(), resolve(), sign(0), sign(1), dl(1), dl(0)}
	}
	for _, a := range order {
		if a != "" {
			return a
		}
	}
	return ""
}

func idxOf(a, prefix string) int {
	var k int
	fmt.Sscanf(strings.TrimPrefix(a, prefix), "%d", &k)
	return k
}

func (w *lWorld) markSigned(i int) {
	p := w.pt[i]
	p.awaitingRevoke = true
	for _, h := range w.h {
		if h.By == i && h.sent {
			h.addSigned = true
		}
		if h.By != i && h.resolved {
			h.resSigned = true
		}
	}
	if i == w.opener {
		w.feeSig = w.feeSent
	}
}

func (w *lWorld) do(a string) {
	w.log = append(w.log, a)
	w.steps++
	w.st.steps.Add(1)
	if strings.HasPrefix(a, "dl>") {
		w.deliver(int(a[3] - 'A'))
		return
	}
	i := int(a[0] - 'A')
	p := w.pt[i]
	op := a[2:]
	chanID := lnwire.NewChanIDFromOutPoint(p.ch.ChannelPoint())
	refs := func(h *lIntent) (*channeldb.AddRef, *channeldb.SettleFailRef, *models.CircuitKey) {
		if !h.Refs {
			return nil, nil, nil
		}
		var src *channeldb.AddRef
		if h.src != nil {
			c := *h.src
			src = &c
		}
		d, ck := h.dest, h.closeKey
		return src, &d, &ck
	}
	switch {
	case op == "sign":
		ncs, err := p.ch.SignNextCommitment(ctxb)
		if err != nil {
			w.violate("sign-failed", fmt.Sprintf("%s.SignNextCommitment: %v", p.name, err))
			return
		}
		w.markSigned(i)
		w.wire[1-i] = append(w.wire[1-i], &lnwire.CommitSig{ChanID: chanID, CommitSig: ncs.CommitSig, HtlcSigs: ncs.HtlcSigs, PartialSig: ncs.PartialSig})
	case strings.HasPrefix(op, "add"):
		h := w.h[idxOf(op, "add")]
		var ok *models.CircuitKey
		if h.Refs {
			c := h.openKey
			ok = &c
		}
		m := h.addMsg(chanID)
		id, err := p.ch.AddHTLC(m, ok)
		if err != nil {
			w.violate("add-failed", fmt.Sprintf("%s.AddHTLC: %v", p.name, err))
			return
		}
		h.sent, h.id, h.addSigned, h.locked, h.resolved, h.resSigned, h.removed, h.src = true, id, false, false, false, false, false, nil
		// the peer gets its own copy, as it would from the wire
		rm := h.addMsg(chanID)
		rm.ID = id
		w.wire[1-i] = append(w.wire[1-i], rm)
	case strings.HasPrefix(op, "settle"):
		h := w.h[idxOf(op, "settle")]
		src, dst, ck := refs(h)
		if err := p.ch.SettleHTLC(h.preimage, h.id, src, dst, ck); err != nil {
			w.violate("settle-failed", fmt.Sprintf("%s.SettleHTLC(%d): %v", p.name, h.id, err))
			return
		}
		h.resolved = true
		w.wire[1-i] = append(w.wire[1-i], &lnwire.UpdateFulfillHTLC{ChanID: chanID, ID: h.id, PaymentPreimage: h.preimage})
	case strings.HasPrefix(op, "fail"):
		h := w.h[idxOf(op, "fail")]
		src, dst, ck := refs(h)
		reason := []byte(fmt.Sprintf("c02-lattice-reason-%d", h.id))
		if err := p.ch.FailHTLC(h.id, reason, src, dst, ck); err != nil {
			w.violate("fail-failed", fmt.Sprintf("%s.FailHTLC(%d): %v", p.name, h.id, err))
			return
		}
		h.resolved = true
		w.wire[1-i] = append(w.wire[1-i], &lnwire.UpdateFailHTLC{ChanID: chanID, ID: h.id, Reason: reason})
	case strings.HasPrefix(op, "malformed"):
		h := w.h[idxOf(op, "malformed")]
		src, _, _ := refs(h)
		sha := sha256.Sum256(h.onion[:])
		if err := p.ch.MalformedFailHTLC(h.id, lnwire.CodeInvalidOnionHmac, sha, src); err != nil {
			w.violate("malformed-failed", fmt.Sprintf("%s.MalformedFailHTLC(%d): %v", p.name, h.id, err))
			return
		}
		h.resolved = true
		w.wire[1-i] = append(w.wire[1-i], &lnwire.UpdateFailMalformedHTLC{ChanID: chanID, ID: h.id, ShaOnionBlob: sha, FailureCode: lnwire.CodeInvalidOnionHmac})
	case strings.HasPrefix(op, "fee"):
		rate := w.fees[w.feeSent]
		if err := p.ch.UpdateFee(chainfee.SatPerKWeight(rate)); err != nil {
			w.violate("fee-failed", fmt.Sprintf("%s.UpdateFee(%d): %v", p.name, rate, err))
			return
		}
		w.feeSent++
		w.wire[1-i] = append(w.wire[1-i], &lnwire.UpdateFee{ChanID: chanID, FeePerKw: uint32(rate)})
	default:
		w.violate("harness:unknown-action", a)
	}
}

func (w *lWorld) intentByID(offerer int, id uint64) *lIntent {
	for _, h := range w.h {
		if h.By == offerer && h.sent && h.id == id {
			return h
		}
	}
	return nil
}

func (w *lWorld) deliver(i int) {
	m := w.wire[i][0]
	w.wire[i] = w.wire[i][1:]
	p := w.pt[i]
	fail := func(api string, err error) {
		w.violate("receive-failed:"+api, fmt.Sprintf("%s.%s failed on an honest in-order message: %v", p.name, api, err))
	}
	switch mm := m.(type) {
	case *lnwire.UpdateAddHTLC:
		if _, err := p.ch.ReceiveHTLC(mm); err != nil {
			fail("ReceiveHTLC", err)
		}
	case *lnwire.UpdateFulfillHTLC:
		if err := p.ch.ReceiveHTLCSettle(mm.PaymentPreimage, mm.ID); err != nil {
			fail("ReceiveHTLCSettle", err)
		}
	case *lnwire.UpdateFailHTLC:
		if err := p.ch.ReceiveFailHTLC(mm.ID, mm.Reason); err != nil {
			fail("ReceiveFailHTLC", err)
		}
	case *lnwire.UpdateFailMalformedHTLC:
		if err := p.ch.ReceiveFailHTLC(mm.ID, []byte("converted-malformed")); err != nil {
			fail("ReceiveFailHTLC(malformed)", err)
		}
	case *lnwire.UpdateFee:
		if err := p.ch.ReceiveUpdateFee(chainfee.SatPerKWeight(mm.FeePerKw)); err != nil {
			fail("ReceiveUpdateFee", err)
		}
	case *lnwire.CommitSig:
		if err := p.ch.ReceiveNewCommitment(&lnwallet.CommitSigs{CommitSig: mm.CommitSig, HtlcSigs: mm.HtlcSigs, PartialSig: mm.PartialSig}); err != nil {
			fail("ReceiveNewCommitment", err)
			return
		}
		rev, _, _, err := p.ch.RevokeCurrentCommitment()
		if err != nil {
			fail("RevokeCurrentCommitment", err)
			return
		}
		p.lastRevoked = int64(p.ch.State().LocalCommitment.CommitHeight) - 1
		w.wire[1-i] = append(w.wire[1-i], rev)
	case *lnwire.RevokeAndAck:
		fwd, _, err := p.ch.ReceiveRevocation(mm)
		if err != nil {
			fail("ReceiveRevocation", err)
			return
		}
		p.awaitingRevoke = false
		w.applyFwd(i, fwd)
	case *lnwire.ChannelReestablish:
		msgs, _, _, err := p.ch.ProcessChanSyncMsg(ctxb, mm)
		if err != nil {
			fail("ProcessChanSyncMsg", err)
			p.needSync = false
			return
		}
		p.needSync = false
		for _, r := range msgs {
			if _, ok := r.(*lnwire.CommitSig); ok {
				// retransmitted (a diff was pending at reload) or fresh: either way
				// everything this side had sent and kept is now covered
				w.markSigned(i)
			}
			w.wire[1-i] = append(w.wire[1-i], r)
		}
	default:
		w.violate("harness:unknown-message", fmt.Sprintf("%T", m))
	}
}

func (w *lWorld) applyFwd(i int, fwd *channeldb.FwdPkg) {
	if fwd == nil {
		return
	}
	for j, u := range fwd.Adds {
		add, ok := u.UpdateMsg.(*lnwire.UpdateAddHTLC)
		if !ok {
			continue
		}
		if h := w.intentByID(1-i, add.ID); h != nil {
			if h.locked {
				w.violate("htlc-forwarded-twice", fmt.Sprintf("%s: HTLC id %d handed to the switch a second time (package height %d)", w.pt[i].name, add.ID, fwd.Height))
			}
			h.locked = true
			ref := fwd.SourceRef(uint16(j))
			h.src = &ref
		}
	}
	for _, u := range fwd.SettleFails {
		id, ok := resolvedID(u.UpdateMsg)
		if !ok {
			continue
		}
		if h := w.intentByID(i, id); h != nil {
			if h.removed {
				w.violate("htlc-resolved-twice", fmt.Sprintf("%s: own HTLC id %d reported as resolved twice", w.pt[i].name, id))
			}
			h.removed = true
		}
	}
}

func (w *lWorld) intentByHash(hash [32]byte) *lIntent {
	for _, h := range w.h {
		if h.hash == hash {
			return h
		}
	}
	return nil
}

// checkState runs the per-step oracles.
func (w *lWorld) checkState() {
	for i, p := range w.pt {
		if p.ch == nil {
			continue
		}
		live := p.ch.State()
		type view struct {
			label string
			c     *channeldb.ChannelCommitment
		}
		vs := []view{{p.name + ".local", &live.LocalCommitment}, {p.name + ".remote", &live.RemoteCommitment}}
		d, ok := w.fetchAll(p)
		if !ok {
			return
		}
		tip, terr := d.RemoteCommitChainTip()
		if terr == nil && tip != nil {
			vs = append(vs, view{p.name + ".remote-pending(disk)", &tip.Commitment})
		}
		vs = append(vs, view{p.name + ".local(disk)", &d.LocalCommitment}, view{p.name + ".remote(disk)", &d.RemoteCommitment})
		for _, v := range vs {
			for k := range v.c.Htlcs {
				hh := &v.c.Htlcs[k]
				w.st.payloadChecks.Add(1)
				in := w.intentByHash(hh.RHash)
				if in == nil {
					w.violate("unknown-htlc-on-commitment", fmt.Sprintf("%s height %d carries an HTLC nobody offered (hash %x)", v.label, v.c.CommitHeight, hh.RHash[:6]))
					continue
				}
				if hh.Incoming != (in.By != i) {
					w.violate("htlc-direction", fmt.Sprintf("%s height %d: HTLC %x recorded incoming=%v but was offered by %s", v.label, v.c.CommitHeight, hh.RHash[:4], hh.Incoming, w.pt[in.By].name))
				}
				if got, want := htlcPayload(hh), in.payload(); got != want {
					w.violate("htlc-payload-differs:"+kindOfView(v.label), fmt.Sprintf("%s height %d: HTLC id %d carries\n  %s\n but was offered as\n  %s", v.label, v.c.CommitHeight, hh.HtlcIndex, got, want))
				}
			}
		}
		// durable lists
		w.st.diskChecks.Add(1)
		for _, f := range diskInvariants(p.name, d) {
			w.violate(f.sig, f.what)
		}
		// forwarding packages on disk: payload of every add, ack bits
		pkgs, err := d.LoadFwdPkgs()
		if err != nil {
			w.violate("disk:fwdpkg-unreadable", err.Error())
			return
		}
		byHeight := map[uint64]*channeldb.FwdPkg{}
		for _, pk := range pkgs {
			byHeight[pk.Height] = pk
			for _, u := range pk.Adds {
				add, ok := u.UpdateMsg.(*lnwire.UpdateAddHTLC)
				if !ok {
					continue
				}
				w.st.fwdAdds.Add(1)
				in := w.intentByHash(add.PaymentHash)
				if in == nil {
					w.violate("fwdpkg-unknown-add", fmt.Sprintf("%s: forwarding package %d hands an add to the switch that nobody offered", p.name, pk.Height))
					continue
				}
				if got, want := addPayload(add), in.payload(); got != want {
					w.violate("fwdpkg-add-payload-differs", fmt.Sprintf("%s: forwarding package %d on disk hands HTLC id %d to the switch as\n  %s\n but it was offered as\n  %s", p.name, pk.Height, add.ID, got, want))
				}
			}
			for _, u := range pk.SettleFails {
				id, _ := resolvedID(u.UpdateMsg)
				in := w.intentByID(i, id)
				if in == nil {
					continue // a forgotten, re-issued id; I2 judges the id set
				}
				switch mm := u.UpdateMsg.(type) {
				case *lnwire.UpdateFulfillHTLC:
					if in.Fate != "settle" || mm.PaymentPreimage != in.preimage {
						w.violate("fwdpkg-settle-differs", fmt.Sprintf("%s: forwarding package %d reports HTLC id %d as settled with preimage %x; fate %s preimage %x", p.name, pk.Height, id, mm.PaymentPreimage[:4], in.Fate, in.preimage[:4]))
					}
				default:
					if in.Fate == "settle" {
						w.violate("fwdpkg-settle-differs", fmt.Sprintf("%s: forwarding package %d reports HTLC id %d as failed (%T); it was settled", p.name, pk.Height, id, u.UpdateMsg))
					}
				}
			}
		}
		for _, in := range w.h {
			if in.By == i || !in.Refs || !in.sent || in.src == nil {
				continue
			}
			// p is the resolver of in
			w.st.ackBits.Add(1)
			pk := byHeight[in.src.Height]
			if pk == nil || int(in.src.Index) >= len(pk.Adds) {
				w.violate("fwdpkg-source-ref-dangling", fmt.Sprintf("%s: the package (height %d index %d) that locked HTLC id %d in is not on disk", p.name, in.src.Height, in.src.Index, in.id))
				continue
			}
			if got := pk.AckFilter.Contains(in.src.Index); got != in.resSigned {
				w.violate("fwdpkg-ack-bit", fmt.Sprintf("%s: add (height %d index %d, HTLC id %d) acked on disk = %v, its resolution covered by a signature of %s = %v", p.name, in.src.Height, in.src.Index, in.id, got, p.name, in.resSigned))
			}
		}
		// downstream package
		if sp, err := w.loadSynth(p); err != nil {
			w.violate("harness:synthetic-package-unreadable", err.Error())
		} else {
			for k, in := range w.h {
				want := in.By != i && in.Refs && in.Fate != "malformed" && in.sent && in.resSigned
				if got := sp.SettleFailFilter.Contains(uint16(k)); got != want {
					w.violate("fwdpkg-settlefail-ack-bit", fmt.Sprintf("%s: downstream settle/fail %d acked on disk = %v, resolution of HTLC %d passed with that reference and covered by a signature = %v", p.name, k, got, k, want))
				}
			}
		}
		// references persisted with the pending commit diff
		if terr == nil && tip != nil {
			w.st.refChecks.Add(1)
			var open, closed []models.CircuitKey
			var acks []channeldb.AddRef
			var sfacks []channeldb.SettleFailRef
			for _, u := range tip.LogUpdates {
				switch mm := u.UpdateMsg.(type) {
				case *lnwire.UpdateAddHTLC:
					if in := w.intentByHash(mm.PaymentHash); in != nil && in.Refs {
						open = append(open, in.openKey)
					}
				default:
					id, ok := resolvedID(u.UpdateMsg)
					if !ok {
						continue
					}
					in := w.intentByID(1-i, id)
					if in == nil || !in.Refs {
						continue
					}
					if in.src != nil {
						acks = append(acks, *in.src)
					}
					if in.Fate != "malformed" {
						sfacks = append(sfacks, in.dest)
						closed = append(closed, in.closeKey)
					}
				}
			}
			// (AddAcks / SettleFailAcks are documented as not serialised with the diff; their
			// effect - the ack bits - is judged above.)
			_, _ = acks, sfacks
			if fmt.Sprint(tip.OpenedCircuitKeys) != fmt.Sprint(open) || fmt.Sprint(tip.ClosedCircuitKeys) != fmt.Sprint(closed) {
				w.violate("commit-diff-refs", fmt.Sprintf("%s: commit diff %d on disk carries opened %v closed %v; the circuit keys passed with the updates it covers are opened %v closed %v",
					p.name, tip.Commitment.CommitHeight, tip.OpenedCircuitKeys, tip.ClosedCircuitKeys, open, closed))
			}
		}
	}
}

func kindOfView(l string) string {
	if i := strings.Index(l, "."); i >= 0 {
		return l[i+1:]
	}
	return l
}

func (w *lWorld) loadSynth(p *lParty) (*channeldb.FwdPkg, error) {
	var out *channeldb.FwdPkg
	err := kvdb.View(w.base.CrashDB(p.i), func(tx kvdb.RTx) error {
		pkgs, err := channeldb.NewChannelPackager(synthScid).LoadFwdPkgs(tx)
		if err != nil {
			return err
		}
		for _, pk := range pkgs {
			if pk.Height == synthHeight {
				out = pk
			}
		}
		return nil
	}, func() { out = nil })
	if err == nil && out == nil {
		err = errors.New("synthetic downstream package missing")
	}
	return out, err
}

func (w *lWorld) final() {
	w.st.quiescent.Add(1)
	for k, h := range w.h {
		if !h.sent || !h.locked || !h.resolved || !h.removed {
			w.violate("stuck-htlc", fmt.Sprintf("no action enabled but HTLC %d is not fully resolved (sent=%v locked=%v resolved=%v removed=%v)", k, h.sent, h.locked, h.resolved, h.removed))
			return
		}
	}
	if w.feeSent != len(w.fees) || w.feeSig != w.feeSent {
		w.violate("stuck-fee", fmt.Sprintf("fee updates sent %d signed %d of %d", w.feeSent, w.feeSig, len(w.fees)))
	}
	lastFee := w.fees[len(w.fees)-1]
	a, b := w.pt[0].ch.State(), w.pt[1].ch.State()
	for i, p := range w.pt {
		st := p.ch.State()
		if p.needSync || p.awaitingRevoke || len(st.LocalCommitment.Htlcs) != 0 || len(st.RemoteCommitment.Htlcs) != 0 || !p.ch.IsChannelClean() {
			w.violate("not-clean-at-quiescence", fmt.Sprintf("%s: needSync=%v awaitingRevoke=%v htlcs local %d remote %d clean %v", p.name, p.needSync, p.awaitingRevoke, len(st.LocalCommitment.Htlcs), len(st.RemoteCommitment.Htlcs), p.ch.IsChannelClean()))
			return
		}
		if uint32(st.LocalCommitment.FeePerKw) != uint32(lastFee) || uint32(st.RemoteCommitment.FeePerKw) != uint32(lastFee) {
			w.violate("final-fee-rate", fmt.Sprintf("%s: fee rates at quiescence local %d remote %d, the last signed update_fee says %d", p.name, st.LocalCommitment.FeePerKw, st.RemoteCommitment.FeePerKw, lastFee))
		}
		// final HTLC records of the HTLCs this party resolved
		for k, h := range w.h {
			if h.By == i {
				continue
			}
			info, err := p.db.ChannelStateDB().LookupFinalHtlc(st.ShortChannelID, h.id)
			switch {
			case w.cfg.DBOpts && err != nil:
				w.violate("final-htlc-record-missing", fmt.Sprintf("%s: store-final-htlc-resolutions is on, HTLC %d (id %d, %s) is fully resolved, LookupFinalHtlc: %v", p.name, k, h.id, h.Fate, err))
			case w.cfg.DBOpts && (info.Settled != (h.Fate == "settle") || !info.Offchain):
				w.violate("final-htlc-record-wrong", fmt.Sprintf("%s: final record of HTLC %d (id %d, %s) says settled=%v offchain=%v", p.name, k, h.id, h.Fate, info.Settled, info.Offchain))
			case !w.cfg.DBOpts && err == nil:
				w.violate("final-htlc-record-unexpected", fmt.Sprintf("%s: store-final-htlc-resolutions is off but HTLC id %d has a final record", p.name, h.id))
			}
		}
	}
	// balances: exactly the settled amounts moved (relative to the initial commitments,
	// which the fixture built; fee is paid by the opener)
	var moved [2]int64
	for _, h := range w.h {
		if h.Fate == "settle" {
			moved[h.By] -= int64(h.Amt)
			moved[1-h.By] += int64(h.Amt)
		}
	}
	if a.LocalCommitment.LocalBalance != b.LocalCommitment.RemoteBalance || a.LocalCommitment.RemoteBalance != b.LocalCommitment.LocalBalance {
		w.violate("final-mirror", fmt.Sprintf("A sees %d/%d, B sees %d/%d", a.LocalCommitment.LocalBalance, a.LocalCommitment.RemoteBalance, b.LocalCommitment.RemoteBalance, b.LocalCommitment.LocalBalance))
	}
	np := 1 - w.opener
	npBal := int64(w.pt[np].ch.State().LocalCommitment.LocalBalance)
	if want := 500_000_000_000 + moved[np]; npBal != want {
		w.violate("final-balance", fmt.Sprintf("non-opener %s ends with %d msat, expected %d (5 BTC %+d settled)", w.pt[np].name, npBal, want, moved[np]))
	}
	if a.TotalMSatSent != b.TotalMSatReceived || a.TotalMSatReceived != b.TotalMSatSent {
		w.violate("final-totals", fmt.Sprintf("A sent/received %d/%d, B received/sent %d/%d", a.TotalMSatSent, a.TotalMSatReceived, b.TotalMSatReceived, b.TotalMSatSent))
	}
}

// runLat executes one lattice point; returns the number of steps of the run.
func runLat(cfg latCfg, st *latStats, bad func(sig, what string), trace bool) int {
	w, err := newLWorld(cfg, st, bad)
	if err != nil {
		bad(cfg.Type+":lattice:harness:world", err.Error())
		return 0
	}
	defer w.close()
	w.trace = trace
	cut2At := -1
	for n := 0; n < 600 && !w.failed; n++ {
		if w.steps == cfg.Cut && cfg.Cut >= 0 && (len(w.log) == 0 || w.log[len(w.log)-1] != "cut") && cut2At == -1 {
			w.log = append(w.log, "cut")
			if trace {
				fmt.Printf("INFO step %d: cut\n", n)
			}
			guard(w, "cut", func() { w.cut(false) })
			cut2At = -2
			if cfg.Cut2 > 0 {
				cut2At = w.steps + cfg.Cut2
			}
			guard(w, "check", w.checkState)
			continue
		}
		if cut2At >= 0 && w.steps == cut2At {
			w.log = append(w.log, "cut")
			if trace {
				fmt.Printf("INFO step %d: second cut\n", n)
			}
			guard(w, "cut", func() { w.cut(false) })
			cut2At = -2
			guard(w, "check", w.checkState)
			continue
		}
		var a string
		guard(w, "schedule", func() { a = w.next() })
		if a == "" {
			guard(w, "final", w.final)
			return w.steps
		}
		if trace {
			fmt.Printf("INFO step %d: %s\n", n, a)
		}
		guard(w, a, func() { w.do(a) })
		if !w.failed {
			guard(w, "check", w.checkState)
		}
	}
	if !w.failed {
		w.violate("no-quiescence", "600 steps without reaching quiescence")
	}
	return w.steps
}

// latticePoints lists the base points (without cuts) of a tier.
func latticePoints(thorough bool) []latCfg {
	types := []string{"legacy", "taproot"}
	if thorough {
		types = chanmc.AllTypes
	}
	var out []latCfg
	for ti, typ := range types {
		for rot := 0; rot < 3; rot++ {
			for sched := 0; sched < 2; sched++ {
				if thorough {
					// full product
					for _, opts := range []bool{false, true} {
						for _, ob := range []bool{false, true} {
							out = append(out, latCfg{Type: typ, OpenerB: ob, Rot: rot, DBOpts: opts, Sched: sched, Cut: -1})
						}
					}
					continue
				}
				// quick: type x rotation x schedule in full; db options and opener ride along
				// so that every PAIR of axis values occurs (opts with rotation, schedule, type,
				// opener; opener with type, rotation, schedule)
				out = append(out, latCfg{Type: typ, OpenerB: (ti+rot)%2 == 1, Rot: rot, DBOpts: (rot+sched)%2 == 1, Sched: sched, Cut: -1})
			}
		}
	}
	return out
}

// runLattice enumerates every lattice point x every cut position.
func runLattice(run *evid.Run, thorough bool, deadline time.Time, workers int) map[string]any {
	st := &latStats{}
	bad := func(cfg latCfg) func(sig, what string) {
		return func(sig, what string) {
			run.Violation(sig, what, map[string]any{"lattice": cfg})
		}
	}
	base := latticePoints(thorough)
	type job struct{ cfg latCfg }
	jobs := make(chan job, 64)
	var wg sync.WaitGroup
	var done, skipped atomic.Int64
	cells := map[string]int{}
	var mu sync.Mutex
	for i := 0; i < workers; i++ {
		wg.Add(1)
		go func() {
			defer wg.Done()
			for j := range jobs {
				if time.Now().After(deadline) || run.Violations() >= 3 {
					skipped.Add(1)
					continue
				}
				runLat(j.cfg, st, bad(j.cfg), false)
				done.Add(1)
			}
		}()
	}
	t0 := time.Now()
	var total int64
	for _, b := range base {
		if time.Now().After(deadline) {
			skipped.Add(1)
			continue
		}
		// the uninterrupted run gives the number of cut positions of this point
		n := runLat(b, st, bad(b), false)
		done.Add(1)
		total++
		mu.Lock()
		cells[b.name()] = n
		mu.Unlock()
		for c := 0; c <= n; c++ {
			cc := b
			cc.Cut = c
			jobs <- job{cc}
			total++
			if thorough {
				for c2 := 1; c2 <= 4; c2++ {
					c3 := cc
					c3.Cut2 = c2
					jobs <- job{c3}
					total++
				}
			}
		}
	}
	close(jobs)
	wg.Wait()
	cov := map[string]any{
		"rule":                    "payload lattice: type x Latin-square rotation (payload x fate x direction) x db options x schedule, a cut before every step of the uninterrupted run" + map[bool]string{true: " (+ a second cut 1..4 steps later)", false: ""}[thorough],
		"base_points":             len(base),
		"runs":                    done.Load(),
		"runs_enumerated":         total,
		"runs_skipped_deadline":   skipped.Load(),
		"steps_per_base_point":    cells,
		"worlds":                  st.worlds.Load(),
		"steps_on_impl":           st.steps.Load(),
		"reloads":                 st.reloads.Load(),
		"htlc_payload_checks":     st.payloadChecks.Load(),
		"durable_list_checks":     st.diskChecks.Load(),
		"commit_diff_ref_checks":  st.refChecks.Load(),
		"fwdpkg_adds_checked":     st.fwdAdds.Load(),
		"fwdpkg_ack_bits_checked": st.ackBits.Load(),
		"quiescent_runs":          st.quiescent.Load(),
		"wall_s":                  time.Since(t0).Seconds(),
		"exhaustive":              skipped.Load() == 0,
	}
	return cov
}

var _ = chainhash.Hash{}
