package c05

// Production-path family (second handle x age of the handle x from-disk object).
//
// A running lnd never derives its close resolutions the way the base scenarios of
// check_test.go do (ForceClose / NewUnilateralCloseSummary on the link's live
// object). It does this:
//
//   * going to chain (contractcourt.arbChannel.ForceCloseChan): the channel is
//     FETCHED FROM DISK, a new LightningChannel is built on it (no reestablish), and
//     ForceClose(WithSkipContractResolutions()) yields the signed commitment only;
//     arbChannel.NewAnchorResolutions does the same for the CPFP anchors;
//   * any commitment confirming (contractcourt.chainWatcher): the watcher owns a
//     SECOND *OpenChannel, loaded when the watcher was started (node start-up or
//     channel open) while the link advances the channel through another instance.
//     newChainSet refreshes that handle in place (LatestCommitments,
//     RemoteCommitChainTip, RemoteRevocationStore), then the resolutions come from
//     NewLocalForceCloseSummary(handle, signer, spendingTx, height, stateNum decoded
//     from the tx's state hint) resp. NewUnilateralCloseSummary(handle, ..., the
//     refreshed commitment, handle.RemoteCurrentRevocation / RemoteNextRevocation).
//
// Alphabet: every distinct state of every space x both nodes x {own, peer current,
// peer pending} x every handle age L in {world creation, each reload (`cut`) so far,
// loaded now (control)}. The handles are loaded along the history by which the
// explorer reaches the state (Hooks.AfterStep) through exported channeldb API only.
//
// Oracle (differential with fall-back, scenario independent): the resolutions of the
// production path are digested field by field (every field that enters a spend:
// outpoints, delays, expiries, complete sign descriptors, second-level transactions
// incl. witness, sign details). If the digest equals that of the live-object path for
// the same confirmed transaction, the verdict of the base scenario (script
// interpreter + value equation) carries over. If it differs, the production-path
// resolutions are judged on their own by exactly the same oracle against the TRUE
// confirmed transaction (label "<kind>+handle(<age>)"). The from-disk commitment is
// always executed against the funding output. A watcher that would not even
// recognise the confirmed transaction as the commitment it is (refreshed handle's
// commitment txid differs) is reported as such.

import (
	"bytes"
	"crypto/sha256"
	"fmt"
	"runtime"
	"sync"
	"time"
	"weak"

	"github.com/btcsuite/btcd/btcec/v2"
	"github.com/btcsuite/btcd/wire/v2"
	"github.com/lightningnetwork/lnd/channeldb"
	"github.com/lightningnetwork/lnd/chanstate"
	"github.com/lightningnetwork/lnd/fn/v2"
	"github.com/lightningnetwork/lnd/input"
	"github.com/lightningnetwork/lnd/lnwallet"
	"github.com/lightningnetwork/lnd/verifmc/chanmc"
)

// handle is one load point of a second OpenChannel instance.
type handle struct {
	at  int    // history length at which it was loaded
	age string // creation | cut | now
	st  *chanstate.OpenChannel
}

type worldHandles struct{ h [2][]*handle }

// registry: per-world handles. Keyed by a weak pointer so that worlds the explorer
// has dropped are collected (the entry is removed by a cleanup).
var registry sync.Map // weak.Pointer[chanmc.World] -> *worldHandles

func handlesOf(w *chanmc.World, create bool) *worldHandles {
	k := weak.Make(w)
	if v, ok := registry.Load(k); ok {
		return v.(*worldHandles)
	}
	if !create {
		return nil
	}
	wh := &worldHandles{}
	registry.Store(k, wh)
	runtime.AddCleanup(w, func(k weak.Pointer[chanmc.World]) { registry.Delete(k) }, k)
	return wh
}

// fetch loads node i's channel from disk the way ChainArbitrator.Start /
// arbChannel.ForceCloseChan do.
func fetch(w *chanmc.World, i int) (*chanstate.OpenChannel, error) {
	chans, err := w.DB(i).ChannelStateDB().FetchOpenChannels(w.Keys(1 - i)[0].PubKey())
	if err != nil {
		return nil, err
	}
	if len(chans) != 1 {
		return nil, fmt.Errorf("%d channels on disk", len(chans))
	}
	return chans[0], nil
}

// afterStep is Hooks.AfterStep of every C05 space: loads the second handles. The
// first call of a world loads the "creation" handle: the first action of a history
// is an in-memory update (add / fee) or a cut, none of which writes to disk, so the
// handle equals one loaded when the world was created (asserted via LastWrites).
func (c *checker) afterStep(w *chanmc.World, action string) {
	wh := handlesOf(w, true)
	n := len(w.Hist())
	for i := 0; i < 2; i++ {
		age := ""
		switch {
		case len(wh.h[i]) == 0:
			age = "creation"
			if lw := w.LastWrites(); n != 1 || lw[i] != 0 {
				// not reachable with the current engine; keep the label honest
				age = "cut"
			}
		case action == "cut":
			age = "cut"
		}
		if age == "" {
			continue
		}
		st, err := fetch(w, i)
		if err != nil {
			w.Violate("c05:handle-load", fmt.Sprintf("node %c: cannot load a second channel handle from disk: %v", 'A'+i, err))
			continue
		}
		wh.h[i] = append(wh.h[i], &handle{at: n, age: age, st: st})
		c.handlesLoaded.Add(1)
	}
}

func keyDigest(k *btcec.PublicKey) string {
	if k == nil {
		return "-"
	}
	return fmt.Sprintf("%x", k.SerializeCompressed())
}

// sdDigest renders every field of a sign descriptor that influences a signature
// or a witness.
func sdDigest(d *input.SignDescriptor) string {
	if d == nil {
		return "nil"
	}
	dbl := "-"
	if d.DoubleTweak != nil {
		dbl = fmt.Sprintf("%x", d.DoubleTweak.Serialize())
	}
	out := "-"
	if d.Output != nil {
		out = fmt.Sprintf("%d:%x", d.Output.Value, d.Output.PkScript)
	}
	return fmt.Sprintf("{%s %v st=%x dt=%s tt=%x ws=%x sm=%d out=%s ht=%d cb=%x ii=%d}", keyDigest(d.KeyDesc.PubKey), d.KeyDesc.KeyLocator,
		d.SingleTweak, dbl, d.TapTweak, d.WitnessScript, d.SignMethod, out, d.HashType, d.ControlBlock, d.InputIndex)
}

func txDigest(tx *wire.MsgTx) string {
	if tx == nil {
		return "nil"
	}
	var b bytes.Buffer
	_ = tx.Serialize(&b)
	return fmt.Sprintf("%x", sha256.Sum256(b.Bytes()))
}

func detailsDigest(d *input.SignDetails) string {
	if d == nil {
		return "nil"
	}
	sig := "-"
	if d.PeerSig != nil {
		sig = fmt.Sprintf("%x", d.PeerSig.Serialize())
	}
	return fmt.Sprintf("[%s sh=%d peer=%s]", sdDigest(&d.SignDesc), d.SigHashType, sig)
}

func anchorDigest(a *lnwallet.AnchorResolution) string {
	if a == nil {
		return "nil"
	}
	return fmt.Sprintf("%v %s", a.CommitAnchor, sdDigest(&a.AnchorSignDescriptor))
}

// resDigest digests a complete set of resolutions (order included: contractcourt
// pairs resolutions with HTLCs by outpoint, so order carries no meaning, but equal
// inputs give equal order).
func resDigest(cr *lnwallet.CommitOutputResolution, ar *lnwallet.AnchorResolution, hr *lnwallet.HtlcResolutions) string {
	var b bytes.Buffer
	if cr == nil {
		b.WriteString("commit:nil\n")
	} else {
		fmt.Fprintf(&b, "commit:%v d=%d %s\n", cr.SelfOutPoint, cr.MaturityDelay, sdDigest(&cr.SelfOutputSignDesc))
	}
	fmt.Fprintf(&b, "anchor:%s\n", anchorDigest(ar))
	if hr != nil {
		for x := range hr.OutgoingHTLCs {
			r := &hr.OutgoingHTLCs[x]
			fmt.Fprintf(&b, "out:%d csv=%d %v tx=%s det=%s %s\n", r.Expiry, r.CsvDelay, r.ClaimOutpoint, txDigest(r.SignedTimeoutTx), detailsDigest(r.SignDetails), sdDigest(&r.SweepSignDesc))
		}
		for x := range hr.IncomingHTLCs {
			r := &hr.IncomingHTLCs[x]
			fmt.Fprintf(&b, "in:csv=%d %v tx=%s det=%s %s\n", r.CsvDelay, r.ClaimOutpoint, txDigest(r.SignedSuccessTx), detailsDigest(r.SignDetails), sdDigest(&r.SweepSignDesc))
		}
	}
	return b.String()
}

func stateHintObfuscator(st *chanstate.OpenChannel) [lnwallet.StateHintSize]byte {
	// as contractcourt.newChainWatcher derives it
	if st.IsInitiator {
		return lnwallet.DeriveStateHintObfuscator(st.LocalChanCfg.PaymentBasePoint.PubKey, st.RemoteChanCfg.PaymentBasePoint.PubKey)
	}
	return lnwallet.DeriveStateHintObfuscator(st.RemoteChanCfg.PaymentBasePoint.PubKey, st.LocalChanCfg.PaymentBasePoint.PubKey)
}

func role(w *chanmc.World, i int) string {
	if i == w.Opener() {
		return "opener"
	}
	return "acceptor"
}

// prodSeen is the memo of the production-path family (never used in full/replay mode).
func (c *checker) prodSeen(full bool, parts ...any) bool {
	if full || c.verbose {
		return false
	}
	h := sha256.New()
	for _, p := range parts {
		switch v := p.(type) {
		case [32]byte:
			h.Write(v[:])
		default:
			fmt.Fprintf(h, "|%v|", v)
		}
	}
	var k [32]byte
	copy(k[:], h.Sum(nil))
	if _, dup := c.memo.LoadOrStore(k, struct{}{}); dup {
		c.prodMemoHits.Add(1)
		return true
	}
	return false
}

// prodPath runs the production-path family for node i at the current state.
func (c *checker) prodPath(w *chanmc.World, i int, full bool) {
	name := w.P.Name()
	fail := func(item, failure, format string, a ...any) {
		what := fmt.Sprintf("node %c, production path: %s: %s", 'A'+i, item, fmt.Sprintf(format, a...))
		if c.verbose {
			fmt.Printf("INFO   !! %s/%s: %s\n", item, failure, what)
		}
		w.Violate(fmt.Sprintf("c05:prod:%s:%s", item, failure), what)
	}
	// Truth = the commitments the base scenarios judge (the live object's view, which
	// mirrors the disk at every quiescent point: chanmc's reload oracle). What the
	// production path itself reads comes from disk (fetch / refresh) only.
	live := w.Chan(i).State()
	disk := live
	var diskTip *channeldb.ChannelCommitment
	if tip, err := live.RemoteCommitChainTip(); err == nil && tip != nil {
		diskTip = &tip.Commitment
	}
	fpL := fingerprint(name, i, "own", w.Cuts(), &disk.LocalCommitment, nil)
	fpR := fingerprint(name, i, "remote-current", w.Cuts(), &disk.RemoteCommitment, disk.RemoteCurrentRevocation)
	var fpP [32]byte
	if diskTip != nil {
		fpP = fingerprint(name, i, "remote-pending", w.Cuts(), diskTip, disk.RemoteNextRevocation)
	}

	// (a) the arbitrator's path to the signed commitment: a LightningChannel built on
	// the fetched state, ForceClose without resolutions. The signed transaction is a
	// function of the durable local commitment (tx, peer signature, height -> nonce)
	// and per-space constants: memo over that commitment + reloads. The CPFP anchors of
	// the same object read all three commitments: memo over the three.
	ownable := disk.LocalCommitment.CommitHeight >= 1 // fixture: height 0 carries a fake CommitSig
	var (
		arbLC   *lnwallet.LightningChannel
		arbTx   *wire.MsgTx
		arbDone bool
	)
	getArb := func() *wire.MsgTx {
		if arbDone {
			return arbTx
		}
		arbDone = true
		ta := time.Now()
		defer func() { c.tArb.Add(int64(time.Since(ta))) }()
		// a fetch of its own: the channel object takes ownership of the state
		t0 := time.Now()
		diskLC, err := fetch(w, i)
		c.tFetch.Add(int64(time.Since(t0)))
		if err != nil {
			fail("disk", "unreadable", "%v", err)
			return nil
		}
		lc, err := lnwallet.NewLightningChannel(w.Signer(i), diskLC, nil, lnwallet.WithLeafStore(&lnwallet.MockAuxLeafStore{}))
		if err != nil {
			fail("from-disk-channel", "error", "NewLightningChannel on the fetched state failed: %v", err)
			return nil
		}
		sum, err := lc.ForceClose(lnwallet.WithSkipContractResolutions())
		switch {
		case err != nil:
			fail("from-disk-force-close", "error", "ForceClose(WithSkipContractResolutions) on a channel object built from disk failed: %v", err)
			return nil
		case sum.CloseTx == nil:
			fail("from-disk-force-close", "no-tx", "ForceClose(WithSkipContractResolutions) returned no transaction")
			return nil
		case sum.ContractResolutions.IsSome():
			fail("from-disk-force-close", "resolutions-not-skipped", "WithSkipContractResolutions still returned contract resolutions")
			return nil
		}
		arbLC, arbTx = lc, sum.CloseTx
		return arbTx
	}
	if ownable && !c.prodSeen(full, "arb", fpL) {
		if tx := getArb(); tx != nil {
			cm := disk.LocalCommitment
			s := c.newScen(w, i, i, "own", "+from-disk", false, &cm)
			if !s.failed && s.ownCommitment(tx) {
				c.prodArb.Add(1)
			}
			if w.ChanType().HasAnchors() {
				// arbChannel.NewAnchorResolutions: the CPFP anchors of the same
				// from-disk object, each against the transaction it belongs to
				// (whenever the object is built, i.e. for every new local
				// commitment). An anchor resolution is a function of that
				// transaction and its commitment point: memo per commitment.
				need := map[string]bool{
					"own":            true,
					"remote-current": !c.prodSeen(full, "arb-anchor", fpR),
					"remote-pending": diskTip != nil && !c.prodSeen(full, "arb-anchor", fpP),
				}
				c.prodAnchors(w, i, arbLC, disk, diskTip, need, fail)
			}
		}
	}

	// (b) the chain watcher's path to the resolutions, for every handle age.
	var hs []*handle
	if wh := handlesOf(w, false); wh != nil {
		hs = append(hs, wh.h[i]...)
	}
	now := len(w.Hist())
	if len(hs) == 0 {
		// initial state of a space: no step yet, hence no handle yet
		st, err := fetch(w, i)
		if err != nil {
			fail("disk", "unreadable", "%v", err)
			return
		}
		hs = append(hs, &handle{at: now, age: "now", st: st})
	}
	var refOwn *lnwallet.ContractResolutions // live-object reference, derived lazily
	for _, hd := range hs {
		age := hd.age
		if hd.at == now {
			age = "now"
		}
		// newChainSet, transcribed (exported API only). Always executed; the memo
		// below is per confirmed commitment over what the summary function is then
		// handed / reads from the refreshed handle (fingerprint, check_test.go).
		tr := time.Now()
		st := hd.st.Copy()
		lcm, rcm, err := st.LatestCommitments()
		if err != nil {
			fail("chain-set", "error", "handle loaded after step %d: LatestCommitments: %v", hd.at, err)
			continue
		}
		tipDiff, err := st.RemoteCommitChainTip()
		if err != nil && err != channeldb.ErrNoPendingCommit {
			fail("chain-set", "error", "handle loaded after step %d: RemoteCommitChainTip: %v", hd.at, err)
			continue
		}
		if _, err := st.RemoteRevocationStore(); err != nil {
			fail("chain-set", "error", "handle loaded after step %d: RemoteRevocationStore: %v", hd.at, err)
			continue
		}
		c.tRefresh.Add(int64(time.Since(tr)))
		variant := "+handle(" + age + ")"
		cover := func(kind string) { c.prodCells.Add(fmt.Sprintf("%s|%s|%s|%s", w.P.Type, role(w, i), age, kind)) }
		cell := func(kind, outcome string) {
			c.prodOutcome.Add(kind + ": " + outcome)
			if c.verbose {
				fmt.Printf("INFO    node %c, %s via watcher handle loaded after step %d (%s): %s\n", 'A'+i, kind, hd.at, age, outcome)
			}
		}

		// own commitment confirms (handleKnownLocalState / dispatchLocalForceClose)
		if ownable {
			cover("own")
		}
		// (NewLocalForceCloseSummary reads the handle's LocalCommitment field, the
		// watcher matches the spend against the returned commitment: both in the key)
		if ownable && !c.prodSeen(full, "watcher-own", fingerprint(name, i, "own", w.Cuts(), lcm, nil),
			fingerprint(name, i, "own", w.Cuts(), &st.LocalCommitment, nil), fpL) {
			c.prodDeliveries.Add(1)
			func() {
				arbTx := getArb()
				if arbTx == nil {
					return
				}
				if lcm.CommitTx == nil || lcm.CommitTx.TxHash() != arbTx.TxHash() {
					fail("own"+variant, "not-recognised", "watcher handle loaded after step %d: after newChainSet's refresh its local commitment (height %d) is not the transaction the node broadcast (height %d): the spend would not be handled as the node's own close", hd.at, lcm.CommitHeight, disk.LocalCommitment.CommitHeight)
					return
				}
				stateNum := lnwallet.GetStateNumHint(arbTx, stateHintObfuscator(st))
				sum, err := lnwallet.NewLocalForceCloseSummary(st, w.Signer(i), arbTx, spendHeight, stateNum,
					fn.Some[lnwallet.AuxLeafStore](&lnwallet.MockAuxLeafStore{}), fn.None[lnwallet.AuxContractResolver]())
				if err != nil {
					fail("own"+variant, "error", "watcher handle loaded after step %d: NewLocalForceCloseSummary(state %d): %v", hd.at, stateNum, err)
					return
				}
				res, errR := sum.ContractResolutions.UnwrapOrErr(fmt.Errorf("none"))
				if errR != nil {
					fail("own"+variant, "no-resolutions", "NewLocalForceCloseSummary returned no resolutions")
					return
				}
				if refOwn == nil {
					if ls, err := w.Chan(i).ForceClose(); err == nil {
						if r, err := ls.ContractResolutions.UnwrapOrErr(fmt.Errorf("none")); err == nil {
							refOwn = &r
						}
					}
				}
				if refOwn != nil && resDigest(res.CommitResolution, res.AnchorResolution, res.HtlcResolutions) ==
					resDigest(refOwn.CommitResolution, refOwn.AnchorResolution, refOwn.HtlcResolutions) {
					c.prodIdentical.Add(1)
					cell("own", "resolutions identical to the live-object ones")
					return
				}
				c.prodJudged.Add(1)
				cell("own", "resolutions differ from the live-object ones: judged separately")
				cm := disk.LocalCommitment
				s := c.newScen(w, i, i, "own", variant, false, &cm)
				if !s.failed {
					s.judgeOwn(arbTx, &res)
				}
			}()
		}

		// counterparty's current / pending commitment confirms (handleKnownRemoteState)
		type rc struct {
			kind  string
			truth *channeldb.ChannelCommitment
			got   *channeldb.ChannelCommitment
			point *btcec.PublicKey
			live  *btcec.PublicKey
		}
		var tipCm *channeldb.ChannelCommitment
		if tipDiff != nil {
			tipCm = &tipDiff.Commitment
		}
		for _, r := range []rc{
			{"remote-current", &disk.RemoteCommitment, rcm, st.RemoteCurrentRevocation, live.RemoteCurrentRevocation},
			{"remote-pending", diskTip, tipCm, st.RemoteNextRevocation, live.RemoteNextRevocation},
		} {
			if r.truth == nil || r.truth.CommitTx == nil {
				continue
			}
			cover(r.kind)
			var gotFp [32]byte
			if r.got != nil {
				gotFp = fingerprint(name, i, r.kind, w.Cuts(), r.got, r.point)
			}
			if c.prodSeen(full, "watcher-remote", r.kind, gotFp, r.truth.CommitTx.TxHash(), keyDigest(st.RemoteCurrentRevocation), keyDigest(st.RemoteNextRevocation),
				fingerprint(name, i, "remote-current", w.Cuts(), &st.RemoteCommitment, nil)) {
				continue
			}
			c.prodDeliveries.Add(1)
			if r.got == nil || r.got.CommitTx == nil || r.got.CommitTx.TxHash() != r.truth.CommitTx.TxHash() {
				fail(r.kind+variant, "not-recognised", "watcher handle loaded after step %d: after newChainSet's refresh it does not hold the counterparty's %s commitment (height %d) that is on disk: the spend would not be handled as a unilateral close", hd.at, r.kind, r.truth.CommitHeight)
				continue
			}
			if r.point == nil {
				fail(r.kind+variant, "no-commit-point", "watcher handle loaded after step %d holds no per-commitment point for the counterparty's %s commitment", hd.at, r.kind)
				continue
			}
			sum, err := unilateralSummary(st, w.Signer(i), r.truth.CommitTx, *r.got, r.point)
			if err != nil {
				fail(r.kind+variant, "error", "watcher handle loaded after step %d: NewUnilateralCloseSummary: %v", hd.at, err)
				continue
			}
			var ref *lnwallet.UnilateralCloseSummary
			if r.live != nil {
				ref, _ = unilateralSummary(live, w.Signer(i), r.truth.CommitTx, *r.truth, r.live)
			}
			if ref != nil && resDigest(sum.CommitResolution, sum.AnchorResolution, sum.HtlcResolutions) ==
				resDigest(ref.CommitResolution, ref.AnchorResolution, ref.HtlcResolutions) {
				c.prodIdentical.Add(1)
				cell(r.kind, "resolutions identical to the live-object ones")
				continue
			}
			c.prodJudged.Add(1)
			cell(r.kind, "resolutions differ from the live-object ones: judged separately")
			cm := *r.truth
			s := c.newScen(w, i, 1-i, r.kind, variant, false, &cm)
			if !s.failed {
				s.judgeRemote(r.truth.CommitTx, sum)
			}
		}
	}
}

// prodAnchors judges LightningChannel.NewAnchorResolutions of the from-disk object
// (arbChannel.NewAnchorResolutions): every anchor it names must be a valid spend of
// an output of the transaction it belongs to.
func (c *checker) prodAnchors(w *chanmc.World, i int, lc *lnwallet.LightningChannel, disk *chanstate.OpenChannel,
	diskTip *channeldb.ChannelCommitment, need map[string]bool, fail func(item, failure, format string, a ...any)) {

	all, err := lc.NewAnchorResolutions()
	if err != nil {
		fail("from-disk-anchors", "error", "NewAnchorResolutions on a channel object built from disk failed: %v", err)
		return
	}
	for _, a := range []struct {
		kind  string
		owner int
		cm    *channeldb.ChannelCommitment
		res   *lnwallet.AnchorResolution
	}{
		{"own", i, &disk.LocalCommitment, all.Local},
		{"remote-current", 1 - i, &disk.RemoteCommitment, all.Remote},
		{"remote-pending", 1 - i, diskTip, all.RemotePending},
	} {
		if a.cm != nil && a.cm.CommitTx != nil && !need[a.kind] {
			continue
		}
		if a.cm == nil || a.cm.CommitTx == nil {
			if a.res != nil {
				fail("from-disk-anchors", "unexpected", "NewAnchorResolutions names an anchor for a %s commitment that does not exist", a.kind)
			}
			continue
		}
		c.prodAnchorsJudged.Add(1)
		cm := *a.cm
		s := c.newScen(w, i, a.owner, a.kind, "+from-disk", false, &cm)
		if s.failed {
			continue
		}
		s.tx = cm.CommitTx
		s.txid = s.tx.TxHash()
		s.addOutputs(s.tx)
		if _, _, _, _, _, ok := s.expected(); !ok {
			continue
		}
		want := s.expBalOut || s.expHtlcOuts > 0
		switch {
		case want && a.res == nil:
			s.bad("anchor-pre-confirmation", "missing", "from-disk NewAnchorResolutions has no anchor for the %s commitment although the node has outputs on it", a.kind)
		case !want && a.res != nil:
			s.bad("anchor-pre-confirmation", "unexpected", "from-disk NewAnchorResolutions names %v although the node has no output on the %s commitment", a.res.CommitAnchor, a.kind)
		case a.res != nil:
			if a.res.CommitAnchor.Hash != s.txid {
				s.bad("anchor-pre-confirmation", "outpoint-missing", "anchor %v is not on the %s commitment", a.res.CommitAnchor, a.kind)
				continue
			}
			s.anchor(a.res, "anchor-pre-confirmation")
		default:
			s.c.classes.Add(s.typ + "/" + s.label() + "/anchor-absent")
		}
	}
}
