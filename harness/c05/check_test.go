package c05

// The C05 oracle: at one reachable state of the two-peer world, for one node and
// one "which commitment confirms" scenario, obtain the node's real close summary
// (ForceClose / NewUnilateralCloseSummary), turn every resolution into the spend
// contractcourt + the sweeper would publish (same exported input constructors,
// same tx layout as sweep.createSweepTx) and run btcd's script interpreter on every
// input against the *true* previous outputs (taken from the confirmed transactions,
// never from the sign descriptors).

import (
	"bytes"
	"crypto/sha256"
	"fmt"
	"sort"
	"strings"
	"sync"
	"sync/atomic"
	"time"

	"github.com/btcsuite/btcd/btcec/v2"
	"github.com/btcsuite/btcd/chainhash/v2"
	"github.com/btcsuite/btcd/txscript/v2"
	"github.com/btcsuite/btcd/wire/v2"
	"github.com/lightningnetwork/lnd/chainntnfs"
	"github.com/lightningnetwork/lnd/channeldb"
	"github.com/lightningnetwork/lnd/chanstate"
	"github.com/lightningnetwork/lnd/fn/v2"
	"github.com/lightningnetwork/lnd/input"
	"github.com/lightningnetwork/lnd/lntypes"
	"github.com/lightningnetwork/lnd/lnwallet"
	"github.com/lightningnetwork/lnd/verifmc/chanmc"
	"github.com/lightningnetwork/lnd/verifmc/evid"
)

// Fixture constants of engine/chanmc (HARNESS_GUIDE "chanmc API"); cross-checked
// against the channel configs at run time (a mismatch is a harness error, not a
// property violation).
const (
	fixtureCsvA   = 5
	fixtureCsvB   = 4
	fixtureThaw   = 500_000
	anchorSat     = 330
	spendHeight   = 1000 // height at which the commitment is taken to confirm
	sweepHeight   = 1200 // "current height" used as nLockTime when no input demands one
	walletUtxoSat = 100_000
)

func fixtureCsv(i int) uint32 {
	if i == 0 {
		return fixtureCsvA
	}
	return fixtureCsvB
}

// checker aggregates counters over all states of a run.
type checker struct {
	run     *evid.Run
	verbose bool // replay mode: print INFO lines
	noProd  bool // development aid (VERIF_C05_NOPROD=1): skip the production-path family

	states        atomic.Int64 // OnState invocations (= distinct canonical states)
	nontrivial    atomic.Int64 // states where >=1 HTLC output spend was validated
	scenarios     atomic.Int64 // (state, node, which-commitment) triples checked
	engineOK      atomic.Int64 // positive interpreter executions that passed
	negOK         atomic.Int64 // early-spend controls rejected with ErrUnsatisfiedLockTime
	valueChecks   atomic.Int64
	reloadedState atomic.Int64 // states reached after >=1 cut
	pendingState  atomic.Int64 // states with a pending remote commitment on some side
	skippedH0     atomic.Int64 // own-close scenarios skipped at local height 0
	nanos         atomic.Int64
	classes       *evid.Counter
	witTypes      *evid.Counter
	samples       *evid.Samples

	// memo: scenario fingerprints already validated (see fingerprint).
	memo     sync.Map
	sampled  sync.Map
	memoHits atomic.Int64
	midSteps atomic.Int64 // probe>X mid-step situations judged
	// scenarios actually validated that contained >=1 HTLC output spend
	scenWithHtlc atomic.Int64

	// production-path family (prod_test.go)
	handlesLoaded          atomic.Int64 // second handles loaded along histories
	prodArb                atomic.Int64 // from-disk ForceClose(skip) commitments executed against the funding output
	prodDeliveries         atomic.Int64 // (state, node, handle, confirmed commitment) derivations through a watcher handle
	prodIdentical          atomic.Int64 // ... whose resolutions equal the live-object ones (verdict carries over)
	prodJudged             atomic.Int64 // ... that differ and were judged separately by the full oracle
	prodMemoHits           atomic.Int64
	prodAnchorsJudged      atomic.Int64 // CPFP anchors of the from-disk object run through the interpreter
	prodNanos              atomic.Int64
	tFetch, tArb, tRefresh atomic.Int64
	prodCells              *evid.Counter // type|role|handle age|confirmed commitment
	prodOutcome            *evid.Counter
	// lopsided family: scenarios in which the explorer expects NO balance output of the node
	noBalOut atomic.Int64
}

func newChecker(run *evid.Run) *checker {
	return &checker{run: run, classes: evid.NewCounter(), witTypes: evid.NewCounter(), samples: evid.NewSamples(9),
		prodCells: evid.NewCounter(), prodOutcome: evid.NewCounter()}
}

type claim struct {
	Kind  string `json:"kind"`
	Value int64  `json:"sat"`
}

// scen is one (state, node, confirmed commitment) scenario.
type scen struct {
	c     *checker
	w     *chanmc.World
	typ   string
	ct    chanstate.ChannelType
	i     int    // node under test
	owner int    // owner of the commitment that confirms
	kind  string // own | remote-current | remote-pending
	// variant is empty for resolutions derived from the live channel object, and
	// "+handle(<age>)" for resolutions derived the way a running lnd derives them
	// (production-path family, prod_test.go): second OpenChannel handle of a given
	// age, refreshed as contractcourt.newChainSet does.
	variant string
	mid     bool // checked between the node's ReceiveNewCommitment and RevokeCurrentCommitment
	st      *chanstate.OpenChannel
	cm      *channeldb.ChannelCommitment
	tx      *wire.MsgTx
	txid    chainhash.Hash

	hasCLTV     bool // lease channel and node i is the initiator
	leaseExpiry uint32
	toFee       int64 // second-level timeout fee at this commitment's fee rate (sat)
	suFee       int64

	utxo     map[wire.OutPoint]*wire.TxOut
	used     map[wire.OutPoint]string
	claimed  []claim
	htlcOuts int
	// set by expected(): does the explorer expect a balance output of node i on the
	// confirming commitment, and how many untrimmed HTLC outputs (either direction)
	expBalOut   bool
	expHtlcOuts int
	items       []string
	failed      bool
}

// label is the scenario kind as it appears in signatures and outcome classes.
func (s *scen) label() string {
	if s.mid {
		return s.kind + s.variant + "@mid-step"
	}
	return s.kind + s.variant
}

func (s *scen) bad(item, failure, format string, a ...any) {
	s.failed = true
	msg := fmt.Sprintf(format, a...)
	what := fmt.Sprintf("node %c, %s commitment (owner %c, height %d) confirms: %s: %s", 'A'+s.i, s.label(), 'A'+s.owner, s.cm.CommitHeight, item, msg)
	if s.c.verbose {
		fmt.Printf("INFO   !! %s/%s: %s\n", item, failure, what)
	}
	s.w.Violate(fmt.Sprintf("c05:%s:%s:%s", s.label(), item, failure), what)
}

func (s *scen) ok(item string, val int64) {
	s.c.engineOK.Add(1)
	s.c.classes.Add(s.typ + "/" + s.label() + "/" + item)
	s.items = append(s.items, fmt.Sprintf("%s=%d", item, val))
	if s.c.verbose {
		fmt.Printf("INFO      ok %-28s %d sat\n", item, val)
	}
}

// exec runs the script interpreter on input idx of tx against the true utxo set.
func (s *scen) exec(tx *wire.MsgTx, idx int) error {
	fetcher := txscript.NewMultiPrevOutFetcher(nil)
	for _, in := range tx.TxIn {
		o, ok := s.utxo[in.PreviousOutPoint]
		if !ok {
			return fmt.Errorf("input %v spends an output that does not exist on any confirmed transaction", in.PreviousOutPoint)
		}
		fetcher.AddPrevOut(in.PreviousOutPoint, o)
	}
	prev := s.utxo[tx.TxIn[idx].PreviousOutPoint]
	hc := txscript.NewTxSigHashes(tx, fetcher)
	vm, err := txscript.NewEngine(prev.PkScript, tx, idx, txscript.StandardVerifyFlags, nil, hc, prev.Value, fetcher)
	if err != nil {
		return fmt.Errorf("engine: %w", err)
	}
	return vm.Execute()
}

var (
	walletOutPoint = wire.OutPoint{Hash: chainhash.Hash(sha256.Sum256([]byte("verif-c05-wallet"))), Index: 3}
	walletPkScript = append([]byte{0x00, 0x14}, bytes.Repeat([]byte{0x77}, 20)...)
	changePkScript = append([]byte{0x00, 0x14}, bytes.Repeat([]byte{0x55}, 20)...)
)

// sweepTx lays out the transaction exactly like sweep.(*TxPublisher).createSweepTx:
// an input that commits to an output (second-level HTLC, SINGLE|ANYONECANPAY) goes
// first with its required output at the same index, followed by a wallet input
// paying the fee and a change output; any other input is swept alone into a change
// output. nSequence = BlocksToMaturity(), nLockTime = RequiredLockTime() or the
// current height. seqAdj/lockAdj produce the one-block-early negative controls.
// The witness is produced by the input's own CraftInputScript with a prev-out
// fetcher built from the sign descriptors (input.MultiPrevOutFetcher), as the sweeper does.
func (s *scen) sweepTx(inp input.Input, seqAdj, lockAdj int64) (*wire.MsgTx, error) {
	tx := wire.NewMsgTx(2)
	inputs := []input.Input{inp}
	tx.AddTxIn(&wire.TxIn{PreviousOutPoint: inp.OutPoint(), Sequence: uint32(int64(inp.BlocksToMaturity()) + seqAdj)})
	inVal := inp.SignDesc().Output.Value
	if req := inp.RequiredTxOut(); req != nil {
		tx.AddTxOut(req)
		wd := &input.SignDescriptor{Output: &wire.TxOut{Value: walletUtxoSat, PkScript: walletPkScript}, HashType: txscript.SigHashAll}
		inputs = append(inputs, input.NewBaseInput(&walletOutPoint, input.WitnessKeyHash, wd, spendHeight))
		tx.AddTxIn(&wire.TxIn{PreviousOutPoint: walletOutPoint})
		tx.AddTxOut(&wire.TxOut{Value: inVal + walletUtxoSat - req.Value - 500, PkScript: changePkScript})
	} else {
		v := inVal - 300
		if v < 1 {
			v = 1
		}
		tx.AddTxOut(&wire.TxOut{Value: v, PkScript: changePkScript})
	}
	tx.LockTime = sweepHeight
	if lt, ok := inp.RequiredLockTime(); ok {
		tx.LockTime = lt
	}
	tx.LockTime = uint32(int64(tx.LockTime) + lockAdj)
	fetcher, err := input.MultiPrevOutFetcher(inputs)
	if err != nil {
		return nil, fmt.Errorf("prev-out fetcher: %w", err)
	}
	hc := txscript.NewTxSigHashes(tx, fetcher)
	sc, err := inp.CraftInputScript(s.w.Signer(s.i), tx, hc, fetcher, 0)
	if err != nil {
		return nil, fmt.Errorf("witness generation failed: %w", err)
	}
	if len(sc.SigScript) != 0 {
		return nil, fmt.Errorf("unexpected sigScript for a native segwit output")
	}
	tx.TxIn[0].Witness = sc.Witness
	return tx, nil
}

// spend validates one sweep input: the spend at maturity must pass the interpreter,
// and each timelock the input carries must make the spend FAIL one block early with
// a locktime error. Returns the valid transaction.
func (s *scen) spend(item string, inp input.Input, wantSeq uint32, wantLock uint32, peerSigned bool) *wire.MsgTx {
	s.c.witTypes.Add(inp.WitnessType().String())
	op := inp.OutPoint()
	prev, okp := s.utxo[op]
	if !okp {
		s.bad(item, "outpoint-missing", "resolution points at %v which is not an output of a confirmed transaction", op)
		return nil
	}
	if prevItem, dup := s.used[op]; dup {
		s.bad(item, "outpoint-claimed-twice", "outpoint %v is claimed by two resolutions (%s and %s)", op, prevItem, item)
		return nil
	}
	s.used[op] = item
	if d := inp.SignDesc().Output; d == nil || d.Value != prev.Value || !bytes.Equal(d.PkScript, prev.PkScript) {
		s.bad(item, "signdesc-output-mismatch", "sign descriptor output (%v) differs from the real output %v (value %d)", d, op, prev.Value)
		return nil
	}
	if inp.BlocksToMaturity() != wantSeq {
		s.bad(item, "wrong-csv", "resolution asks for a relative delay of %d blocks, the channel parameters require %d", inp.BlocksToMaturity(), wantSeq)
		return nil
	}
	if lt, _ := inp.RequiredLockTime(); lt != wantLock {
		s.bad(item, "wrong-locktime", "resolution asks for nLockTime %d, expected %d", lt, wantLock)
		return nil
	}
	tx, err := s.sweepTx(inp, 0, 0)
	if err != nil {
		s.bad(item, "witness-error", "%v", err)
		return nil
	}
	if err := s.exec(tx, 0); err != nil {
		s.bad(item, "script-invalid", "spend of %v (witness type %v, nSequence %d, nLockTime %d) is rejected by the script interpreter: %v", op, inp.WitnessType(), tx.TxIn[0].Sequence, tx.LockTime, err)
		return nil
	}
	s.ok(item, prev.Value)
	if wantSeq > 0 {
		s.early(item+"/csv-1", inp, -1, 0, peerSigned)
	}
	if wantLock > 0 {
		s.early(item+"/cltv-1", inp, 0, -1, peerSigned)
	}
	return tx
}

// peerSigned: the input also carries a signature of the counterparty that commits to
// this input's nSequence and the transaction's nLockTime (SINGLE|ANYONECANPAY second-level
// inputs): the early variant is then rejected on that signature before the timelock
// opcode is reached, so any interpreter rejection is accepted for it.
func (s *scen) early(item string, inp input.Input, seqAdj, lockAdj int64, peerSigned bool) {
	tx, err := s.sweepTx(inp, seqAdj, lockAdj)
	if err != nil {
		s.bad(item, "witness-error", "%v", err)
		return
	}
	err = s.exec(tx, 0)
	switch {
	case err == nil:
		s.bad(item, "early-spend-accepted", "the same spend one block early (nSequence %d, nLockTime %d) is ACCEPTED by the script interpreter: the timelock is not enforced", tx.TxIn[0].Sequence, tx.LockTime)
	case !peerSigned && !txscript.IsErrorCode(err, txscript.ErrUnsatisfiedLockTime):
		s.bad(item, "early-spend-wrong-error", "the spend one block early fails, but not on the timelock: %v", err)
	default:
		s.c.negOK.Add(1)
		s.c.classes.Add(s.typ + "/" + s.label() + "/" + item)
		if s.c.verbose {
			fmt.Printf("INFO      ok %-28s rejected one block early (%v)\n", item, err)
		}
	}
}

// intentFor maps a commitment HTLC entry (as recorded by node i) to the script intent.
func (s *scen) intentFor(h *channeldb.HTLC) (int, chanmc.Intent, bool) {
	offerer := s.i
	if h.Incoming {
		offerer = 1 - s.i
	}
	for k := 0; k < s.w.NumIntents(); k++ {
		in, id, sent := s.w.Intent(k)
		if sent && in.By == offerer && id == h.HtlcIndex {
			return k, in, true
		}
	}
	return -1, chanmc.Intent{}, false
}

// htlcAt finds the commitment HTLC entry that lnd recorded at an output index
// (the same lookup contractcourt uses to pair resolutions with HTLCs).
func (s *scen) htlcAt(idx uint32, incoming bool) *channeldb.HTLC {
	for x := range s.cm.Htlcs {
		h := &s.cm.Htlcs[x]
		if h.OutputIndex >= 0 && uint32(h.OutputIndex) == idx && h.Incoming == incoming {
			return h
		}
	}
	return nil
}

// threshold is the dust threshold (sat) on the confirming commitment for an HTLC offered by `by`.
func (s *scen) threshold(by int) int64 {
	th := chanmc.Thresholds(s.typ, int64(s.cm.FeePerKw), s.w.Dust(0), s.w.Dust(1))
	switch {
	case by == 0 && s.owner == 0:
		return th[0]
	case by == 0 && s.owner == 1:
		return th[1]
	case by == 1 && s.owner == 1:
		return th[2]
	default:
		return th[3]
	}
}

// expected computes, from the explorer's own HTLC table and dust rules, what node i
// can claim when this commitment confirms.
func (s *scen) expected() (exp []claim, balSat, htlcSat, feeSat, dustSat int64, ok bool) {
	s.expBalOut, s.expHtlcOuts = false, 0
	balSat = int64(s.cm.LocalBalance) / 1000 // node i's balance (C01 proves it equals the HTLC history)
	if balSat >= s.w.Dust(s.owner) {
		k := "to-remote"
		if s.kind == "own" {
			k = "to-local"
		}
		exp = append(exp, claim{k, balSat})
		s.expBalOut = true
	} else {
		dustSat += balSat
	}
	for x := range s.cm.Htlcs {
		h := &s.cm.Htlcs[x]
		_, in, found := s.intentFor(h)
		if !found {
			s.bad("htlc-table", "unknown-htlc", "commitment lists HTLC id %d (incoming=%v) that no script intent offered", h.HtlcIndex, h.Incoming)
			return nil, 0, 0, 0, 0, false
		}
		sat := int64(in.Amt) / 1000
		htlcSat += sat
		if sat < s.threshold(in.By) {
			dustSat += sat
			continue
		}
		s.expHtlcOuts++
		offeredByMe := in.By == s.i
		switch {
		case s.kind == "own" && offeredByMe:
			exp = append(exp, claim{"htlc-timeout-2nd-level", sat - s.toFee})
			feeSat += s.toFee
		case s.kind == "own":
			exp = append(exp, claim{"htlc-success-2nd-level", sat - s.suFee})
			feeSat += s.suFee
		case offeredByMe:
			exp = append(exp, claim{"htlc-timeout-direct", sat})
		default:
			exp = append(exp, claim{"htlc-success-direct", sat})
		}
	}
	return exp, balSat, htlcSat, feeSat, dustSat, true
}

func sortClaims(c []claim) []claim {
	o := append([]claim{}, c...)
	sort.Slice(o, func(a, b int) bool {
		if o[a].Kind != o[b].Kind {
			return o[a].Kind < o[b].Kind
		}
		return o[a].Value < o[b].Value
	})
	return o
}

// commitWitnessType mirrors contractcourt.(*commitSweepResolver).decideWitnessType.
func (s *scen) commitWitnessType(res *lnwallet.CommitOutputResolution) (input.WitnessType, error) {
	desc := res.SelfOutputSignDesc
	var isLocal bool
	if s.ct.IsTaproot() {
		delayKey := s.st.LocalChanCfg.DelayBasePoint.PubKey
		nonDelayKey := s.st.LocalChanCfg.PaymentBasePoint.PubKey
		k := desc.KeyDesc.PubKey
		if k == nil || (!k.IsEqual(delayKey) && !k.IsEqual(nonDelayKey)) {
			return nil, fmt.Errorf("unknown sign key %v", k)
		}
		isLocal = k.IsEqual(delayKey)
	} else {
		if len(desc.WitnessScript) == 0 {
			return nil, fmt.Errorf("empty witness script")
		}
		isLocal = desc.WitnessScript[0] == txscript.OP_IF
	}
	delayed := res.MaturityDelay != 0
	switch {
	case isLocal && s.ct.IsTaprootFinal():
		return input.TaprootLocalCommitSpendFinal, nil
	case isLocal && s.ct.IsTaproot():
		return input.TaprootLocalCommitSpend, nil
	case !isLocal && s.ct.IsTaprootFinal():
		return input.TaprootRemoteCommitSpendFinal, nil
	case !isLocal && s.ct.IsTaproot():
		return input.TaprootRemoteCommitSpend, nil
	case isLocal && s.hasCLTV:
		return input.LeaseCommitmentTimeLock, nil
	case isLocal:
		return input.CommitmentTimeLock, nil
	case delayed && s.hasCLTV:
		return input.LeaseCommitmentToRemoteConfirmed, nil
	case delayed:
		return input.CommitmentToRemoteConfirmed, nil
	case desc.SingleTweak == nil:
		return input.CommitSpendNoDelayTweakless, nil
	default:
		return input.CommitmentNoDelay, nil
	}
}

// commitOutput sweeps the node's own balance output (commit_sweep_resolver.Launch).
func (s *scen) commitOutput(res *lnwallet.CommitOutputResolution, item string, wantDelay uint32) {
	wt, err := s.commitWitnessType(res)
	if err != nil {
		s.bad(item, "witness-type", "%v", err)
		return
	}
	var inp *input.BaseInput
	var wantLock uint32
	if s.hasCLTV {
		inp = input.NewCsvInputWithCltv(&res.SelfOutPoint, wt, &res.SelfOutputSignDesc, spendHeight, res.MaturityDelay, s.leaseExpiry)
		wantLock = s.leaseExpiry
	} else {
		inp = input.NewCsvInput(&res.SelfOutPoint, wt, &res.SelfOutputSignDesc, spendHeight, res.MaturityDelay)
	}
	if s.spend(item, inp, wantDelay, wantLock, false) != nil {
		s.claimed = append(s.claimed, claim{item, s.utxo[res.SelfOutPoint].Value})
	}
}

func (s *scen) anchor(res *lnwallet.AnchorResolution, item string) {
	wt := input.WitnessType(input.CommitmentAnchor)
	if s.ct.IsTaproot() {
		wt = input.TaprootAnchorSweepSpend
	}
	inp := input.MakeBaseInput(&res.CommitAnchor, wt, &res.AnchorSignDescriptor, spendHeight, nil)
	if o, ok := s.utxo[res.CommitAnchor]; ok && o.Value != anchorSat {
		s.bad(item, "not-an-anchor", "anchor resolution points at %v worth %d sat", res.CommitAnchor, o.Value)
		return
	}
	s.spend(item, &inp, 0, 0, false)
}

func (s *scen) addOutputs(tx *wire.MsgTx) {
	h := tx.TxHash()
	for x, o := range tx.TxOut {
		s.utxo[wire.OutPoint{Hash: h, Index: uint32(x)}] = o
	}
}

// secondLevelOutputType mirrors the witness-type switch of htlc{Timeout,Success}Resolver
// for the CSV-delayed output of a second-level transaction.
func (s *scen) secondLevelOutputInput(op *wire.OutPoint, desc *input.SignDescriptor, csv uint32, success bool) (*input.BaseInput, uint32) {
	var wt, lease input.StandardWitnessType
	switch {
	case success && s.ct.IsTaprootFinal():
		wt = input.TaprootHtlcAcceptedSuccessSecondLevelFinal
	case success && txscript.IsPayToTaproot(desc.Output.PkScript):
		wt = input.TaprootHtlcAcceptedSuccessSecondLevel
	case success:
		wt = input.HtlcAcceptedSuccessSecondLevel
	case s.ct.IsTaprootFinal():
		wt = input.TaprootHtlcOfferedTimeoutSecondLevelFinal
	case txscript.IsPayToTaproot(desc.Output.PkScript):
		wt = input.TaprootHtlcOfferedTimeoutSecondLevel
	default:
		wt = input.HtlcOfferedTimeoutSecondLevel
	}
	lease = input.LeaseHtlcOfferedTimeoutSecondLevel
	if success {
		lease = input.LeaseHtlcAcceptedSuccessSecondLevel
	}
	if s.hasCLTV {
		return input.NewCsvInputWithCltv(op, lease, desc, spendHeight, csv, s.leaseExpiry), s.leaseExpiry
	}
	return input.NewCsvInput(op, wt, desc, spendHeight, csv), 0
}

// ownSecondLevel handles one HTLC on the node's own commitment: the peer-signed
// second-level transaction (as stored, and re-signed inside an aggregated sweep for
// anchor channels) and then the CSV-delayed second-level output.
func (s *scen) ownSecondLevel(success bool, signedTx *wire.MsgTx, details *input.SignDetails, desc *input.SignDescriptor, claimOp wire.OutPoint, csvDelay, resExpiry uint32) {
	item := "htlc-timeout-2nd-level"
	fee := s.toFee
	if success {
		item = "htlc-success-2nd-level"
		fee = s.suFee
	}
	if signedTx == nil || len(signedTx.TxIn) != 1 || len(signedTx.TxOut) != 1 {
		s.bad(item, "no-second-level-tx", "resolution on the node's own commitment has no single-input single-output second-level transaction")
		return
	}
	htlcOp := signedTx.TxIn[0].PreviousOutPoint
	prev, okp := s.utxo[htlcOp]
	if !okp || htlcOp.Hash != s.txid {
		s.bad(item, "outpoint-missing", "second-level tx spends %v which is not an output of the confirmed commitment %v", htlcOp, s.txid)
		return
	}
	if p, dup := s.used[htlcOp]; dup {
		s.bad(item, "outpoint-claimed-twice", "HTLC output %v is claimed by two resolutions (%s and %s)", htlcOp, p, item)
		return
	}
	rec := s.htlcAt(htlcOp.Index, success)
	if rec == nil {
		s.bad(item, "no-htlc-at-index", "no %s HTLC is recorded at output index %d", map[bool]string{true: "incoming", false: "outgoing"}[success], htlcOp.Index)
		return
	}
	_, in, found := s.intentFor(rec)
	if !found {
		s.bad(item, "unknown-htlc", "HTLC id %d at output %d was never offered", rec.HtlcIndex, htlcOp.Index)
		return
	}
	sat := int64(in.Amt) / 1000
	if prev.Value != sat {
		s.bad(item, "htlc-output-value", "output %d carries %d sat but HTLC %d is worth %d sat", htlcOp.Index, prev.Value, rec.HtlcIndex, sat)
		return
	}
	tx := signedTx.Copy()
	var preimage lntypes.Preimage
	if success {
		pre, okPre := s.w.PreimageFor(rec.RHash)
		if !okPre {
			s.bad(item, "unknown-hash", "no preimage known for payment hash %x", rec.RHash[:4])
			return
		}
		preimage = pre
		// htlcIncomingContestResolver.applyPreimage
		pos := 3
		if txscript.IsPayToTaproot(tx.TxOut[0].PkScript) {
			pos = 2
		}
		if len(tx.TxIn[0].Witness) <= pos {
			s.bad(item, "witness-shape", "success tx witness has %d elements, cannot insert the preimage at %d", len(tx.TxIn[0].Witness), pos)
			return
		}
		tx.TxIn[0].Witness[pos] = preimage[:]
		if tx.LockTime != 0 {
			s.bad(item, "wrong-locktime", "success tx has nLockTime %d", tx.LockTime)
			return
		}
	} else {
		if tx.LockTime != in.Expiry || resExpiry != in.Expiry {
			s.bad(item, "wrong-locktime", "timeout tx nLockTime %d / resolution expiry %d, the HTLC expires at %d", tx.LockTime, resExpiry, in.Expiry)
			return
		}
	}
	var wantSeq uint32
	if s.ct.HasAnchors() {
		wantSeq = 1
	}
	if tx.TxIn[0].Sequence != wantSeq {
		s.bad(item, "wrong-csv", "second-level tx input has nSequence %d, expected %d", tx.TxIn[0].Sequence, wantSeq)
		return
	}
	if err := s.exec(tx, 0); err != nil {
		s.bad(item+"-tx", "script-invalid", "stored second-level tx (HTLC id %d, output %d, %d sat) is rejected by the script interpreter: %v", rec.HtlcIndex, htlcOp.Index, sat, err)
		return
	}
	s.ok(item+"-tx", prev.Value)
	s.htlcOuts++
	if tx.TxOut[0].Value != sat-fee {
		s.bad(item, "second-level-value", "second-level output is %d sat, expected %d - fee %d", tx.TxOut[0].Value, sat, fee)
		return
	}
	if want := (wire.OutPoint{Hash: signedTx.TxHash(), Index: 0}); claimOp != want {
		s.bad(item, "claim-outpoint", "ClaimOutpoint %v is not output 0 of the second-level tx (%v)", claimOp, want)
		return
	}
	finalOp := claimOp
	if s.ct.HasAnchors() {
		if details == nil {
			s.bad(item, "no-sign-details", "anchor channel resolution carries no SignDetails: the sweeper cannot attach a fee to the second-level tx")
			return
		}
		// sweepTimeoutTx / sweepSuccessTx
		taproot := txscript.IsPayToTaproot(desc.Output.PkScript)
		var inp input.HtlcSecondLevelAnchorInput
		switch {
		case success && taproot:
			inp = input.MakeHtlcSecondLevelSuccessTaprootInput(signedTx, details, preimage, spendHeight)
		case success:
			inp = input.MakeHtlcSecondLevelSuccessAnchorInput(signedTx, details, preimage, spendHeight)
		case taproot:
			inp = input.MakeHtlcSecondLevelTimeoutTaprootInput(signedTx, details, spendHeight)
		default:
			inp = input.MakeHtlcSecondLevelTimeoutAnchorInput(signedTx, details, spendHeight)
		}
		agg := s.spend(item+"-resigned", &inp, 1, signedTx.LockTime, true)
		if agg == nil {
			return
		}
		s.addOutputs(agg)
		// The resolver sweeps the output at (spender txid, spender input index).
		finalOp = wire.OutPoint{Hash: agg.TxHash(), Index: 0}
	} else {
		s.used[htlcOp] = item
		if details != nil {
			s.bad(item, "unexpected-sign-details", "non-anchor channel resolution carries SignDetails")
			return
		}
		s.addOutputs(tx)
	}
	inp, wantLock := s.secondLevelOutputInput(&finalOp, desc, csvDelay, success)
	if s.spend(item, inp, fixtureCsv(s.i), wantLock, false) != nil {
		s.claimed = append(s.claimed, claim{item, s.utxo[finalOp].Value})
	}
}

// remoteHtlc handles one HTLC output on the counterparty's commitment (direct claim).
func (s *scen) remoteHtlc(success bool, desc *input.SignDescriptor, claimOp wire.OutPoint, csvDelay, resExpiry uint32, hasSecondLevel bool) {
	item := "htlc-timeout-direct"
	if success {
		item = "htlc-success-direct"
	}
	if hasSecondLevel {
		s.bad(item, "unexpected-second-level-tx", "resolution on the counterparty's commitment carries a second-level transaction")
		return
	}
	if claimOp.Hash != s.txid {
		s.bad(item, "outpoint-missing", "ClaimOutpoint %v is not on the confirmed commitment %v", claimOp, s.txid)
		return
	}
	rec := s.htlcAt(claimOp.Index, success)
	if rec == nil {
		s.bad(item, "no-htlc-at-index", "no %s HTLC is recorded at output index %d", map[bool]string{true: "incoming", false: "outgoing"}[success], claimOp.Index)
		return
	}
	_, in, found := s.intentFor(rec)
	if !found {
		s.bad(item, "unknown-htlc", "HTLC id %d at output %d was never offered", rec.HtlcIndex, claimOp.Index)
		return
	}
	if prev, okp := s.utxo[claimOp]; okp && prev.Value != int64(in.Amt)/1000 {
		s.bad(item, "htlc-output-value", "output %d carries %d sat but HTLC %d is worth %d sat", claimOp.Index, prev.Value, rec.HtlcIndex, int64(in.Amt)/1000)
		return
	}
	var wantSeq uint32
	if s.ct.HasAnchors() {
		wantSeq = 1
	}
	var inp input.Input
	var wantLock uint32
	if success {
		pre, okPre := s.w.PreimageFor(rec.RHash)
		if !okPre {
			s.bad(item, "unknown-hash", "no preimage known for payment hash %x", rec.RHash[:4])
			return
		}
		// htlcSuccessResolver.sweepRemoteCommitOutput
		var hi input.HtlcSucceedInput
		switch {
		case s.ct.IsTaprootFinal():
			hi = input.MakeTaprootHtlcSucceedInputFinal(&claimOp, desc, pre[:], spendHeight, csvDelay)
		case txscript.IsPayToTaproot(desc.Output.PkScript):
			hi = input.MakeTaprootHtlcSucceedInput(&claimOp, desc, pre[:], spendHeight, csvDelay)
		default:
			hi = input.MakeHtlcSucceedInput(&claimOp, desc, pre[:], spendHeight, csvDelay)
		}
		inp = &hi
	} else {
		if resExpiry != in.Expiry {
			s.bad(item, "wrong-locktime", "resolution expiry %d, the HTLC expires at %d", resExpiry, in.Expiry)
			return
		}
		// htlcTimeoutResolver.sweepDirectHtlcOutput
		var wt input.StandardWitnessType
		switch {
		case s.ct.IsTaprootFinal():
			wt = input.TaprootHtlcOfferedRemoteTimeoutFinal
		case txscript.IsPayToTaproot(desc.Output.PkScript):
			wt = input.TaprootHtlcOfferedRemoteTimeout
		default:
			wt = input.HtlcOfferedRemoteTimeout
		}
		inp = input.NewCsvInputWithCltv(&claimOp, wt, desc, spendHeight, csvDelay, resExpiry)
		wantLock = in.Expiry
	}
	if s.spend(item, inp, wantSeq, wantLock, false) != nil {
		s.htlcOuts++
		s.claimed = append(s.claimed, claim{item, s.utxo[claimOp].Value})
	}
}

// finish compares what was validly claimable with the explorer's expectation.
func (s *scen) finish(exp []claim, balSat, htlcSat, feeSat, dustSat int64) {
	if s.failed {
		return
	}
	got, want := sortClaims(s.claimed), sortClaims(exp)
	var gs, ws int64
	for _, c := range got {
		gs += c.Value
	}
	for _, c := range want {
		ws += c.Value
	}
	s.c.valueChecks.Add(1)
	if !s.expBalOut {
		s.c.noBalOut.Add(1)
		s.c.classes.Add(s.typ + "/" + s.label() + "/no-balance-output")
	}
	if fmt.Sprint(got) != fmt.Sprint(want) {
		s.bad("value", "claimable-differs", "validly claimable outputs %v (sum %d sat) differ from balance %d + HTLCs %d - second-level fees %d - dust %d = %v (sum %d sat)", got, gs, balSat, htlcSat, feeSat, dustSat, want, ws)
		return
	}
	// Every output of the confirmed commitment is either claimed by the node, an
	// anchor, or must be the counterparty's balance output (at most one).
	unclaimed := 0
	for x := range s.tx.TxOut {
		if _, okc := s.used[wire.OutPoint{Hash: s.txid, Index: uint32(x)}]; !okc {
			unclaimed++
		}
	}
	maxOther := 1 // counterparty balance
	if s.ct.HasAnchors() {
		maxOther++ // counterparty anchor
	}
	if unclaimed > maxOther {
		s.bad("value", "outputs-unaccounted", "%d outputs of the confirmed commitment are neither claimed by the node nor the counterparty's balance/anchor", unclaimed)
		return
	}
	if s.c.verbose {
		fmt.Printf("INFO      value: claimable %d sat == balance %d + HTLCs %d - 2nd-level fees %d - dust %d\n", gs, balSat, htlcSat, feeSat, dustSat)
	}
	// Samples: only scenarios with HTLC spends, at most one per (type, scenario kind).
	if s.htlcOuts == 0 {
		return
	}
	if _, dup := s.c.sampled.LoadOrStore(s.typ+"/"+s.label(), true); dup {
		return
	}
	s.c.samples.Add(map[string]any{
		"space": s.w.P.Name(), "history": strings.Join(s.w.Hist(), " "), "node": string(rune('A' + s.i)),
		"confirmed": s.label(), "commit_height": s.cm.CommitHeight, "validated": s.items,
		"claimable_sat": gs, "balance_sat": balSat, "htlc_sat": htlcSat, "second_level_fee_sat": feeSat, "dust_sat": dustSat,
	})
}

// fingerprint identifies a close scenario by *every input* the derivation of its
// resolutions reads: ForceClose / NewLocalForceCloseSummary / NewUnilateralCloseSummary /
// extractHtlcResolutions / NewAnchorResolution are deterministic functions of
//   - per-space constants (channel type, both ChannelConfigs, initiator flag, funding
//     outpoint, thaw height, tapscript root, revocation producer, signer keys),
//   - the commitment record handed to them (tx bytes, CommitSig bytes, height, fee
//     rate, and per HTLC: direction, id, amount, hash, expiry, output index, peer
//     signature bytes),
//   - the commitment point.
//
// All of the second and third group is hashed here, together with the space, the
// node, the scenario kind and the number of reloads so far (a reloaded object is
// never identified with a pre-reload one). Two scenarios with equal fingerprints
// therefore yield byte-identical resolutions, and the verdict of the first is the
// verdict of the second. (Taproot own-close scenarios rarely collide: the stored
// MuSig2 partial signature carries a random nonce.) The memo is bypassed for spaces
// run in full mode (every state re-validated).
func fingerprint(space string, i int, kind string, cuts int, cm *channeldb.ChannelCommitment, point *btcec.PublicKey) [32]byte {
	h := sha256.New()
	fmt.Fprintf(h, "%s|%d|%s|%d|%d|%d|%d|%d|%d|", space, i, kind, cuts, cm.CommitHeight, cm.LocalBalance, cm.RemoteBalance, cm.CommitFee, cm.FeePerKw)
	if cm.CommitTx != nil {
		_ = cm.CommitTx.Serialize(h)
	}
	h.Write(cm.CommitSig)
	if point != nil {
		h.Write(point.SerializeCompressed())
	}
	for x := range cm.Htlcs {
		t := &cm.Htlcs[x]
		fmt.Fprintf(h, "|%v:%d:%d:%x:%d:%d:%x", t.Incoming, t.HtlcIndex, t.Amt, t.RHash, t.RefundTimeout, t.OutputIndex, t.Signature)
	}
	var out [32]byte
	copy(out[:], h.Sum(nil))
	return out
}

// seen reports whether an identical scenario was already validated (memo mode only).
func (c *checker) seen(w *chanmc.World, full bool, i int, kind string, cm *channeldb.ChannelCommitment, point *btcec.PublicKey, extra ...[32]byte) bool {
	if full || c.verbose {
		return false
	}
	fp := fingerprint(w.P.Name(), i, kind, w.Cuts(), cm, point)
	for _, e := range extra {
		fp = sha256.Sum256(append(fp[:], e[:]...))
	}
	if _, dup := c.memo.LoadOrStore(fp, struct{}{}); dup {
		c.memoHits.Add(1)
		return true
	}
	return false
}

func (c *checker) newScen(w *chanmc.World, i, owner int, kind, variant string, mid bool, cm *channeldb.ChannelCommitment) *scen {
	st := w.Chan(i).State()
	s := &scen{c: c, w: w, typ: w.P.Type, ct: w.ChanType(), i: i, owner: owner, kind: kind, variant: variant, mid: mid, st: st, cm: cm,
		utxo: map[wire.OutPoint]*wire.TxOut{}, used: map[wire.OutPoint]string{}}
	if s.ct.HasLeaseExpiration() {
		s.leaseExpiry = fixtureThaw
		s.hasCLTV = i == w.Opener()
	}
	okRate := int64(cm.FeePerKw) == w.P.FeePerKw
	for _, f := range w.P.Fees {
		okRate = okRate || int64(cm.FeePerKw) == f
	}
	if !okRate {
		s.bad("fee-rate", "unknown", "commitment fee rate %d was never proposed (initial %d, updates %v)", cm.FeePerKw, w.P.FeePerKw, w.P.Fees)
	}
	th := chanmc.Thresholds(s.typ, int64(cm.FeePerKw), w.Dust(0), w.Dust(1))
	s.toFee, s.suFee = th[0]-w.Dust(0), th[1]-w.Dust(1)
	s.utxo[walletOutPoint] = &wire.TxOut{Value: walletUtxoSat, PkScript: walletPkScript}
	c.scenarios.Add(1)
	if c.verbose {
		fmt.Printf("INFO    node %c, %s commitment (owner %c, height %d, %d HTLCs) confirms\n", 'A'+i, s.label(), 'A'+owner, cm.CommitHeight, len(cm.Htlcs))
	}
	return s
}

// ownClose: the node force-closes with its latest commitment.
func (c *checker) ownClose(w *chanmc.World, i int, mid bool) (s *scen) {
	st := w.Chan(i).State()
	cm := st.LocalCommitment
	s = c.newScen(w, i, i, "own", "", mid, &cm)
	if s.failed {
		return
	}
	sum, err := w.Chan(i).ForceClose()
	if err != nil {
		s.bad("force-close", "error", "ForceClose failed: %v", err)
		return
	}
	res, errR := sum.ContractResolutions.UnwrapOrErr(fmt.Errorf("none"))
	if errR != nil {
		s.bad("resolutions", "missing", "ForceClose returned no contract resolutions")
		return
	}
	s.judgeOwn(sum.CloseTx, &res)
	return
}

// ownCommitment validates the signed commitment tx against the funding output and
// registers its outputs.
func (s *scen) ownCommitment(tx *wire.MsgTx) bool {
	st := s.st
	s.tx = tx
	s.txid = s.tx.TxHash()
	if s.cm.CommitTx == nil || s.txid != s.cm.CommitTx.TxHash() {
		s.bad("commitment", "not-latest", "ForceClose returned a transaction that is not the stored latest commitment")
		return false
	}
	if len(s.tx.TxIn) != 1 || s.tx.TxIn[0].PreviousOutPoint != st.FundingOutpoint {
		s.bad("commitment", "wrong-input", "commitment does not spend the funding outpoint")
		return false
	}
	s.utxo[st.FundingOutpoint] = s.w.Chan(s.i).FundingTxOut()
	if err := s.exec(s.tx, 0); err != nil {
		s.bad("commitment", "script-invalid", "signed commitment is rejected by the script interpreter against the funding output: %v", err)
		return false
	}
	s.ok("commitment", s.utxo[st.FundingOutpoint].Value)
	s.addOutputs(s.tx)
	return true
}

// judgeOwn judges the resolutions res for the node's own signed commitment tx.
func (s *scen) judgeOwn(tx *wire.MsgTx, res *lnwallet.ContractResolutions) {
	if !s.ownCommitment(tx) {
		return
	}
	exp, bal, hs, fs, ds, okE := s.expected()
	if !okE {
		return
	}
	if res.CommitResolution != nil {
		if res.CommitResolution.SelfOutPoint.Hash != s.txid {
			s.bad("to-local", "outpoint-missing", "SelfOutPoint %v is not on the commitment", res.CommitResolution.SelfOutPoint)
			return
		}
		s.commitOutput(res.CommitResolution, "to-local", fixtureCsv(s.i))
	}
	if res.HtlcResolutions != nil {
		for x := range res.HtlcResolutions.OutgoingHTLCs {
			r := &res.HtlcResolutions.OutgoingHTLCs[x]
			s.ownSecondLevel(false, r.SignedTimeoutTx, r.SignDetails, &r.SweepSignDesc, r.ClaimOutpoint, r.CsvDelay, r.Expiry)
		}
		for x := range res.HtlcResolutions.IncomingHTLCs {
			r := &res.HtlcResolutions.IncomingHTLCs[x]
			s.ownSecondLevel(true, r.SignedSuccessTx, r.SignDetails, &r.SweepSignDesc, r.ClaimOutpoint, r.CsvDelay, 0)
		}
	}
	s.checkAnchor(res.AnchorResolution)
	s.finish(exp, bal, hs, fs, ds)
}

func (s *scen) checkAnchor(res *lnwallet.AnchorResolution) {
	if s.failed {
		return
	}
	// BOLT-3: a party's anchor is on a commitment iff its balance output is, or the
	// commitment carries at least one untrimmed HTLC. Both facts come from the
	// explorer's own table (expected()).
	want := s.ct.HasAnchors() && (s.expBalOut || s.expHtlcOuts > 0)
	switch {
	case want && res == nil:
		s.bad("anchor", "missing", "anchor channel and the node has a balance output (%v) or HTLC outputs (%d) on the commitment, but no anchor resolution was produced", s.expBalOut, s.expHtlcOuts)
	case !s.ct.HasAnchors() && res != nil:
		s.bad("anchor", "unexpected", "non-anchor channel produced an anchor resolution")
	case !want && res != nil:
		s.bad("anchor", "unexpected", "the node has neither a balance output nor an HTLC output on the commitment, yet an anchor resolution names %v", res.CommitAnchor)
	case res == nil:
		if s.ct.HasAnchors() {
			s.c.classes.Add(s.typ + "/" + s.label() + "/anchor-absent")
		}
	default:
		if res.CommitAnchor.Hash != s.txid {
			s.bad("anchor", "outpoint-missing", "anchor %v is not on the confirmed commitment", res.CommitAnchor)
			return
		}
		s.anchor(res, "anchor")
		if s.variant != "" {
			// production-path variant: the pre-confirmation resolutions of the
			// from-disk object are judged by prodPath itself
			return
		}
		// LightningChannel.NewAnchorResolutions (used to CPFP before confirmation)
		// must name the same anchor with an equally valid descriptor.
		all, err := s.w.Chan(s.i).NewAnchorResolutions()
		if err != nil {
			s.bad("anchor", "new-anchor-resolutions-error", "NewAnchorResolutions failed: %v", err)
			return
		}
		pre := map[string]*lnwallet.AnchorResolution{"own": all.Local, "remote-current": all.Remote, "remote-pending": all.RemotePending}[s.kind]
		if pre == nil || pre.CommitAnchor != res.CommitAnchor {
			s.bad("anchor", "new-anchor-resolutions-differ", "NewAnchorResolutions names %v for this commitment, the close summary %v", pre, res.CommitAnchor)
			return
		}
		delete(s.used, pre.CommitAnchor)
		s.anchor(pre, "anchor-pre-confirmation")
	}
}

// remoteClose: the counterparty's commitment cm (node i's own copy of it) confirms.
func (c *checker) remoteClose(w *chanmc.World, i int, kind string, mid bool, cmIn channeldb.ChannelCommitment, commitPoint *btcec.PublicKey) (s *scen) {
	cm := cmIn
	s = c.newScen(w, i, 1-i, kind, "", mid, &cm)
	if s.failed {
		return
	}
	if cm.CommitTx == nil || commitPoint == nil {
		s.bad("commitment", "not-stored", "no transaction / commitment point stored for the counterparty's %s commitment", kind)
		return
	}
	sum, err := unilateralSummary(s.st, w.Signer(i), cm.CommitTx, cm, commitPoint)
	if err != nil {
		s.bad("close-summary", "error", "NewUnilateralCloseSummary failed: %v", err)
		return
	}
	s.judgeRemote(cm.CommitTx, sum)
	return
}

// unilateralSummary calls NewUnilateralCloseSummary for tx confirming at spendHeight.
func unilateralSummary(st *chanstate.OpenChannel, signer input.Signer, tx *wire.MsgTx, cm channeldb.ChannelCommitment,
	commitPoint *btcec.PublicKey) (*lnwallet.UnilateralCloseSummary, error) {

	txid := tx.TxHash()
	op := st.FundingOutpoint
	spend := &chainntnfs.SpendDetail{
		SpentOutPoint: &op, SpenderTxHash: &txid, SpendingTx: tx,
		SpenderInputIndex: 0, SpendingHeight: spendHeight,
	}
	return lnwallet.NewUnilateralCloseSummary(
		st, signer, spend, cm, commitPoint,
		fn.Some[lnwallet.AuxLeafStore](&lnwallet.MockAuxLeafStore{}),
		fn.None[lnwallet.AuxContractResolver](),
	)
}

// judgeRemote judges a unilateral close summary for the counterparty's commitment tx.
func (s *scen) judgeRemote(tx *wire.MsgTx, sum *lnwallet.UnilateralCloseSummary) {
	st := s.st
	s.tx = tx
	s.txid = s.tx.TxHash()
	if len(s.tx.TxIn) != 1 || s.tx.TxIn[0].PreviousOutPoint != st.FundingOutpoint {
		s.bad("commitment", "wrong-input", "stored counterparty commitment does not spend the funding outpoint")
		return
	}
	s.addOutputs(s.tx)
	exp, bal, hs, fs, ds, okE := s.expected()
	if !okE {
		return
	}
	var wantDelay uint32
	if s.ct.HasAnchors() {
		wantDelay = 1
	}
	if sum.CommitResolution != nil {
		if sum.CommitResolution.SelfOutPoint.Hash != s.txid {
			s.bad("to-remote", "outpoint-missing", "SelfOutPoint %v is not on the commitment", sum.CommitResolution.SelfOutPoint)
			return
		}
		s.commitOutput(sum.CommitResolution, "to-remote", wantDelay)
	}
	if sum.HtlcResolutions != nil {
		for x := range sum.HtlcResolutions.OutgoingHTLCs {
			r := &sum.HtlcResolutions.OutgoingHTLCs[x]
			s.remoteHtlc(false, &r.SweepSignDesc, r.ClaimOutpoint, r.CsvDelay, r.Expiry, r.SignedTimeoutTx != nil)
		}
		for x := range sum.HtlcResolutions.IncomingHTLCs {
			r := &sum.HtlcResolutions.IncomingHTLCs[x]
			s.remoteHtlc(true, &r.SweepSignDesc, r.ClaimOutpoint, r.CsvDelay, 0, r.SignedSuccessTx != nil)
		}
	}
	s.checkAnchor(sum.AnchorResolution)
	s.finish(exp, bal, hs, fs, ds)
}

// nonDustRecorded counts HTLC outputs on a commitment record (only used to classify a
// state as non-trivial for the coverage report; no oracle depends on it).
func nonDustRecorded(cm *channeldb.ChannelCommitment) int {
	n := 0
	for x := range cm.Htlcs {
		if cm.Htlcs[x].OutputIndex >= 0 {
			n++
		}
	}
	return n
}

// checkState is the per-state entry point (chanmc.Space.OnState).
func (c *checker) checkState(w *chanmc.World, full bool) {
	// The state reached by a terminal `probe>X` action was already judged by
	// checkMidStep (Hooks.OnMidStep) on the same live world.
	if h := w.Hist(); len(h) > 0 && strings.HasPrefix(h[len(h)-1], "probe>") {
		return
	}
	t0 := time.Now()
	defer func() { c.nanos.Add(int64(time.Since(t0))) }()
	c.states.Add(1)
	if w.Cuts() > 0 {
		c.reloadedState.Add(1)
	}
	htlcSpends, pending := 0, false
	for i := 0; i < 2; i++ {
		st := w.Chan(i).State()
		if st.IsInitiator != (i == w.Opener()) || uint32(st.LocalChanCfg.CsvDelay) != fixtureCsv(i) ||
			(w.ChanType().HasLeaseExpiration() && st.ThawHeight != fixtureThaw) {
			panic(fmt.Sprintf("c05 harness: fixture constants out of date (initiator %v csv %d thaw %d)", st.IsInitiator, st.LocalChanCfg.CsvDelay, st.ThawHeight))
		}
		var ss []*scen
		switch {
		case st.LocalCommitment.CommitHeight < 1:
			c.skippedH0.Add(1)
		case !c.seen(w, full, i, "own", &st.LocalCommitment, nil):
			ss = append(ss, c.ownClose(w, i, false))
		}
		htlcSpends += nonDustRecorded(&st.LocalCommitment) + nonDustRecorded(&st.RemoteCommitment)
		if !c.seen(w, full, i, "remote-current", &st.RemoteCommitment, st.RemoteCurrentRevocation) {
			ss = append(ss, c.remoteClose(w, i, "remote-current", false, st.RemoteCommitment, st.RemoteCurrentRevocation))
		}
		if tip, err := st.RemoteCommitChainTip(); err == nil && tip != nil {
			pending = true
			htlcSpends += nonDustRecorded(&tip.Commitment)
			if !c.seen(w, full, i, "remote-pending", &tip.Commitment, st.RemoteNextRevocation) {
				ss = append(ss, c.remoteClose(w, i, "remote-pending", false, tip.Commitment, st.RemoteNextRevocation))
			}
		}
		for _, s := range ss {
			if s.htlcOuts > 0 {
				c.scenWithHtlc.Add(1)
			}
		}
		if !c.noProd {
			tp := time.Now()
			c.prodPath(w, i, full)
			c.prodNanos.Add(int64(time.Since(tp)))
		}
	}
	if htlcSpends > 0 {
		c.nontrivial.Add(1)
	}
	if pending {
		c.pendingState.Add(1)
	}
}

// checkMidStep is Hooks.OnMidStep: node p has just run ReceiveNewCommitment on the
// counterparty's commitment_signed and has NOT yet run RevokeCurrentCommitment (the
// link releases the channel mutex between the two calls, so a force close or a chain
// event can land here). The in-memory local commit chain holds a new tip, while the
// broadcastable commitment is still the old one (State().LocalCommitment is
// unchanged and un-revoked): all three scenarios are re-judged for node p on that live
// object; nothing of the pending new commitment may leak into the resolutions. The
// other node's objects are untouched by p's ReceiveNewCommitment (its scenarios equal
// those of the pre-delivery state, which OnState has judged), so they are not repeated.
//
// Memo: the scenario fingerprint gets a mid-step marker plus the fingerprint of the
// commitment being delivered (the sender's RemoteCommitChainTip), which determines the
// new in-memory tip; a mid-step check is therefore never skipped as a duplicate of the
// pre-delivery state, only as a duplicate of an identical mid-step situation.
func (c *checker) checkMidStep(w *chanmc.World, p int, full bool) {
	t0 := time.Now()
	defer func() { c.nanos.Add(int64(time.Since(t0))) }()
	c.midSteps.Add(1)
	marker := sha256.Sum256([]byte("mid-step"))
	if tip, err := w.Chan(1 - p).State().RemoteCommitChainTip(); err == nil && tip != nil {
		marker = fingerprint("mid-step", p, "delivered", w.Cuts(), &tip.Commitment, nil)
	}
	st := w.Chan(p).State()
	switch {
	case st.LocalCommitment.CommitHeight < 1:
		c.skippedH0.Add(1)
	case !c.seen(w, full, p, "own", &st.LocalCommitment, nil, marker):
		c.ownClose(w, p, true)
	}
	if !c.seen(w, full, p, "remote-current", &st.RemoteCommitment, st.RemoteCurrentRevocation, marker) {
		c.remoteClose(w, p, "remote-current", true, st.RemoteCommitment, st.RemoteCurrentRevocation)
	}
	if tip, err := st.RemoteCommitChainTip(); err == nil && tip != nil {
		if !c.seen(w, full, p, "remote-pending", &tip.Commitment, st.RemoteNextRevocation, marker) {
			c.remoteClose(w, p, "remote-pending", true, tip.Commitment, st.RemoteNextRevocation)
		}
	}
}
