// C05: whichever commitment confirms, the node holds valid spends for all it owns.
//
// Rides on the two-peer exploration of engine/chanmc (the C01 space plus `cut`
// actions for reloaded states). Once per distinct reachable canonical state, for
// BOTH nodes, three scenarios are judged by btcd's script interpreter
// (check_test.go): the node's own latest commitment confirms, the counterparty's
// current commitment confirms, the counterparty's pending not-yet-revoked
// commitment confirms.
package c05

import (
	"encoding/json"
	"fmt"
	"os"
	"runtime/debug"
	"sort"
	"strconv"
	"testing"
	"time"

	"github.com/lightningnetwork/lnd/verifmc/chanmc"
	"github.com/lightningnetwork/lnd/verifmc/evid"
)

func sat(s int64, extraMsat uint64) uint64 { return uint64(s)*1000 + extraMsat }

func max64(a, b int64) int64 {
	if a > b {
		return a
	}
	return b
}

// job is one exploration space plus the checking mode of its states: full = every
// close scenario of every distinct state is re-derived and re-validated; otherwise
// scenarios whose complete input fingerprint was already validated in the same space
// are skipped (see fingerprint in check_test.go).
type job struct {
	sp   chanmc.Space
	full bool
	cls  int // space class, see spaces()
}

// spaces builds the exploration jobs of a tier, ordered class by class so that every
// class covers all its channel types before the next class starts (a deadline then
// cuts the least important work). th = [A-offered on A's commitment, A-offered on
// B's, B-offered on B's, B-offered on A's] dust thresholds in sat.
func spaces(thorough bool) []job {
	var out []job
	type tcase struct {
		typ     string
		openerB bool
	}
	var cases []tcase
	for ti, typ := range chanmc.AllTypes {
		cases = append(cases, tcase{typ, ti%2 == 1})
	}
	if thorough {
		for ti, typ := range chanmc.AllTypes {
			cases = append(cases, tcase{typ, ti%2 == 0})
		}
	}
	dev := 1
	if thorough {
		dev = -1
	}
	// (1) three HTLCs: an equal hash/amount/expiry duplicate pair (output-index
	// tie-break) and one amount that is dust on its offerer's own commitment but an
	// output on the other one. Deviation bound 1 around the eager schedule in quick,
	// full interleaving in thorough.
	for _, tc := range cases {
		th := chanmc.Thresholds(tc.typ, 6000, 200, 1300)
		dup3 := []chanmc.Intent{
			{By: 0, Amt: sat(30000, 0), Fate: "settle", Dup: 1}, {By: 0, Amt: sat(30000, 0), Fate: "fail", Dup: 1},
			{By: 1, Amt: sat(th[2]-1, 999), Fate: "settle"},
		}
		out = append(out, job{cls: 1, sp: chanmc.Space{Dev: dev, P: chanmc.Params{Type: tc.typ, OpenerB: tc.openerB, Script: dup3}}})
		if thorough {
			// the same script with deviation bound 2, scheduled early (class 6): the full
			// interleaving above (>= 11k states per space) comes last and may be cut by the deadline
			out = append(out, job{cls: 6, sp: chanmc.Space{Dev: 2, P: chanmc.Params{Type: tc.typ, OpenerB: tc.openerB, Script: dup3}}})
		}
	}
	// In quick the class-2 spaces also carry a fee update by the opener (commitments of
	// one state then differ in fee rate, hence in second-level fees); thorough has
	// class 4 for that.
	var quickFee []int64
	if !thorough {
		quickFee = []int64{7000}
	}
	// (2) reloads: one HTLC each way (A's is an output on A's commitment only, B's on
	// both) with one cut. Quick: deviation bound 1, i.e. a reload at every point of the
	// eager schedule plus every single scheduling deviation; thorough: a cut anywhere in
	// the full interleaving.
	for _, tc := range cases {
		th := chanmc.Thresholds(tc.typ, 6000, 200, 1300)
		out = append(out, job{cls: 2, sp: chanmc.Space{Dev: dev, P: chanmc.Params{Type: tc.typ, OpenerB: !tc.openerB, MaxCuts: 1, Fees: quickFee, Script: []chanmc.Intent{
			{By: 0, Amt: sat(th[1]-1, 999), Fate: "settle"}, {By: 1, Amt: sat(max64(th[2], th[3])+5, 0), Fate: "settle"},
		}}}})
	}
	// (3) one HTLC each way, both non-dust on both commitments (HTLC outputs exist
	// whichever commitment confirms), full interleaving.
	for ci, tc := range cases {
		th := chanmc.Thresholds(tc.typ, 6000, 200, 1300)
		// thorough: every state of the first opener assignment of each type is
		// re-validated in full (no scenario memo)
		out = append(out, job{cls: 3, full: thorough && ci < len(chanmc.AllTypes), sp: chanmc.Space{Dev: -1, P: chanmc.Params{Type: tc.typ, OpenerB: tc.openerB, Script: []chanmc.Intent{
			{By: 0, Amt: sat(max64(th[0], th[1])+7, 500), Fate: "settle"}, {By: 1, Amt: sat(max64(th[2], th[3]), 0), Fate: "fail"},
		}}}})
	}
	// (4) one non-dust HTLC, a fee update by the opener (second-level fees differ
	// between the commitments mid-dance), one cut anywhere, full interleaving.
	for _, tc := range cases {
		th := chanmc.Thresholds(tc.typ, 6000, 200, 1300)
		out = append(out, job{cls: 4, sp: chanmc.Space{Dev: -1, P: chanmc.Params{Type: tc.typ, OpenerB: !tc.openerB, MaxCuts: 1, Fees: []int64{7000},
			Script: []chanmc.Intent{{By: 1, Amt: sat(max64(th[2], th[3])+2000, 1), Fate: "settle"}}}}})
	}
	if thorough {
		// (5) two cuts on a one-HTLC script, all types.
		for ti, typ := range chanmc.AllTypes {
			th := chanmc.Thresholds(typ, 6000, 200, 1300)
			out = append(out, job{cls: 5, full: true, sp: chanmc.Space{Dev: -1, P: chanmc.Params{Type: typ, OpenerB: ti%2 == 0, MaxCuts: 2, Script: []chanmc.Intent{
				{By: 0, Amt: sat(max64(th[0], th[1])+1, 0), Fate: "fail"},
			}}}})
		}
	}
	// Order: quick 1,2,3,4; thorough: the small full-mode classes first, the big
	// full-interleaving spaces last.
	order := map[int]int{1: 1, 2: 2, 3: 3, 4: 4}
	if thorough {
		order = map[int]int{3: 1, 4: 2, 5: 3, 6: 4, 2: 5, 1: 6}
	}
	sort.SliceStable(out, func(a, b int) bool { return order[out[a].cls] < order[out[b].cls] })
	return out
}

// replay re-executes a recorded history and runs the C05 oracle, verbosely, on the
// state reached after every step (the explorer is not involved).
func replay(run *evid.Run, c *checker, path string) error {
	b, err := os.ReadFile(path)
	if err != nil {
		return err
	}
	var doc struct {
		Replay struct {
			Params  chanmc.Params `json:"params"`
			History []string      `json:"history"`
		} `json:"replay"`
	}
	if err := json.Unmarshal(b, &doc); err != nil {
		return err
	}
	report := func(sig, what string, hist []string, p chanmc.Params) {
		run.Violation(p.Type+":"+sig, what, map[string]any{"params": p, "history": hist})
	}
	w, err := chanmc.New(doc.Replay.Params, report, nil)
	if err != nil {
		return err
	}
	defer w.Close()
	c.verbose = true
	w.Hooks.OnMidStep = func(w *chanmc.World, p int) {
		fmt.Printf("INFO  mid-step: %c has verified the new commitment_signed, has not revoked yet\n", 'A'+p)
		c.checkMidStep(w, p, true)
	}
	fmt.Printf("INFO replaying %d steps on %s\n", len(doc.Replay.History), doc.Replay.Params.Name())
	for i, a := range doc.Replay.History {
		fmt.Printf("INFO step %d: %s\n", i, a)
		if err := w.Do(a); err != nil {
			return fmt.Errorf("step %d (%s): %w", i, a, err)
		}
		if i == len(doc.Replay.History)-1 {
			fmt.Printf("INFO  state: %s\n", w.Key())
			c.checkState(w, true)
		}
	}
	if len(doc.Replay.History) == 0 {
		c.checkState(w, true)
	}
	return nil
}

func TestC05(t *testing.T) {
	run := evid.Start("C05", "exploration")
	c := newChecker(run)
	if rp := os.Getenv("VERIF_REPLAY"); rp != "" {
		if err := replay(run, c, rp); err != nil {
			t.Fatalf("replay: %v", err)
		}
		os.Exit(run.Finish(map[string]any{"evaluations": c.engineOK.Load() + c.negOK.Load(), "distinct_nontrivial": c.classes.Distinct(),
			"rule": "replay of one recorded history", "samples": []any{rp}}))
	}
	budget := 130 * time.Second
	if run.Thorough() {
		budget = 27 * time.Minute
	}
	if s := os.Getenv("VERIF_BUDGET_S"); s != "" {
		if n, err := strconv.Atoi(s); err == nil {
			budget = time.Duration(n) * time.Second
		}
	}
	jobs := spaces(run.Thorough())
	if os.Getenv("VERIF_C05_FULL") == "1" {
		for i := range jobs {
			jobs[i].full = true
		}
	}
	var sp []chanmc.Space
	fullSpaces := 0
	for i := range jobs {
		full := jobs[i].full
		if full {
			fullSpaces++
		}
		sp = append(sp, jobs[i].sp)
		sp[i].P.ProbeMidStep = true
		sp[i].Hooks.OnMidStep = func(w *chanmc.World, p int) {
			defer func() {
				if v := recover(); v != nil {
					w.Violate("c05:panic", fmt.Sprintf("panic while deriving/validating close resolutions mid-step: %v\n%s", v, debug.Stack()))
				}
			}()
			c.checkMidStep(w, p, full)
		}
		sp[i].OnState = func(w *chanmc.World) {
			defer func() {
				if v := recover(); v != nil {
					w.Violate("c05:panic", fmt.Sprintf("panic while deriving/validating close resolutions: %v\n%s", v, debug.Stack()))
				}
			}()
			c.checkState(w, full)
		}
	}
	agg := chanmc.RunSpaces(run, sp, time.Now().Add(budget), 0)
	rule := "cases = (distinct canonical state of the two-peer world [chanmc: both real LightningChannels + wires + explorer HTLC table; full interleaving or deviation-bounded, incl. `cut` = both sides reload from disk, and the terminal mid-step probe `probe>X` = X between ReceiveNewCommitment and RevokeCurrentCommitment, judged for X], node in {A,B}, confirmed commitment in {own latest, counterparty current, counterparty pending}); " +
		"each case derives the node's real resolutions (ForceClose / NewUnilateralCloseSummary) and runs the btcd script interpreter (StandardVerifyFlags, true prev-outs) on the signed commitment vs the funding output, every second-level tx (as stored and re-signed in an aggregated sweep), and every sweep input built with the resolvers' input constructors; every CSV/CLTV-locked spend must also FAIL with a locktime error one block early; claimable value is compared with balance + HTLCs - 2nd-level fees - dust from the explorer's HTLC table. " +
		"evaluations = interpreter executions (accepting + early-spend controls); distinct_nontrivial = distinct canonical states at which at least one HTLC-output spend was validated"
	cov := agg.Coverage(rule)
	cov["evaluations"] = c.engineOK.Load() + c.negOK.Load()
	cov["distinct_nontrivial"] = c.nontrivial.Load()
	samples := c.samples.List()
	for _, s := range agg.Samples {
		samples = append(samples, s)
	}
	cov["samples"] = samples
	cov["c05"] = map[string]any{
		"states_checked":                             c.states.Load(),
		"states_with_htlc_output_spends":             c.nontrivial.Load(),
		"states_after_reload":                        c.reloadedState.Load(),
		"states_with_pending_remote_commit":          c.pendingState.Load(),
		"mid_step_probes":                            c.midSteps.Load(),
		"close_scenarios_validated":                  c.scenarios.Load(),
		"close_scenarios_with_htlc_spends":           c.scenWithHtlc.Load(),
		"close_scenarios_identical_to_validated_one": c.memoHits.Load(),
		"spaces_in_full_mode":                        fullSpaces,
		"own_close_skipped_at_height_0":              c.skippedH0.Load(),
		"interpreter_accepts":                        c.engineOK.Load(),
		"early_spend_controls_rejected":              c.negOK.Load(),
		"value_clause_checks":                        c.valueChecks.Load(),
		"onstate_cpu_s":                              float64(c.nanos.Load()) / 1e9,
		"outcome_classes":                            c.classes.Map(),
		"distinct_outcome_classes":                   c.classes.Distinct(),
		"witness_types_exercised":                    c.witTypes.Map(),
	}
	run.Assumptions = append(run.Assumptions,
		"scripts of at most 3 HTLCs and one fee update on the chanmc fixture (5 BTC per side, dust 200/1300, CSV 5/4, lease expiry 500000); custom (aux-leaf) channels outside the alphabet",
		"mid-step probes (terminal action probe>X: X has run ReceiveNewCommitment but not RevokeCurrentCommitment) judge all three scenarios for X on the live object; the other node's objects are untouched by that call",
		"a party's own close is checked from local height 1 on (the fixture's height-0 commitment carries a fake signature)",
		"for a counterparty close the confirmed transaction is the node's own copy of that commitment (C01's oracle, active in this run, proves it equals the counterparty's)",
		"witness types are chosen by a transcription of contractcourt's resolver switches (commit_sweep/htlc_timeout/htlc_success/anchor resolvers) using the exported input constructors; the resolvers' goroutine logic itself is not executed",
		"nLockTime/nSequence semantics are the script interpreter's (CLTV/CSV opcodes); block-height finality of nLockTime is a consensus rule outside the interpreter",
	)
	if code := run.Finish(cov); code != 0 {
		os.Exit(code)
	}
}
