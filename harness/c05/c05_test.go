// C05: whichever commitment confirms, the node holds valid spends for all it owns.
//
// Rides on the two-peer exploration of engine/chanmc (the C01 space plus `cut`
// actions for reloaded states). Once per distinct reachable canonical state, for
// BOTH nodes, three scenarios are judged by btcd's script interpreter
// (check_test.go): the node's own latest commitment confirms, the counterparty's
// current commitment confirms, the counterparty's pending not-yet-revoked
// commitment confirms.
package c05

import (
	"encoding/json"
	"fmt"
	"os"
	"runtime/debug"
	"sort"
	"strconv"
	"strings"
	"testing"
	"time"

	"github.com/lightningnetwork/lnd/chanstate"
	"github.com/lightningnetwork/lnd/verifmc/chanmc"
	"github.com/lightningnetwork/lnd/verifmc/evid"
)

func sat(s int64, extraMsat uint64) uint64 { return uint64(s)*1000 + extraMsat }

// tapRootType is a channel type of this harness only: simple taproot with a top-level
// tapscript root committed to by the funding output (what custom / overlay channels
// use; the MuSig2 funding key is tweaked with the root, GetSignedCommitTx and every
// commitment signing session must apply the same tweak). engine/chanmc already gives
// such a channel a root (world.go: ct.HasTapscriptRoot()) but lists no such type; it is
// registered here at run time (no aux leaves: MockAuxLeafStore returns none, so all
// other scripts equal plain taproot).
const tapRootType = "taproot+root"

func init() {
	chanmc.ChanTypes[tapRootType] = chanmc.ChanTypes["taproot"] | chanstate.TapscriptRootBit
}

func max64(a, b int64) int64 {
	if a > b {
		return a
	}
	return b
}

// job is one exploration space plus the checking mode of its states: full = every
// close scenario of every distinct state is re-derived and re-validated; otherwise
// scenarios whose complete input fingerprint was already validated in the same space
// are skipped (see fingerprint in check_test.go).
type job struct {
	sp   chanmc.Space
	full bool
	cls  int // space class, see spaces()
}

// spaces builds the exploration jobs of a tier, ordered class by class so that every
// class covers all its channel types before the next class starts (a deadline then
// cuts the least important work). th = [A-offered on A's commitment, A-offered on
// B's, B-offered on B's, B-offered on A's] dust thresholds in sat.
func spaces(thorough bool) []job {
	var out []job
	type tcase struct {
		typ     string
		openerB bool
	}
	var cases []tcase
	for ti, typ := range chanmc.AllTypes {
		cases = append(cases, tcase{typ, ti%2 == 1})
	}
	if thorough {
		for ti, typ := range chanmc.AllTypes {
			cases = append(cases, tcase{typ, ti%2 == 0})
		}
	}
	dev := 1
	if thorough {
		dev = -1
	}
	// (1) three HTLCs: an equal hash/amount/expiry duplicate pair (output-index
	// tie-break) and one amount that is dust on its offerer's own commitment but an
	// output on the other one. Deviation bound 1 around the eager schedule in quick,
	// full interleaving in thorough.
	for _, tc := range cases {
		th := chanmc.Thresholds(tc.typ, 6000, 200, 1300)
		dup3 := []chanmc.Intent{
			{By: 0, Amt: sat(30000, 0), Fate: "settle", Dup: 1}, {By: 0, Amt: sat(30000, 0), Fate: "fail", Dup: 1},
			{By: 1, Amt: sat(th[2]-1, 999), Fate: "settle"},
		}
		out = append(out, job{cls: 1, sp: chanmc.Space{Dev: dev, P: chanmc.Params{Type: tc.typ, OpenerB: tc.openerB, Script: dup3}}})
		if thorough {
			// the same script with deviation bound 2, scheduled early (class 6): the full
			// interleaving above (>= 11k states per space) comes last and may be cut by the deadline
			out = append(out, job{cls: 6, sp: chanmc.Space{Dev: 2, P: chanmc.Params{Type: tc.typ, OpenerB: tc.openerB, Script: dup3}}})
		}
	}
	// In quick the class-2 spaces also carry a fee update by the opener (commitments of
	// one state then differ in fee rate, hence in second-level fees); thorough has
	// class 4 for that.
	var quickFee []int64
	if !thorough {
		quickFee = []int64{7000}
	}
	// (2) reloads: one HTLC each way (A's is an output on A's commitment only, B's on
	// both) with one cut. Quick: deviation bound 1, i.e. a reload at every point of the
	// eager schedule plus every single scheduling deviation; thorough: a cut anywhere in
	// the full interleaving.
	for _, tc := range cases {
		th := chanmc.Thresholds(tc.typ, 6000, 200, 1300)
		out = append(out, job{cls: 2, sp: chanmc.Space{Dev: dev, P: chanmc.Params{Type: tc.typ, OpenerB: !tc.openerB, MaxCuts: 1, Fees: quickFee, Script: []chanmc.Intent{
			{By: 0, Amt: sat(th[1]-1, 999), Fate: "settle"}, {By: 1, Amt: sat(max64(th[2], th[3])+5, 0), Fate: "settle"},
		}}}})
	}
	// (3) one HTLC each way, both non-dust on both commitments (HTLC outputs exist
	// whichever commitment confirms), full interleaving.
	for ci, tc := range cases {
		th := chanmc.Thresholds(tc.typ, 6000, 200, 1300)
		// thorough: every state of the first opener assignment of each type is
		// re-validated in full (no scenario memo)
		out = append(out, job{cls: 3, full: thorough && ci < len(chanmc.AllTypes), sp: chanmc.Space{Dev: -1, P: chanmc.Params{Type: tc.typ, OpenerB: tc.openerB, Script: []chanmc.Intent{
			{By: 0, Amt: sat(max64(th[0], th[1])+7, 500), Fate: "settle"}, {By: 1, Amt: sat(max64(th[2], th[3]), 0), Fate: "fail"},
		}}}})
	}
	// (4) one non-dust HTLC, a fee update by the opener (second-level fees differ
	// between the commitments mid-dance), one cut anywhere, full interleaving.
	for _, tc := range cases {
		th := chanmc.Thresholds(tc.typ, 6000, 200, 1300)
		out = append(out, job{cls: 4, sp: chanmc.Space{Dev: -1, P: chanmc.Params{Type: tc.typ, OpenerB: !tc.openerB, MaxCuts: 1, Fees: []int64{7000},
			Script: []chanmc.Intent{{By: 1, Amt: sat(max64(th[2], th[3])+2000, 1), Fate: "settle"}}}}})
	}
	if thorough {
		// (5) two cuts on a one-HTLC script, all types.
		for ti, typ := range chanmc.AllTypes {
			th := chanmc.Thresholds(typ, 6000, 200, 1300)
			out = append(out, job{cls: 5, full: true, sp: chanmc.Space{Dev: -1, P: chanmc.Params{Type: typ, OpenerB: ti%2 == 0, MaxCuts: 2, Script: []chanmc.Intent{
				{By: 0, Amt: sat(max64(th[0], th[1])+1, 0), Fate: "fail"},
			}}}})
		}
	}
	// (0) lopsided worlds (family "balance output absent"): the acceptor of the channel
	// starts with nothing (B: exactly 0; A: 1 sat, the engine's smallest A share), so
	// its to_local / to_remote output and - as long as no untrimmed HTLC exists - its
	// anchor are ABSENT from the commitments (the case of every freshly opened channel
	// without a push amount). One HTLC by the opener, settled, full interleaving: the
	// acceptor's balance goes 0 -> amount, on the pending commitment first. Amount
	// lattice (sat) against the two dust limits 200 (A) / 1300 (B):
	//   199.999  the acceptor never has an output on either commitment
	//   1299.999 its balance output exists on the commitment of the party with the
	//            200 sat limit only (one below the other limit)
	//   1300     exactly at the higher limit: output on both
	//   30000    untrimmed HTLC output while the acceptor's balance is 0/1 sat (anchor
	//            present without a balance output), then a balance output
	// and 200 exactly (thorough). Crossing rule: every type x every amount; the poor
	// party alternates with the type index in quick (types with both roles: thorough).
	lopsided := []uint64{199_999, 1_299_999, 1_300_000, 30_000_000}
	if thorough {
		lopsided = append(lopsided, 200_000)
	}
	for ci, tc := range cases {
		for _, amt := range lopsided {
			p := chanmc.Params{Type: tc.typ}
			// cases: quick ti%2==1 -> opener B; thorough adds the other assignment
			if tc.openerB {
				p.OpenerB, p.GrossA = true, 1 // A poor (1 sat)
				p.Script = []chanmc.Intent{{By: 1, Amt: amt, Fate: "settle"}}
			} else {
				p.GrossA = 10 * 100_000_000 // = capacity: B has exactly 0
				p.Script = []chanmc.Intent{{By: 0, Amt: amt, Fate: "settle"}}
			}
			// reloads (one cut anywhere): quick on the asymmetric amount, thorough on all
			if thorough || amt == 1_299_999 {
				p.MaxCuts = 1
			}
			out = append(out, job{cls: 0, full: thorough && ci < len(chanmc.AllTypes), sp: chanmc.Space{Dev: -1, P: p}})
		}
	}
	// (7) tapscript-root taproot channel: one HTLC each way, both outputs on both
	// commitments, a fee update, one reload; deviation bound 1 (quick: opener A;
	// thorough: both openers, deviation bound 2).
	{
		th := chanmc.Thresholds(tapRootType, 6000, 200, 1300)
		for _, ob := range []bool{false, true} {
			if ob && !thorough {
				continue
			}
			d := 1
			if thorough {
				d = 2
			}
			out = append(out, job{cls: 7, sp: chanmc.Space{Dev: d, P: chanmc.Params{Type: tapRootType, OpenerB: ob, MaxCuts: 1, Fees: []int64{7000}, Script: []chanmc.Intent{
				{By: 0, Amt: sat(max64(th[0], th[1])+7, 500), Fate: "settle"}, {By: 1, Amt: sat(max64(th[2], th[3])+2000, 0), Fate: "fail"},
			}}}})
		}
	}
	// Order: quick 0,2,1,7,3,4; thorough: the small full-mode classes first, the big
	// full-interleaving spaces last.
	// (quick: the small lopsided worlds, then the reload + fee-update spaces - the only
	// ones in which a fee update flips an HTLC across a dust threshold -, then the rest;
	// on a loaded machine the deadline cuts from the end)
	order := map[int]int{0: 0, 2: 1, 1: 2, 7: 3, 3: 4, 4: 5}
	if thorough {
		order = map[int]int{0: 0, 7: 1, 3: 2, 4: 3, 5: 4, 6: 5, 2: 6, 1: 7}
	}
	sort.SliceStable(out, func(a, b int) bool { return order[out[a].cls] < order[out[b].cls] })
	return out
}

// replay re-executes a recorded history and runs the C05 oracle, verbosely, on the
// state reached after every step (the explorer is not involved).
func replay(run *evid.Run, c *checker, path string) error {
	b, err := os.ReadFile(path)
	if err != nil {
		return err
	}
	var doc struct {
		Replay struct {
			Params  chanmc.Params `json:"params"`
			History []string      `json:"history"`
		} `json:"replay"`
	}
	if err := json.Unmarshal(b, &doc); err != nil {
		return err
	}
	report := func(sig, what string, hist []string, p chanmc.Params) {
		run.Violation(p.Type+":"+sig, what, map[string]any{"params": p, "history": hist})
	}
	w, err := chanmc.New(doc.Replay.Params, report, nil)
	if err != nil {
		return err
	}
	defer w.Close()
	c.verbose = true
	w.Hooks.OnMidStep = func(w *chanmc.World, p int) {
		fmt.Printf("INFO  mid-step: %c has verified the new commitment_signed, has not revoked yet\n", 'A'+p)
		c.checkMidStep(w, p, true)
	}
	w.Hooks.AfterStep = c.afterStep
	fmt.Printf("INFO replaying %d steps on %s\n", len(doc.Replay.History), doc.Replay.Params.Name())
	for i, a := range doc.Replay.History {
		fmt.Printf("INFO step %d: %s\n", i, a)
		if err := w.Do(a); err != nil {
			return fmt.Errorf("step %d (%s): %w", i, a, err)
		}
		if i == len(doc.Replay.History)-1 {
			fmt.Printf("INFO  state: %s\n", w.Key())
			c.checkState(w, true)
		}
	}
	if len(doc.Replay.History) == 0 {
		c.checkState(w, true)
	}
	return nil
}

func TestC05(t *testing.T) {
	run := evid.Start("C05", "exploration")
	c := newChecker(run)
	c.noProd = os.Getenv("VERIF_C05_NOPROD") == "1"
	if rp := os.Getenv("VERIF_REPLAY"); rp != "" {
		if err := replay(run, c, rp); err != nil {
			t.Fatalf("replay: %v", err)
		}
		os.Exit(run.Finish(map[string]any{"evaluations": c.engineOK.Load() + c.negOK.Load(), "distinct_nontrivial": c.classes.Distinct(),
			"rule": "replay of one recorded history", "samples": []any{rp}}))
	}
	budget := 200 * time.Second
	if run.Thorough() {
		budget = 27 * time.Minute
	}
	if s := os.Getenv("VERIF_BUDGET_S"); s != "" {
		if n, err := strconv.Atoi(s); err == nil {
			budget = time.Duration(n) * time.Second
		}
	}
	jobs := spaces(run.Thorough())
	// development aid: VERIF_C05_CLASSES=0,2 restricts the run to those space classes
	if f := os.Getenv("VERIF_C05_CLASSES"); f != "" {
		var keep []job
		for _, j := range jobs {
			if strings.Contains(","+f+",", fmt.Sprintf(",%d,", j.cls)) {
				keep = append(keep, j)
			}
		}
		jobs = keep
	}
	if os.Getenv("VERIF_C05_FULL") == "1" {
		for i := range jobs {
			jobs[i].full = true
		}
	}
	var sp []chanmc.Space
	fullSpaces := 0
	for i := range jobs {
		full := jobs[i].full
		if full {
			fullSpaces++
		}
		sp = append(sp, jobs[i].sp)
		sp[i].P.ProbeMidStep = true
		sp[i].Hooks.AfterStep = func(w *chanmc.World, a string) {
			defer func() {
				if v := recover(); v != nil {
					w.Violate("c05:panic", fmt.Sprintf("panic while loading a second channel handle: %v\n%s", v, debug.Stack()))
				}
			}()
			c.afterStep(w, a)
		}
		sp[i].Hooks.OnMidStep = func(w *chanmc.World, p int) {
			defer func() {
				if v := recover(); v != nil {
					w.Violate("c05:panic", fmt.Sprintf("panic while deriving/validating close resolutions mid-step: %v\n%s", v, debug.Stack()))
				}
			}()
			c.checkMidStep(w, p, full)
		}
		sp[i].OnState = func(w *chanmc.World) {
			defer func() {
				if v := recover(); v != nil {
					w.Violate("c05:panic", fmt.Sprintf("panic while deriving/validating close resolutions: %v\n%s", v, debug.Stack()))
				}
			}()
			c.checkState(w, full)
		}
	}
	agg := chanmc.RunSpaces(run, sp, time.Now().Add(budget), 0)
	rule := "cases = (distinct canonical state of the two-peer world [chanmc: both real LightningChannels + wires + explorer HTLC table; full interleaving or deviation-bounded, incl. `cut` = both sides reload from disk, and the terminal mid-step probe `probe>X` = X between ReceiveNewCommitment and RevokeCurrentCommitment, judged for X], node in {A,B}, confirmed commitment in {own latest, counterparty current, counterparty pending}); " +
		"each case derives the node's real resolutions (ForceClose / NewUnilateralCloseSummary) and runs the btcd script interpreter (StandardVerifyFlags, true prev-outs) on the signed commitment vs the funding output, every second-level tx (as stored and re-signed in an aggregated sweep), and every sweep input built with the resolvers' input constructors; every CSV/CLTV-locked spend must also FAIL with a locktime error one block early; claimable value is compared with balance + HTLCs - 2nd-level fees - dust from the explorer's HTLC table. " +
		"Families on top of the base spaces: lopsided worlds (the acceptor starts with 0 / 1 sat: balance output and anchor absent, balance lattice around both dust limits), a tapscript-root taproot type, and at every state the production path (channel object built from disk + ForceClose(WithSkipContractResolutions); second OpenChannel handles loaded at world creation / at every reload, refreshed as contractcourt.newChainSet does, then NewLocalForceCloseSummary / NewUnilateralCloseSummary on them): production-path resolutions equal in every spend-relevant field to the live-object ones inherit that verdict, all others are judged by the same interpreter + value oracle. " +
		"evaluations = interpreter executions (accepting + early-spend controls); distinct_nontrivial = distinct canonical states at which at least one HTLC-output spend was validated"
	cov := agg.Coverage(rule)
	cov["evaluations"] = c.engineOK.Load() + c.negOK.Load()
	cov["distinct_nontrivial"] = c.nontrivial.Load()
	samples := c.samples.List()
	for _, s := range agg.Samples {
		samples = append(samples, s)
	}
	cov["samples"] = samples
	cov["c05"] = map[string]any{
		"states_checked":                             c.states.Load(),
		"states_with_htlc_output_spends":             c.nontrivial.Load(),
		"states_after_reload":                        c.reloadedState.Load(),
		"states_with_pending_remote_commit":          c.pendingState.Load(),
		"mid_step_probes":                            c.midSteps.Load(),
		"close_scenarios_validated":                  c.scenarios.Load(),
		"close_scenarios_with_htlc_spends":           c.scenWithHtlc.Load(),
		"close_scenarios_identical_to_validated_one": c.memoHits.Load(),
		"spaces_in_full_mode":                        fullSpaces,
		"own_close_skipped_at_height_0":              c.skippedH0.Load(),
		"interpreter_accepts":                        c.engineOK.Load(),
		"early_spend_controls_rejected":              c.negOK.Load(),
		"value_clause_checks":                        c.valueChecks.Load(),
		"onstate_cpu_s":                              float64(c.nanos.Load()) / 1e9,
		"outcome_classes":                            c.classes.Map(),
		"distinct_outcome_classes":                   c.classes.Distinct(),
		"witness_types_exercised":                    c.witTypes.Map(),
		"scenarios_without_own_balance_output":       c.noBalOut.Load(),
		"production_path": map[string]any{
			"second_handles_loaded":                c.handlesLoaded.Load(),
			"from_disk_force_closes_validated":     c.prodArb.Load(),
			"from_disk_cpfp_anchors_validated":     c.prodAnchorsJudged.Load(),
			"watcher_handle_derivations":           c.prodDeliveries.Load(),
			"identical_to_live_object_resolutions": c.prodIdentical.Load(),
			"differing_judged_by_full_oracle":      c.prodJudged.Load(),
			"memo_hits":                            c.prodMemoHits.Load(),
			"cpu_s":                                float64(c.prodNanos.Load()) / 1e9,
			"cpu_s_fetch":                          float64(c.tFetch.Load()) / 1e9,
			"cpu_s_from_disk_channel":              float64(c.tArb.Load()) / 1e9,
			"cpu_s_handle_refresh":                 float64(c.tRefresh.Load()) / 1e9,
			"cells_type_role_handleage_commitment": c.prodCells.Map(),
			"distinct_cells":                       c.prodCells.Distinct(),
			"outcomes":                             c.prodOutcome.Map(),
		},
	}
	run.Assumptions = append(run.Assumptions,
		"scripts of at most 3 HTLCs and one fee update on the chanmc fixture (5 BTC per side, or the acceptor starting with 0 / 1 sat in the lopsided worlds; dust 200/1300, CSV 5/4, lease expiry 500000); custom (aux-leaf) channels outside the alphabet",
		"production path: second handles are loaded at world creation and at every reload (a watcher is as old as the last start-up), refreshed by a transcription of contractcourt.newChainSet (LatestCommitments, RemoteCommitChainTip, RemoteRevocationStore); resolutions whose every spend-relevant field equals the live-object ones inherit the base scenario's verdict, any other is judged by the full oracle; the chain watcher's own goroutines are not executed (C12/C04 run the real watcher)",
		"mid-step probes (terminal action probe>X: X has run ReceiveNewCommitment but not RevokeCurrentCommitment) judge all three scenarios for X on the live object; the other node's objects are untouched by that call",
		"a party's own close is checked from local height 1 on (the fixture's height-0 commitment carries a fake signature)",
		"for a counterparty close the confirmed transaction is the node's own copy of that commitment (C01's oracle, active in this run, proves it equals the counterparty's)",
		"witness types are chosen by a transcription of contractcourt's resolver switches (commit_sweep/htlc_timeout/htlc_success/anchor resolvers) using the exported input constructors; the resolvers' goroutine logic itself is not executed",
		"nLockTime/nSequence semantics are the script interpreter's (CLTV/CSV opcodes); block-height finality of nLockTime is a consensus rule outside the interpreter",
	)
	if code := run.Finish(cov); code != 0 {
		os.Exit(code)
	}
}
