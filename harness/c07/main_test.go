package c07

import (
	"encoding/json"
	"fmt"
	"os"
	"runtime"
	"runtime/pprof"
	"strconv"
	"sync"
	"testing"
	"time"

	"github.com/lightningnetwork/lnd/lnwire"
	"github.com/lightningnetwork/lnd/verifmc/evid"
	"github.com/lightningnetwork/lnd/verifmc/seqmc"
	"github.com/lightningnetwork/lnd/verifmc/vsched"
)

func lnwireScid(n uint64) lnwire.ShortChannelID { return lnwire.NewShortChanIDFromInt(n) }

func envInt(k string, d int) int {
	if v, err := strconv.Atoi(os.Getenv(k)); err == nil {
		return v
	}
	return d
}

// seqSpace is one sequential exploration: a universe, an alphabet and a depth.
type seqSpace struct {
	Name     string
	U        universe
	Depth    int
	Thorough bool // alphabet flavour
}

func seqSpaces(thorough bool) []seqSpace {
	small := universe{InChans: []uint64{1, 2}, InIDs: 1, OutChans: []uint64{3}, MaxID: 2}
	mid := universe{InChans: []uint64{1, 2}, InIDs: 2, OutChans: []uint64{3, 4}, MaxID: 3}
	// origin: one LOCALLY INITIATED circuit (incoming key on hop.Source, attempt id
	// above 2^32) next to one forwarded circuit that carries a sphinx error encrypter
	// and a forwarding-package reference; the channel store also holds records without
	// a short channel id (pending open, unassigned, and - op "closezero" - fully
	// closed). Realistic scids (distinct block / tx / output).
	origin := universe{InChans: []uint64{0, scid(700_001, 11, 1)}, InIDs: 1, OutChans: []uint64{scid(700_003, 13, 2)}, MaxID: 2,
		Enc: []int{encNone, encSphinx}, Scidless: true}
	// kinds: the two blinded-route encrypter kinds (thorough; quick has them in the lattice)
	kinds := universe{InChans: []uint64{scid(700_001, 11, 1), scid(700_002, 12, 0)}, InIDs: 1, OutChans: []uint64{scid(700_003, 13, 2)}, MaxID: 2,
		Enc: []int{encIntro, encRelay}}
	if thorough {
		return []seqSpace{
			{Name: "2in-1out", U: small, Depth: envInt("C07_DEPTH_SMALL", 32), Thorough: true},
			{Name: "4in-2out", U: mid, Depth: envInt("C07_DEPTH_MID", 6), Thorough: false},
			{Name: "origin-1out", U: origin, Depth: envInt("C07_DEPTH_ORIGIN", 32), Thorough: true},
			{Name: "kinds-1out", U: kinds, Depth: envInt("C07_DEPTH_KINDS", 6), Thorough: true},
		}
	}
	// the cheap spaces first: what they leave of the budget goes to the deep one
	return []seqSpace{
		{Name: "4in-2out", U: mid, Depth: envInt("C07_DEPTH_MID", 4), Thorough: false},
		{Name: "origin-1out", U: origin, Depth: envInt("C07_DEPTH_ORIGIN", 6), Thorough: true},
		{Name: "2in-1out", U: small, Depth: envInt("C07_DEPTH_SMALL", 7), Thorough: true},
	}
}

type seqResult struct {
	Space      string
	Alphabet   int
	R          seqmc.Result
	R2States   int64 // determinism re-check
	Nontrivial int64
	WallS      float64
}

func runSeqSpace(run *evid.Run, rep *reporter, sp seqSpace, deadline time.Time, workers int, recheck bool) seqResult {
	pool := newPool()
	defer pool.closeAll()
	alpha := seqAlphabet(&sp.U, sp.Thorough)
	var nontriv int64
	var mu sync.Mutex
	opts := seqmc.Options{
		New: func(worker int) (seqmc.Sys, error) {
			u := sp.U
			return newSys(&u, pool, rep)
		},
		Alphabet: alpha,
		MaxDepth: sp.Depth,
		Workers:  workers,
		Deadline: deadline,
		Stop:     func() bool { return rep.stop.Load() },
		Expandable: func(key string) bool {
			return key != "DEAD"
		},
		OnState: func(s seqmc.Sys, hist []string) {
			// non-trivial state: the map holds at least one circuit
			if y := s.(*sys); len(y.m.pend) > 0 {
				mu.Lock()
				nontriv++
				mu.Unlock()
			}
		},
	}
	onPanic := func(hist []string, v any) {
		run.Violation("C07/seq/panic", fmt.Sprintf("panic after ops %v: %v", hist, v),
			replayDoc{Kind: "seq", Universe: sp.U, Ops: hist})
		rep.stop.Store(true)
	}
	res := seqResult{Space: sp.Name, Alphabet: len(alpha)}
	t0 := time.Now()
	res.R = seqmc.Run(opts, onPanic)
	res.WallS = time.Since(t0).Seconds()
	res.Nontrivial = nontriv
	return res
}

func TestC07(t *testing.T) {
	run := evid.Start("C07", "model_checking")
	if rp := os.Getenv("VERIF_REPLAY"); rp != "" {
		os.Exit(replayFile(run, rp))
	}
	workers := envInt("C07_WORKERS", runtime.GOMAXPROCS(0))
	// every mutex the scheduled threads touch is bound explicitly (vsync.Bind)
	vsched.SetGoroutineLookup(false)
	seqBudget, concBudget, latBudget := 125*time.Second, 40*time.Second, 45*time.Second
	if run.Thorough() {
		seqBudget, concBudget, latBudget = 14*time.Minute, 6*time.Minute, 6*time.Minute
	}
	if n := envInt("C07_LAT_BUDGET_S", 0); n > 0 {
		latBudget = time.Duration(n) * time.Second
	}
	if n := envInt("C07_SEQ_BUDGET_S", 0); n > 0 {
		seqBudget = time.Duration(n) * time.Second
	}
	if n := envInt("C07_CONC_BUDGET_S", 0); n > 0 {
		concBudget = time.Duration(n) * time.Second
	}

	stopProf := func() {}
	if pf := os.Getenv("C07_CPUPROFILE"); pf != "" {
		if f, err := os.Create(pf); err == nil {
			_ = pprof.StartCPUProfile(f)
			stopProf = func() { pprof.StopCPUProfile(); _ = f.Close() }
		}
	}

	cov := map[string]any{}
	var caps []string
	exhaustive := true
	var samples []any

	// ---- concurrent phase first (small, bounded) ----
	crep := newReporter(run, "conc")
	var cres concResult
	if os.Getenv("C07_SKIP_CONC") == "" {
		if err := schedSelfCheck(); err != nil {
			fmt.Printf("vsched self-check failed: %v\n", err)
			os.Exit(2)
		}
		cres = runConc(crep, run.Thorough(), time.Now().Add(concBudget), workers)
		if !cres.Exhaustive {
			exhaustive = false
			caps = append(caps, cres.Caps...)
		}
		samples = append(samples, cres.Samples...)
	}

	// ---- sequential phase ----
	srep := newReporter(run, "seq")
	var sres []seqResult
	var states, transitions, replays, replaySteps, selfLoops, nontriv int64
	if os.Getenv("C07_SKIP_SEQ") == "" && run.Violations() == 0 {
		spaces := seqSpaces(run.Thorough())
		start := time.Now()
		for i, sp := range spaces {
			// split the remaining budget evenly over the remaining spaces
			left := seqBudget - time.Since(start)
			dl := time.Now().Add(left / time.Duration(len(spaces)-i))
			r := runSeqSpace(run, srep, sp, dl, workers, false)
			sres = append(sres, r)
			states += r.R.States
			transitions += r.R.Transitions
			replays += r.R.Replays
			replaySteps += r.R.ReplaySteps
			selfLoops += r.R.SelfLoops
			nontriv += r.Nontrivial
			if !r.R.Exhaustive {
				exhaustive = false
				caps = append(caps, fmt.Sprintf("seq space %s: %s (depth %d of %d completed)", sp.Name, r.R.CapHit, r.R.MaxDepth, sp.Depth))
			}
			for _, h := range r.R.SampleHist {
				if len(samples) < 8 {
					samples = append(samples, map[string]any{"space": sp.Name, "ops": h})
				}
			}
			if srep.stop.Load() {
				break
			}
		}
		// determinism re-check: the smallest space at a reduced depth, twice
		if run.Violations() == 0 {
			sp := spaces[0]
			for _, x := range spaces {
				if x.Name == "2in-1out" {
					sp = x
				}
			}
			sp.Depth = 3
			a := runSeqSpace(run, newReporter(run, "seq"), sp, time.Now().Add(30*time.Second), workers, true)
			b := runSeqSpace(run, newReporter(run, "seq"), sp, time.Now().Add(30*time.Second), workers, true)
			cov["determinism_recheck_seq"] = fmt.Sprintf("%s depth 3: %d/%d states, %d/%d transitions", sp.Name, a.R.States, b.R.States, a.R.Transitions, b.R.Transitions)
			if a.R.Exhaustive && b.R.Exhaustive && (a.R.States != b.R.States || a.R.Transitions != b.R.Transitions) {
				exhaustive = false
				caps = append(caps, "nondeterminism_detected (seq)")
			}
		}
	}

	// ---- restart lattice ----
	lrep := newReporter(run, "lat")
	var lres latResult
	if os.Getenv("C07_SKIP_LAT") == "" && run.Violations() == 0 {
		lres = runLattice(run, lrep, run.Thorough(), time.Now().Add(latBudget), workers)
		if !lres.Exhaustive {
			exhaustive = false
			caps = append(caps, lres.Cap)
		}
		samples = append(samples, lres.Samples...)
		transitions += lres.Ops
		replays += lres.Executed
		nontriv += lres.Executed
	}

	if crep.nondet.Load() || srep.nondet.Load() || lrep.nondet.Load() {
		exhaustive = false
		caps = append(caps, "nondeterminism_detected (a violation did not reproduce; not reported)")
	}
	perSpace := []any{}
	for _, r := range sres {
		perSpace = append(perSpace, map[string]any{
			"space": r.Space, "alphabet": r.Alphabet, "wall_s": r.WallS, "states": r.R.States, "transitions": r.R.Transitions,
			"self_loops": r.R.SelfLoops, "fresh_instances": r.R.Replays, "per_depth": r.R.PerDepth,
			"max_depth": r.R.MaxDepth, "unexpanded_at_bound": r.R.Unexpanded, "exhaustive_to_bound": r.R.Exhaustive,
			"replay_mismatches": r.R.ReplayMismatches,
			// true: the frontier ran empty before the depth bound, i.e. EVERY reachable
			// state of this universe was expanded (sequences of any length are covered)
			"fixpoint_reached": r.R.Exhaustive && r.R.Unexpanded == 0,
		})
	}
	if len(samples) == 0 {
		samples = append(samples, "no sample collected")
	}
	outcomes := srep.outcomes.Map()
	cov["states"] = states + cres.States
	cov["transitions"] = transitions + cres.Transitions
	cov["traces_validated_against_impl"] = replays + cres.Replays
	cov["evaluations"] = transitions + cres.Schedules
	cov["distinct_nontrivial"] = nontriv + int64(cres.Outcomes)
	cov["rule"] = "seq: level-synchronous BFS over the op alphabet on the real circuit map (bbolt + crashdb), one canonical state per (memory maps, closed set, disk buckets, channel/HTLC-index/resolution environment); non-trivial = canonical state in which the map holds >=1 circuit. " +
		"conc: every schedule of 2-3 threads on one circuit under the vsched scheduler with state pruning; counted = distinct (scenario, per-thread results, final state) outcomes"
	cov["samples"] = samples
	cov["exhaustive"] = exhaustive
	cov["caps_hit"] = caps
	cov["seq_spaces"] = perSpace
	cov["seq_self_loops"] = selfLoops
	cov["seq_replay_steps_on_impl"] = replaySteps
	cov["seq_impl_ops"] = srep.implOps.Load()
	cov["seq_outcome_classes"] = outcomes
	cov["seq_distinct_outcome_classes"] = len(outcomes)
	cov["seq_state_changing_ops_by_kind"] = srep.nontriv.Map()
	cov["write_tx_per_op"] = srep.txTable.Map()
	cov["max_write_tx_per_op"] = srep.maxTx.Load()
	cov["closed_set_observed"] = srep.closedOK.Load() && crep.closedOK.Load()
	cov["lattice"] = map[string]any{
		"cells": lres.Cells, "cells_executed": lres.Executed, "cells_collapsed_by_contract": lres.Collapsed,
		"ops_on_impl": lres.Ops, "circuit_fates_at_restart": lres.Fates, "wall_s": lres.WallS, "exhaustive": lres.Exhaustive,
		"outcome_classes": lrep.outcomes.Map(),
		"product":         "stage{absent,half,unc@a,unc@b,cmt@a,cmt@b}^3 (1 local + 2 forwarded circuits) x channel states x resolution-message subsets x scid-less closed record x restart variant x encrypter-kind vector; see lattice_test.go latConfigFor for the values per tier",
	}
	cov["conc"] = map[string]any{
		"scenarios": cres.Specs, "scenarios_outside_contract": cres.Skipped, "states": cres.States,
		"transitions": cres.Transitions, "executions": cres.Replays, "complete_schedules_judged": cres.Schedules,
		"distinct_outcomes": cres.Outcomes, "linearizability_checks": cres.LinChecks, "sequential_orders_tried": cres.LinOrders,
		"max_schedule_length": cres.MaxDepth, "determinism_recheck": cres.DetRecheck, "preemption_bound": "none (full)",
	}
	run.Assumptions = append(run.Assumptions,
		"Universe: seq spaces 2 incoming keys x 1 outgoing channel (ids 0-1), 4 incoming keys x 2 outgoing channels (ids 0-2), and origin-1out (1 locally initiated + 1 forwarded sphinx circuit, scid-less channel records); restart lattice: 1 local + 2 forwarded circuits x 2 outgoing channels; conc: one contested circuit, one outgoing channel.",
		"Locally initiated circuits have incoming key (hop.Source, attempt id); hop.Source is never closed. Channel records without a short channel id never carried an HTLC, so the model ignores them. Stray keystones (keystone without circuit record: legacy databases only, unreachable through the API) are not explored.",
		"Circuit payload: wherever the map shows a circuit (fresh, restored, on disk) it must serialise to the bytes of the committed circuit and its error encrypter must answer a fixed probe like the committed one (kinds none/sphinx/introduction/relaying/mock; real hop.OnionProcessor as extracter).",
		"Caller contract (resolve() in seq_test.go): outgoing HTLC ids are allocated contiguously by the outgoing link and a circuit whose outgoing HTLC is not yet on a commitment is neither deleted nor purged by an incoming-channel close; OpenCircuits is called once per circuit and batch with fresh outgoing keys (opendup breaks this on purpose). Outside it TrimOpenCircuits' forward scan stops at the first gap.",
		"Write-failure injection covers CommitCircuits, OpenCircuits, DeleteCircuits (TrimOpenCircuits has no rollback and the statement does not ask for one).",
		"Crash granularity = committed kvdb write transaction (backend contract); kvdb.Batch degrades to Update under crashdb.",
		"Concurrent phase: scheduling points are every cm.mtx acquisition and every write transaction; OpenCircuits||DeleteCircuits and OpenCircuits||OpenCircuits on the same circuit are excluded (never concurrent in lnd); RWMutex writer preference is not modelled (superset of schedules); data races are the business of the thorough-only free-running -race target.",
		"Switch-level arbitration (Switch.closeCircuit/teardownCircuit) is exercised end-to-end by C08; here the circuit map is the seam.",
	)
	stopProf()
	os.Exit(run.Finish(cov))
}

// ---------------------------------------------------------------------------
// replay

func replayFile(run *evid.Run, path string) int {
	b, err := os.ReadFile(path)
	if err != nil {
		fmt.Printf("INFO cannot read replay: %v\n", err)
		return 2
	}
	var doc struct {
		Signature string          `json:"signature"`
		Replay    json.RawMessage `json:"replay"`
	}
	if err := json.Unmarshal(b, &doc); err != nil {
		fmt.Printf("INFO bad replay file: %v\n", err)
		return 2
	}
	var kind struct {
		Kind string `json:"kind"`
	}
	_ = json.Unmarshal(doc.Replay, &kind)
	logf := func(f string, a ...any) { fmt.Printf(f+"\n", a...) }
	pool := newPool()
	defer pool.closeAll()
	fmt.Printf("INFO replaying %s (%s)\n", path, doc.Signature)
	switch kind.Kind {
	case "seq":
		var d replayDoc
		if err := json.Unmarshal(doc.Replay, &d); err != nil {
			fmt.Printf("INFO bad replay: %v\n", err)
			return 2
		}
		phase := "seq"
		if d.Phase != "" {
			phase = d.Phase
		}
		rep := newReporter(run, phase)
		for round := 1; round <= 3; round++ {
			fmt.Printf("INFO --- replay round %d ---\n", round)
			s, err := newSys(&d.Universe, pool, rep)
			if err != nil {
				fmt.Printf("INFO cannot build the circuit map: %v\n", err)
				return 2
			}
			if round == 1 {
				s.logf = logf
			}
			func() {
				defer func() {
					if v := recover(); v != nil {
						run.Violation("C07/seq/panic", fmt.Sprintf("panic: %v", v), d)
					}
				}()
				for i, o := range d.Ops {
					s.info("INFO step %d: %s", i+1, o)
					if err := s.Do(o); err != nil {
						fmt.Printf("INFO op %q: %v\n", o, err)
					}
					if s.dead != "" {
						break
					}
				}
			}()
			fmt.Printf("INFO round %d verdict: %s\n", round, map[bool]string{true: "held", false: "VIOLATED " + s.dead}[s.dead == ""])
			s.Close()
		}
	case "conc":
		var d concReplay
		if err := json.Unmarshal(doc.Replay, &d); err != nil {
			fmt.Printf("INFO bad replay: %v\n", err)
			return 2
		}
		rep := newReporter(run, "conc")
		stats := &concStats{outcomes: &sync.Map{}}
		for round := 1; round <= 3; round++ {
			fmt.Printf("INFO --- replay round %d ---\n", round)
			lf := logf
			if round > 1 {
				lf = nil
			}
			w, err := newConcWorld(&d.Spec, pool, rep, stats, lf)
			if err != nil {
				fmt.Printf("INFO cannot build scenario: %v\n", err)
				return 2
			}
			w.s.logf = lf
			func() {
				defer w.Close()
				defer func() {
					if v := recover(); v != nil {
						run.Violation("C07/conc/panic/"+d.Spec.name(), fmt.Sprintf("panic: %v", v), d)
					}
				}()
				w.start()
				for _, a := range d.Schedule {
					if len(w.Enabled()) == 0 {
						break
					}
					if err := w.Do(a); err != nil {
						fmt.Printf("INFO schedule step %q: %v\n", a, err)
						return
					}
				}
				// finish with the default schedule if the recorded one was a prefix
				for {
					en := w.Enabled()
					if len(en) == 0 {
						break
					}
					if err := w.Do(en[0]); err != nil {
						return
					}
				}
				w.judge()
			}()
			fmt.Printf("INFO round %d verdict: %s\n", round, map[bool]string{true: "held", false: "VIOLATED"}[!w.reported])
		}
	case "race":
		fmt.Printf("INFO race reports are reproduced by re-running the race target: bin/check C07 --tier thorough --only race\n")
	default:
		fmt.Printf("INFO unknown replay kind %q\n", kind.Kind)
		return 2
	}
	return run.Finish(map[string]any{"replay": path, "samples": []any{path}, "states": 0, "transitions": 0, "traces_validated_against_impl": 3})
}
