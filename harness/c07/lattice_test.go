// Restart lattice of C07: the breadth-first spaces reach every operation sequence of a
// SMALL universe, but at quick depth a universe with two outgoing channels only gets
// to sequences of four operations, so a restart that has to sort several circuits
// with DIFFERENT fates (purged because the incoming channel is gone, purged because
// the outgoing channel is gone, kept because a resolution still awaits delivery,
// rolled back to half-open, kept open, locally initiated ...) is never built there.
//
// This family builds every such restart directly. A cell of the lattice is the product
//
//	per circuit (3: one locally initiated, two forwarded from different channels):
//	    stage   in {absent, half-open, open+uncommitted on a|b, open+committed on a|b}
//	    kind    error encrypter of the forwarded circuits (kind vector of the tier)
//	per channel (2 incoming, 2 outgoing):  state in {live, close pending, fully closed}
//	per keystone on a non-live outgoing channel:  resolution message stored or not
//	channel store holds a closed channel without short channel id:  no / yes
//	restart:  clean, or the process dies again after the k-th write of NewCircuitMap
//
// and is turned into ONE operation sequence of the ordinary op language
// (batch commit; committed opens per channel; cmt; uncommitted opens; channel closes;
// res; closezero; restart; then probes: re-commit of every incoming key, a response
// for every outgoing key and every incoming key, a batch delete, a second restart).
// Every operation is executed by sys.Do on the real map and judged by the same
// reference model and at-most-once accounting as everywhere else; operations outside
// the caller contract are refused by resolve() exactly as in the BFS spaces, and
// cells whose executed prefix collapses onto an already executed one are counted and
// skipped. Enumeration is exhaustive over the stated product (no sampling).
package c07

import (
	"fmt"
	"sort"
	"strings"
	"sync"
	"sync/atomic"
	"time"

	"github.com/lightningnetwork/lnd/verifmc/evid"
)

const (
	lsAbsent = iota
	lsHalf
	lsUncA
	lsUncB
	lsCmtA
	lsCmtB
	lsN
)

var latStageNames = []string{"absent", "half", "unc@a", "unc@b", "cmt@a", "cmt@b"}

type latConfig struct {
	U          universe
	KindVecs   [][]int  // kind vectors (one Enc assignment per vector)
	ChanStates []int    // states every channel ranges over
	Zero       []bool   // closezero dimension
	Restarts   []string // restart variants
}

func latUniverse() universe {
	return universe{
		InChans:  []uint64{0, scid(700_001, 11, 1), scid(700_002, 12, 0)},
		InIDs:    1,
		OutChans: []uint64{scid(700_003, 13, 2), scid(700_004, 14, 1)},
		MaxID:    3,
		Scidless: true,
	}
}

func latConfigFor(thorough bool) latConfig {
	c := latConfig{U: latUniverse()}
	if thorough {
		// ~175 k cells; sized for ~6 min (the store without the scid-less closed record and
		// the other crash points of NewCircuitMap are crossed by the BFS spaces)
		c.KindVecs = [][]int{{encNone, encIntro, encRelay}, {encNone, encSphinx, encMock}}
		c.ChanStates = []int{stLive, stPClose, stClosed}
		c.Zero = []bool{true}
		c.Restarts = []string{"restart", "restart crash=2"}
		return c
	}
	// quick: the sphinx kind, the pending-close state of every channel, the store
	// without the scid-less closed record and the other crash points of NewCircuitMap
	// are crossed completely by the BFS spaces; here: blinded-route kinds,
	// {live, closed} per channel, the scid-less closed record always present, a clean
	// restart and one that dies after the second write of NewCircuitMap.
	c.KindVecs = [][]int{{encNone, encIntro, encRelay}}
	c.ChanStates = []int{stLive, stClosed}
	c.Zero = []bool{true}
	c.Restarts = []string{"restart", "restart crash=2"}
	return c
}

// latCell is one lattice point.
type latCell struct {
	stage   [3]int
	chans   [4]int // state of InChans[1], InChans[2], OutChans[0], OutChans[1]
	resMask int    // bit k: k-th keystone (in open order) on a non-live out channel has a resolution message
	zero    bool
	restart string
	kinds   int
}

// latPrefix renders the operations that establish the cell (before res / restart)
// and returns the keystones in allocation order.
func latPrefix(u *universe, c *latCell) (ops []string, keys []okey) {
	var present []string
	for i, st := range c.stage {
		if st != lsAbsent {
			present = append(present, fmt.Sprint(i))
		}
	}
	if len(present) > 0 {
		ops = append(ops, "commit "+strings.Join(present, " "))
	}
	next := [2]int{}
	open := func(stA, stB int) {
		for ch, st := range []int{stA, stB} {
			var ks []string
			for i, s := range c.stage {
				if s == st {
					ks = append(ks, fmt.Sprintf("%d>%c", i, 'a'+ch))
					keys = append(keys, okey{ch, next[ch]})
					next[ch]++
				}
			}
			if len(ks) > 0 {
				ops = append(ops, "open "+strings.Join(ks, " "))
			}
		}
	}
	open(lsCmtA, lsCmtB)
	for ch := 0; ch < 2; ch++ {
		if next[ch] > 0 {
			ops = append(ops, fmt.Sprintf("cmt %c", 'a'+ch))
		}
	}
	open(lsUncA, lsUncB)
	chans := []uint64{u.InChans[1], u.InChans[2], u.OutChans[0], u.OutChans[1]}
	for k, st := range c.chans {
		switch st {
		case stPClose:
			ops = append(ops, fmt.Sprintf("pclosechan %d", chans[k]))
		case stClosed:
			ops = append(ops, fmt.Sprintf("closechan %d", chans[k]))
		}
	}
	return ops, keys
}

func latProbes(u *universe) []string {
	var p []string
	for i := 0; i < u.nIn(); i++ {
		p = append(p, fmt.Sprintf("commit %d", i))
	}
	for ch := range u.OutChans {
		for id := 0; id < u.MaxID; id++ {
			p = append(p, fmt.Sprintf("close %c%d", 'a'+ch, id))
		}
	}
	for i := 0; i < u.nIn(); i++ {
		p = append(p, fmt.Sprintf("fail %d", i))
	}
	// a duplicate response for every circuit, then the teardown of everything
	for i := 0; i < u.nIn(); i++ {
		p = append(p, fmt.Sprintf("fail %d", i))
	}
	p = append(p, "delete 0 1", "restart", "delete 0 1 2", "restart")
	return p
}

type latResult struct {
	Cells, Executed, Collapsed int64
	Ops                        int64
	Exhaustive                 bool
	Cap                        string
	Fates                      map[string]int
	Samples                    []any
	WallS                      float64
}

// runLattice enumerates the lattice. Work is split over workers by stage vector.
func runLattice(run *evid.Run, rep *reporter, thorough bool, deadline time.Time, workers int) latResult {
	t0 := time.Now()
	cfg := latConfigFor(thorough)
	res := latResult{Exhaustive: true, Fates: map[string]int{}}
	pool := newPool()
	defer pool.closeAll()
	var seen sync.Map
	var mu sync.Mutex
	var cells, executed, collapsed, ops atomic.Int64
	var capped atomic.Bool
	fates := evid.NewCounter()

	// channel-state vectors
	var chanVecs [][4]int
	var rec func(k int, cur [4]int)
	rec = func(k int, cur [4]int) {
		if k == 4 {
			chanVecs = append(chanVecs, cur)
			return
		}
		for _, st := range cfg.ChanStates {
			cur[k] = st
			rec(k+1, cur)
		}
	}
	rec(0, [4]int{})

	type job struct{ stage [3]int }
	var jobs []job
	for a := 0; a < lsN; a++ {
		for b := 0; b < lsN; b++ {
			for c := 0; c < lsN; c++ {
				jobs = append(jobs, job{[3]int{a, b, c}})
			}
		}
	}
	probesFor := map[int][]string{}

	runCell := func(u *universe, c *latCell) {
		cells.Add(1)
		prefix, keys := latPrefix(u, c)
		s, err := newSys(u, pool, rep)
		if err != nil {
			run.Violation("C07/lat/restart.error/new", fmt.Sprintf("NewCircuitMap on an empty database failed: %v", err), nil)
			rep.stop.Store(true)
			return
		}
		defer s.Close()
		for _, o := range prefix {
			if s.Do(o) != nil || s.dead != "" {
				return
			}
		}
		// resolution messages: bit k of resMask belongs to the k-th keystone
		for k, ok := range keys {
			if c.resMask&(1<<k) != 0 {
				if s.Do("res "+ok.String()) != nil || s.dead != "" {
					return
				}
			}
		}
		if c.zero {
			_ = s.Do("closezero")
		}
		// a cell whose executed prefix (refused ops dropped) was already run with this
		// restart variant and kind vector is the same experiment
		sig := fmt.Sprintf("%d|%s|%s", c.kinds, c.restart, strings.Join(s.hist, ";"))
		if _, dup := seen.LoadOrStore(sig, true); dup {
			collapsed.Add(1)
			return
		}
		executed.Add(1)
		pre := s.m.clone()
		if s.Do(c.restart) != nil || s.dead != "" {
			return
		}
		// fate classes (measured on the model the implementation was just required to equal)
		for i := 0; i < u.nIn(); i++ {
			was, is := pre.pend[i], s.m.pend[i]
			f := "absent"
			switch {
			case was == nil:
			case is == nil:
				f = "purged"
			case was.hasOut && !is.hasOut:
				f = "rolled-back"
			case is.hasOut:
				f = "kept-open"
			default:
				f = "kept-half"
			}
			fates.Add(f)
		}
		for _, o := range probesFor[0] {
			if s.Do(o) != nil || s.dead != "" {
				return
			}
		}
		ops.Add(int64(len(s.hist)))
		mu.Lock()
		if len(res.Samples) < 3 && len(s.hist) > 14 {
			res.Samples = append(res.Samples, map[string]any{"space": "lattice", "ops": append([]string{}, s.hist...)})
		}
		mu.Unlock()
	}

	ubase := cfg.U
	probesFor[0] = latProbes(&ubase)

	var idx atomic.Int64
	idx.Store(-1)
	var wg sync.WaitGroup
	for w := 0; w < workers; w++ {
		wg.Add(1)
		go func() {
			defer wg.Done()
			defer func() {
				if v := recover(); v != nil {
					run.Violation("C07/lat/panic", fmt.Sprintf("panic in the lattice driver: %v", v), nil)
					rep.stop.Store(true)
				}
			}()
			for {
				j := int(idx.Add(1))
				if j >= len(jobs) {
					return
				}
				st := jobs[j].stage
				for kv, kinds := range cfg.KindVecs {
					u := cfg.U
					u.Enc = kinds
					_, keys := latPrefix(&u, &latCell{stage: st})
					for _, cv := range chanVecs {
						// keystones that can carry a resolution message: those on a
						// non-live outgoing channel (bit k of the mask = k-th of them)
						var eligible []int
						for k, ok := range keys {
							if cv[2+ok.ch] != stLive {
								eligible = append(eligible, k)
							}
						}
						nonLive := len(eligible)
						for mask := 0; mask < 1<<nonLive; mask++ {
							for _, z := range cfg.Zero {
								for _, rs := range cfg.Restarts {
									if rep.stop.Load() {
										return
									}
									if time.Now().After(deadline) {
										capped.Store(true)
										return
									}
									full := 0
									for b, k := range eligible {
										if mask&(1<<b) != 0 {
											full |= 1 << k
										}
									}
									c := latCell{stage: st, chans: cv, resMask: full, zero: z, restart: rs, kinds: kv}
									func() {
										defer func() {
											if v := recover(); v != nil {
												p, _ := latPrefix(&u, &c)
												run.Violation("C07/lat/panic", fmt.Sprintf("panic in lattice cell %+v: %v", c, v),
													replayDoc{Kind: "seq", Universe: u, Ops: append(p, c.restart)})
												rep.stop.Store(true)
											}
										}()
										runCell(&u, &c)
									}()
								}
							}
						}
					}
				}
			}
		}()
	}
	wg.Wait()
	res.Cells, res.Executed, res.Collapsed, res.Ops = cells.Load(), executed.Load(), collapsed.Load(), ops.Load()
	if capped.Load() {
		res.Exhaustive = false
		res.Cap = "lattice: deadline"
	}
	res.Fates = fates.Map()
	res.WallS = time.Since(t0).Seconds()
	sort.Slice(res.Samples, func(i, j int) bool { return fmt.Sprint(res.Samples[i]) < fmt.Sprint(res.Samples[j]) })
	return res
}
