// Concurrent phase of C07: every schedule (scheduling points = every cm.mtx
// acquisition + every database write transaction, engines vsched/vsync) of 2–3
// threads competing on ONE circuit of the real circuit map.
//
// Judged on every complete schedule by the property's own clauses:
//
//	R0  no panic, no deadlock;
//	R1  at-most-once: accepted responses (successful Close/Fail) never exceed the
//	    number of circuit lifetimes, Adds verdicts never exceed 1 per lifetime
//	    (a lifetime can only end through a Delete naming the circuit);
//	R2  at quiescence memory and disk describe the same circuits (what a restart
//	    would rebuild is what the running map believes) and every in->out binding
//	    refers to a pending circuit carrying exactly that keystone;
//	R4  for thread programs made only of Close / Fail / Delete / lookups (the set the
//	    property's quantifier names; each is one critical section plus at most one
//	    transaction) the history is linearizable against the sequential reference
//	    model (brute force over all orders).
//
// CommitCircuits and OpenCircuits publish to memory and to disk in separate steps
// and are not required to be linearizable (DESIGN §4 C07); they are judged by R0–R2.
package c07

import (
	"errors"
	"fmt"
	"os"
	"sort"
	"strings"
	"sync"
	"sync/atomic"
	"time"

	"github.com/lightningnetwork/lnd/htlcswitch"
	"github.com/lightningnetwork/lnd/verifmc/explore"
	"github.com/lightningnetwork/lnd/verifmc/vsched"
	"github.com/lightningnetwork/lnd/verifmc/vsync"
)

// concSpec is one concurrent scenario.
type concSpec struct {
	Universe universe   `json:"universe"`
	Prefix   []string   `json:"prefix"`  // sequential ops establishing the initial state
	Threads  [][]string `json:"threads"` // per thread: ops of the op language
}

func (c *concSpec) name() string {
	var t []string
	for _, p := range c.Threads {
		t = append(t, strings.Join(p, "+"))
	}
	return fmt.Sprintf("[%s] || %s", strings.Join(c.Prefix, "; "), strings.Join(t, " || "))
}

type concReplay struct {
	Kind     string   `json:"kind"` // "conc"
	Spec     concSpec `json:"spec"`
	Schedule []string `json:"schedule"`
}

// the circuit all threads fight over
const concIn = 0

type concWorld struct {
	spec  *concSpec
	s     *sys
	sch   *vsched.Sched
	ops   [][]op     // resolved thread programs
	res   [][]string // per thread, per completed op: result class
	dig   []string   // per thread: digest of what the current op has observed so far
	gens  map[*htlcswitch.PaymentCircuit]int
	sched []string
	rep   *reporter
	stats *concStats
	free  bool // free-running (race target): no scheduler
	col   *collector
	pool  *dbPool

	initPending, initClosed bool
	initModel               *model
	initEnv                 *env
	reported                bool
}

type concStats struct {
	schedules atomic.Int64
	linChecks atomic.Int64
	linOrders atomic.Int64
	outcomes  *sync.Map
}

func newConcWorld(spec *concSpec, pool *dbPool, rep *reporter, stats *concStats, logf func(string, ...any)) (*concWorld, error) {
	s, err := newSys(&spec.Universe, pool, rep)
	if err != nil {
		return nil, err
	}
	s.logf = logf
	w := &concWorld{spec: spec, s: s, rep: rep, stats: stats, gens: map[*htlcswitch.PaymentCircuit]int{}, pool: pool}
	for _, p := range spec.Prefix {
		if logf != nil {
			logf("INFO prefix op: %s", p)
		}
		if err := s.Do(p); err != nil {
			s.Close()
			return nil, err
		}
		if s.dead != "" {
			s.Close()
			return nil, errSkip // already reported by the sequential oracle
		}
	}
	s.logf = nil
	// resolve thread ops against the post-prefix state (allocates the HTLC id of
	// an Open); a program with an op outside the contract is rejected.
	for _, prog := range spec.Threads {
		var ops []op
		for _, str := range prog {
			o, err := parseOp(str)
			if err != nil {
				s.Close()
				return nil, err
			}
			if !s.resolve(&o) {
				s.Close()
				return nil, errSkip
			}
			ops = append(ops, o)
		}
		w.ops = append(w.ops, ops)
	}
	w.res = make([][]string, len(w.ops))
	w.dig = make([]string, len(w.ops))
	_, w.initPending = s.m.pend[concIn]
	w.initClosed = s.m.closed[concIn]
	w.initModel, w.initEnv = s.m.clone(), s.e.clone()
	return w, nil
}

var errSkip = errors.New("spec outside the caller contract")

// start spawns the threads under the scheduler.
func (w *concWorld) start() {
	w.sch = vsched.New()
	w.s.db.Before = w.sch.TxPoint
	if vsync.Bind(w.sch, w.s.cm) == 0 {
		panic("c07: no shimmed mutex found in the circuit map: the sync import rewrite of htlcswitch/circuit_map.go is not in effect")
	}
	for t := range w.ops {
		t := t
		w.sch.Spawn(fmt.Sprintf("t%d", t), func() { w.body(t) })
	}
}

func (w *concWorld) body(t int) {
	for _, o := range w.ops[t] {
		r := w.call(o)
		w.res[t] = append(w.res[t], r)
		w.dig[t] = ""
	}
}

// call performs one op on the implementation and returns its result class.
func (w *concWorld) call(o op) string {
	u, cm := w.s.u, w.s.cm
	switch o.kind {
	case "commit":
		cs := make([]*htlcswitch.PaymentCircuit, len(o.ins))
		for i, in := range o.ins {
			cs[i] = u.newCircuit(in)
		}
		act, err := cm.CommitCircuits(cs...)
		if err != nil || act == nil {
			return "err:" + errClass(err)
		}
		return fmt.Sprintf("A%vD%vF%v", idxList(u, act.Adds), idxList(u, act.Drops), idxList(u, act.Fails))
	case "open":
		ks := make([]htlcswitch.Keystone, len(o.ks))
		for i, k := range o.ks {
			ks[i] = htlcswitch.Keystone{InKey: u.inKey(k.in), OutKey: u.outKey(k.out)}
		}
		err := cm.OpenCircuits(ks...)
		poisonKeystones(ks)
		return errClass(err)
	case "trim":
		return errClass(cm.TrimOpenCircuits(lnwireScid(u.OutChans[o.out.ch]), uint64(w.s.e.cmt[o.out.ch])))
	case "close":
		c, err := cm.CloseCircuit(u.outKey(o.out))
		if err == nil && (c == nil || c.Incoming != u.inKey(concIn)) {
			return "ok-wrong-circuit"
		}
		return errClass(err)
	case "fail":
		c, err := cm.FailCircuit(u.inKey(o.ins[0]))
		if err == nil && (c == nil || c.Incoming != u.inKey(o.ins[0])) {
			return "ok-wrong-circuit"
		}
		return errClass(err)
	case "delete":
		ks := make([]htlcswitch.CircuitKey, len(o.ins))
		for i, in := range o.ins {
			ks[i] = u.inKey(in)
		}
		err := cm.DeleteCircuits(ks...)
		poisonKeys(ks)
		return errClass(err)
	case "lookup":
		if cm.LookupCircuit(u.inKey(o.ins[0])) == nil {
			return "nil"
		}
		return "found"
	case "lookupopen":
		if cm.LookupOpenCircuit(u.outKey(o.out)) == nil {
			return "nil"
		}
		return "found"
	}
	panic("c07: thread op " + o.kind)
}

func (w *concWorld) gen(c *htlcswitch.PaymentCircuit) int {
	if c == nil {
		return -1
	}
	g, ok := w.gens[c]
	if !ok {
		g = len(w.gens)
		w.gens[c] = g
	}
	return g
}

// snapshot renders the complete shared state (memory incl. object identities of
// the circuit records, closed set, disk).
func (w *concWorld) snapshot() string {
	if w.sch != nil && w.sch.LocksHeld() > 0 {
		return "locked"
	}
	ob := w.s.observe()
	var b strings.Builder
	b.WriteString(ob.mem + " closed" + ob.closed + " | " + ob.disk + " | obj")
	u := w.s.u
	for i := 0; i < u.nIn(); i++ {
		if c := w.s.cm.LookupCircuit(u.inKey(i)); c != nil {
			fmt.Fprintf(&b, " %d=%d", i, w.gen(c))
		}
	}
	for ch := range u.OutChans {
		for id := 0; id < u.MaxID; id++ {
			if c := w.s.cm.LookupOpenCircuit(u.outKey(okey{ch, id})); c != nil {
				fmt.Fprintf(&b, " %s=%d", okey{ch, id}, w.gen(c))
			}
		}
	}
	return b.String()
}

// explore.World ---------------------------------------------------------------

func (w *concWorld) Enabled() []string {
	if w.sch.AllDone() {
		return nil
	}
	en := w.sch.Enabled()
	if len(en) == 0 {
		w.violate("deadlock", "threads are blocked forever: "+w.sch.WaitFor())
		return nil
	}
	out := make([]string, len(en))
	for i, id := range en {
		out[i] = fmt.Sprintf("t%d", id)
	}
	return out
}

func (w *concWorld) Do(a string) error {
	var id int
	if _, err := fmt.Sscanf(a, "t%d", &id); err != nil || id < 0 || id >= len(w.ops) {
		return fmt.Errorf("bad schedule step %q", a)
	}
	ok := false
	for _, e := range w.sch.Enabled() {
		if e == id {
			ok = true
		}
	}
	if !ok {
		return fmt.Errorf("thread %d not enabled", id)
	}
	pre := w.snapshot()
	at := w.sch.Thread(id).Pending()
	done0 := len(w.res[id])
	w.sch.Step(id)
	w.sched = append(w.sched, a)
	if len(w.res[id]) == done0 {
		// still inside the same op: what it saw in this step is part of its local state
		w.dig[id] += "<" + pre + ">"
	}
	if w.s.logf != nil {
		cur := "done"
		if !w.sch.Thread(id).Done() {
			cur = "now at " + w.sch.Thread(id).Pending()
		}
		w.s.logf("INFO step %d: thread %d (%s) resumes from %q; %s; results so far %v", len(w.sched), id,
			strings.Join(w.spec.Threads[id], "+"), at, cur, w.res)
		w.s.logf("INFO   shared state: %s", w.snapshot())
	}
	if t := w.sch.Thread(id); t.Done() && t.PanicValue() != nil {
		w.violate("panic", fmt.Sprintf("thread %d panicked: %v", id, t.PanicValue()))
	}
	return nil
}

// Key: shared state (complete, see snapshot) + per thread: results of its completed
// ops (they feed the final oracle), and for the op in progress the sequence of
// shared states it has observed at each of its steps — the thread's local variables
// are a deterministic function of those (the code between two scheduling points
// reads nothing else), and the number of entries is its program counter.
// Same key => same futures.
func (w *concWorld) Key() string {
	var b strings.Builder
	b.WriteString(w.snapshot())
	for t := range w.ops {
		fmt.Fprintf(&b, " || t%d %v {%s}", t, w.res[t], w.dig[t])
		if !w.sch.Thread(t).Done() {
			b.WriteString(" @" + w.sch.Thread(t).Pending()[:2])
		}
	}
	return b.String()
}

func (w *concWorld) Close() {
	if w.sch != nil {
		w.sch.Abort()
	}
	w.s.db.Before = nil
	w.s.Close()
}

func (w *concWorld) violate(clause, what string) {
	if w.reported {
		return
	}
	w.reported = true
	var progs []string
	for _, p := range w.spec.Threads {
		progs = append(progs, strings.Join(p, "+"))
	}
	sort.Strings(progs)
	phase := w.rep.phase
	sig := fmt.Sprintf("C07/%s/%s/%s", phase, clause, strings.Join(progs, "||"))
	full := fmt.Sprintf("%s — scenario %s, schedule %v, results %v", what, w.spec.name(), w.sched, w.res)
	if w.s.logf != nil {
		w.s.logf("INFO   !! %s: %s", sig, what)
	}
	if w.col == nil && w.pool != nil && !w.free {
		// determinism gate: the recorded schedule must reproduce the same
		// violation on two more fresh worlds
		for i := 0; i < 2; i++ {
			if got := reproduceConc(w.spec, w.pool, w.sched, phase); got != sig {
				w.rep.nondet.Store(true)
				fmt.Printf("INFO nondeterminism: %s did not reproduce (got %q) for schedule %v\n", sig, got, w.sched)
				return
			}
		}
	}
	if w.col != nil {
		w.col.mu.Lock()
		w.col.v = append(w.col.v, raceWorkerViol{Sig: sig, What: full, Replay: concReplay{Kind: "race", Spec: *w.spec}})
		w.col.mu.Unlock()
		return
	}
	w.rep.run.Violation(sig, full, concReplay{Kind: "conc", Spec: *w.spec, Schedule: append([]string{}, w.sched...)})
}

// reproduceConc re-executes a schedule on a fresh world and returns the signature of
// the violation it ends with ("" if none).
func reproduceConc(spec *concSpec, pool *dbPool, schedule []string, phase string) (sig string) {
	defer func() {
		if v := recover(); v != nil {
			sig = fmt.Sprintf("panic: %v", v)
		}
	}()
	col := &collector{}
	w, err := newConcWorld(spec, pool, newReporter(nil, phase), &concStats{outcomes: &sync.Map{}}, nil)
	if err != nil {
		return "error: " + err.Error()
	}
	w.col = col
	defer w.Close()
	w.start()
	for _, a := range schedule {
		if len(w.Enabled()) == 0 {
			break
		}
		if w.Do(a) != nil {
			return "error: schedule diverged"
		}
	}
	for {
		en := w.Enabled()
		if len(en) == 0 {
			break
		}
		if w.Do(en[0]) != nil {
			return "error"
		}
	}
	w.judge()
	if len(col.v) > 0 {
		return col.v[0].Sig
	}
	return ""
}

// Terminal: all threads done — the oracles.
func (w *concWorld) Terminal() { w.judge() }

func (w *concWorld) judge() {
	if w.reported {
		return
	}
	w.stats.schedules.Add(1)
	u := w.s.u
	ob := w.s.observe()

	// outcome class (for the distinct-outcome accounting)
	var rs []string
	for t := range w.res {
		rs = append(rs, strings.Join(w.res[t], ","))
	}
	outcome := strings.Join(rs, " | ") + " => " + ob.mem + " closed" + ob.closed
	w.stats.outcomes.Store(w.spec.name()+" :: "+outcome, true)

	// R1 at-most-once
	adds, resp, dels := 0, 0, 0
	for t, prog := range w.ops {
		for k, o := range prog {
			if k >= len(w.res[t]) {
				continue
			}
			r := w.res[t][k]
			switch o.kind {
			case "commit":
				if strings.HasPrefix(r, "A[") {
					a := r[2:strings.Index(r, "]")]
					for _, f := range strings.Fields(a) {
						if f == fmt.Sprint(concIn) {
							adds++
						}
					}
				}
			case "close", "fail":
				if strings.HasPrefix(r, "ok") {
					resp++
				}
				if r == "ok-wrong-circuit" {
					w.violate("wrong-circuit", "Close/Fail returned a circuit with a different incoming key")
					return
				}
			case "delete":
				dels++
			}
		}
	}
	lifetimes := adds
	maxAdds := dels
	if w.initPending {
		lifetimes++
	} else {
		maxAdds++
	}
	if w.initClosed {
		resp++
	}
	if adds > maxAdds {
		w.violate("atmostonce.forward", fmt.Sprintf("incoming HTLC %v was handed out for forwarding %d times, but at most %d circuit lifetimes are possible (pending at start: %v, deletes: %d)",
			u.inKey(concIn), adds, maxAdds, w.initPending, dels))
		return
	}
	if resp > lifetimes {
		w.violate("atmostonce.response", fmt.Sprintf("%d settle/fail responses were accepted for incoming HTLC %v over %d circuit lifetime(s)",
			resp, u.inKey(concIn), lifetimes))
		return
	}

	// R2 memory == disk at quiescence. ob.mem lists pending circuits with their
	// keystones, ob.disk the two buckets: compare the sets.
	memAdds, memKeys := memSets(w.s)
	if memAdds != diskAddsOf(ob.disk) || memKeys != diskKeysOf(ob.disk) {
		w.violate("mem-disk", fmt.Sprintf("at quiescence the running map believes pending=%s opened=%s but the database holds %s (a restart would rebuild something else)",
			memAdds, memKeys, ob.disk))
		return
	}

	// R2b every in->out binding refers to a pending circuit that carries exactly
	// that keystone (no dangling keystone, no circuit claiming an unbound keystone)
	for ch := range u.OutChans {
		for id := 0; id <= u.MaxID; id++ {
			k := okey{ch, id}
			c := w.s.cm.LookupOpenCircuit(u.outKey(k))
			if c == nil {
				continue
			}
			p := w.s.cm.LookupCircuit(c.Incoming)
			if p != c || !c.HasKeystone() || c.OutKey() != u.outKey(k) {
				w.violate("dangling-keystone", fmt.Sprintf("at quiescence keystone %s is bound to circuit %v which is not the pending circuit carrying that keystone (mem{%s})", k, c.Incoming, ob.mem))
				return
			}
		}
	}
	for i := 0; i < u.nIn(); i++ {
		if p := w.s.cm.LookupCircuit(u.inKey(i)); p != nil && p.HasKeystone() && w.s.cm.LookupOpenCircuit(p.OutKey()) != p {
			w.violate("dangling-keystone", fmt.Sprintf("at quiescence circuit %d claims keystone %v which is not bound to it (mem{%s})", i, p.OutKey(), ob.mem))
			return
		}
	}

	// R4 linearizability for the Close/Fail/Delete/lookup-only programs
	linOK := true
	for _, prog := range w.ops {
		for _, o := range prog {
			switch o.kind {
			case "close", "fail", "delete", "lookup", "lookupopen":
			default:
				linOK = false
			}
		}
	}
	if linOK {
		w.stats.linChecks.Add(1)
		if !w.linearizable(ob) {
			w.violate("linearizability", fmt.Sprintf("no sequential order of the operations explains results %v and final state mem{%s} closed%s disk{%s}",
				w.res, ob.mem, ob.closed, ob.disk))
			return
		}
	}
}

func memSets(s *sys) (adds, keys string) {
	u := s.u
	var a []int
	var k []string
	for i := 0; i < u.nIn(); i++ {
		if s.cm.LookupCircuit(u.inKey(i)) != nil {
			a = append(a, i)
		}
	}
	for ch := range u.OutChans {
		for id := 0; id <= u.MaxID; id++ {
			if c := s.cm.LookupOpenCircuit(u.outKey(okey{ch, id})); c != nil {
				k = append(k, fmt.Sprintf("%s>%d", okey{ch, id}, u.inIndex(c.Incoming)))
			}
		}
	}
	if a == nil {
		a = []int{}
	}
	return fmt.Sprint(a), strings.Join(k, " ")
}

// diskAddsOf / diskKeysOf pick the two parts out of observed.disk
// ("adds[0 1] keys[a0>0 ]").
func diskAddsOf(d string) string {
	i := strings.Index(d, " keys[")
	return strings.TrimPrefix(d[:i], "adds")
}

func diskKeysOf(d string) string {
	i := strings.Index(d, " keys[")
	rest := d[i+len(" keys["):]
	j := strings.Index(rest, "]")
	return strings.TrimSpace(rest[:j]) + rest[j+1:]
}

// linearizable: is there an interleaving of the thread programs whose sequential
// execution on the reference model yields the observed results and final state?
func (w *concWorld) linearizable(ob observed) bool {
	n := len(w.ops)
	pos := make([]int, n)
	var rec func(m *model) bool
	rec = func(m *model) bool {
		done := true
		for t := 0; t < n; t++ {
			if pos[t] >= len(w.ops[t]) {
				continue
			}
			done = false
			o := w.ops[t][pos[t]]
			m2 := m.clone()
			var r string
			switch o.kind {
			case "close":
				_, err := m2.closeOut(o.out)
				r = errClass(err)
			case "fail":
				r = errClass(m2.failIn(o.ins[0]))
			case "delete":
				m2.del(o.ins, false)
				r = "ok"
			case "lookup":
				r = "nil"
				if _, ok := m2.pend[o.ins[0]]; ok {
					r = "found"
				}
			case "lookupopen":
				r = "nil"
				if _, ok := m2.open[o.out]; ok {
					r = "found"
				}
			}
			if r != w.res[t][pos[t]] {
				continue
			}
			pos[t]++
			ok := rec(m2)
			pos[t]--
			if ok {
				return true
			}
		}
		if done {
			w.stats.linOrders.Add(1)
			return ob.mem == m.memString() && (!ob.closedVisible || ob.closed == m.closedString()) && ob.disk == m.diskString()
		}
		return false
	}
	return rec(w.initModel)
}

// ---------------------------------------------------------------------------
// scenario generation

func concUniverse() universe {
	return universe{InChans: []uint64{1}, InIDs: 2, OutChans: []uint64{3}, MaxID: 3}
}

// concPrograms: thread programs per initial state. All ops target circuit 0 / its
// keystone a0.
func concSpecs(thorough bool) []concSpec {
	u := concUniverse()
	type initial struct {
		prefix []string
		open   bool // circuit has keystone a0
		cmt    bool
	}
	inits := []initial{
		{prefix: []string{"commit 0"}},
		{prefix: []string{"commit 0", "restart"}},
		{prefix: []string{"commit 0", "open 0>a", "cmt a"}, open: true, cmt: true},
		{prefix: []string{"commit 0", "open 0>a", "cmt a", "restart"}, open: true, cmt: true},
		{prefix: []string{"commit 0", "open 0>a"}, open: true},
		{prefix: []string{"commit 0", "fail 0"}},
		{prefix: []string{"commit 0", "open 0>a", "cmt a", "close a0"}, open: true, cmt: true},
		{prefix: nil},
	}
	var specs []concSpec
	for _, in := range inits {
		// single-op programs
		progs := [][]string{
			{"close a0"}, {"fail 0"}, {"delete 0"}, {"commit 0"}, {"lookup 0"}, {"lookupopen a0"}, {"trim a"},
			// the switch goroutine: accept the response, then tear the circuit down
			{"close a0", "delete 0"}, {"fail 0", "delete 0"},
		}
		if !in.open && in.prefix != nil {
			progs = append(progs, []string{"open 0>a"})
		}
		if thorough {
			progs = append(progs, []string{"commit 0", "commit 0"}, []string{"delete 0", "commit 0"}, []string{"commit 0 1"}, []string{"delete 0 1"})
		}
		usable := func(p []string) bool {
			for _, o := range p {
				// a circuit whose outgoing HTLC is not on a commitment is not deleted (contract)
				if strings.HasPrefix(o, "delete") && in.open && !in.cmt {
					return false
				}
			}
			return true
		}
		var ps [][]string
		for _, p := range progs {
			if usable(p) {
				ps = append(ps, p)
			}
		}
		// OpenCircuits and DeleteCircuits of the SAME circuit are never concurrent in
		// lnd (a response/teardown for a circuit needs its keystone or a local failure
		// by the very link goroutine that would open it), see the report.
		conflict := func(a, b []string) bool {
			has := func(p []string, pre string) bool {
				for _, o := range p {
					if strings.HasPrefix(o, pre) {
						return true
					}
				}
				return false
			}
			return (has(a, "open") && has(b, "delete")) || (has(a, "delete") && has(b, "open")) ||
				(has(a, "open") && has(b, "open")) ||
				// CommitCircuits(k) and DeleteCircuits(k) of a forwarded HTLC are both issued
				// by the incoming link's own goroutine (ForwardPackets / ackDownStreamPackets),
				// for local payments the attempt id is never reused: never concurrent.
				(has(a, "commit") && has(b, "delete")) || (has(a, "delete") && has(b, "commit"))
		}
		for i := 0; i < len(ps); i++ {
			for j := i; j < len(ps); j++ {
				if conflict(ps[i], ps[j]) {
					continue
				}
				specs = append(specs, concSpec{Universe: u, Prefix: in.prefix, Threads: [][]string{ps[i], ps[j]}})
				for k := j; k < len(ps); k++ {
					if conflict(ps[i], ps[k]) || conflict(ps[j], ps[k]) {
						continue
					}
					if !thorough && len(ps[i])+len(ps[j])+len(ps[k]) > 4 {
						continue
					}
					specs = append(specs, concSpec{Universe: u, Prefix: in.prefix, Threads: [][]string{ps[i], ps[j], ps[k]}})
				}
			}
		}
	}
	return specs
}

// ---------------------------------------------------------------------------
// driver

type concResult struct {
	Specs, Skipped       int
	States, Transitions  int64
	Replays, ReplaySteps int64
	Schedules            int64
	LinChecks, LinOrders int64
	Outcomes             int
	MaxDepth             int
	Exhaustive           bool
	Caps                 []string
	Samples              []any
	DetRecheck           string
}

func runConc(rep *reporter, thorough bool, deadline time.Time, workers int) concResult {
	specs := concSpecs(thorough)
	stats := &concStats{outcomes: &sync.Map{}}
	pool := newPool()
	defer pool.closeAll()
	res := concResult{Specs: len(specs), Exhaustive: true}
	var mu sync.Mutex
	dev := -1
	exploreSpec := func(spec *concSpec) (explore.Result, bool) {
		skipped := false
		r := explore.Run(explore.Options{
			New: func() (explore.World, error) {
				w, err := newConcWorld(spec, pool, rep, stats, nil)
				if err != nil {
					if errors.Is(err, errSkip) {
						skipped = true
						return &nopWorld{}, nil
					}
					return nil, err
				}
				w.start()
				return w, nil
			},
			MaxDeviations: dev, Workers: 1, Deadline: deadline,
			Stop: func() bool { return rep.run.Violations() > 0 },
		}, func(hist []string, v any) {
			rep.run.Violation("C07/conc/panic/"+spec.name(), fmt.Sprintf("panic in scenario %s schedule %v: %v", spec.name(), hist, v),
				concReplay{Kind: "conc", Spec: *spec, Schedule: hist})
		})
		return r, skipped
	}
	var idx atomic.Int64
	idx.Store(-1)
	var wg sync.WaitGroup
	for k := 0; k < workers; k++ {
		wg.Add(1)
		go func() {
			defer wg.Done()
			for {
				i := int(idx.Add(1))
				if i >= len(specs) {
					return
				}
				spec := &specs[i]
				t0 := time.Now()
				r, skipped := exploreSpec(spec)
				if os.Getenv("C07_CONC_VERBOSE") != "" {
					fmt.Printf("INFO conc spec %d states=%d trans=%d execs=%d %.2fs %s\n", i, r.States, r.Transitions, r.Replays, time.Since(t0).Seconds(), spec.name())
				}
				mu.Lock()
				if skipped {
					res.Skipped++
				} else {
					res.States += r.States
					res.Transitions += r.Transitions
					res.Replays += r.Replays
					res.ReplaySteps += r.ReplaySteps
					if r.MaxDepth > res.MaxDepth {
						res.MaxDepth = r.MaxDepth
					}
					if !r.Exhaustive {
						res.Exhaustive = false
						if len(res.Caps) < 4 {
							res.Caps = append(res.Caps, "conc:"+r.CapHit)
						}
					}
					if len(res.Samples) < 3 && len(r.SampleHist) > 0 {
						res.Samples = append(res.Samples, map[string]any{"scenario": spec.name(), "schedule": r.SampleHist[0]})
					}
				}
				mu.Unlock()
			}
		}()
	}
	wg.Wait()
	// determinism re-check: one 3-thread scenario explored again must give the
	// same counts (hidden state outside the key would show as a difference)
	for i := range specs {
		// a scenario with real contention: settle+teardown vs fail+teardown vs lookup on an open circuit
		if len(specs[i].Threads) == 3 && len(specs[i].Prefix) == 3 && len(specs[i].Threads[2]) == 2 {
			s2 := &concStats{outcomes: &sync.Map{}}
			save := stats
			stats = s2
			r1, sk := exploreSpec(&specs[i])
			if sk {
				stats = save
				continue
			}
			r2, _ := exploreSpec(&specs[i])
			stats = save
			res.DetRecheck = fmt.Sprintf("%s: %d/%d states, %d/%d transitions", specs[i].name(), r1.States, r2.States, r1.Transitions, r2.Transitions)
			if r1.States != r2.States || r1.Transitions != r2.Transitions {
				res.Exhaustive = false
				res.Caps = append(res.Caps, "nondeterminism_detected (conc)")
			}
			break
		}
	}
	res.Schedules = stats.schedules.Load()
	res.LinChecks = stats.linChecks.Load()
	res.LinOrders = stats.linOrders.Load()
	stats.outcomes.Range(func(_, _ any) bool { res.Outcomes++; return true })
	return res
}

// schedSelfCheck exercises the scheduler on a textbook lock-order inversion: all
// schedules of  t0: a.Lock b.Lock ..  ||  t1: b.Lock a.Lock ..  must contain both
// completed runs and detected deadlocks. A failure means the engine is broken (the
// check then dies with exit 2 instead of reporting "held").
func schedSelfCheck() error {
	type pair struct{ a, b vsync.Mutex }
	var done, dead, runs int
	var rec func(prefix []int) error
	rec = func(prefix []int) error {
		p := &pair{}
		sch := vsched.New()
		if vsync.Bind(sch, p) != 2 {
			return fmt.Errorf("vsync.Bind found no mutexes")
		}
		crit := 0
		sch.Spawn("t0", func() { p.a.Lock(); p.b.Lock(); crit++; p.b.Unlock(); p.a.Unlock() })
		sch.Spawn("t1", func() { p.b.Lock(); p.a.Lock(); crit++; p.a.Unlock(); p.b.Unlock() })
		runs++
		for _, c := range prefix {
			sch.Step(c)
		}
		en := sch.Enabled()
		switch {
		case sch.AllDone():
			if crit != 2 {
				return fmt.Errorf("critical sections ran %d times", crit)
			}
			done++
			return nil
		case len(en) == 0:
			if !sch.Deadlocked() || sch.WaitFor() == "" {
				return fmt.Errorf("deadlock not reported")
			}
			dead++
			sch.Abort()
			return nil
		}
		sch.Abort()
		for _, c := range en {
			if err := rec(append(append([]int{}, prefix...), c)); err != nil {
				return err
			}
		}
		return nil
	}
	if err := rec(nil); err != nil {
		return err
	}
	if done < 2 || dead < 1 {
		return fmt.Errorf("lock-order inversion: %d completed schedules, %d deadlocks over %d runs", done, dead, runs)
	}
	return nil
}

// nopWorld stands in for a scenario that the contract excludes.
type nopWorld struct{}

func (*nopWorld) Enabled() []string { return nil }
func (*nopWorld) Do(string) error   { return nil }
func (*nopWorld) Key() string       { return "skip" }
func (*nopWorld) Terminal()         {}
func (*nopWorld) Close()            {}
