// Sequential phase of C07: breadth-first exploration (engine seqmc) of every
// operation sequence over the universe up to a depth bound on the real circuit map,
// with a restart (optionally crashing after the k-th durable write of
// NewCircuitMap) as an ordinary operation, crash-before/after-commit and
// write-failure variants of every writing operation (engine crashdb), judged after
// every operation by the reference model of model_test.go.
package c07

import (
	"errors"
	"fmt"
	"strings"

	"github.com/lightningnetwork/lnd/htlcswitch"
	"github.com/lightningnetwork/lnd/verifmc/crashdb"
)

// ---------------------------------------------------------------------------
// contract (which operations a correct switch/link can issue)

// resolve checks the caller contract of an operation in the current state and fills
// in allocated HTLC ids. Operations outside the contract are skipped (no-op):
//
//   - links exist only for live channels: Commit needs a live incoming channel; Open,
//     Trim and "cmt" need a live outgoing channel; a circuit is only opened while its
//     incoming channel is live;
//   - OpenCircuits is called by the outgoing link with the HTLC indexes it has just
//     allocated (contiguous, ascending, never reused before a trim), for circuits that
//     have no keystone yet, each incoming key once per batch ("opendup" deliberately
//     breaks the first rule to test duplicate-keystone rejection);
//   - a circuit whose outgoing HTLC is not yet on a commitment is neither deleted
//     nor purged (no response can exist for it; its incoming channel cannot be fully
//     closed). Outside this rule TrimOpenCircuits' forward scan ("stop at the first
//     missing index") would leave later uncommitted keystones in place.
func (s *sys) resolve(o *op) bool {
	u, m, e := s.u, s.m, s.e
	inOK := func(in int) bool { return in >= 0 && in < u.nIn() }
	outOK := func(k okey) bool { return k.ch >= 0 && k.ch < len(u.OutChans) }
	live := func(ch int) bool { return e.chanState[u.OutChans[ch]] == stLive }
	uncommitted := func(in int) bool {
		c := m.pend[in]
		return c != nil && c.hasOut && live(c.out.ch) && c.out.id >= e.cmt[c.out.ch]
	}
	switch o.kind {
	case "commit":
		for _, in := range o.ins {
			if !inOK(in) || e.chanState[u.inChan(in)] != stLive {
				return false
			}
		}
	case "open":
		seen := map[int]bool{}
		alloc := map[int]int{}
		for i := range o.ks {
			k := &o.ks[i]
			if !inOK(k.in) || !outOK(k.out) || !live(k.out.ch) || seen[k.in] || !k.next {
				return false
			}
			seen[k.in] = true
			if e.chanState[u.inChan(k.in)] != stLive {
				return false
			}
			if c := m.pend[k.in]; c != nil && c.hasOut {
				return false
			}
			k.out.id = e.next[k.out.ch] + alloc[k.out.ch]
			alloc[k.out.ch]++
			if k.out.id >= u.MaxID {
				return false
			}
		}
	case "opendup":
		if len(o.ks) != 1 {
			return false
		}
		k := o.ks[0]
		if !inOK(k.in) || !outOK(k.out) || k.next || !live(k.out.ch) {
			return false
		}
		if _, ok := m.open[k.out]; !ok {
			return false
		}
	case "cmt":
		return outOK(o.out) && live(o.out.ch) && e.next[o.out.ch] > e.cmt[o.out.ch]
	case "trim":
		return outOK(o.out) && live(o.out.ch)
	case "close", "lookupopen":
		return outOK(o.out) && o.out.id >= 0 && o.out.id < u.MaxID
	case "fail", "lookup":
		return len(o.ins) == 1 && inOK(o.ins[0])
	case "delete":
		for _, in := range o.ins {
			if !inOK(in) || uncommitted(in) {
				return false
			}
		}
	case "restart":
	case "closechan", "pclosechan":
		st, known := 0, false
		for _, c := range u.allChans() {
			if c == o.scid {
				st, known = e.chanState[c], true
			}
		}
		if !known || st == stClosed || (o.kind == "pclosechan" && st != stLive) {
			return false
		}
		for in := range m.pend {
			if u.inChan(in) == o.scid && uncommitted(in) {
				return false
			}
		}
	case "closezero":
		// the record of a channel that was closed before it ever got a short channel
		// id appears in the channel store (once)
		return u.Scidless && !e.zeroClosed
	case "res":
		if !outOK(o.out) {
			return false
		}
		if _, ok := m.dKeys[o.out]; !ok || e.res[o.out] || live(o.out.ch) {
			return false
		}
	default:
		return false
	}
	return true
}

// ---------------------------------------------------------------------------
// model cloning (crash variants need "before" and "after")

func (m *model) clone() *model {
	n := newModel()
	for k, v := range m.pend {
		c := *v
		n.pend[k] = &c
	}
	for k, v := range m.open {
		n.open[k] = v
	}
	for k := range m.closed {
		n.closed[k] = true
	}
	for k := range m.dAdds {
		n.dAdds[k] = true
	}
	for k, v := range m.dKeys {
		n.dKeys[k] = v
	}
	return n
}

func (e *env) clone() *env {
	n := &env{chanState: map[uint64]int{}, res: map[okey]bool{}}
	for k, v := range e.chanState {
		n.chanState[k] = v
	}
	for k, v := range e.res {
		n.res[k] = v
	}
	n.next = append([]int{}, e.next...)
	n.cmt = append([]int{}, e.cmt...)
	n.zeroClosed = e.zeroClosed
	return n
}

func (e *env) copyFrom(o *env) {
	e.chanState, e.res, e.next, e.cmt, e.zeroClosed = o.chanState, o.res, o.next, o.cmt, o.zeroClosed
}

// ---------------------------------------------------------------------------
// executing one operation on implementation and model

func idxList(u *universe, cs []*htlcswitch.PaymentCircuit) []int {
	out := []int{}
	for _, c := range cs {
		out = append(out, u.inIndex(c.Incoming))
	}
	return out
}

func sameInts(a, b []int) bool {
	if len(a) != len(b) {
		return false
	}
	for i := range a {
		if a[i] != b[i] {
			return false
		}
	}
	return true
}

func errClass(err error) string {
	switch {
	case err == nil:
		return "ok"
	case errors.Is(err, htlcswitch.ErrUnknownCircuit):
		return "unknown"
	case errors.Is(err, htlcswitch.ErrCircuitClosing):
		return "closing"
	case errors.Is(err, htlcswitch.ErrDuplicateKeystone):
		return "dupkeystone"
	case errors.Is(err, crashdb.ErrInjected):
		return "writefailed"
	case errors.Is(err, crashdb.ErrCrashed):
		return "crashed"
	}
	return "err:" + err.Error()
}

// Argument buffers belong to the caller: the link re-uses the backing array of its
// keystone batch (l.keystoneBatch[:0]) and of its closed-circuit list for the next
// call, so the map must not keep references into them. Every slice handed to
// OpenCircuits / DeleteCircuits is overwritten with foreign keys as soon as the call
// returns; a retained reference shows up as a foreign key in the very next
// observation. (The *PaymentCircuit objects given to CommitCircuits are retained by
// design and are not touched.)
var poisonKey = htlcswitch.CircuitKey{ChanID: lnwireScid(0xdead_0000_beef), HtlcID: 0xdead_beef}

func poisonKeystones(ks []htlcswitch.Keystone) {
	for i := range ks {
		ks[i] = htlcswitch.Keystone{InKey: poisonKey, OutKey: poisonKey}
	}
}

func poisonKeys(ks []htlcswitch.CircuitKey) {
	for i := range ks {
		ks[i] = poisonKey
	}
}

// Do implements seqmc.Sys.
func (s *sys) Do(opStr string) error {
	o, err := parseOp(opStr)
	if err != nil {
		return err
	}
	if s.dead != "" {
		return nil
	}
	if !s.resolve(&o) {
		return nil // outside the caller contract in this state: not executed
	}
	s.hist = append(s.hist, opStr)
	before := s.Key()
	s.exec(o, opStr)
	if s.dead == "" && s.Key() != before {
		s.rep.nontriv.Add(o.kind)
		s.essential = append(s.essential, opStr)
	}
	return nil
}

// minimalReplay: the operations that did not change the canonical state (refused
// calls, lookups) are dropped from the reported history if the shortened history
// still produces the same violation on a fresh instance; otherwise the complete
// history is reported.
func (s *sys) minimalReplay(sig string) []string {
	full := append([]string{}, s.hist...)
	if s.noMinimize || len(s.essential)+1 >= len(full) {
		return full
	}
	cand := append(append([]string{}, s.essential...), full[len(full)-1])
	if s.reproduce(cand) == sig {
		return cand
	}
	return full
}

// reproduce runs ops on a fresh instance and returns the violation signature it
// ends with ("" if none).
func (s *sys) reproduce(ops []string) (sig string) {
	defer func() {
		if v := recover(); v != nil {
			sig = fmt.Sprintf("panic: %v", v)
		}
	}()
	quiet := newReporter(nil, s.rep.phase)
	t, err := newSys(s.u, s.pool, quiet)
	if err != nil {
		return "error: " + err.Error()
	}
	defer t.Close()
	t.noMinimize, t.probe = true, true
	for _, o := range ops {
		if t.Do(o) != nil {
			return "error"
		}
	}
	return t.dead
}

func (s *sys) info(format string, a ...any) {
	if s.logf != nil {
		s.logf(format, a...)
	}
}

func (s *sys) exec(o op, opStr string) {
	u := s.u
	s.rep.implOps.Add(1)
	commits0, refused0 := s.db.Commits(), s.db.Refused()

	// model "after" (normal completion) is computed on clones so that the crash
	// variants can choose between before and after.
	preM, preE := s.m.clone(), s.e.clone()
	postM, postE := s.m.clone(), s.e.clone()
	wfail := o.inject == "wfail"

	switch o.inject {
	case "wfail":
		s.db.FailNextWrite()
	case "crash0":
		s.db.CrashAfter(0)
	case "crash1":
		s.db.CrashAfter(1)
	}
	crashMode := o.inject == "crash0" || o.inject == "crash1"

	var outcome string
	// mism collects result mismatches; in crash mode results are not judged if the
	// crash actually hit (the caller of the op died with the process).
	var mism []string
	mismatch := func(clause, what string) { mism = append(mism, clause+"\x00"+what) }

	switch o.kind {
	case "commit":
		circuits := make([]*htlcswitch.PaymentCircuit, len(o.ins))
		for i, in := range o.ins {
			circuits[i] = u.newCircuit(in)
		}
		act, err := s.cm.CommitCircuits(circuits...)
		wa, wd, wf, wantErr := postM.commit(o.ins, wfail)
		if act == nil {
			mismatch("commit.verdict", "CommitCircuits returned nil actions")
			break
		}
		ga, gd, gf := idxList(u, act.Adds), idxList(u, act.Drops), idxList(u, act.Fails)
		outcome = fmt.Sprintf("A%dD%dF%d:%s", len(ga), len(gd), len(gf), errClass(err))
		// independent at-most-once accounting (before the table comparison so that
		// the more meaningful signature wins)
		if err == nil {
			for _, in := range ga {
				s.addsSeen[in]++
				if s.addsSeen[in] > 1 {
					mismatch("atmostonce.forward", fmt.Sprintf("incoming HTLC %d (%v) was handed out for forwarding (Adds) a second time within one circuit lifetime", in, u.inKey(in)))
				}
			}
		}
		crashedWrite := crashMode && err != nil
		if !crashedWrite {
			if !sameInts(ga, wa) || !sameInts(gd, wd) || !sameInts(gf, wf) || (err != nil) != wantErr {
				mismatch("commit.verdict", fmt.Sprintf("CommitCircuits(%v): got Adds=%v Drops=%v Fails=%v err=%v, statement requires Adds=%v Drops=%v Fails=%v err=%v",
					o.ins, ga, gd, gf, err, wa, wd, wf, wantErr))
			}
			// "only this exact circuit may be forwarded": Adds are the pointers passed in
			for _, c := range act.Adds {
				okPtr := false
				for _, p := range circuits {
					if p == c {
						okPtr = true
					}
				}
				if !okPtr {
					mismatch("commit.verdict", "Adds contains a circuit object that was not passed in")
				}
			}
		}
	case "open", "opendup":
		ks := make([]htlcswitch.Keystone, len(o.ks))
		for i, k := range o.ks {
			ks[i] = htlcswitch.Keystone{InKey: u.inKey(k.in), OutKey: u.outKey(k.out)}
		}
		err := s.cm.OpenCircuits(ks...)
		poisonKeystones(ks)
		okErrs, applied := postM.openKs(o.ks, wfail)
		outcome = errClass(err)
		if applied {
			for _, k := range o.ks {
				if postE.next[k.out.ch] <= k.out.id {
					postE.next[k.out.ch] = k.out.id + 1
				}
			}
		}
		if crashMode && err != nil && (errors.Is(err, crashdb.ErrCrashed)) {
			break
		}
		if applied && err != nil {
			mismatch("open.err", fmt.Sprintf("OpenCircuits(%s) failed with %v but every keystone is fresh and every circuit pending", opStr, err))
		} else if !applied {
			match := false
			for _, e := range okErrs {
				if errors.Is(err, e) {
					match = true
				}
			}
			if !match {
				mismatch("open.err", fmt.Sprintf("OpenCircuits(%s) returned %v, must be rejected with one of %v", opStr, err, okErrs))
			}
		}
	case "cmt":
		postE.cmt[o.out.ch] = postE.next[o.out.ch]
		outcome = "ok"
	case "trim":
		err := s.cm.TrimOpenCircuits(lnwireScid(u.OutChans[o.out.ch]), uint64(s.e.cmt[o.out.ch]))
		outcome = errClass(err)
		postM.trim(o.out.ch, postE.cmt[o.out.ch])
		postE.next[o.out.ch] = postE.cmt[o.out.ch]
		if err != nil && !(crashMode && errors.Is(err, crashdb.ErrCrashed)) {
			mismatch("trim.err", fmt.Sprintf("TrimOpenCircuits failed: %v", err))
		}
	case "close":
		c, err := s.cm.CloseCircuit(u.outKey(o.out))
		wantIn, wantErr := postM.closeOut(o.out)
		outcome = errClass(err)
		if err == nil && c != nil {
			in := u.inIndex(c.Incoming)
			s.respSeen[in]++
			if s.respSeen[in] > 1 {
				mismatch("atmostonce.response", fmt.Sprintf("a second settle/fail was accepted for incoming HTLC %d (CloseCircuit %s)", in, o.out))
			}
		}
		if !errors.Is(err, wantErr) || (wantErr == nil && err != nil) {
			mismatch("close.err", fmt.Sprintf("CloseCircuit(%s) = %v, want %v", o.out, err, wantErr))
		} else if err == nil && (c == nil || u.inIndex(c.Incoming) != wantIn) {
			mismatch("close.err", fmt.Sprintf("CloseCircuit(%s) returned the wrong circuit (want incoming %d)", o.out, wantIn))
		}
		s.closedTrail = append(s.closedTrail, opStr+"="+outcome)
	case "fail":
		in := o.ins[0]
		c, err := s.cm.FailCircuit(u.inKey(in))
		wantErr := postM.failIn(in)
		outcome = errClass(err)
		if err == nil {
			s.respSeen[in]++
			if s.respSeen[in] > 1 {
				mismatch("atmostonce.response", fmt.Sprintf("a second settle/fail was accepted for incoming HTLC %d (FailCircuit)", in))
			}
		}
		if !errors.Is(err, wantErr) || (wantErr == nil && err != nil) {
			mismatch("fail.err", fmt.Sprintf("FailCircuit(%d) = %v, want %v", in, err, wantErr))
		} else if err == nil && (c == nil || c.Incoming != u.inKey(in)) {
			mismatch("fail.err", fmt.Sprintf("FailCircuit(%d) returned the wrong circuit", in))
		}
		s.closedTrail = append(s.closedTrail, opStr+"="+outcome)
	case "delete":
		keys := make([]htlcswitch.CircuitKey, len(o.ins))
		for i, in := range o.ins {
			keys[i] = u.inKey(in)
		}
		err := s.cm.DeleteCircuits(keys...)
		poisonKeys(keys)
		removed := postM.del(o.ins, wfail)
		outcome = errClass(err)
		if crashMode && err != nil && errors.Is(err, crashdb.ErrCrashed) {
			break
		}
		switch {
		case wfail && removed > 0 && err == nil:
			mismatch("delete.err", "DeleteCircuits reported success although its write failed")
		case !wfail && err != nil:
			mismatch("delete.err", fmt.Sprintf("DeleteCircuits(%v) failed: %v", o.ins, err))
		}
		s.closedTrail = append(s.closedTrail, opStr+"="+outcome)
	case "lookup", "lookupopen":
		outcome = "ok" // observation after every op already performs all lookups
	case "restart":
		outcome = s.restartImpl(o.crash)
		postM.restart(u, postE)
	case "closechan":
		postE.chanState[o.scid] = stClosed
		outcome = "ok"
	case "pclosechan":
		postE.chanState[o.scid] = stPClose
		outcome = "ok"
	case "res":
		postE.res[o.out] = true
		outcome = "ok"
	case "closezero":
		postE.zeroClosed = true
		outcome = "ok"
	}

	refused := s.db.Refused() - refused0
	s.db.Disarm()
	ntx := s.db.Commits() - commits0
	if o.kind != "restart" && !crashMode {
		s.rep.txTable.Add(fmt.Sprintf("%s:%dtx", o.kind, ntx))
		for {
			cur := s.rep.maxTx.Load()
			if ntx <= cur || s.rep.maxTx.CompareAndSwap(cur, ntx) {
				break
			}
		}
	}

	if crashMode && refused > 0 {
		// The process died inside the op: memory is gone, restart on the same DB.
		// Atomicity: the durable state is the one before the op or the one after it
		// (only "before" if nothing was allowed to commit).
		s.rep.outcomes.Add(o.inject + " " + o.kind + ":crashed")
		s.info("INFO   op crashed after %d committed transaction(s); restarting", ntx)
		s.restartImpl(-1)
		ob := s.observe()
		preM.restart(u, preE)
		postM.restart(u, postE)
		match := func(m *model) bool {
			return ob.mem == m.memString() && ob.disk == m.diskString() && (!ob.closedVisible || ob.closed == m.closedString())
		}
		switch {
		case match(preM):
			s.m = preM
			s.e.copyFrom(preE)
		case o.inject != "crash0" && match(postM):
			s.m = postM
			s.e.copyFrom(postE)
		default:
			s.violate("crash.atomicity", o.kind, fmt.Sprintf("after a crash inside %q (%d transaction(s) committed) and restart the map holds mem{%s} disk{%s}; allowed: not-applied mem{%s} disk{%s}%s",
				opStr, ntx, ob.mem, ob.disk, preM.memString(), preM.diskString(),
				map[bool]string{true: "", false: fmt.Sprintf(" or applied mem{%s} disk{%s}", postM.memString(), postM.diskString())}[o.inject == "crash0"]))
			return
		}
		s.afterObserve(ob)
		s.info("INFO   state: mem{%s} closed%s disk{%s} env{%s}", ob.mem, ob.closed, ob.disk, s.e.str(u))
		return
	}

	s.rep.outcomes.Add(strings.TrimSpace(o.inject+" "+o.kind) + ":" + outcome)
	s.info("INFO   result: %s (%d write tx)", outcome, ntx)
	if len(mism) > 0 {
		p := strings.SplitN(mism[0], "\x00", 2)
		s.violate(p[0], o.kind, p[1])
		return
	}
	s.m = postM
	s.e.copyFrom(postE)

	ob := s.observe()
	s.info("INFO   state: mem{%s} closed%s disk{%s} env{%s}", ob.mem, ob.closed, ob.disk, s.e.str(u))
	clause := "state"
	switch {
	case o.kind == "restart":
		clause = "restart"
	case wfail:
		clause = "rollback"
	}
	switch {
	case ob.mem != s.m.memString():
		s.violate(clause+".mem", o.kind, fmt.Sprintf("after %q the map answers mem{%s}, the statement requires mem{%s}", opStr, ob.mem, s.m.memString()))
	case ob.closedVisible && ob.closed != s.m.closedString():
		s.violate(clause+".closed", o.kind, fmt.Sprintf("after %q the volatile closed set is %s, the statement requires %s", opStr, ob.closed, s.m.closedString()))
	case ob.disk != s.m.diskString():
		s.violate(clause+".disk", o.kind, fmt.Sprintf("after %q the durable buckets hold disk{%s}, the statement requires disk{%s}", opStr, ob.disk, s.m.diskString()))
	}
	if !ob.closedVisible {
		s.closedVisible = false
		s.rep.closedOK.Store(false)
	}
	s.afterObserve(ob)
}

// afterObserve ends circuit lifetimes for the at-most-once accounting: a circuit
// that the implementation no longer knows starts a new lifetime when it reappears.
func (s *sys) afterObserve(ob observed) {
	for in := 0; in < s.u.nIn(); in++ {
		if !ob.pendSet[in] {
			delete(s.addsSeen, in)
			delete(s.respSeen, in)
		}
	}
}

// restartImpl discards the map object and builds a new one on the same database
// (crashAfter >= 0: the process dies again after that many durable writes of
// NewCircuitMap, then starts cleanly). Returns the outcome class.
func (s *sys) restartImpl(crashAfter int) string {
	outcome := "ok"
	if crashAfter >= 0 {
		s.db.CrashAfter(int64(crashAfter))
	}
	c0 := s.db.Commits()
	cm, err := htlcswitch.NewCircuitMap(s.cfg())
	n1 := s.db.Commits() - c0
	s.db.Disarm()
	if err != nil {
		if crashAfter < 0 || !errors.Is(err, crashdb.ErrCrashed) {
			s.violate("restart.error", "restart", fmt.Sprintf("NewCircuitMap failed: %v", err))
			return "error"
		}
		outcome = fmt.Sprintf("crashed-after-%dtx", n1)
		s.info("INFO   NewCircuitMap died after %d committed transaction(s); starting again", n1)
		cm, err = htlcswitch.NewCircuitMap(s.cfg())
		if err != nil {
			s.violate("restart.error", "restart", fmt.Sprintf("NewCircuitMap failed after a crashed start: %v", err))
			return "error"
		}
	} else {
		s.rep.txTable.Add(fmt.Sprintf("restart:%dtx", n1))
	}
	s.cm = cm
	s.ptr = map[int]*htlcswitch.PaymentCircuit{}
	s.respSeen = map[int]int{}
	s.closedTrail = nil
	return outcome
}

// ---------------------------------------------------------------------------
// alphabet

func seqAlphabet(u *universe, thorough bool) []string {
	var a []string
	add := func(f string, v ...any) { a = append(a, fmt.Sprintf(f, v...)) }
	n := u.nIn()
	chs := make([]string, len(u.OutChans))
	for i := range chs {
		chs[i] = string(rune('a' + i))
	}
	for i := 0; i < n; i++ {
		add("commit %d", i)
	}
	for i := 0; i < n; i++ {
		for _, c := range chs {
			add("open %d>%s", i, c)
		}
	}
	for _, c := range chs {
		add("cmt %s", c)
	}
	for _, c := range chs {
		for id := 0; id < u.MaxID; id++ {
			add("close %s%d", c, id)
		}
	}
	for i := 0; i < n; i++ {
		add("fail %d", i)
	}
	for i := 0; i < n; i++ {
		add("delete %d", i)
	}
	for _, c := range chs {
		add("trim %s", c)
	}
	add("restart")
	for _, c := range u.allChans() {
		add("closechan %d", c)
	}
	if thorough {
		for _, c := range u.allChans() {
			add("pclosechan %d", c)
		}
	} else {
		add("pclosechan %d", u.InChans[0])
		add("pclosechan %d", u.OutChans[0])
	}
	for _, c := range chs {
		for id := 0; id < u.MaxID; id++ {
			add("res %s%d", c, id)
		}
	}
	if u.Scidless {
		add("closezero")
	}
	// batches
	for i := 0; i < n; i++ {
		for j := 0; j < n; j++ {
			if thorough || i < j || (i == j && i == 0) {
				add("commit %d %d", i, j)
			}
		}
	}
	add("commit 0 1 0")
	if thorough {
		add("commit 0 0 1")
		add("commit 1 0 1")
	}
	for ci, c := range chs {
		for i := 0; i < n; i++ {
			for j := 0; j < n; j++ {
				if i == j {
					continue
				}
				if thorough || (i < j && (ci == 0 || i == 0)) {
					add("open %d>%s %d>%s", i, c, j, c)
				}
			}
		}
	}
	for i := 0; i < n; i++ {
		for _, c := range chs {
			for id := 0; id < u.MaxID; id++ {
				if thorough || id == 0 {
					add("opendup %d>%s%d", i, c, id)
				}
			}
		}
	}
	for i := 0; i < n; i++ {
		for j := i + 1; j < n; j++ {
			add("delete %d %d", i, j)
		}
	}
	add("delete 0 0")
	// crash points of NewCircuitMap (it performs up to 2 + #trimmed-channels + 1
	// write transactions)
	maxCrash := 3
	if thorough {
		maxCrash = 5
	}
	for k := 0; k <= maxCrash; k++ {
		add("restart crash=%d", k)
	}
	// write failure (rollback) and crash-inside-the-op variants
	var writers []string
	for i := 0; i < n; i++ {
		writers = append(writers, fmt.Sprintf("commit %d", i))
	}
	for i := 0; i < n; i++ {
		for _, c := range chs {
			writers = append(writers, fmt.Sprintf("open %d>%s", i, c))
		}
	}
	for i := 0; i < n; i++ {
		writers = append(writers, fmt.Sprintf("delete %d", i))
	}
	batchWriters := []string{"commit 0 1", "commit 0 1 0", "delete 0 1", "open 0>a 1>a"}
	if thorough {
		batchWriters = append(batchWriters, "commit 1 2", "commit 0 0", "delete 1 2", "open 1>a 2>a", "open 0>b 1>b")
	}
	for _, w := range append(append([]string{}, writers...), batchWriters...) {
		add("wfail %s", w)
	}
	crashers := append([]string{}, writers...)
	for _, c := range chs {
		crashers = append(crashers, "trim "+c)
	}
	crashers = append(crashers, batchWriters...)
	for _, w := range crashers {
		add("crash0 %s", w)
	}
	for _, w := range crashers {
		add("crash1 %s", w)
	}
	return a
}
