// C07 — "the switch forwards each HTLC at most once and relays at most one response".
//
// This file holds what every phase of the check shares: the small universe of
// channels / HTLC ids, the operation language, the reference model written from the
// property statement, and `sys`, one live instance of the REAL
// htlcswitch.NewCircuitMap on a real bbolt backend wrapped by crashdb, driven op by
// op and compared with the model after every op.
//
// Observation of the implementation uses the exported API (LookupCircuit,
// LookupOpenCircuit, LookupByPaymentHash, NumPending, NumOpen, the returned
// CircuitFwdActions / errors), a direct read of the two on-disk buckets
// ("circuit-adds", "circuit-keystones": on-disk format, stable without a migration)
// and one reflective read of the volatile `closed` set (the only state of the map
// that no read-only API exposes; if the field cannot be found the canonical key
// falls back to the close/fail/delete trail since the last restart, see key()).
package c07

import (
	"bytes"
	"crypto/sha256"
	"errors"
	"fmt"
	"os"
	"reflect"
	"sort"
	"strconv"
	"strings"
	"sync"
	"sync/atomic"

	"github.com/btcsuite/btcd/btcec/v2"
	sphinx "github.com/lightningnetwork/lightning-onion"
	"github.com/lightningnetwork/lnd/channeldb"
	"github.com/lightningnetwork/lnd/chanstate"
	"github.com/lightningnetwork/lnd/htlcswitch"
	"github.com/lightningnetwork/lnd/htlcswitch/hop"
	"github.com/lightningnetwork/lnd/keychain"
	"github.com/lightningnetwork/lnd/kvdb"
	"github.com/lightningnetwork/lnd/lnwire"
	"github.com/lightningnetwork/lnd/verifmc/crashdb"
	"github.com/lightningnetwork/lnd/verifmc/evid"
)

// ---------------------------------------------------------------------------
// universe

const (
	stLive   = 0
	stPClose = 1 // close pending (ChannelCloseSummary.IsPending): not open, not purged
	stClosed = 2 // fully closed
)

// universe is the finite set of keys the operations range over.
type universe struct {
	// InChans: scids of incoming channels. The scid 0 is hop.Source: circuits
	// "incoming" on it are locally initiated payments (the HTLC id is the payment
	// attempt id, see localIDBase); hop.Source is not a channel: it is never listed
	// by the channel store, never closed, and always "live".
	InChans  []uint64
	InIDs    int      // HTLC ids 0..InIDs-1 on every incoming channel
	OutChans []uint64 // scids of outgoing channels ('a', 'b')
	MaxID    int      // outgoing HTLC ids 0..MaxID-1 can be allocated
	// Enc: kind of error encrypter carried by the circuit with incoming index i
	// (encNone..encMock); missing entries = encNone. Locally initiated circuits never
	// carry one.
	Enc []int `json:",omitempty"`
	// Scidless: the channel store additionally holds records WITHOUT a short
	// channel id: an open channel that is still pending, an open channel whose scid
	// was never assigned, and (after the op "closezero") a fully closed channel
	// whose close summary has the all-zero scid (a channel that was closed before it
	// confirmed). None of them ever carried an HTLC.
	Scidless bool `json:",omitempty"`
}

// scid builds a realistic short channel id (distinct non-zero block / tx / output).
func scid(block, tx, pos uint64) uint64 { return block<<40 | tx<<16 | pos }

// localIDBase: payment attempt ids of locally initiated payments (above 2^32 so
// that no code path can confuse them with small HTLC indexes).
const localIDBase = uint64(1)<<32 | 5

const (
	encNone = iota
	encSphinx
	encIntro
	encRelay
	encMock
)

var encNames = []string{"none", "sphinx", "introduction", "relaying", "mock"}

func (u *universe) nIn() int { return len(u.InChans) * u.InIDs }

func (u *universe) inKey(i int) htlcswitch.CircuitKey {
	k := htlcswitch.CircuitKey{
		ChanID: lnwire.NewShortChanIDFromInt(u.InChans[i/u.InIDs]),
		HtlcID: uint64(i % u.InIDs),
	}
	if u.InChans[i/u.InIDs] == 0 {
		k.HtlcID += localIDBase
	}
	return k
}

func (u *universe) isLocal(i int) bool { return u.InChans[i/u.InIDs] == 0 }

func (u *universe) encKind(i int) int {
	if i < len(u.Enc) && !u.isLocal(i) {
		return u.Enc[i]
	}
	return encNone
}

func (u *universe) inChan(i int) uint64 { return u.InChans[i/u.InIDs] }

func (u *universe) inIndex(k htlcswitch.CircuitKey) int {
	for i := 0; i < u.nIn(); i++ {
		if u.inKey(i) == k {
			return i
		}
	}
	return -1
}

// okey is an outgoing circuit key inside the universe.
type okey struct {
	ch int // index into OutChans
	id int
}

func (o okey) String() string { return string(rune('a'+o.ch)) + strconv.Itoa(o.id) }

func (u *universe) outKey(o okey) htlcswitch.CircuitKey {
	return htlcswitch.CircuitKey{
		ChanID: lnwire.NewShortChanIDFromInt(u.OutChans[o.ch]),
		HtlcID: uint64(o.id),
	}
}

func (u *universe) outIndex(k htlcswitch.CircuitKey) (okey, bool) {
	for c, scid := range u.OutChans {
		if k.ChanID == lnwire.NewShortChanIDFromInt(scid) && k.HtlcID < 64 {
			return okey{c, int(k.HtlcID)}, true
		}
	}
	return okey{}, false
}

// allChans: every channel of the universe once (hop.Source is not a channel).
func (u *universe) allChans() []uint64 {
	var out []uint64
	seen := map[uint64]bool{0: true}
	for _, c := range append(append([]uint64{}, u.InChans...), u.OutChans...) {
		if !seen[c] {
			seen[c] = true
			out = append(out, c)
		}
	}
	return out
}

// payHash: circuits 0 and 1 share a payment hash (two shards of one payment), the
// others have their own, so the hash index holds a set with >1 member.
func payHash(i int) [32]byte {
	if i == 1 {
		i = 0
	}
	return sha256.Sum256([]byte("c07 payment " + strconv.Itoa(i)))
}

// newCircuit builds the circuit a link (or, for hop.Source, the payment
// dispatcher) hands to CommitCircuits: every field is a distinct non-zero function of
// the incoming index. A forwarded circuit carries the forwarding-package reference
// of its Add and the error encrypter of its kind; a locally initiated one neither.
func (u *universe) newCircuit(i int) *htlcswitch.PaymentCircuit {
	c := &htlcswitch.PaymentCircuit{
		Incoming:       u.inKey(i),
		PaymentHash:    payHash(i),
		IncomingAmount: lnwire.MilliSatoshi(100_000 + i),
		OutgoingAmount: lnwire.MilliSatoshi(99_000 + i),
	}
	if !u.isLocal(i) {
		c.AddRef = channeldb.AddRef{Height: uint64(1000 + i), Index: uint16(i + 1)}
		c.ErrorEncrypter = newEncrypter(u.encKind(i), i)
	}
	return c
}

// ---------------------------------------------------------------------------
// circuit payload (error encrypters)

// onion is the node's onion processor: the REAL hop.OnionProcessor over a sphinx
// router with a fixed key; its ExtractErrorEncrypter is what NewCircuitMap gets.
var (
	onionOnce sync.Once
	onionProc *hop.OnionProcessor
	encCache  sync.Map // ephemeral index -> *hop.SphinxErrorEncrypter (extracted once)
	payCache  sync.Map // payloadKey -> *payloadWant
)

func fixedPriv(tag string, i int) *btcec.PrivateKey {
	h := sha256.Sum256([]byte("c07 " + tag + " " + strconv.Itoa(i)))
	k, _ := btcec.PrivKeyFromBytes(h[:])
	return k
}

func onionProcessor() *hop.OnionProcessor {
	onionOnce.Do(func() {
		router := sphinx.NewRouter(&keychain.PrivKeyECDH{PrivKey: fixedPriv("router", 0)}, sphinx.NewMemoryReplayLog())
		onionProc = hop.NewOnionProcessor(router)
	})
	return onionProc
}

// sphinxFor returns a fresh SphinxErrorEncrypter value for ephemeral key #i (the
// shared-secret part is extracted once and shared: it is immutable).
func sphinxFor(i int) *hop.SphinxErrorEncrypter {
	v, ok := encCache.Load(i)
	if !ok {
		e, code := onionProcessor().ExtractErrorEncrypter(fixedPriv("ephemeral", i).PubKey())
		if code != lnwire.CodeNone {
			panic(fmt.Sprintf("c07: cannot extract error encrypter: %v", code))
		}
		v, _ = encCache.LoadOrStore(i, e.(*hop.SphinxErrorEncrypter))
	}
	base := v.(*hop.SphinxErrorEncrypter)
	return &hop.SphinxErrorEncrypter{OnionErrorEncrypter: base.OnionErrorEncrypter, EphemeralKey: base.EphemeralKey}
}

// newEncrypter builds the encrypter the incoming link would attach (hop/iterator.go
// wraps the sphinx encrypter for the introduction / relaying node of a blinded route).
func newEncrypter(kind, i int) hop.ErrorEncrypter {
	switch kind {
	case encSphinx:
		return sphinxFor(i)
	case encIntro:
		return &hop.IntroductionErrorEncrypter{ErrorEncrypter: sphinxFor(i)}
	case encRelay:
		return &hop.RelayingErrorEncrypter{ErrorEncrypter: sphinxFor(i)}
	case encMock:
		return htlcswitch.NewMockObfuscator()
	}
	return nil
}

var probeReason = lnwire.OpaqueReason(bytes.Repeat([]byte{0x5a, 0xc3}, 40))

// payloadWant: what a circuit with incoming index i must look like wherever the map
// shows it (in memory, fresh or restored, and on disk): its serialisation and what
// its error encrypter answers to a fixed probe.
type payloadWant struct {
	enc   []byte
	probe []byte
}

func probeEncrypter(e hop.ErrorEncrypter) (out []byte, err error) {
	defer func() {
		if v := recover(); v != nil {
			err = fmt.Errorf("encrypter unusable: %v", v)
		}
	}()
	if e == nil {
		return nil, nil
	}
	return e.IntermediateEncrypt(append(lnwire.OpaqueReason{}, probeReason...)), nil
}

func (u *universe) payload(i int) *payloadWant {
	key := fmt.Sprintf("%v/%d/%d", u.inKey(i), i, u.encKind(i))
	if v, ok := payCache.Load(key); ok {
		return v.(*payloadWant)
	}
	c := u.newCircuit(i)
	var b bytes.Buffer
	if err := c.Encode(&b); err != nil {
		panic(fmt.Sprintf("c07: encode reference circuit: %v", err))
	}
	pr, err := probeEncrypter(c.ErrorEncrypter)
	if err != nil {
		panic(fmt.Sprintf("c07: reference circuit: %v", err))
	}
	w := &payloadWant{enc: b.Bytes(), probe: pr}
	payCache.Store(key, w)
	return w
}

// payloadDefect compares a circuit shown by the map with the circuit that was
// committed under that incoming key ("" = identical): same serialisation (add
// reference, incoming key, hash, amounts, encrypter kind and ephemeral key) and an
// error encrypter that works and derives the same shared secret.
func (u *universe) payloadDefect(i int, c *htlcswitch.PaymentCircuit) (defect string) {
	defer func() {
		if v := recover(); v != nil {
			defect = fmt.Sprintf("payload unusable: %v", v)
		}
	}()
	want := u.payload(i)
	var b bytes.Buffer
	if err := c.Encode(&b); err != nil {
		return "cannot be serialised: " + err.Error()
	}
	if !bytes.Equal(b.Bytes(), want.enc) {
		kind := "none"
		if c.ErrorEncrypter != nil {
			kind = fmt.Sprintf("type %d", c.ErrorEncrypter.Type())
		}
		return fmt.Sprintf("payload differs from the committed circuit (addref %v amounts %d/%d encrypter %s, committed encrypter %s)",
			c.AddRef, c.IncomingAmount, c.OutgoingAmount, kind, encNames[u.encKind(i)])
	}
	got, err := probeEncrypter(c.ErrorEncrypter)
	if err != nil {
		return err.Error()
	}
	if !bytes.Equal(got, want.probe) {
		return "error encrypter derives a different shared secret"
	}
	return ""
}

// ---------------------------------------------------------------------------
// operation language

type ksSpec struct {
	in  int
	out okey
	// next: the id is allocated by the (modelled) outgoing link = next unallocated
	// HTLC index of the channel at the time of the call, in batch order.
	next bool
}

type op struct {
	inject string // "", "wfail", "crash0", "crash1"
	kind   string
	ins    []int
	ks     []ksSpec
	out    okey
	scid   uint64
	crash  int // restart crash=<n>; -1 none
}

func parseOp(s string) (op, error) {
	o := op{crash: -1}
	f := strings.Fields(s)
	if len(f) == 0 {
		return o, fmt.Errorf("empty op")
	}
	switch f[0] {
	case "wfail", "crash0", "crash1":
		o.inject = f[0]
		f = f[1:]
	}
	if len(f) == 0 {
		return o, fmt.Errorf("bad op %q", s)
	}
	o.kind = f[0]
	args := f[1:]
	pOut := func(a string) (okey, error) {
		if len(a) < 2 || a[0] < 'a' || a[0] > 'h' {
			return okey{}, fmt.Errorf("bad out key %q", a)
		}
		id, err := strconv.Atoi(a[1:])
		return okey{int(a[0] - 'a'), id}, err
	}
	var err error
	switch o.kind {
	case "commit", "delete", "fail", "lookup":
		for _, a := range args {
			n, e := strconv.Atoi(a)
			if e != nil {
				return o, e
			}
			o.ins = append(o.ins, n)
		}
		if len(o.ins) == 0 {
			return o, fmt.Errorf("bad op %q", s)
		}
	case "open", "opendup":
		for _, a := range args {
			p := strings.SplitN(a, ">", 2)
			if len(p) != 2 {
				return o, fmt.Errorf("bad keystone %q", a)
			}
			n, e := strconv.Atoi(p[0])
			if e != nil {
				return o, e
			}
			k := ksSpec{in: n}
			if len(p[1]) == 1 {
				k.next = true
				k.out = okey{int(p[1][0] - 'a'), -1}
			} else if k.out, e = pOut(p[1]); e != nil {
				return o, e
			}
			o.ks = append(o.ks, k)
		}
		if len(o.ks) == 0 {
			return o, fmt.Errorf("bad op %q", s)
		}
	case "cmt", "trim":
		if len(args) != 1 || len(args[0]) != 1 {
			return o, fmt.Errorf("bad op %q", s)
		}
		o.out = okey{int(args[0][0] - 'a'), -1}
	case "close", "res", "lookupopen":
		if len(args) != 1 {
			return o, fmt.Errorf("bad op %q", s)
		}
		o.out, err = pOut(args[0])
	case "closezero":
		if len(args) != 0 {
			return o, fmt.Errorf("bad op %q", s)
		}
	case "restart":
		for _, a := range args {
			if strings.HasPrefix(a, "crash=") {
				o.crash, err = strconv.Atoi(a[6:])
			}
		}
	case "closechan", "pclosechan":
		if len(args) != 1 {
			return o, fmt.Errorf("bad op %q", s)
		}
		o.scid, err = strconv.ParseUint(args[0], 10, 64)
	default:
		return o, fmt.Errorf("unknown op %q", s)
	}
	return o, err
}

// ---------------------------------------------------------------------------
// reference model (from the property statement)

type mcirc struct {
	loaded bool
	hasOut bool
	out    okey
}

type model struct {
	// memory
	pend   map[int]*mcirc
	open   map[okey]int
	closed map[int]bool
	// durable
	dAdds map[int]bool
	dKeys map[okey]int
}

func newModel() *model {
	return &model{
		pend: map[int]*mcirc{}, open: map[okey]int{}, closed: map[int]bool{},
		dAdds: map[int]bool{}, dKeys: map[okey]int{},
	}
}

// env is the world around the map that the harness owns: channel states, the
// per-outgoing-channel HTLC index allocation (next = next index the link would
// allocate, volatile; cmt = NextLocalHtlcIndex as persisted by the channel, i.e. ids
// below it are on a commitment) and the resolution-message store.
type env struct {
	chanState map[uint64]int
	next, cmt []int
	res       map[okey]bool
	// zeroClosed: the close summary of a channel that never got a short channel id
	// (all-zero scid, fully closed) is in the channel store (universe.Scidless only).
	zeroClosed bool
}

func newEnv(u *universe) *env {
	e := &env{chanState: map[uint64]int{}, res: map[okey]bool{}}
	e.next = make([]int, len(u.OutChans))
	e.cmt = make([]int, len(u.OutChans))
	return e
}

func sortedOkeys[V any](m map[okey]V) []okey {
	ks := make([]okey, 0, len(m))
	for k := range m {
		ks = append(ks, k)
	}
	sort.Slice(ks, func(i, j int) bool {
		if ks[i].ch != ks[j].ch {
			return ks[i].ch < ks[j].ch
		}
		return ks[i].id < ks[j].id
	})
	return ks
}

func sortedInts[V any](m map[int]V) []int {
	ks := make([]int, 0, len(m))
	for k := range m {
		ks = append(ks, k)
	}
	sort.Ints(ks)
	return ks
}

// memString / diskString render the model in the same canonical format as
// observe() renders the implementation.
func (m *model) memString() string {
	var b strings.Builder
	b.WriteString("pend[")
	for _, i := range sortedInts(m.pend) {
		c := m.pend[i]
		fl := "F"
		if c.loaded {
			fl = "L"
		}
		o := "-"
		if c.hasOut {
			o = c.out.String()
		}
		fmt.Fprintf(&b, "%d:%s%s ", i, fl, o)
	}
	b.WriteString("] open[")
	for _, k := range sortedOkeys(m.open) {
		fmt.Fprintf(&b, "%s>%d ", k, m.open[k])
	}
	fmt.Fprintf(&b, "] n=%d/%d", len(m.pend), len(m.open))
	return b.String()
}

func (m *model) closedString() string {
	return fmt.Sprint(sortedInts(m.closed))
}

func (m *model) diskString() string {
	var b strings.Builder
	fmt.Fprintf(&b, "adds%v keys[", sortedInts(m.dAdds))
	for _, k := range sortedOkeys(m.dKeys) {
		fmt.Fprintf(&b, "%s>%d ", k, m.dKeys[k])
	}
	b.WriteString("]")
	return b.String()
}

func (e *env) str(u *universe) string {
	var b strings.Builder
	for _, c := range u.allChans() {
		fmt.Fprintf(&b, "%d", e.chanState[c])
	}
	fmt.Fprintf(&b, " n%v c%v res[", e.next, e.cmt)
	for _, k := range sortedOkeys(e.res) {
		b.WriteString(k.String() + " ")
	}
	b.WriteString("]")
	if e.zeroClosed {
		b.WriteString(" zeroclosed")
	}
	return b.String()
}

// commit: the CommitCircuits decision table of the statement — a circuit seen for
// the first time is added (forwarded); a duplicate is dropped while the first copy
// may still be on its way (keystone set, or not loaded from disk), and failed back
// once a restart has lost the in-memory copy (loaded from disk, no keystone).
// With a failing write nothing is added and every non-dropped circuit is failed.
func (m *model) commit(batch []int, writeFails bool) (adds, drops, fails []int, wantErr bool) {
	var addFails []int
	for _, in := range batch {
		if c, ok := m.pend[in]; ok {
			switch {
			case c.hasOut, !c.loaded:
				drops = append(drops, in)
			default:
				fails = append(fails, in)
				addFails = append(addFails, in)
			}
			continue
		}
		m.pend[in] = &mcirc{}
		adds = append(adds, in)
		addFails = append(addFails, in)
	}
	if len(adds) == 0 {
		return nil, drops, fails, false
	}
	if writeFails {
		for _, in := range adds {
			delete(m.pend, in)
		}
		return nil, drops, addFails, true
	}
	for _, in := range adds {
		m.dAdds[in] = true
	}
	return adds, drops, fails, false
}

// openKs: all-or-nothing; rejected if an outgoing key is already bound (duplicate
// keystone) or an incoming key is not pending.
func (m *model) openKs(ks []ksSpec, writeFails bool) (okErrs []error, applied bool) {
	for _, k := range ks {
		if _, dup := m.open[k.out]; dup {
			okErrs = append(okErrs, htlcswitch.ErrDuplicateKeystone)
		}
		if _, ok := m.pend[k.in]; !ok {
			okErrs = append(okErrs, htlcswitch.ErrUnknownCircuit)
		}
	}
	if len(okErrs) > 0 {
		return okErrs, false
	}
	if writeFails {
		return []error{crashdb.ErrInjected, crashdb.ErrCrashed}, false
	}
	for _, k := range ks {
		c := m.pend[k.in]
		c.hasOut, c.out = true, k.out
		m.open[k.out] = k.in
		m.dKeys[k.out] = k.in
	}
	return nil, true
}

func (m *model) closeOut(o okey) (in int, err error) {
	in, ok := m.open[o]
	if !ok {
		return -1, htlcswitch.ErrUnknownCircuit
	}
	if m.closed[in] {
		return -1, htlcswitch.ErrCircuitClosing
	}
	m.closed[in] = true
	return in, nil
}

func (m *model) failIn(in int) error {
	if _, ok := m.pend[in]; !ok {
		return htlcswitch.ErrUnknownCircuit
	}
	if m.closed[in] {
		return htlcswitch.ErrCircuitClosing
	}
	m.closed[in] = true
	return nil
}

// del removes every named circuit that is known (unknown ones are ignored); with a
// failing write nothing changes (including the closed marks).
func (m *model) del(ins []int, writeFails bool) (removed int) {
	for _, in := range ins {
		if _, ok := m.pend[in]; ok {
			removed++
		}
	}
	if writeFails {
		return removed
	}
	for _, in := range ins {
		c, ok := m.pend[in]
		if !ok {
			continue
		}
		delete(m.pend, in)
		delete(m.closed, in)
		delete(m.dAdds, in)
		if c.hasOut {
			delete(m.open, c.out)
			delete(m.dKeys, c.out)
		}
	}
	return removed
}

// trim: every keystone of channel ch whose HTLC index is >= start (not on a
// commitment) is rolled back; the circuit becomes half-open again.
func (m *model) trim(ch, start int) {
	for _, k := range sortedOkeys(m.open) {
		if k.ch == ch && k.id >= start {
			in := m.open[k]
			m.pend[in].hasOut = false
			delete(m.open, k)
			delete(m.dKeys, k)
		}
	}
}

// restart: memory is rebuilt from exactly the durable records; circuits of fully
// closed channels are purged unless a resolution message awaits delivery;
// keystones that did not reach a commitment of a live channel are rolled back.
//
// A locally initiated circuit has no incoming channel (hop.Source is never closed);
// channel records without a short channel id (env.zeroClosed, universe.Scidless)
// never carried an HTLC, so no circuit is "of" such a channel: they change nothing.
func (m *model) restart(u *universe, e *env) {
	closedIn := func(in int) bool { return !u.isLocal(in) && e.chanState[u.inChan(in)] == stClosed }
	for _, in := range sortedInts(m.dAdds) {
		if closedIn(in) {
			delete(m.dAdds, in)
		}
	}
	for _, k := range sortedOkeys(m.dKeys) {
		in := m.dKeys[k]
		switch {
		case closedIn(in):
			delete(m.dKeys, k)
			delete(m.dAdds, in)
		case e.chanState[u.OutChans[k.ch]] == stClosed && !e.res[k]:
			delete(m.dKeys, k)
			delete(m.dAdds, in)
		}
	}
	m.pend, m.open, m.closed = map[int]*mcirc{}, map[okey]int{}, map[int]bool{}
	for in := range m.dAdds {
		m.pend[in] = &mcirc{loaded: true}
	}
	for k, in := range m.dKeys {
		if c, ok := m.pend[in]; ok {
			c.hasOut, c.out = true, k
			m.open[k] = in
		}
	}
	for ch, scid := range u.OutChans {
		if e.chanState[scid] == stLive {
			m.trim(ch, e.cmt[ch])
		}
		e.next[ch] = e.cmt[ch]
	}
}

// ---------------------------------------------------------------------------
// stub channel store for FetchAllOpenChannels (NextLocalHtlcIndex reads the
// remote commit chain tip through OpenChannel.Db)

type stubStore struct {
	chanstate.Store // nil: any other method panics (would be a harness gap)
	pendingIdx      map[lnwire.ShortChannelID]uint64
}

func (s *stubStore) RemoteCommitChainTip(c *chanstate.OpenChannel) (*chanstate.CommitDiff, error) {
	if idx, ok := s.pendingIdx[c.ShortChannelID]; ok {
		return &chanstate.CommitDiff{Commitment: chanstate.ChannelCommitment{LocalHtlcIndex: idx}}, nil
	}
	return nil, chanstate.ErrNoPendingCommit
}

// ---------------------------------------------------------------------------
// reporter / shared statistics

type reporter struct {
	run      *evid.Run
	phase    string
	stop     atomic.Bool
	mu       sync.Mutex
	outcomes *evid.Counter // outcome classes (op kind : result class)
	nontriv  *evid.Counter
	implOps  atomic.Int64
	maxTx    atomic.Int64 // max committed write transactions observed for one op
	txTable  *evid.Counter
	closedOK atomic.Bool
	nondet   atomic.Bool
	quiet    bool // replay mode: violations are printed by the caller
}

func newReporter(run *evid.Run, phase string) *reporter {
	r := &reporter{run: run, phase: phase, outcomes: evid.NewCounter(), nontriv: evid.NewCounter(), txTable: evid.NewCounter()}
	r.closedOK.Store(true)
	return r
}

// ---------------------------------------------------------------------------
// sys: one live implementation instance + model

type dbPool struct {
	mu   sync.Mutex
	free []kvdb.Backend
	all  []kvdb.Backend
	n    int
	dir  string
}

func newPool() *dbPool {
	d, err := os.MkdirTemp("", "c07db")
	if err != nil {
		panic(err)
	}
	return &dbPool{dir: d}
}

var (
	bktAdds = []byte("circuit-adds")
	bktKeys = []byte("circuit-keystones")
)

func (p *dbPool) get() kvdb.Backend {
	p.mu.Lock()
	if n := len(p.free); n > 0 {
		b := p.free[n-1]
		p.free = p.free[:n-1]
		p.mu.Unlock()
		// wipe: the map's two buckets are the only thing it ever writes
		err := kvdb.Update(b, func(tx kvdb.RwTx) error {
			for _, k := range [][]byte{bktAdds, bktKeys} {
				if tx.ReadWriteBucket(k) != nil {
					if err := tx.DeleteTopLevelBucket(k); err != nil {
						return err
					}
				}
			}
			return nil
		}, func() {})
		if err != nil {
			panic(fmt.Sprintf("c07: wipe: %v", err))
		}
		return b
	}
	p.n++
	name := fmt.Sprintf("cm%d.db", p.n)
	p.mu.Unlock()
	b, err := kvdb.GetBoltBackend(&kvdb.BoltBackendConfig{
		DBPath: p.dir, DBFileName: name, NoFreelistSync: true,
		DBTimeout: kvdb.DefaultDBTimeout,
	})
	if err != nil {
		panic(fmt.Sprintf("c07: bolt: %v", err))
	}
	p.mu.Lock()
	p.all = append(p.all, b)
	p.mu.Unlock()
	return b
}

func (p *dbPool) put(b kvdb.Backend) {
	p.mu.Lock()
	p.free = append(p.free, b)
	p.mu.Unlock()
}

func (p *dbPool) closeAll() {
	p.mu.Lock()
	defer p.mu.Unlock()
	for _, b := range p.all {
		_ = b.Close()
	}
	p.all, p.free = nil, nil
	_ = os.RemoveAll(p.dir)
}

type sys struct {
	u    *universe
	pool *dbPool
	bolt kvdb.Backend
	db   *crashdb.DB
	cm   htlcswitch.CircuitMap
	m    *model
	e    *env
	rep  *reporter
	hist []string
	dead string
	logf func(string, ...any)

	// independent at-most-once accounting, fed by the implementation's answers
	addsSeen map[int]int // Adds verdicts per incoming key in its current lifetime
	respSeen map[int]int // accepted Close/Fail per incoming key in its current lifetime/incarnation
	ptr      map[int]*htlcswitch.PaymentCircuit

	closedVisible bool
	closedTrail   []string

	essential  []string // the state-changing ops of hist
	noMinimize bool
	probe      bool // minimisation probe: record the signature, report nothing
}

func newSys(u *universe, pool *dbPool, rep *reporter) (*sys, error) {
	s := &sys{u: u, pool: pool, rep: rep, m: newModel(), e: newEnv(u),
		addsSeen: map[int]int{}, respSeen: map[int]int{}, ptr: map[int]*htlcswitch.PaymentCircuit{},
		closedVisible: true}
	s.bolt = pool.get()
	s.db = crashdb.New(s.bolt)
	cm, err := htlcswitch.NewCircuitMap(s.cfg())
	if err != nil {
		pool.put(s.bolt)
		return nil, err
	}
	s.cm = cm
	return s, nil
}

func (s *sys) Close() {
	if s.bolt != nil {
		s.pool.put(s.bolt)
		s.bolt = nil
	}
}

// cfg builds the CircuitMapConfig from the harness-owned environment.
func (s *sys) cfg() *htlcswitch.CircuitMapConfig {
	u, e := s.u, s.e
	return &htlcswitch.CircuitMapConfig{
		DB: s.db,
		FetchAllOpenChannels: func() ([]*chanstate.OpenChannel, error) {
			st := &stubStore{pendingIdx: map[lnwire.ShortChannelID]uint64{}}
			var out []*chanstate.OpenChannel
			for _, scid := range u.allChans() {
				if e.chanState[scid] != stLive {
					continue
				}
				c := &chanstate.OpenChannel{ShortChannelID: lnwire.NewShortChanIDFromInt(scid), Db: st}
				for ch, oc := range u.OutChans {
					if oc != scid {
						continue
					}
					idx := uint64(e.cmt[ch])
					// Exercise both branches of NextLocalHtlcIndex: odd indexes are
					// reported through a pending remote commitment (the settled
					// remote commitment then still has the previous index).
					if idx%2 == 1 {
						st.pendingIdx[c.ShortChannelID] = idx
						c.RemoteCommitment.LocalHtlcIndex = idx - 1
					} else {
						c.RemoteCommitment.LocalHtlcIndex = idx
					}
				}
				out = append(out, c)
			}
			if u.Scidless {
				// a channel whose funding is still unconfirmed (listed first), and one
				// that is open but was never assigned its final id (listed second):
				// both have the all-zero scid
				out = append([]*chanstate.OpenChannel{
					{IsPending: true, Db: st},
					{Db: st},
				}, out...)
			}
			return out, nil
		},
		FetchClosedChannels: func(pendingOnly bool) ([]*chanstate.ChannelCloseSummary, error) {
			var out []*chanstate.ChannelCloseSummary
			if e.zeroClosed && !pendingOnly {
				out = append(out, &chanstate.ChannelCloseSummary{})
			}
			for _, scid := range u.allChans() {
				st := e.chanState[scid]
				if st == stLive || (pendingOnly && st != stPClose) {
					continue
				}
				out = append(out, &chanstate.ChannelCloseSummary{
					ShortChanID: lnwire.NewShortChanIDFromInt(scid),
					IsPending:   st == stPClose,
				})
			}
			return out, nil
		},
		ExtractErrorEncrypter: onionProcessor().ExtractErrorEncrypter,
		CheckResolutionMsg: func(k *htlcswitch.CircuitKey) error {
			if o, ok := u.outIndex(*k); ok && e.res[o] {
				return nil
			}
			return errors.New("no resolution message")
		},
	}
}

// observation ---------------------------------------------------------------

type observed struct {
	mem, closed, disk string
	closedVisible     bool
	pendSet           map[int]bool
}

func readClosedSet(cm htlcswitch.CircuitMap) (keys []htlcswitch.CircuitKey, ok bool) {
	defer func() {
		if recover() != nil {
			keys, ok = nil, false
		}
	}()
	v := reflect.ValueOf(cm)
	if v.Kind() != reflect.Ptr || v.Elem().Kind() != reflect.Struct {
		return nil, false
	}
	f := v.Elem().FieldByName("closed")
	if !f.IsValid() || f.Kind() != reflect.Map {
		return nil, false
	}
	for _, k := range f.MapKeys() {
		ch := k.FieldByName("ChanID")
		keys = append(keys, htlcswitch.CircuitKey{
			ChanID: lnwire.ShortChannelID{
				BlockHeight: uint32(ch.FieldByName("BlockHeight").Uint()),
				TxIndex:     uint32(ch.FieldByName("TxIndex").Uint()),
				TxPosition:  uint16(ch.FieldByName("TxPosition").Uint()),
			},
			HtlcID: k.FieldByName("HtlcID").Uint(),
		})
	}
	return keys, true
}

func (s *sys) observe() observed {
	u := s.u
	var o observed
	o.pendSet = map[int]bool{}
	var b strings.Builder
	b.WriteString("pend[")
	for i := 0; i < u.nIn(); i++ {
		c := s.cm.LookupCircuit(u.inKey(i))
		if c == nil {
			continue
		}
		o.pendSet[i] = true
		fl := "F"
		if c.LoadedFromDisk {
			fl = "L"
		}
		out := "-"
		if c.HasKeystone() {
			if ok, in := u.outIndex(c.OutKey()); in {
				out = ok.String()
			} else {
				out = "?" + c.OutKey().String()
			}
		}
		if c.Incoming != u.inKey(i) {
			out += "!incoming=" + c.Incoming.String()
		} else if d := u.payloadDefect(i, c); d != "" {
			out += "!(" + d + ")"
		}
		fmt.Fprintf(&b, "%d:%s%s ", i, fl, out)
	}
	b.WriteString("] open[")
	for ch := range u.OutChans {
		for id := 0; id <= u.MaxID; id++ {
			k := okey{ch, id}
			c := s.cm.LookupOpenCircuit(u.outKey(k))
			if c == nil {
				continue
			}
			in := u.inIndex(c.Incoming)
			fmt.Fprintf(&b, "%s>%d ", k, in)
			// the hash index must list an open circuit under its payment hash
			found := false
			for _, hc := range s.cm.LookupByPaymentHash(c.PaymentHash) {
				if hc == c {
					found = true
				}
			}
			if !found {
				fmt.Fprintf(&b, "(%s missing from hash index) ", k)
			}
		}
	}
	fmt.Fprintf(&b, "] n=%d/%d", s.cm.NumPending(), s.cm.NumOpen())
	// every circuit listed under a hash must be open
	seenHash := map[[32]byte]bool{}
	for i := 0; i < u.nIn(); i++ {
		h := payHash(i)
		if seenHash[h] {
			continue
		}
		seenHash[h] = true
		for _, hc := range s.cm.LookupByPaymentHash(h) {
			if !hc.HasKeystone() || s.cm.LookupOpenCircuit(hc.OutKey()) != hc {
				fmt.Fprintf(&b, " (hash index lists non-open circuit %v)", hc.Incoming)
			}
		}
	}
	o.mem = b.String()

	if ks, ok := readClosedSet(s.cm); ok {
		var idx []int
		var extra []string
		for _, k := range ks {
			if i := u.inIndex(k); i >= 0 {
				idx = append(idx, i)
			} else {
				extra = append(extra, k.String())
			}
		}
		sort.Ints(idx)
		sort.Strings(extra)
		o.closed = fmt.Sprint(idx)
		if len(extra) > 0 {
			o.closed += fmt.Sprint(extra)
		}
		o.closedVisible = true
	}

	// durable state, straight from the buckets
	var adds []int
	var addExtra, keyExtra []string
	keys := map[okey]int{}
	err := kvdb.View(s.bolt, func(tx kvdb.RTx) error {
		if bk := tx.ReadBucket(bktAdds); bk != nil {
			if err := bk.ForEach(func(k, v []byte) error {
				var ck htlcswitch.CircuitKey
				if err := ck.SetBytes(k); err != nil {
					return err
				}
				var pc htlcswitch.PaymentCircuit
				if err := pc.Decode(bytes.NewReader(v)); err != nil {
					return fmt.Errorf("decode circuit %v: %w", ck, err)
				}
				i := u.inIndex(ck)
				if i < 0 || pc.Incoming != ck || pc.PaymentHash != payHash(i) {
					addExtra = append(addExtra, ck.String())
					return nil
				}
				if !bytes.Equal(v, u.payload(i).enc) {
					addExtra = append(addExtra, ck.String()+"(record differs from the committed circuit)")
					return nil
				}
				adds = append(adds, i)
				return nil
			}); err != nil {
				return err
			}
		}
		if bk := tx.ReadBucket(bktKeys); bk != nil {
			return bk.ForEach(func(k, v []byte) error {
				var ok, ik htlcswitch.CircuitKey
				if err := ok.SetBytes(k); err != nil {
					return err
				}
				if err := ik.SetBytes(v); err != nil {
					return err
				}
				o, inU := u.outIndex(ok)
				i := u.inIndex(ik)
				if !inU || i < 0 {
					keyExtra = append(keyExtra, ok.String()+">"+ik.String())
					return nil
				}
				keys[o] = i
				return nil
			})
		}
		return nil
	}, func() {})
	sort.Ints(adds)
	var d strings.Builder
	if adds == nil {
		adds = []int{}
	}
	fmt.Fprintf(&d, "adds%v keys[", adds)
	for _, k := range sortedOkeys(keys) {
		fmt.Fprintf(&d, "%s>%d ", k, keys[k])
	}
	d.WriteString("]")
	if len(addExtra)+len(keyExtra) > 0 {
		sort.Strings(addExtra)
		sort.Strings(keyExtra)
		fmt.Fprintf(&d, " extra%v%v", addExtra, keyExtra)
	}
	if err != nil {
		fmt.Fprintf(&d, " readerr=%v", err)
	}
	o.disk = d.String()
	return o
}

// violation reporting -------------------------------------------------------

type replayDoc struct {
	Kind     string   `json:"kind"`            // "seq"
	Phase    string   `json:"phase,omitempty"` // reporting phase ("seq", "lat"); default seq
	Universe universe `json:"universe"`
	Ops      []string `json:"ops"`
}

func (s *sys) violate(clause, opKind, what string) {
	if s.dead != "" {
		return
	}
	sig := fmt.Sprintf("C07/%s/%s/%s", s.rep.phase, clause, opKind)
	s.dead = sig
	if s.probe || s.rep.run == nil {
		return
	}
	// determinism gate: the complete history must reproduce the same violation on
	// two more fresh instances, otherwise it is a harness problem, not a verdict
	for i := 0; i < 2; i++ {
		if got := s.reproduce(s.hist); got != sig {
			s.rep.nondet.Store(true)
			fmt.Printf("INFO nondeterminism: %s did not reproduce (got %q) for ops %v\n", sig, got, s.hist)
			s.rep.stop.Store(true)
			return
		}
	}
	ops := s.minimalReplay(sig)
	full := fmt.Sprintf("%s — after ops %v", what, ops)
	if s.logf != nil {
		s.logf("INFO   !! %s: %s", sig, what)
	}
	s.rep.run.Violation(sig, full, replayDoc{Kind: "seq", Phase: s.rep.phase, Universe: *s.u, Ops: ops})
	s.rep.stop.Store(true)
}

// key -------------------------------------------------------------------------

// Key is the canonical state. "Same key => same futures": the behaviour of the
// circuit map is a function of (pending, opened, closed, hash index) in memory, the
// two buckets on disk and the answers of its three config callbacks. After every
// operation all of these are READ BACK from the implementation and required to equal
// the model (memString/closedString/diskString) — a state whose observation differs
// is a violation and is never expanded — so the model state IS the implementation
// state. The per-circuit payload (hash, amounts) is a constant function of the
// incoming key. The callbacks are functions of env (channel states, committed HTLC
// index, resolution messages); env.next (the outgoing link's next HTLC index)
// determines which keystones the next Open allocates. The at-most-once counters are
// functions of the state as well (adds: 1 iff pending; resp: 1 iff in closed).
// If the `closed` field is not readable, the trail of close/fail/delete operations
// since the last restart is appended instead (coarser dedup, still sound).
func (s *sys) Key() string {
	if s.dead != "" {
		return "DEAD"
	}
	k := s.m.memString() + " closed" + s.m.closedString() + " | " + s.m.diskString() + " | " + s.e.str(s.u)
	if !s.closedVisible {
		k += " | trail " + strings.Join(s.closedTrail, ";")
	}
	return k
}
