// Race target of C07 (thorough tier only, built with -race): the concurrent
// scenarios of conc_test.go run FREE (real goroutines, no scheduler — the vsync shim
// passes straight through to sync) so that the race detector sees the memory-model
// side that a cooperative scheduler cannot. Every execution is additionally judged by
// the same clauses (R0–R2, R4). The executions are samples of the Go scheduler, not
// an enumeration: this target can only add findings, the deciding enumeration is the
// "main" target.
//
// A race report becomes a violation only if the same report (same pair of top
// frames) shows up in three consecutive worker runs.
package c07

import (
	"bufio"
	"encoding/json"
	"fmt"
	"os"
	"os/exec"
	"runtime"
	"sort"
	"strings"
	"sync"
	"sync/atomic"
	"testing"
	"time"

	"github.com/lightningnetwork/lnd/verifmc/evid"
)

type raceWorkerOut struct {
	Scenarios  int              `json:"scenarios"`
	Executions int64            `json:"executions"`
	Outcomes   int              `json:"outcomes"`
	Capped     bool             `json:"capped"`
	Violations []raceWorkerViol `json:"violations"`
}

type raceWorkerViol struct {
	Sig    string     `json:"sig"`
	What   string     `json:"what"`
	Replay concReplay `json:"replay"`
}

// collector stands in for evid.Run inside the worker process.
type collector struct {
	mu sync.Mutex
	v  []raceWorkerViol
}

func TestC07Race(t *testing.T) {
	if os.Getenv("C07_RACE_WORKER") != "" {
		raceWorker()
		return
	}
	run := evid.Start("C07", "model_checking")
	if rp := os.Getenv("VERIF_REPLAY"); rp != "" {
		fmt.Printf("INFO race target: nothing to replay for %s (replays are handled by the main target)\n", rp)
		os.Exit(run.Finish(map[string]any{"samples": []any{rp}, "states": 0, "transitions": 0, "traces_validated_against_impl": 0}))
	}
	self := os.Getenv("VERIF_SELF")
	if self == "" {
		self = os.Args[0]
	}
	budget := time.Duration(envInt("C07_RACE_BUDGET_S", 240)) * time.Second
	var (
		reports [][]string // per attempt: race signatures
		texts   = map[string]string{}
		out     raceWorkerOut
	)
	attempts := 0
	for attempt := 1; attempt <= 3; attempt++ {
		attempts++
		res := fmt.Sprintf("%s/race_worker_%d.json", os.TempDir(), attempt)
		cmd := exec.Command(self, "-test.run", "TestC07Race$", "-test.timeout", "1h")
		cmd.Env = append(os.Environ(), "C07_RACE_WORKER=1", "C07_RACE_OUT="+res,
			"GORACE=halt_on_error=0 exitcode=0", fmt.Sprintf("C07_RACE_BUDGET_S=%d", int(budget.Seconds())))
		b, err := cmd.CombinedOutput()
		sigs, txt := parseRaceReports(string(b))
		for k, v := range txt {
			if _, ok := texts[k]; !ok {
				texts[k] = v
			}
		}
		reports = append(reports, sigs)
		var o raceWorkerOut
		if jb, e := os.ReadFile(res); e == nil && json.Unmarshal(jb, &o) == nil {
			if attempt == 1 {
				out = o
			}
			for _, v := range o.Violations {
				run.Violation(v.Sig, v.What, v.Replay)
			}
		} else if err != nil {
			fmt.Printf("race worker failed: %v\n%s\n", err, tail(string(b), 60))
			os.Exit(2)
		}
		fmt.Printf("INFO race worker run %d: %d executions, %d distinct race report(s)\n", attempt, o.Executions, len(sigs))
		if len(sigs) == 0 {
			break
		}
		budget = budget / 2
	}
	confirmed := []string{}
	if len(reports) == 3 {
		count := map[string]int{}
		for _, r := range reports {
			for _, s := range r {
				count[s]++
			}
		}
		for s, n := range count {
			if n == 3 {
				confirmed = append(confirmed, s)
			}
		}
		sort.Strings(confirmed)
		for _, s := range confirmed {
			run.Violation("C07/race/"+s, "data race between "+s+" reproduced in 3 of 3 free-running runs of the concurrent scenarios; first report: "+strings.ReplaceAll(texts[s], "\n", " | "),
				map[string]any{"kind": "race", "frames": s})
		}
	}
	allSigs := map[string]bool{}
	for _, r := range reports {
		for _, s := range r {
			allSigs[s] = true
		}
	}
	cov := map[string]any{
		"states": 0, "transitions": 0, "traces_validated_against_impl": out.Executions,
		"evaluations": out.Executions, "distinct_nontrivial": out.Outcomes,
		"rule":    "race: free-running executions of the concurrent scenarios under the Go race detector (samples, judged by the same clauses); counted = distinct (scenario, results, final state) outcomes",
		"samples": []any{fmt.Sprintf("%d scenarios x free-running goroutines under -race", out.Scenarios)},
		"race": map[string]any{
			"scenarios": out.Scenarios, "executions": out.Executions, "worker_runs": attempts,
			"race_reports_seen": len(allSigs), "race_reports_confirmed_3x": len(confirmed), "budget_capped": out.Capped,
		},
	}
	os.Exit(run.Finish(cov))
}

func tail(s string, n int) string {
	l := strings.Split(s, "\n")
	if len(l) > n {
		l = l[len(l)-n:]
	}
	return strings.Join(l, "\n")
}

// parseRaceReports extracts one signature per "WARNING: DATA RACE" block: the
// sorted pair of the top frames of the two conflicting accesses.
func parseRaceReports(out string) ([]string, map[string]string) {
	texts := map[string]string{}
	sc := bufio.NewScanner(strings.NewReader(out))
	sc.Buffer(make([]byte, 1<<20), 1<<24)
	var block []string
	in := false
	flush := func() {
		var tops []string
		for i, l := range block {
			t := strings.TrimSpace(l)
			if strings.HasPrefix(t, "Write at") || strings.HasPrefix(t, "Read at") ||
				strings.HasPrefix(t, "Previous write at") || strings.HasPrefix(t, "Previous read at") {
				// frames follow as "  func(args)" / "      file:line" pairs; take the
				// first frame outside the runtime
				for j := i + 1; j < len(block); j++ {
					f := strings.TrimSpace(block[j])
					if f == "" {
						break
					}
					if strings.HasPrefix(f, "/") || strings.HasPrefix(f, "runtime.") {
						continue
					}
					if k := strings.LastIndex(f, "("); k > 0 {
						f = f[:k]
					}
					tops = append(tops, f)
					break
				}
			}
		}
		sort.Strings(tops)
		sig := strings.Join(tops, " <-> ")
		if sig == "" {
			sig = "unparsed"
		}
		if _, ok := texts[sig]; !ok {
			if len(block) > 40 {
				block = block[:40]
			}
			texts[sig] = strings.Join(block, "\n")
		}
	}
	for sc.Scan() {
		l := sc.Text()
		switch {
		case strings.Contains(l, "WARNING: DATA RACE"):
			in, block = true, []string{l}
		case in && strings.HasPrefix(l, "=================="):
			flush()
			in = false
		case in:
			block = append(block, l)
		}
	}
	var sigs []string
	for s := range texts {
		sigs = append(sigs, s)
	}
	sort.Strings(sigs)
	return sigs, texts
}

// raceWorker runs in the subprocess.
func raceWorker() {
	deadline := time.Now().Add(time.Duration(envInt("C07_RACE_BUDGET_S", 240)) * time.Second)
	iters := envInt("C07_RACE_ITERS", 12)
	specs := concSpecs(true)
	pool := newPool()
	col := &collector{}
	rep := newReporter(nil, "race")
	stats := &concStats{outcomes: &sync.Map{}}
	var execs atomic.Int64
	var idx atomic.Int64
	idx.Store(-1)
	capped := atomic.Bool{}
	var wg sync.WaitGroup
	workers := runtime.GOMAXPROCS(0) / 2
	if workers < 2 {
		workers = 2
	}
	for k := 0; k < workers; k++ {
		wg.Add(1)
		go func() {
			defer wg.Done()
			for {
				i := int(idx.Add(1))
				if i >= len(specs) {
					return
				}
				for it := 0; it < iters; it++ {
					if time.Now().After(deadline) {
						capped.Store(true)
						return
					}
					runFree(&specs[i], pool, rep, stats, col)
					execs.Add(1)
				}
			}
		}()
	}
	wg.Wait()
	pool.closeAll()
	o := raceWorkerOut{Scenarios: len(specs), Executions: execs.Load(), Capped: capped.Load(), Violations: col.v}
	stats.outcomes.Range(func(_, _ any) bool { o.Outcomes++; return true })
	b, _ := json.Marshal(o)
	_ = os.WriteFile(os.Getenv("C07_RACE_OUT"), b, 0o644)
}

// runFree executes one scenario with free-running goroutines and judges it.
func runFree(spec *concSpec, pool *dbPool, rep *reporter, stats *concStats, col *collector) {
	defer func() {
		if v := recover(); v != nil {
			col.mu.Lock()
			col.v = append(col.v, raceWorkerViol{Sig: "C07/race/panic/" + spec.name(), What: fmt.Sprintf("panic: %v", v),
				Replay: concReplay{Kind: "race", Spec: *spec}})
			col.mu.Unlock()
		}
	}()
	w, err := newConcWorld(spec, pool, rep, stats, nil)
	if err != nil {
		return
	}
	defer w.s.Close()
	w.free = true
	w.col = col
	start := make(chan struct{})
	var wg sync.WaitGroup
	panics := make([]any, len(w.ops))
	for t := range w.ops {
		t := t
		wg.Add(1)
		go func() {
			defer wg.Done()
			defer func() { panics[t] = recover() }()
			<-start
			w.body(t)
		}()
	}
	close(start)
	wg.Wait()
	for t, p := range panics {
		if p != nil {
			w.violate("panic", fmt.Sprintf("thread %d panicked: %v", t, p))
			return
		}
	}
	w.judge()
}
